module List = Stdlib.List
module String = Stdlib.String
module Option = Stdlib.Option
module Array = Stdlib.Array
module Bytes = Stdlib.Bytes
module Char = Stdlib.Char
module Buffer = Stdlib.Buffer
module Printf = Stdlib.Printf
(* C17 model driver.  Input lines:
     case ...                          echoed
     skip <kind> <what>                the abstract wire layer rejected the bytes: echoed as `w <kind> <what>`
     d <kind> o=<oracle> raw= <dump>   run the validation layer model on the raw struct `<dump>`
                                       (the text form written by crates/astria-core/src/verif.rs)
   The byte string type of the model is instantiated with OCaml strings, the hashes with real
   SHA-256, the chain id rule with tendermint's; the codec / crypto primitives (ed25519, prost
   decoding of the transaction body and of the extended commit info) answer what `<oracle>`
   says the real primitives answered on the same bytes. *)
open Util
open DecodeModel

let blen (s : string) = n_of_string (string_of_int (String.length s))
let beq (a : string) (b : string) = String.equal a b
let cat (a : string) (b : string) = a ^ b
let sha = Sha256.digest
let leafH = Sha256.leaf_hash
let nodeH = Sha256.node_hash
let emptyH = Sha256.empty_hash
let body_url = "/astria.protocol.transaction.v1.TransactionBody"

(* tendermint::chain::Id::try_from *)
let cid_ok (s : string) =
  let n = String.length s in
  n >= 1 && n <= 50 &&
  String.for_all (fun c -> (c >= 'a' && c <= 'z') || (c >= 'A' && c <= 'Z') || (c >= '0' && c <= '9')
                           || c = '-' || c = '_' || c = '.') s

let z_of_string (s : string) : BinNums.coq_Z =
  let neg = String.length s > 0 && s.[0] = '-' in
  let body = if neg then String.sub s 1 (String.length s - 1) else s in
  match n_of_string body with
  | BinNums.N0 -> BinNums.Z0
  | BinNums.Npos p -> if neg then BinNums.Zneg p else BinNums.Zpos p

let tag_name = function
  | TUnsetBody -> "UnsetBody" | TSignature -> "Signature" | TVerificationKey -> "VerificationKey"
  | TVerification -> "Verification" | TTransactionBody -> "TransactionBody" | TAction -> "Action"
  | TUnsetParams -> "UnsetParams" | TInvalidTypeUrl -> "InvalidTypeUrl" | TDecodeAny -> "DecodeAny"
  | TGroup -> "Group" | TInvalidProof -> "InvalidProof" | TZeroTreeSize -> "ZeroTreeSize"
  | TLeafIndexOutsideTree -> "LeafIndexOutsideTree"
  | TAuditPathNotMultipleOf32 -> "AuditPathNotMultipleOf32" | TInvalidChainId -> "InvalidChainId"
  | TInvalidHeight -> "InvalidHeight" | TTime -> "Time"
  | TIncorrectRollupTransactionsRootLength -> "IncorrectRollupTransactionsRootLength"
  | TProposerAddress -> "ProposerAddress" | TFieldNotSet -> "FieldNotSet" | Ttime -> "time"
  | Theader -> "header" | Trollup_id -> "rollup_id" | Tproof -> "proof"
  | Trollup_transactions_proof -> "rollup_transactions_proof"
  | Trollup_ids_proof -> "rollup_ids_proof" | TIncorrectRollupIdLength -> "IncorrectRollupIdLength"
  | TUpgradeChangeHashes -> "UpgradeChangeHashes" | TExtendedCommitInfo -> "ExtendedCommitInfo"
  | TProofNotSet -> "ProofNotSet" | TNotInSequencerBlock -> "NotInSequencerBlock"
  | TDecode -> "Decode" | TInvalidExtendedCommitInfo -> "InvalidExtendedCommitInfo"
  | TRollupId -> "RollupId" | TProofInvalid -> "ProofInvalid" | TInvalidBlockHash -> "InvalidBlockHash"
  | THeader -> "Header" | TInvalidHeader -> "InvalidHeader" | TInvalidRollupId -> "InvalidRollupId"
  | TParseRollupTransactions -> "ParseRollupTransactions"
  | TTransactionProofInvalid -> "TransactionProofInvalid" | TIdProofInvalid -> "IdProofInvalid"
  | TInvalidRollupTransactionsRoot -> "InvalidRollupTransactionsRoot"
  | TRollupTransactionsNotInSequencerBlock -> "RollupTransactionsNotInSequencerBlock"
  | TRollupTransactionForIdNotInSequencerBlock -> "RollupTransactionForIdNotInSequencerBlock"
  | TInvalidRollupIdsProof -> "InvalidRollupIdsProof" | TBlockHash -> "BlockHash"
  | TRollupIds -> "RollupIds" | TRollupTransactionsProof -> "RollupTransactionsProof"
  | TRollupIdsProof -> "RollupIdsProof"
  | TRollupTransactionsNotInCometBftBlock -> "RollupTransactionsNotInCometBftBlock"
  | TRollupIdsNotInCometBftBlock -> "RollupIdsNotInCometBftBlock" | TProof -> "Proof"
  | TSequencerBlockHash -> "SequencerBlockHash" | TIdx n -> string_of_n n | TWire -> "Wire"
  | TBrotli -> "Brotli"

let tag_of_name (s : string) : tag =
  match s with
  | "Action" -> TAction | "UnsetParams" -> TUnsetParams | "InvalidTypeUrl" -> TInvalidTypeUrl
  | "DecodeAny" -> TDecodeAny | "Group" -> TGroup
  | _ -> failwith ("unknown body class " ^ s)

let class_of (e : tag list) : string =
  match e with
  | TIdx n :: rest -> string_of_n n ^ "@" ^ String.concat "/" (List.map tag_name rest)
  | _ -> String.concat "/" (List.map tag_name e)

(* ------------------------------------------------------------------------------ dump parsing *)

let split_on (c : char) (s : string) = String.split_on_char c s
let unhex = Sha256.unhex

let parse_proof (s : string) : string coq_RawProof option =
  if s = "-" then None
  else match split_on ':' s with
    | [ p; i; n ] ->
        let b = unhex p in
        let k = String.length b / 32 in
        Some { rp_path = List.init k (fun j -> String.sub b (32 * j) 32);
               rp_extra = n_of_string (string_of_int (String.length b mod 32));
               rp_idx = n_of_string i; rp_size = n_of_string n }
    | _ -> failwith ("bad proof " ^ s)

(* comma terminated items *)
let parse_list (s : string) : string list =
  if s = "" then []
  else begin
    let parts = split_on ',' s in
    (match List.rev parts with
     | "" :: rest -> List.map unhex (List.rev rest)
     | _ -> failwith ("list not comma terminated: " ^ s))
  end

let parse_opt_bytes (s : string) : string option = if s = "-" then None else Some (unhex s)

let parse_hdr (s : string) : string coq_RawHeader option =
  if s = "-" then None
  else match split_on ':' s with
    | [ cid; h; tm; rtr; dh; pa ] ->
        let time = if tm = "-" then None else
            (match split_on '/' tm with
             | [ a; b ] -> Some (z_of_string a, z_of_string b)
             | _ -> failwith ("bad time " ^ tm)) in
        Some { rh_cid = unhex cid; rh_height = n_of_string h; rh_time = time;
               rh_rtr = unhex rtr; rh_dh = unhex dh; rh_pa = unhex pa }
    | _ -> failwith ("bad header " ^ s)

let parse_eci (s : string) : string coq_RawEci option =
  if s = "-" then None
  else match split_on ';' s with
    | [ b; p ] -> Some { re_bytes = unhex b; re_proof = parse_proof p }
    | _ -> failwith ("bad eci " ^ s)

let parse_rt (s : string) : string coq_RawRollupTxs =
  match split_on ';' s with
  | [ id; txs; p ] -> { rr_id = parse_opt_bytes id; rr_txs = parse_list txs; rr_proof = parse_proof p }
  | _ -> failwith ("bad rollup transactions " ^ s)

let all_kv (toks : string list) (k : string) : string list =
  let p = k ^ "=" in
  let pl = String.length p in
  List.filter_map (fun t -> if String.length t >= pl && String.sub t 0 pl = p
                    then Some (String.sub t pl (String.length t - pl)) else None) toks

let parse_sb toks : string coq_RawSeqBlock =
  { rs_bh = unhex (kv toks "bh"); rs_hdr = parse_hdr (kv toks "hdr");
    rs_rts = List.map parse_rt (all_kv toks "rt");
    rs_rtp = parse_proof (kv toks "rtp"); rs_rip = parse_proof (kv toks "rip");
    rs_uch = parse_list (kv toks "uch"); rs_eci = parse_eci (kv toks "eci") }

let parse_fb toks : string coq_RawFiltered =
  { rf_bh = unhex (kv toks "bh"); rf_hdr = parse_hdr (kv toks "hdr");
    rf_rts = List.map parse_rt (all_kv toks "rt");
    rf_rtp = parse_proof (kv toks "rtp"); rf_all = parse_list (kv toks "all");
    rf_rip = parse_proof (kv toks "rip");
    rf_uch = parse_list (kv toks "uch"); rf_eci = parse_eci (kv toks "eci") }

let parse_md toks : string coq_RawMeta =
  { rm_bh = unhex (kv toks "bh"); rm_hdr = parse_hdr (kv toks "hdr");
    rm_ids = parse_list (kv toks "ids");
    rm_rtp = parse_proof (kv toks "rtp"); rm_rip = parse_proof (kv toks "rip");
    rm_uch = parse_list (kv toks "uch"); rm_eci = parse_eci (kv toks "eci") }

let parse_rd toks : string coq_RawRollupData =
  { rd_bh = unhex (kv toks "bh"); rd_id = parse_opt_bytes (kv toks "rid");
    rd_txs = parse_list (kv toks "txs"); rd_proof = parse_proof (kv toks "p") }

let parse_tx toks : string coq_RawTx =
  let body = kv toks "body" in
  { rt_sig = unhex (kv toks "sig"); rt_pk = unhex (kv toks "pk");
    rt_body = if body = "-" then None else
        (match split_on ';' body with
         | [ u; v ] -> Some (unhex u, unhex v)
         | _ -> failwith ("bad body " ^ body)) }

(* entries separated by the token "|"; "-" alone = empty list *)
let split_entries (toks : string list) : string list list =
  if toks = [] || toks = [ "-" ] then []
  else begin
    let rec go cur acc = function
      | [] -> List.rev (List.rev cur :: acc)
      | "|" :: r -> go [] (List.rev cur :: acc) r
      | t :: r -> go (t :: cur) acc r in
    go [] [] toks
  end

(* ------------------------------------------------------------------------------ oracles *)

let eci_res_of = function
  | "ok" -> EciOk | "Decode" -> EciDecode | "InvalidExtendedCommitInfo" -> EciInvalid
  | s -> failwith ("bad eci oracle " ^ s)

(* o=eci:<r1>+<r2>.. one result per entry ("-" where the entry has no extended commit info) *)
let eci_table (oracle : string) (ecis : string coq_RawEci option list) : string -> eci_res =
  let vals = match split_on ':' oracle with
    | [ "eci"; v ] -> split_on '+' v
    | _ -> failwith ("bad oracle " ^ oracle) in
  let tbl = List.concat (List.map2 (fun o e -> match e with
      | None -> []
      | Some e -> [ (e.re_bytes, eci_res_of o) ])
      (if List.length vals = List.length ecis then vals else List.map (fun _ -> "-") ecis) ecis) in
  fun b -> (match List.assoc_opt b tbl with Some r -> r | None -> EciDecode)

let bstr b = if b then "true" else "false"

let show (kind : string) (r : string) oc = Printf.fprintf oc "w %s %s\n" kind r

let run ic oc =
  List.iter (fun line ->
    match split_ws line with
    | [] -> ()
    | "case" :: _ -> Printf.fprintf oc "%s\n" line
    | [ "skip"; kind; what ] -> show kind what oc
    | "d" :: kind :: o :: "raw=" :: d ->
        let oracle = String.sub o 2 (String.length o - 2) in
        (match kind with
         | "tx" ->
             let fields = List.map (fun f -> match split_on ':' f with
                 | [ a; b ] -> (a, b) | _ -> failwith ("bad tx oracle " ^ f)) (split_on ',' oracle) in
             let vk = List.assoc "vk" fields = "1" and sg = List.assoc "sig" fields = "1" in
             let body = List.assoc "body" fields in
             let body_parse _ = if body = "ok" then BodyOk
               else if body = "-" then BodyErr TDecodeAny else BodyErr (tag_of_name body) in
             (match tx_from_raw blen beq (fun _ -> vk) (fun _ _ _ -> sg) body_url body_parse (parse_tx d) with
              | RPanic -> show kind "panic" oc
              | RErr e -> show kind ("err=" ^ class_of e) oc
              | ROk v -> show kind (Printf.sprintf "ok checks=%s"
                                      (bstr (tx_checks blen (fun _ -> vk) (fun _ _ _ -> sg) body_parse v))) oc)
         | "sb" ->
             let r = parse_sb d in
             let ep = eci_table oracle [ r.rs_eci ] in
             (match seq_block_from_raw blen beq cat sha leafH nodeH emptyH cid_ok ep r with
              | RPanic -> show kind "panic" oc
              | RErr e -> show kind ("err=" ^ class_of e) oc
              | ROk v ->
                  show kind (Printf.sprintf "ok checks=%s rproofs=%s n=%d"
                    (bstr (seq_block_checks blen beq cat sha leafH nodeH emptyH cid_ok ep v))
                    (bstr (rollup_proofs_verify beq cat leafH nodeH emptyH v.s_hdr.h_rtr v.s_rts))
                    (List.length v.s_rts)) oc)
         | "fb" ->
             let r = parse_fb d in
             let ep = eci_table oracle [ r.rf_eci ] in
             (match filtered_from_raw blen beq cat sha leafH nodeH emptyH cid_ok ep r with
              | RPanic -> show kind "panic" oc
              | RErr e -> show kind ("err=" ^ class_of e) oc
              | ROk v ->
                  show kind (Printf.sprintf "ok checks=%s n=%d"
                    (bstr (filtered_checks blen beq cat sha leafH nodeH emptyH cid_ok ep v))
                    (List.length v.f_rts)) oc)
         | "md" ->
             let r = parse_md d in
             let ep = eci_table oracle [ r.rm_eci ] in
             (match meta_from_raw blen beq sha leafH nodeH emptyH cid_ok ep r with
              | RPanic -> show kind "panic" oc
              | RErr e -> show kind ("err=" ^ class_of e) oc
              | ROk v ->
                  show kind (Printf.sprintf "ok checks=%s"
                    (bstr (meta_checks blen beq sha leafH nodeH emptyH cid_ok ep v))) oc)
         | "rd" ->
             (match rollup_data_from_raw blen (parse_rd d) with
              | RPanic -> show kind "panic" oc
              | RErr e -> show kind ("err=" ^ class_of e) oc
              | ROk v -> show kind (Printf.sprintf "ok checks=%s" (bstr (rollup_data_checks blen v))) oc)
         | "mdl" ->
             let rs = List.map parse_md (split_entries d) in
             let ep = eci_table oracle (List.map (fun r -> r.rm_eci) rs) in
             (match meta_list_from_raw blen beq sha leafH nodeH emptyH cid_ok ep rs with
              | RPanic -> show kind "panic" oc
              | RErr e -> show kind ("err=" ^ class_of e) oc
              | ROk vs ->
                  show kind (Printf.sprintf "ok checks=%s n=%d"
                    (bstr (List.for_all (meta_checks blen beq sha leafH nodeH emptyH cid_ok ep) vs))
                    (List.length vs)) oc)
         | "rdl" ->
             let rs = List.map parse_rd (split_entries d) in
             (match rollup_data_list_from_raw blen rs with
              | RPanic -> show kind "panic" oc
              | RErr e -> show kind ("err=" ^ class_of e) oc
              | ROk vs ->
                  show kind (Printf.sprintf "ok checks=%s n=%d"
                    (bstr (List.for_all (rollup_data_checks blen) vs)) (List.length vs)) oc)
         | k -> failwith ("unknown kind " ^ k))
    | t :: _ -> failwith ("unknown op " ^ t)) (read_lines ic)
