module List = Stdlib.List
module String = Stdlib.String
module Option = Stdlib.Option
module Array = Stdlib.Array
module Bytes = Stdlib.Bytes
module Char = Stdlib.Char
module Buffer = Stdlib.Buffer
module Printf = Stdlib.Printf
(* C11 model driver.
   `case f...` : file-level scripts (same op script as the Rust harness
                 crates/astria-sequencer-relayer/src/relayer/submission/verif.rs), model = SubmissionModel.
   `case s...` : system-level event traces observed on the implementation
                 (relayer/write/verif.rs), replayed on CrashModel. *)
open Util
open SubmissionModel

let n = n_of_string
let sn = string_of_n

let string_of_fstate = function
  | Fresh -> "fresh"
  | Started (c, l) -> Printf.sprintf "started:%s:%s" (sn c) (sn l)
  | Prepared (h, c, l, tx) -> Printf.sprintf "prepared:%s:%s:%s:%s" (sn h) (sn c) (sn l) (sn tx)

let string_of_content = function
  | None -> "missing"
  | Some Garbage -> "garbage"
  | Some (Good f) -> string_of_fstate f

let string_of_mem = function
  | None -> "none"
  | Some HFresh -> "fresh"
  | Some (HStarted (c, l)) -> Printf.sprintf "started:%s:%s" (sn c) (sn l)
  | Some (HPrepared (h, c, l, tx)) -> Printf.sprintf "prepared:%s:%s:%s:%s" (sn h) (sn c) (sn l) (sn tx)

let crashpt = function
  | "none" -> NoCrash | "torn" -> CrashTorn | "before" -> CrashBeforeRename | "after" -> CrashAfter
  | k -> failwith ("crash point " ^ k)

let file_op (toks : string list) : fop =
  match toks with
  | [ "startup" ] -> Startup
  | [ "crash" ] -> Crash
  | [ "fresh_into_started" ] -> IntoStartedFresh
  | [ "prepare"; h; tx; k ] -> IntoPrepared (n h, n tx, crashpt k)
  | [ "confirm"; c; k ] -> Confirm (n c, crashpt k)
  | [ "revert"; k ] -> Revert (crashpt k)
  | "raw" :: kind :: args ->
      RawMain (match kind, args with
        | "fresh", _ -> Some (Good Fresh)
        | "started", [ c; l ] -> Some (Good (Started (n c, n l)))
        | "prepared", [ h; c; l; tx ] -> Some (Good (Prepared (n h, n c, n l, n tx)))
        | "missing", _ -> None
        | ("garbage" | "empty" | "badstate" | "nohash" | "bigheight"), _ -> Some Garbage
        | _ -> failwith ("raw kind " ^ kind))
  | t :: _ -> failwith ("unknown file op " ^ t)
  | [] -> failwith "empty op"

let writes_for_real (o : fop) : bool =
  match o with
  | Startup -> true
  | IntoPrepared (_, _, k) | Confirm (_, k) | Revert k -> (match k with NoCrash | CrashAfter -> true | _ -> false)
  | _ -> false

let run_file (lines : string list) oc =
  let st = ref { disk = { f_main = None; f_temp = None }; mem = None } in
  List.iter (fun line ->
    match split_ws line with
    | [] -> ()
    | (op :: _) as toks ->
        let o = file_op toks in
        let (s', r) = fstep !st o in
        st := s';
        let res = (match r with ROk -> "ok" | RErr -> "err" | RNotApplicable -> "na") in
        let renamed = if r = ROk && writes_for_real o then "true" else "-" in
        let last = (match s'.mem with
            | None -> "-"
            | Some m -> (match last_completed m with None -> "none" | Some l -> sn l)) in
        Printf.fprintf oc "%s res=%s mem=%s main=%s temp=%s renamed=%s last=%s\n" op res
          (string_of_mem s'.mem) (string_of_content s'.disk.f_main) (string_of_content s'.disk.f_temp)
          renamed last) lines

let run ic oc =
  let lines = read_lines ic in
  (* split into cases *)
  let flush_case hdr body =
    match hdr with
    | None -> ()
    | Some h ->
        Printf.fprintf oc "%s\n" h;
        (match split_ws h with
         | _ :: name :: _ when String.length name > 0 && name.[0] = 's' -> Drv_c11s.run_sys h (List.rev body) oc
         | _ -> run_file (List.rev body) oc) in
  let hdr = ref None and body = ref [] in
  List.iter (fun line ->
    match split_ws line with
    | "case" :: _ -> flush_case !hdr !body; hdr := Some line; body := []
    | _ -> body := line :: !body) lines;
  flush_case !hdr !body
