module List = Stdlib.List
module String = Stdlib.String
module Option = Stdlib.Option
module Array = Stdlib.Array
module Bytes = Stdlib.Bytes
module Char = Stdlib.Char
module Buffer = Stdlib.Buffer
module Printf = Stdlib.Printf
(* C10 model driver: same op script as the Rust harness
   (crates/astria-conductor/src/executor/verif.rs), same observation lines. *)
open Util
open ConductorModel

let i64_max = n_of_string "9223372036854775807"
let is_height (n : BinNums.coq_N) = BinNat.N.leb n i64_max   (* tendermint Height *)

let mode_of = function
  | "soft" -> SoftOnly | "firm" -> FirmOnly | "both" -> SoftAndFirm
  | m -> failwith ("unknown mode " ^ m)

let sh = function
  | HGen n -> "g" ^ string_of_n n
  | HExec (n, h, e) -> Printf.sprintf "n%sh%se%s" (string_of_n n) (string_of_n h) (string_of_n e)

let smeta (m : meta) = Printf.sprintf "%s:%s" (string_of_n m.m_num) (sh m.m_hash)
let son = function Some n -> string_of_n n | None -> "x"
let sins = function InsOk -> "ok" | InsOld -> "old" | InsOccupied -> "occupied"

let serr = function
  | EOutOfOrder -> "err:ooo" | EFirmHeight -> "err:firm_height" | EMap -> "err:map"
  | EContractWrong -> "err:contract" | EContractMax -> "err:contract_max"
  | EFirmGtSoft -> "err:firm_gt_soft" | EInvalidState -> "err:invalid_state" | ERpc -> "err:rpc"
  | EPanic -> "panic"

let state_line (s : sys) : string =
  let x = s.s_x.xe in
  let pend = List.sort compare
      (List.map (fun (k, _) -> (String.length (string_of_n k), string_of_n k)) x.x_pend) in
  Printf.sprintf "st firm=%s soft=%s base=%s nf=%s ns=%s pend=%s qs=%d qf=%d"
    (smeta x.x_firm) (smeta x.x_soft) (string_of_n x.x_base) (son (nextf x)) (son (nexts x))
    (String.concat ";" (List.map snd pend)) (List.length s.s_sq) (List.length s.s_fq)

let event_lines (evs : event list) : string list * string list * string list =
  (* evs oldest first; returns (tookf, tooks, rpc lines) *)
  let tf = ref [] and ts = ref [] and rpc = ref [] in
  List.iter (function
    | EvTookSoft h -> ts := string_of_n h :: !ts
    | EvTookFirm (h, _) -> tf := string_of_n h :: !tf
    | EvExec (p, h, Some m) ->
        rpc := Printf.sprintf "rpc exec parent=%s h=%s num=%s hash=%s txs=1" (sh p) (string_of_n h)
                 (string_of_n m.m_num) (sh m.m_hash) :: !rpc
    | EvExec (p, h, None) ->
        rpc := Printf.sprintf "rpc exec parent=%s h=%s fail" (sh p) (string_of_n h) :: !rpc
    | EvGet (n, Some hsh) -> rpc := Printf.sprintf "rpc get n=%s hash=%s" (string_of_n n) (sh hsh) :: !rpc
    | EvGet (n, None) -> rpc := Printf.sprintf "rpc get n=%s fail" (string_of_n n) :: !rpc
    | EvUpdate (f, so, b) ->
        rpc := Printf.sprintf "rpc update firm=%s soft=%s base=%s" (smeta f) (smeta so) (string_of_n b) :: !rpc)
    evs;
  (List.rev !tf, List.rev !ts, List.rev !rpc)

let rec firstn k l = if k <= 0 then [] else match l with [] -> [] | x :: r -> x :: firstn (k - 1) r

type case =
  | CNone
  | CFn
  | CCache of unit cache option
  | CSys of sys option

let run ic oc =
  let case = ref CNone in
  let pr fmt = Printf.fprintf oc fmt in
  List.iter (fun line ->
    let toks = split_ws line in
    let line = String.concat " " toks in
    match toks with
    | [] -> ()
    | "case" :: "cache" :: next :: _ ->
        pr "%s\n" line;
        let next = n_of_string next in
        let c = if is_height next then c_new next else None in
        pr "new -> %s\n" (if c = None then "err" else "ok");
        case := CCache c
    | "case" :: "fn" :: _ -> pr "%s\n" line; case := CFn
    | [ "case"; "sys"; md; sstart; rstart; look; firm; soft; base ] ->
        pr "%s\n" line;
        (match session_exec (mode_of md) (n_of_string sstart) (n_of_string rstart) (n_of_string look)
                 (n_of_string firm) (n_of_string soft) (n_of_string base) with
         | Coq_inr IESession -> pr "init err:session\n"; case := CSys None
         | Coq_inr IEInvalidState -> pr "init err:invalid_state\n"; case := CSys None
         | Coq_inr IEChannels -> pr "init err:channels\n"; case := CSys None
         | Coq_inl x ->
             let s = sys_of x in
             let show = function None -> "none" | Some c -> string_of_n c.c_next in
             pr "init ok sc=%s fc=%s caps=%s capf=%s\n" (show s.s_sc) (show s.s_fc)
               (string_of_n s.s_scap) (string_of_n s.s_fcap);
             pr "%s\n" (state_line s);
             case := CSys (Some s))
    | cmd :: args ->
        (match !case with
         | CNone -> failwith "op before case"
         | CCache None | CSys None -> pr "%s -> dead\n" line
         | CFn ->
             (match cmd, args with
              | "sef", [ f; s; m ] ->
                  pr "%s -> %b\n" line (should_execute_firm (n_of_string f) (n_of_string s) (mode_of m))
              | "s2r", [ ss; rs; h ] ->
                  let h = n_of_string h in
                  if not (is_height h) then pr "%s -> badheight\n" line
                  else (match s2r (n_of_string ss) (n_of_string rs) h with
                      | Some n -> pr "%s -> %s\n" line (string_of_n n)
                      | None -> pr "%s -> err\n" line)
              | "sess", [ md; ss; rs; f; s ] ->
                  let one = n_of_string "1" in
                  (match session_exec (mode_of md) (n_of_string ss) (n_of_string rs) one (n_of_string f)
                           (n_of_string s) one with
                   | Coq_inr IESession -> pr "%s -> err:session\n" line
                   | Coq_inr IEInvalidState -> pr "%s -> err:invalid_state\n" line
                   | Coq_inr IEChannels -> pr "%s -> err:channels\n" line
                   | Coq_inl x -> pr "%s -> ok nf=%s ns=%s\n" line (son (nextf x)) (son (nexts x)))
              | _ -> failwith ("unknown fn op " ^ line))
         | CCache (Some c) ->
             (match cmd, args with
              | "ins", [ h ] ->
                  let h = n_of_string h in
                  if not (is_height h) then pr "%s -> badheight\n" line
                  else let (c', r) = c_insert c h () in
                    case := CCache (Some c'); pr "%s -> %s\n" line (sins r)
              | "pop", [] ->
                  let (c', r) = c_pop c in
                  case := CCache (Some c');
                  (match r with
                   | PopNone -> pr "%s -> none\n" line
                   | PopPanic -> pr "%s -> panic\n" line
                   | PopSome () -> pr "%s -> %s\n" line (string_of_n c.c_next))
              | "drop", [ h ] ->
                  let h = n_of_string h in
                  if not (is_height h) then pr "%s -> badheight\n" line
                  else (case := CCache (Some (c_drop c h)); pr "%s -> ok\n" line)
              | "next", [] -> pr "%s -> %s\n" line (string_of_n c.c_next)
              | _ -> failwith ("unknown cache op " ^ line))
         | CSys (Some s) ->
             let bad_height = match cmd, args with
               | ("sf" | "ds"), [ h ] | ("ff" | "df"), [ h; _ ] -> not (is_height (n_of_string h))
               | _ -> false in
             let no_reader = match cmd with
               | "sf" -> s.s_sc = None | "ff" -> s.s_fc = None | _ -> false in
             if no_reader then pr "%s -> noreader\n" line
             else if bad_height then pr "%s -> badheight\n" line
             else begin
               let o = match cmd, args with
                 | "sf", [ h ] -> OSf (n_of_string h) | "so", [] -> OSo | "sp", [] -> OSp
                 | "sq", [] -> OSq | "ff", [ h; c ] -> OFf (n_of_string h, n_of_string c)
                 | "fp", [] -> OFp | "fq", [] -> OFq | "ds", [ h ] -> ODs (n_of_string h)
                 | "df", [ h; c ] -> ODf (n_of_string h, n_of_string c)
                 | "bad", [ d ] -> OBad (n_of_string d) | "run", [] -> ORun
                 | _ -> failwith ("unknown sys op " ^ line) in
               let (s', r) = sys_step s o in
               case := CSys (Some s');
               (match r with
                | RIns r -> pr "%s -> %s\n" line (sins r)
                | RNoReader -> pr "%s -> noreader\n" line
                | RObs (v, n) -> pr "%s -> v=%s next=%s\n" line (string_of_n v) (string_of_n n)
                | RPanic -> pr "%s -> panic\n" line
                | RBlocked -> pr "%s -> blocked\n" line
                | RNone -> pr "%s -> none\n" line
                | RSent h ->
                    pr "%s -> h=%s sent\n" line (string_of_n h)
                | REnq h -> pr "%s -> h=%s enq\n" line (string_of_n h)
                | RFull h -> pr "%s -> h=%s full\n" line (string_of_n h)
                | RDirect b -> pr "%s -> %s\n" line (if b then "sent" else "full")
                | RSet -> pr "%s -> set\n" line
                | RRun ->
                    let fresh = List.length s'.s_x.xt - List.length s.s_x.xt in
                    let evs = List.rev (firstn fresh s'.s_x.xt) in
                    let (tf, ts, rpc) = event_lines evs in
                    let res = match s'.s_x.xd with None -> "ok" | Some e -> serr e in
                    pr "run -> %s tookf=%s tooks=%s\n" res (String.concat ";" tf) (String.concat ";" ts);
                    List.iter (fun l -> pr "%s\n" l) rpc;
                    if s'.s_x.xd = None then pr "%s\n" (state_line s') else case := CSys None)
             end))
    (read_lines ic)
