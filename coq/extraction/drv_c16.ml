module List = Stdlib.List
module String = Stdlib.String
module Option = Stdlib.Option
module Array = Stdlib.Array
module Bytes = Stdlib.Bytes
module Char = Stdlib.Char
module Buffer = Stdlib.Buffer
module Printf = Stdlib.Printf
(* C16 model driver.  Input: the implementation's observation lines (which carry the op and,
   for pushes, the real encoded size).  Output: the model's observation lines in the same
   format (minus implementation-only fields). *)
open Util
open BundleModel

let string_of_bundle (b : bundle) : string =
  Printf.sprintf "bundle size=%s count=%d ids=%s" (string_of_n b.b_size)
    (List.length b.b_items)
    (String.concat "," (List.map (fun it -> string_of_n it.it_id) b.b_items))

let run ic oc =
  let st = ref None in
  List.iter (fun line ->
    match split_ws line with
    | [] -> ()
    | "case" :: mx :: cap :: _ ->
        st := Some (init (n_of_string mx) (n_of_string cap));
        Printf.fprintf oc "case %s %s\n" mx cap
    | "push" :: id :: rest ->
        let size = kv rest "size" in
        let s = Option.get !st in
        let (s', o) = step s (Push (n_of_string id, n_of_string size)) in
        st := Some s';
        let res = (match o with OOk -> "ok" | OTooLarge -> "toolarge" | OQueueFull -> "full"
                            | _ -> "bad") in
        let isfull = BinNat.N.leb s'.capq (lenN s'.fin) in
        Printf.fprintf oc "push %s size=%s res=%s isfull=%b\n" id size res isfull
    | ("popf" | "popn" as cmd) :: _ ->
        let s = Option.get !st in
        let (s', o) = step s (if cmd = "popf" then PopFinished else PopNow) in
        st := Some s';
        (match o with
         | ONone -> Printf.fprintf oc "%s none\n" cmd
         | OBundle b -> Printf.fprintf oc "%s %s\n" cmd (string_of_bundle b)
         | _ -> Printf.fprintf oc "%s bad\n" cmd)
    | t :: _ -> failwith ("unknown op " ^ t)) (read_lines ic)
