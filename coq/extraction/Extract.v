(** Extraction of the executable models.  ExtrOcamlBasic only: bool, option, unit, list, prod,
    sumbool are mapped to OCaml's; N / positive / nat stay Coq datatypes.  No Extract Constant. *)
From Coq Require Import Extraction ExtrOcamlBasic NArith DecimalN.
From Astria Require Import Bundle.BundleModel Merkle.MerkleModel Quorum.QuorumModel Quorum.PipelineModel Oracle.OracleModel Decode.DecodeModel Relayer.BatchModel Relayer.SubmissionModel Relayer.CrashModel Conductor.ConductorModel Mempool.MempoolModel Ledger.LedgerModel Validators.ValidatorsModel Abci.AbciModel Ics20.Ics20Model Proposal.ProposalModel Proposal.ProposalLedger BlockData.BlockDataModel.
Separate Extraction N.of_uint N.to_uint BundleModel.run BundleModel.init
  MerkleModel QuorumModel PipelineModel OracleModel
  Z.of_N Z.opp Z.abs_N N.succ
  N.sub N.ltb DecodeModel ConductorModel
  BatchModel SubmissionModel CrashModel MempoolModel
  LedgerModel ValidatorsModel AbciModel Ics20Model
  N.leb ProposalModel ProposalLedger BlockDataModel
  N.of_nat.
