module List = Stdlib.List
module String = Stdlib.String
module Option = Stdlib.Option
module Array = Stdlib.Array
module Printf = Stdlib.Printf
module Hashtbl = Stdlib.Hashtbl
(* C09 model driver.  Input (built by harness/c09.py from the harness script):
   commit ch=<n> sh=<n> vals=<p,p,..> sigs=<tok,tok,..>     tok = a | n | <addr>:v | <addr>:i | <addr>:m
   cfq h=<n> chain=<n> hash=<n> vals=.. sigs=..             defines commit_for(h) iff the commit has quorum
   reset                                                    forgets commit_for
   pipe nf=<n> metas=<e,e|e,..> rollups=<e,e|..>            meta e = h:chain:hash:wf:hasrollup ; rollup e = hash:uid:wf:audit:txs:own *)
open Util
open QuorumModel
open PipelineModel

let n = n_of_string
let split c s = if s = "-" || s = "" then [] else String.split_on_char c s

let vals_of s = List.mapi (fun i p -> { v_addr = n (string_of_int i); v_power = n p }) (split ',' s)
let sig_of tok =
  match String.split_on_char ':' tok with
  | [ "a" ] -> CsAbsent
  | [ "n" ] -> CsNil
  | [ a; "v" ] -> CsCommit (n a, SigValid)
  | [ a; "i" ] -> CsCommit (n a, SigInvalid)
  | [ a; "m" ] -> CsCommit (n a, SigMissing)
  | _ -> failwith ("bad sig token " ^ tok)
let sigs_of s = List.map sig_of (split ',' s)

let err_name = function
  | ECommitHeightMismatch -> "CommitHeightMismatch"
  | ETotalVotingPowerOverflowed -> "TotalVotingPowerOverflowed"
  | EEmptySignature -> "EmptySignature"
  | ENoSuchValidator -> "NoSuchValidator"
  | EDuplicateVote -> "DuplicateVote"
  | EVerifyVoteSignature -> "VerifyVoteSignature"
  | ECommitVotingPowerExceedsTotal -> "CommitVotingPowerExceedsTotal"
  | ENoQuorum -> "NoQuorum"

let b s = s = "1"

let run ic oc =
  let cf : (string, commit_info) Hashtbl.t = Hashtbl.create 16 in
  List.iter (fun line ->
    match split_ws line with
    | [] -> ()
    | "case" :: _ -> Hashtbl.reset cf; Printf.fprintf oc "%s\n" line
    | "reset" :: _ -> Hashtbl.reset cf
    | "commit" :: rest ->
        (match ensure_commit_has_quorum (n (kv rest "ch")) (n (kv rest "sh")) (vals_of (kv rest "vals")) (sigs_of (kv rest "sigs")) with
         | None -> Printf.fprintf oc "commit ok\n"
         | Some e -> Printf.fprintf oc "commit err=%s\n" (err_name e))
    | "cfq" :: rest ->
        let h = kv rest "h" in
        (match ensure_commit_has_quorum (n h) (n h) (vals_of (kv rest "vals")) (sigs_of (kv rest "sigs")) with
         | None -> Hashtbl.replace cf h { ci_chain = n (kv rest "chain"); ci_hash = n (kv rest "hash") }
         | Some _ -> Hashtbl.remove cf h)
    | "pipe" :: rest ->
        let commit_for h = Hashtbl.find_opt cf (string_of_n h) in
        let metas = List.map (fun blob -> List.map (fun e ->
            match String.split_on_char ':' e with
            | [ h; c; x; wf; hr ] -> { pm_meta = { md_height = n h; md_chain = n c; md_hash = n x }; pm_wf = b wf; pm_has_rollup = b hr }
            | _ -> failwith ("bad meta entry " ^ e)) (split ',' blob)) (split '|' (kv rest "metas")) in
        let rollups = List.map (fun blob -> List.map (fun e ->
            match String.split_on_char ':' e with
            | [ x; uid; wf; au; txs; own ] -> { pr_blob = { rb_hash = n x; rb_id = n uid }; pr_wf = b wf; pr_audit = b au; pr_txs = n txs; pr_own = b own }
            | _ -> failwith ("bad rollup entry " ^ e)) (split ',' blob)) (split '|' (kv rest "rollups")) in
        let (((nm, nr), nv), outs) = pipeline commit_for (n (kv rest "nf")) metas rollups in
        Printf.fprintf oc "decoded headers=%s rollups=%s\n" (string_of_n nm) (string_of_n nr);
        Printf.fprintf oc "verified headers=%s rollups=%s\n" (string_of_n nv) (string_of_n nr);
        List.iter (fun o ->
          Printf.fprintf oc "rb h=%s hash=%s chain=%s txs=%s\n" (string_of_n o.ob_meta.md_height)
            (string_of_n o.ob_meta.md_hash) (string_of_n o.ob_meta.md_chain)
            (match o.ob_txs with Some t -> string_of_n t | None -> "-")) outs;
        Printf.fprintf oc "pipeline done\n"
    | t :: _ -> failwith ("unknown op " ^ t)) (read_lines ic)
