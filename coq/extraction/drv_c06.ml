module List = Stdlib.List
module String = Stdlib.String
module Option = Stdlib.Option
module Array = Stdlib.Array
module Bytes = Stdlib.Bytes
module Char = Stdlib.Char
module Buffer = Stdlib.Buffer
module Printf = Stdlib.Printf
module Hashtbl = Stdlib.Hashtbl
(* C06 model driver.  Input: the op script, where python has added to every `tx` line the encoded
   length observed on the implementation (`len=`), to every `ins` line the implementation's
   result word, and before every `prepare` the implementation's `queue` line (the mempool's
   builder queue is C13's subject and is an input here).  Output: the model's observation lines
   in the canonical format of harness/c06.py. *)
open Util
open ProposalModel
open ProposalLedger

let n_of_int (i : int) : BinNums.coq_N = n_of_string (string_of_int i)
let ios (n : BinNums.coq_N) : int = int_of_string (string_of_n n)
let z_of_string (s : string) : BinNums.coq_Z =
  if String.length s > 0 && s.[0] = '-'
  then BinInt.Z.opp (BinInt.Z.of_N (n_of_string (String.sub s 1 (String.length s - 1))))
  else BinInt.Z.of_N (n_of_string s)

let kv_opt toks k = try Some (kv toks k) with Failure _ -> None

let acct (s : string) : BinNums.coq_N =
  if String.length s >= 2 && s.[0] = 'a' then n_of_string (String.sub s 1 (String.length s - 1))
  else failwith ("bad account " ^ s)

let join = function [] -> "-" | l -> String.concat "," l

(* configuration: encoded lengths of the injected items which the model cannot derive.
   eci = the extended commit info item for a local last commit without votes, eci_votes = the one
   carrying the signed votes of the default validator set (`prepare ... votes=1`), eci_empty = the
   item holding the empty extended commit info that prepare_proposal falls back to *)
let uch_aspen = ref (n_of_int 0)
let uch_blackburn = ref (n_of_int 0)
let eci_len = ref (n_of_int 0)
let eci_votes = ref (n_of_int 0)
let eci_empty = ref (n_of_int 0)

type chain = {
  mutable st : lstate;
  mutable height : int;
  aspen : int;
  blackburn : int;
}

type honest = {
  h_height : int;
  h_env : env;
  h_items : (body, commitment) entry list;
  h_txs : (body, commitment) entry list;
  h_state : lstate;           (* post-execution state of the proposer *)
  h_included : ltx list;
  mutable h_accepted : bool option;
}

let env_at (c : chain) (h : int) (votes : bool) : env =
  let typed = c.aspen <> 0 && h >= c.aspen in
  let upgrade =
    if c.aspen <> 0 && h = c.aspen then Some (!uch_aspen, n_of_int h)
    else if c.blackburn <> 0 && h = c.blackburn then Some (!uch_blackburn, n_of_int h)
    else None in
  let eci = if c.aspen <> 0 && h >= c.aspen + 2
            then Some ((if votes then !eci_votes else !eci_len), !eci_empty) else None in
  { e_typed = typed; e_upgrade = upgrade; e_eci = eci }

let parse_action (toks : string list) : action =
  match toks with
  | "transfer" :: r -> ATransfer (acct (kv r "to"), n_of_string (kv r "amt"))
  | "rollup" :: r ->
      let id = kv r "id" in
      ARollup (n_of_string (String.sub id 1 (String.length id - 1)), n_of_string (kv r "len"))
  | "sudochange" :: r -> ASudoChange (acct (kv r "to"))
  | "ibcsudo" :: r -> AIbcSudoChange (acct (kv r "to"))
  | "feechange" :: r ->
      let kind = match kv r "kind" with "transfer" -> 0 | "rollup" -> 1 | "initbridge" -> 2 | _ -> 9 in
      AFeeChange (n_of_int kind, n_of_string (kv r "base"), n_of_string (kv r "mult"))
  | "initbridge" :: _ -> AInitBridge
  | t :: _ -> failwith ("unmodelled action " ^ t)
  | [] -> failwith "empty action"

let rec split_actions (toks : string list) : string list list =
  let rec go cur acc = function
    | [] -> List.rev (if cur = [] then acc else List.rev cur :: acc)
    | ";" :: r -> go [] (if cur = [] then acc else List.rev cur :: acc) r
    | t :: r -> go (t :: cur) acc r in
  go [] [] toks

let group_name (g : BinNums.coq_N) : string =
  match ios g with
  | 1 -> "UnbundleableSudo" | 2 -> "BundleableSudo" | 3 -> "UnbundleableGeneral"
  | 4 -> "BundleableGeneral" | _ -> "?"

let reason_name = function
  | RParse -> "parse" | REci -> "eci" | RUpgrade -> "upgrade" | RConstruct -> "construct"
  | RSeqLimit -> "seqlimit" | RGroup -> "group" | RExec -> "exec" | RGrow -> "other"
  | RCommit -> "commit" | RCommitIds -> "commitids"

let run ic oc =
  let chain : chain option ref = ref None in
  let honest : honest option ref = ref None in
  let txs : (string, ltx) Hashtbl.t = Hashtbl.create 64 in
  let names : (int, string) Hashtbl.t = Hashtbl.create 64 in
  let bodies : (body, int) Hashtbl.t = Hashtbl.create 64 in
  let next_id = ref 1 in
  let queue : string list ref = ref [] in
  let pr fmt = Printf.fprintf oc fmt in
  let label_tx (t : ltx) = try Hashtbl.find names (ios t.tx_id) with Not_found -> "?" in
  let label_entry (x : (body, commitment) entry) =
    match x with
    | ETx r when r.r_decodable && r.r_signed -> label_tx r.r_tx
    | _ -> "?" in
  let get_chain () = match !chain with Some c -> c | None -> failwith "no chain" in
  let noncons (st : lstate) (l : (body, commitment) entry list) : string =
    join (List.filter_map (fun x ->
      match construct_one lconstruct st x with
      | Some _ -> None
      | None -> Some (label_entry x)) l) in
  let judge (h : honest) (c : chain) items txl : string * string =
    let v = match lprocess h.h_env c.st (items @ txl) with
      | Accept -> "accept"
      | Reject r -> "reject=" ^ reason_name r in
    (v, noncons c.st txl) in
  List.iter (fun line ->
    match split_ws line with
    | [] -> ()
    | "config" :: r ->
        uch_aspen := n_of_string (kv r "uch_aspen");
        uch_blackburn := n_of_string (kv r "uch_blackburn");
        eci_len := n_of_string (kv r "eci");
        eci_votes := n_of_string (kv r "eci_votes");
        eci_empty := n_of_string (kv r "eci_empty")
    | "case" :: _ ->
        chain := None; honest := None; queue := [];
        pr "%s\n" (String.trim line)
    | "genesis" :: r ->
        let accounts = match kv_opt r "acct" with
          | Some v -> List.map (fun p -> match String.split_on_char ':' p with
                                 | [a; n] -> (acct a, n_of_string n)
                                 | _ -> failwith "bad acct") (String.split_on_char ',' v)
          | None -> List.init 6 (fun i -> (n_of_int i, n_of_string "10000000000000000000")) in
        let sudo = acct (Option.value (kv_opt r "sudo") ~default:"a0") in
        let ibcsudo = acct (Option.value (kv_opt r "ibcsudo") ~default:"a1") in
        let geti k d = match kv_opt r k with Some v -> int_of_string v | None -> d in
        chain := Some { st = genesis accounts sudo ibcsudo; height = 0;
                        aspen = geti "aspen" 1; blackburn = geti "blackburn" 3 };
        honest := None;
        pr "genesis ok\n"
    | "advance" :: r ->
        let c = get_chain () in
        let n = match r with x :: _ -> int_of_string x | [] -> 1 in
        c.height <- c.height + n; honest := None;
        pr "advance height=%d\n" c.height
    | "mint" :: a :: asset :: amount :: _ ->
        let c = get_chain () in
        if asset <> "s0" then failwith "only s0 is modelled";
        c.st <- with_bal c.st (aset c.st.ls_bal (acct a) (n_of_string amount));
        honest := None;
        pr "mint ok\n"
    | "tx" :: id :: r ->
        let len = n_of_string (kv r "txlen") in
        (match List.filter (fun t -> not (String.length t > 6 && String.sub t 0 6 = "txlen=")) r with
         | signer :: nonce :: acts ->
             let actions = List.map parse_action (split_actions acts) in
             let b = { b_signer = acct signer; b_nonce = n_of_string nonce; b_actions = actions } in
             (* the harness names a transaction by the hash of its bytes: identical content = same
                transaction, and the most recent script id is the one it prints *)
             let nid = (match Hashtbl.find_opt bodies b with
                        | Some k -> k
                        | None -> let k = !next_id in incr next_id; Hashtbl.replace bodies b k; k) in
             (match mk_ltx (n_of_int nid) len b with
              | Some t ->
                  Hashtbl.replace txs id t; Hashtbl.replace names nid id;
                  pr "tx %s len=%s group=%s\n" id (string_of_n len) (group_name t.tx_group)
              | None -> pr "tx %s builderr\n" id)
         | _ -> failwith "bad tx line")
    | "block" :: ids ->
        let c = get_chain () in
        honest := None;
        let results = List.map (fun id ->
          match Hashtbl.find_opt txs id with
          | None -> (id, `Unknown)
          | Some t -> if lconstruct c.st t then (id, `Tx t) else (id, `ConstructErr)) ids in
        let st = ref c.st in
        List.iter (fun (id, r) ->
          match r with
          | `Unknown -> pr "txres %s unknown\n" id
          | `ConstructErr -> pr "txres %s constructerr\n" id
          | `Tx t ->
              (match lexec !st t with
               | ExOk s' -> st := s'; pr "txres %s code=0\n" id
               | _ -> pr "txres %s dropped\n" id)) results;
        c.st <- end_block !st;
        c.height <- c.height + 1;
        pr "block height=%d\n" c.height
    | "ins" :: id :: res :: _ ->
        let c = get_chain () in
        (match Hashtbl.find_opt txs id with
         | None -> pr "ins %s unknown\n" id
         | Some t ->
             if res = "skip" then pr "ins %s skip\n" id
             else if lconstruct c.st t then pr "ins %s ok\n" id
             else pr "ins %s failedchecks\n" id)
    | "queue" :: r ->
        queue := (match r with ["-"] | [] -> [] | [l] -> String.split_on_char ',' l | _ -> failwith "bad queue");
        pr "queue %s\n" (join !queue)
    | "prepare" :: r ->
        let c = get_chain () in
        honest := None;
        let mx = kv r "max" in
        let (votes, votes_word) = match kv_opt r "votes" with
          | None -> (false, "")
          | Some "0" -> (false, " votes=0")
          | Some "1" -> (true, " votes=1")
          | Some v -> failwith ("bad votes " ^ v) in
        let h = c.height + 1 in
        let e = env_at c h votes in
        let q = List.map (fun id -> Hashtbl.find txs id) !queue in
        (match lprepare e c.st q (z_of_string mx) with
         | Datatypes.Coq_inr err ->
             pr "prepare err=%s height=%d max=%s%s\n"
               (match err with PSize -> "size" | PItemSize -> "itemsize" | PGrow -> "exec") h mx votes_word
         | Datatypes.Coq_inl p ->
             let incl = p.p_included in
             let nitems = List.length p.p_entries - List.length incl in
             let rec split k l = if k = 0 then ([], l) else
               (match l with x :: r -> let (a, b) = split (k - 1) r in (x :: a, b) | [] -> ([], [])) in
             let (items, txl) = split nitems p.p_entries in
             let itembytes = List.fold_left (fun a x -> a + ios (entry_len e.e_typed x)) 0 items in
             let bytes = ios (proposal_len e.e_typed p.p_entries) in
             (* executing the included transactions in order, the way finalize_block does *)
             let dry =
               let st = ref c.st in
               List.map (fun t -> match lexec !st t with
                                  | ExOk s' -> st := s'; "ok" | ExNonFatal -> "ok" | _ -> "err") incl in
             (* remove_tx_invalid removes the transaction and all its signer's higher nonces *)
             let removed = List.filter (fun id ->
               let t = Hashtbl.find txs id in
               List.exists (fun (f : ltx) ->
                 f.tx_body.b_signer = t.tx_body.b_signer
                 && ios f.tx_body.b_nonce <= ios t.tx_body.b_nonce) p.p_removed) !queue in
             let itemlens = List.map (fun x -> string_of_n (entry_len e.e_typed x)) items in
             pr "prepare ok height=%d max=%s%s ids=%s bytes=%d nitems=%d itembytes=%d itemlens=%s codes=%s dry=%s removed=%s\n"
               h mx votes_word (join (List.map label_tx incl)) bytes nitems itembytes (join itemlens)
               (join (List.map (fun _ -> "0") incl)) (join dry) (join removed);
             honest := Some { h_height = h; h_env = e; h_items = items; h_txs = txl;
                              h_state = p.p_state; h_included = incl; h_accepted = None })
    | "process" :: _ ->
        (match !honest with
         | None -> pr "process none\n"
         | Some h ->
             let c = get_chain () in
             let (v, nc) = judge h c h.h_items h.h_txs in
             h.h_accepted <- Some (v = "accept");
             pr "process %s noncons=%s\n" v nc)
    | "mut" :: kind :: r ->
        (match !honest with
         | None -> pr "mut %s none\n" kind
         | Some h ->
             let c = get_chain () in
             let items = Array.of_list h.h_items and txa = Array.of_list h.h_txs in
             let k = Array.length items and n = Array.length txa in
             let num i = int_of_string (List.nth r i) in
             let typed = h.h_env.e_typed in
             let marker : commitment = [ (n_of_string "18446744073709551616", []) ] in
             let remove a i = Array.to_list (Array.append (Array.sub a 0 i) (Array.sub a (i + 1) (Array.length a - i - 1))) in
             let swap a i j = let b = Array.copy a in b.(i) <- a.(j); b.(j) <- a.(i); Array.to_list b in
             let set a i v = let b = Array.copy a in b.(i) <- v; Array.to_list b in
             let corrupt x ~dec ~sg ~len = match x with
               | ETx rw -> ETx { r_decodable = dec; r_signed = sg;
                                 r_tx = (match len with Some l -> { rw.r_tx with tx_len = l } | None -> rw.r_tx) }
               | other -> other in
             let finish resolved items' txs' recommit =
               let items' =
                 if recommit then begin
                   let checked = List.filter_map (construct_one lconstruct c.st) txs' in
                   let st = ref c.st in
                   List.iter (fun t -> match lexec !st t with ExOk s' -> st := s' | _ -> ()) checked;
                   match items' with
                   | _ :: _ :: rest ->
                       EItem (IDatasRoot (lcommit_datas checked !st))
                       :: EItem (IIdsRoot (lcommit_ids checked !st)) :: rest
                   | other -> other
                 end else items' in
               (* byte equality: untyped roots carry no variant tag *)
               let norm l = if typed then l else
                 List.map (function EItem (IIdsRoot cm) -> EItem (IDatasRoot cm) | x -> x) l in
               let same = if norm items' = norm h.h_items && txs' = h.h_txs then 1 else 0 in
               let (v, nc) = judge h c items' txs' in
               pr "mut %s %s ids=%s same=%d verdict=%s noncons=%s\n" kind resolved
                 (join (List.map label_entry txs')) same v nc in
             (match kind with
              | "swap" ->
                  if n < 2 then pr "mut swap skip\n" else begin
                    let i = num 0 mod n in
                    let j = num 1 mod n in
                    let j = if i = j then (i + 1) mod n else j in
                    finish (Printf.sprintf "i=%d j=%d" i j) h.h_items (swap txa i j) false end
              | "drop" ->
                  if n < 1 then pr "mut drop skip\n" else begin
                    let i = num 0 mod n in
                    finish (Printf.sprintf "i=%d" i) h.h_items (remove txa i) false end
              | "dup" ->
                  if n < 1 then pr "mut dup skip\n" else begin
                    let i = num 0 mod n in
                    let l = Array.to_list txa in
                    let l' = List.concat (List.mapi (fun idx x -> if idx = i then [x; x] else [x]) l) in
                    finish (Printf.sprintf "i=%d" i) h.h_items l' false end
              | "flip" ->
                  let i = num 0 mod 2 in
                  if k < 2 then pr "mut flip skip\n" else begin
                    let len = ios (entry_len typed items.(i)) in
                    if len = 0 then pr "mut flip skip\n" else begin
                      let byte = num 1 mod len in
                      let v = match items.(i) with
                        | EItem (IDatasRoot cm) ->
                            if typed && byte < 2 then EItem (IGarbage (n_of_int len))
                            else EItem (IDatasRoot (marker @ cm))
                        | EItem (IIdsRoot cm) ->
                            if typed && byte < 2 then EItem (IGarbage (n_of_int len))
                            else EItem (IIdsRoot (marker @ cm))
                        | other -> other in
                      finish (Printf.sprintf "i=%d byte=%d" i byte) (set items i v) h.h_txs false end end
              | "trunc" ->
                  let total = k + n in
                  if total = 0 then pr "mut trunc skip\n" else begin
                    let i = num 0 mod total in
                    let cur = if i < k then items.(i) else txa.(i - k) in
                    let len = ios (entry_len typed cur) in
                    if len = 0 then pr "mut trunc skip\n" else begin
                      let nl = num 1 mod len in
                      let resolved = Printf.sprintf "i=%d len=%d item=%d" i nl (if i < k then 1 else 0) in
                      if i < k then finish resolved (set items i (EItem (IGarbage (n_of_int nl)))) h.h_txs false
                      else finish resolved h.h_items
                             (set txa (i - k) (corrupt cur ~dec:false ~sg:false ~len:(Some (n_of_int nl)))) false
                    end end
              | "swapitems" ->
                  if k < 2 then pr "mut swapitems skip\n" else begin
                    let i = num 0 mod k in
                    let j = num 1 mod k in
                    let j = if i = j then (i + 1) mod k else j in
                    finish (Printf.sprintf "i=%d j=%d" i j) (swap items i j) h.h_txs false end
              | "dropitem" ->
                  if k < 1 then pr "mut dropitem skip\n" else begin
                    let i = num 0 mod k in
                    finish (Printf.sprintf "i=%d" i) (remove items i) h.h_txs false end
              | "sig" | "body" ->
                  if n < 1 then pr "mut %s skip\n" kind else begin
                    let i = num 0 mod n in
                    (* the byte offset inside the body is resolved by the harness only *)
                    let resolved = if kind = "sig" then Printf.sprintf "i=%d byte=%d" i (num 1 mod 64)
                                   else Printf.sprintf "i=%d" i in
                    finish resolved h.h_items
                      (set txa i (corrupt txa.(i) ~dec:true ~sg:false ~len:None)) false end
              | "append" | "prepend" ->
                  let list = List.nth r 0 in
                  let recommit = (match r with _ :: "recommit" :: _ -> true | _ -> false) in
                  let extra = List.map (fun id -> ETx (honest_raw (Hashtbl.find txs id)))
                                (List.filter (fun s -> s <> "") (String.split_on_char ',' list)) in
                  let txs' = if kind = "append" then h.h_txs @ extra else extra @ h.h_txs in
                  finish (Printf.sprintf "txs=%s recommit=%d" list (if recommit then 1 else 0))
                    h.h_items txs' recommit
              | other -> failwith ("unknown mutation " ^ other)))
    | "finalize" :: _ ->
        (match !honest with
         | None -> pr "finalize none\n"
         | Some h ->
             honest := None;
             if h.h_accepted <> Some true then pr "finalize skip\n"
             else begin
               let c = get_chain () in
               c.st <- end_block h.h_state;
               c.height <- h.h_height;
               pr "finalize height=%d own=accept same=1\n" h.h_height
             end)
    | t :: _ -> failwith ("unknown op " ^ t)) (read_lines ic)
