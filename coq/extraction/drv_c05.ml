module List = Stdlib.List
module String = Stdlib.String
module Option = Stdlib.Option
module Array = Stdlib.Array
module Bytes = Stdlib.Bytes
module Char = Stdlib.Char
module Buffer = Stdlib.Buffer
module Printf = Stdlib.Printf
module Hashtbl = Stdlib.Hashtbl
(* C05 model driver.  Input: the abstract script harness/c05.py derives from a case and the
   implementation's observations (tx groups, mempool queue order, initial oracle store and
   nonces are inputs).  Output: the model's observation lines in the canonical format of c05.py.
   The ledger is the concrete [cledger] of AbciModel.v (nonces, log of executed tx ids, validator
   set, block time / next validators hash / stored block hash + proposer).  The request fields
   (height, time, proposer, next validators hash, last commit, misbehavior) are given per block:
   h= time= prop= nvh= lcround= lcvotes=<val>:<flag>/... misb=<val>,...  `hand ... like=<blk>`
   defines a near twin: the data of <blk> under other request fields / another hash.  The
   aggregation of vote-extension prices (median per pair, C15's subject) is done here. *)
open Util
open AbciModel

let n_of_int (i : int) = n_of_string (string_of_int i)
let int_of_n (n : BinNums.coq_N) = int_of_string (string_of_n n)

let split_on (c : char) (s : string) : string list =
  if s = "" || s = "-" then [] else List.filter (fun x -> x <> "") (String.split_on_char c s)

let kv_opt (toks : string list) (k : string) : string option =
  let p = k ^ "=" in
  let pl = String.length p in
  match List.find_opt (fun t -> String.length t >= pl && String.sub t 0 pl = p) toks with
  | Some t -> Some (String.sub t pl (String.length t - pl))
  | None -> None

let class_of_err = function
  | EParse -> "parse" | EExtCommit -> "extcommit" | EUpgradeHash -> "upgradehash"
  | EConstruct -> "construct" | EGroup -> "group" | ETxFail -> "txfail"
  | ECommitment -> "commitment" | EExecState -> "execstate" | ESeqBlock -> "seqblock"
  | EPutPrice -> "putprice" | ENoExecuted -> "other"

(* ---- price aggregation (astria-core oracles/price_feed/utils.rs), non-negative prices ---- *)
let median (l : int list) : int option =
  let s = List.sort compare l in
  let n = List.length s in
  if n = 0 then None
  else if n mod 2 = 1 then Some (List.nth s (n / 2))
  else
    let hi = List.nth s (n / 2) and lo = List.nth s (n / 2 - 1) in
    Some (hi / 2 + lo / 2 + (if hi mod 2 = 1 && lo mod 2 = 1 then 1 else 0))

(* votes: list of (id, price) lists (ids ascending within a vote); the mapping id -> pair is the
   committed oracle store's; pairs in first-seen order *)
let prices_of_votes (o : ostate) (votes : (int * int) list list) : (BinNums.coq_N * BinNums.coq_N) list =
  let pair_of_id id =
    List.find_map (fun (k, ps) -> if int_of_n ps.ps_id = id then Some k else None) o.o_pairs in
  let order = ref [] and tbl = Hashtbl.create 8 in
  List.iter (fun vote ->
    List.iter (fun (id, p) ->
      match pair_of_id id with
      | None -> ()
      | Some k ->
        let key = string_of_n k in
        (match Hashtbl.find_opt tbl key with
         | None -> order := !order @ [(key, k)]; Hashtbl.replace tbl key [p]
         | Some l -> Hashtbl.replace tbl key (l @ [p])))
      (List.sort compare vote)) votes;
  List.filter_map (fun (key, k) ->
    match median (Hashtbl.find tbl key) with
    | Some m -> Some (k, n_of_int m)
    | None -> None) !order

(* ProposalHandler::prepare_proposal prunes every vote whose extension carries more prices than
   there are currency pairs in the state (verify_vote_extension) *)
let prune_votes (o : ostate) (votes : (int * int) list list) : (int * int) list list =
  List.filter (fun v -> List.length v <= int_of_n o.o_num) votes

let parse_votes (s : string) : (int * int) list list =
  List.map (fun v ->
    List.map (fun it ->
      match String.split_on_char '=' it with
      | [id; p] -> (int_of_string id, int_of_string p)
      | _ -> failwith ("vote item " ^ it)) (split_on ',' v))
    (List.filter (fun v -> v <> "") (if s = "-" then [] else String.split_on_char '/' s))

(* ---- printing ---- *)
let string_of_price = function
  | None -> "price=- ph=-"
  | Some (p, h) -> Printf.sprintf "price=%s ph=%s" (string_of_n p) (string_of_n h)

let digest_state (s : cledger state) : string =
  let b = Buffer.create 256 in
  List.iter (fun (k, ps) ->
    Buffer.add_string b (Printf.sprintf "%s:%s:%s:%s;" (string_of_n k) (string_of_n ps.ps_id)
                           (string_of_n ps.ps_nonce) (string_of_price ps.ps_price)))
    (List.sort compare (List.map (fun (k, ps) -> (k, ps)) s.s_o.o_pairs));
  Buffer.add_string b (Printf.sprintf "|%s|%s|" (string_of_n s.s_o.o_next) (string_of_n s.s_o.o_num));
  List.iter (fun (k, v) -> Buffer.add_string b (Printf.sprintf "%s=%s," (string_of_n k) (string_of_n v)))
    (List.sort compare s.s_l.cl_nonces);
  Buffer.add_string b "|";
  List.iter (fun i -> Buffer.add_string b (string_of_n i ^ ",")) s.s_l.cl_log;
  Buffer.add_string b ("|" ^ string_of_n s.s_l.cl_height);
  Buffer.add_string b ("|" ^ string_of_n s.s_l.cl_time ^ "|" ^ string_of_n s.s_l.cl_nvh ^ "|");
  List.iter (fun (k, v) -> Buffer.add_string b (Printf.sprintf "%s=%s," (string_of_n k) (string_of_n v)))
    (List.sort compare s.s_l.cl_vals);
  Buffer.add_string b ("|" ^ string_of_n (fst s.s_l.cl_block) ^ "|" ^ string_of_n (snd s.s_l.cl_block));
  Stdlib.Digest.to_hex (Stdlib.Digest.string (Buffer.contents b))

type blk = { hash : BinNums.coq_N; meta : bmeta; data : bdata }

let pairs_of (sep : char) (s : string) : (BinNums.coq_N * BinNums.coq_N) list =
  List.map (fun it ->
    match String.split_on_char ':' it with
    | [k; v] -> (n_of_string k, n_of_string v)
    | _ -> failwith ("pair " ^ it)) (split_on sep s)

let meta_of (rest : string list) : bmeta =
  let opt k d = match kv_opt rest k with Some v -> v | None -> d in
  { m_height = n_of_string (kv rest "h"); m_time = n_of_string (opt "time" "0");
    m_proposer = n_of_string (opt "prop" "0"); m_nvh = n_of_string (opt "nvh" "0");
    m_lc_round = n_of_string (opt "lcround" "0"); m_lc_votes = pairs_of '/' (opt "lcvotes" "-");
    m_misb = List.map n_of_string (split_on ',' (opt "misb" "-")) }

let run ic oc =
  let apps : (cledger, BinNums.coq_N) app array ref = ref [||] in
  let ninst = ref 1 in
  let txs : (string, tx) Hashtbl.t = Hashtbl.create 64 in
  let blocks : (string, blk) Hashtbl.t = Hashtbl.create 16 in
  let tx_of id = match Hashtbl.find_opt txs id with Some t -> t | None -> failwith ("unknown mtx " ^ id) in
  let txname (t : tx) = string_of_n t.tx_id in
  let names l = if l = [] then "-" else String.concat "," l in
  let do_step i c =
    let (a', o) = c_step (!apps).(i) c in
    (!apps).(i) <- a'; o in
  List.iter (fun line ->
    match split_ws line with
    | [] -> ()
    | "case" :: _ ->
        Hashtbl.reset blocks;
        output_string oc (String.trim line ^ "\n")
    | "inst" :: n :: _ -> ninst := int_of_string n
    | "init" :: rest ->
        let pairs = List.map (fun it ->
          match String.split_on_char ':' it with
          | [k; id; nonce; price; ph] ->
            (n_of_string k,
             { ps_id = n_of_string id; ps_nonce = n_of_string nonce;
               ps_price = (if price = "-" then None else Some (n_of_string price, n_of_string ph)) })
          | _ -> failwith ("init pair " ^ it)) (split_on ';' (kv rest "pairs")) in
        let nonces = List.map (fun it ->
          match String.split_on_char ':' it with
          | [k; v] -> (n_of_string k, n_of_string v)
          | _ -> failwith ("init nonce " ^ it)) (split_on ',' (kv rest "nonces")) in
        let vals = (match kv_opt rest "vals" with Some v -> pairs_of ',' v | None -> []) in
        let c = { s_l = { cl_nonces = nonces; cl_log = []; cl_height = n_of_string (kv rest "height");
                          cl_time = n_of_int 0; cl_nvh = n_of_int 0; cl_vals = vals;
                          cl_block = (n_of_int 0, n_of_int 0) };
                  s_o = { o_pairs = pairs; o_next = n_of_string (kv rest "next");
                          o_num = n_of_string (kv rest "num") } } in
        apps := Array.init !ninst (fun _ -> c_init c)
    | "mtx" :: id :: rest ->
        let oacts = List.map (fun a ->
          let ps = List.map n_of_string (split_on '.' (String.sub a 1 (String.length a - 1))) in
          if a.[0] = '+' then OAdd ps else ORemove ps) (split_on '/' (kv rest "oacts")) in
        Hashtbl.replace txs id
          { tx_id = n_of_string id; tx_signer = n_of_string (kv rest "signer");
            tx_nonce = n_of_string (kv rest "nonce"); tx_group = n_of_string (kv rest "group");
            tx_body = n_of_string (kv rest "body"); tx_oacts = oacts;
            tx_vupd = (match kv_opt rest "vupd" with Some v -> pairs_of '/' v | None -> []) }
    | ("prep" | "hand" as op) :: inst :: name :: rest ->
        let i = int_of_string inst in
        let a = (!apps).(i) in
        let meta = meta_of rest and hash = n_of_string (kv rest "hash") in
        let valid = kv rest "valid" = "1" in
        let votes = parse_votes (match kv_opt rest "votes" with Some v -> v | None -> "-") in
        let define_or_compare d =
          match Hashtbl.find_opt blocks name with
          | None -> Hashtbl.replace blocks name { hash; meta; data = d }; "def"
          | Some b -> if proposal_eqb (meta, d) (b.meta, b.data) then "1" else "0" in
        if op = "prep" then begin
          let queue = List.map tx_of (split_on ',' (kv rest "queue")) in
          let prices = if valid then prices_of_votes a.a_committed.s_o (prune_votes a.a_committed.s_o votes) else [] in
          match do_step i (CPrepare (meta, queue, prices)) with
          | OPrepared d ->
            let m = define_or_compare d in
            Printf.fprintf oc "prep %s %s ok user=%s match=%s\n" inst name
              (names (List.map txname d.d_txs)) m
          | OErr e -> Printf.fprintf oc "prep %s %s err=%s\n" inst name (class_of_err e)
          | _ -> Printf.fprintf oc "prep %s %s bad\n" inst name
        end else if kv_opt rest "like" <> None then begin
          (* near twin: the data of an existing block under other request fields / another hash;
             the verdict on the extended commit is re-evaluated when the last commit differs *)
          let base = (match Hashtbl.find_opt blocks (kv rest "like") with
                      | Some b -> b | None -> failwith ("unknown base block " ^ kv rest "like")) in
          let same_lc = BinNat.N.eqb base.meta.m_lc_round meta.m_lc_round
                        && list_eqb price_eqb base.meta.m_lc_votes meta.m_lc_votes in
          let d = if same_lc then base.data else { base.data with d_ecvalid = valid } in
          let m = define_or_compare d in
          Printf.fprintf oc "hand %s %s ok user=%s match=%s\n" inst name
            (names (List.map txname d.d_txs)) m
        end else begin
          (* hand-built block on a scratch replica: given order, failing txs included, the
             commitments over a lenient dry run of the constructible ones *)
          let given = List.map tx_of (split_on ',' (kv rest "txs")) in
          let raw = (match kv_opt rest "ecmode" with Some "raw" -> true | _ -> false) in
          let bad = (match kv_opt rest "bad" with Some b -> b | None -> "-") in
          let c = a.a_committed in
          let checked = List.filter (fun t -> check_tx cl_check c t) given in
          let (_, ex) = finalize_loop cl_exec (pre_exec cl_pre c meta) checked in
          let commit = List.map (fun (t, _) -> t.tx_id) ex in
          let commit = if bad = "commit" then n_of_int 999999999 :: commit else commit in
          let prices = if raw then prices_of_votes c.s_o votes
                       else if valid then prices_of_votes c.s_o (prune_votes c.s_o votes) else [] in
          let d = { d_wf = (bad <> "item"); d_ecvalid = (if raw then valid else true);
                    d_prices = prices; d_uh = cl_uh_at meta; d_commit = commit; d_txs = given } in
          (!apps).(i) <- c_init c;
          let m = define_or_compare d in
          Printf.fprintf oc "hand %s %s ok user=%s match=%s\n" inst name
            (names (List.map txname d.d_txs)) m
        end
    | "proc" :: inst :: name :: _ ->
        let b = Hashtbl.find blocks name in
        (match do_step (int_of_string inst) (CProcess { b_hash = b.hash; b_meta = b.meta; b_data = b.data }) with
         | OAccept -> Printf.fprintf oc "proc %s %s ok\n" inst name
         | OErr e -> Printf.fprintf oc "proc %s %s err=%s\n" inst name (class_of_err e)
         | OPanic -> Printf.fprintf oc "proc %s %s panic\n" inst name
         | _ -> Printf.fprintf oc "proc %s %s bad\n" inst name)
    | "fin" :: inst :: name :: _ ->
        let b = Hashtbl.find blocks name in
        (match do_step (int_of_string inst) (CFinalize { b_hash = b.hash; b_meta = b.meta; b_data = b.data }) with
         | OFinalized (res, _, s) ->
           Printf.fprintf oc "fin %s %s ok apphash=%s codes=%s\n" inst name (digest_state s)
             (names (List.map (fun (_, ok) -> if ok then "0" else "1") res))
         | OErr e -> Printf.fprintf oc "fin %s %s err=%s\n" inst name (class_of_err e)
         | OPanic -> Printf.fprintf oc "fin %s %s panic\n" inst name
         | _ -> Printf.fprintf oc "fin %s %s bad\n" inst name)
    | "commit" :: inst :: _ ->
        let i = int_of_string inst in
        (match (!apps).(i).a_staged with
         | None -> Printf.fprintf oc "commit %s err=nofinalize\n" inst
         | Some _ ->
           (match do_step i CCommit with
            | OCommitted -> Printf.fprintf oc "commit %s ok\n" inst
            | _ -> Printf.fprintf oc "commit %s bad\n" inst))
    | "restart" :: inst :: _ ->
        ignore (do_step (int_of_string inst) CRestart);
        Printf.fprintf oc "restart %s ok\n" inst
    | "idump" :: inst :: _ ->
        let s = (!apps).(int_of_string inst).a_working.w_s in
        Printf.fprintf oc "idump %s begin\n" inst;
        List.iter (fun (k, v) ->
          if not (BinNat.N.eqb v (n_of_int 0)) then
            Printf.fprintf oc "nonce %s %s\n" (string_of_n k) (string_of_n v))
          (List.sort (fun (a, _) (b, _) -> compare (int_of_n a) (int_of_n b)) s.s_l.cl_nonces);
        List.iter (fun (k, v) -> Printf.fprintf oc "validator %s power=%s\n" (string_of_n k) (string_of_n v))
          (List.sort (fun (a, _) (b, _) -> compare (int_of_n a) (int_of_n b)) s.s_l.cl_vals);
        Printf.fprintf oc "valcount %d\n" (List.length s.s_l.cl_vals);
        List.iter (fun (k, ps) ->
          Printf.fprintf oc "oracle %s id=%s nonce=%s %s\n" (string_of_n k) (string_of_n ps.ps_id)
            (string_of_n ps.ps_nonce) (string_of_price ps.ps_price))
          (List.sort (fun (a, _) (b, _) -> compare (int_of_n a) (int_of_n b)) s.s_o.o_pairs);
        Printf.fprintf oc "oraclemeta num=%s next=%s\n" (string_of_n s.s_o.o_num) (string_of_n s.s_o.o_next);
        Printf.fprintf oc "idump %s end\n" inst
    | t :: _ -> failwith ("unknown op " ^ t)) (read_lines ic)
