#!/bin/bash
# Extract the models and build the OCaml driver.  cwd-independent.
set -e
here=$(cd "$(dirname "$0")" && pwd)
b=$here/build
rm -rf "$b"; mkdir -p "$b"; cd "$b"
coqc -Q "$here/../theories" Astria -w none "$here/Extract.v" > extract.log 2>&1 || { cat extract.log; exit 1; }
cp "$here"/*.ml .
files=$(ocamlfind ocamldep -sort *.mli *.ml)
ocamlfind ocamlopt -w -a -O2 -o driver $files 2> ocaml.log || ocamlfind ocamlopt -w -a -o driver $files
echo "built $b/driver"
