module List = Stdlib.List
module String = Stdlib.String
module Option = Stdlib.Option
module Array = Stdlib.Array
module Bytes = Stdlib.Bytes
module Char = Stdlib.Char
module Buffer = Stdlib.Buffer
module Printf = Stdlib.Printf
(* C12 model driver.  Input: the implementation's observation lines (they carry the op, the
   block's content tokens = digests of what conductor must get back, and the real compressed
   size of the candidate payload, which is the model's [csize] parameter).  Output: the model's
   observation lines in the same format minus implementation-only fields. *)
open Util
open BatchModel

let max_plus_one = n_of_string "1000001"

let size_of (s : string) = if s = "-" then max_plus_one else n_of_string s

let parse_rollups (s : string) : (BinNums.coq_N * BinNums.coq_N) list =
  if s = "-" then [] else
    List.map (fun it -> match String.split_on_char ':' it with
        | [ r; d ] -> (n_of_string r, n_of_string d)
        | _ -> failwith ("bad rd item " ^ it)) (String.split_on_char ',' s)

let class_of = function AddOk -> "ok" | AddFull -> "full" | AddOversized -> "oversized"

let cmp_n a b = compare (int_of_string (string_of_n a)) (int_of_string (string_of_n b))

let string_of_sub (sb : submission) : string =
  let i = sb.sub_input in
  let heights = List.map (fun b -> int_of_string (string_of_n b.bk_height)) i.in_blocks in
  let greatest = List.fold_left max 0 heights in
  let metas = List.map (fun m ->
      Printf.sprintf "%s/%s/%s" (string_of_n m.m_height) (string_of_n m.m_hash)
        (if m.m_rollup_ids = [] then "-" else String.concat "+" (List.map string_of_n m.m_rollup_ids)))
      i.in_meta in
  let rds = List.sort (fun (a, _) (b, _) -> cmp_n a b) i.in_rd in
  let rd = List.map (fun (r, l) ->
      Printf.sprintf "%s:%s" (string_of_n r) (String.concat "+" (List.map (fun x -> string_of_n x.rd_data) l))) rds in
  Printf.sprintf "size=%s nblocks=%d greatest=%d nblobs=%d meta=%s rd=%s"
    (string_of_n sb.sub_size) (List.length i.in_blocks) greatest (1 + List.length i.in_rd)
    (if metas = [] then "-" else String.concat "," metas)
    (if rd = [] then "-" else String.concat "," rd)

(* ---- "run" cases (case name starts with "run"): the real BlobSubmitter::run was driven; its select
   loop is replayed here on the model's [step] as an eager scheduler with the loop's (biased)
   priorities: a finished submission is noticed first, then [Take] is tried if no submission is in
   flight, then [Recv] of the oldest block still in the channel ([OBusy] leaves it there).
   Input lines (built by harness/c12.py from the implementation's observations):
     sizes <i>-<j>=<n>|fit|full|over:<n>,...   compressed size class of the payload of blocks i..j
     feed <h> ...                               blocks handed to the submitter's channel
     done                                       the submission in flight was completed
   Output: one line [sub <h>+<h>..] per submission the model takes, in order. *)
exception Nosize of string

type rcase = { mutable rst : st; mutable queue : block list; mutable inflight : bool;
               mutable sizes : (string * string) list; mutable dead : bool }

let max_payload = n_of_string "1000000"

let rcsize (rc : rcase) (blocks : block list) : BinNums.coq_N =
  match blocks with
  | [] -> n_of_string "0"
  | first :: _ ->
      let last = List.nth blocks (List.length blocks - 1) in
      let key = string_of_n first.bk_height ^ "-" ^ string_of_n last.bk_height in
      (match List.assoc_opt key rc.sizes with
       | Some "fit" -> max_payload
       | Some "full" -> max_plus_one
       | Some v when String.length v > 5 && String.sub v 0 5 = "over:" ->
           n_of_string (String.sub v 5 (String.length v - 5))
       | Some v when v <> "" && v.[0] >= '0' && v.[0] <= '9' -> n_of_string v
       | _ -> raise (Nosize key))

let rec settle (rc : rcase) oc =
  if rc.dead then () else
  let took =
    if rc.inflight then false else
      (match step (rcsize rc) rc.rst Take with
       | (s', OSub (sb, _)) ->
           rc.rst <- s'; rc.inflight <- true;
           Printf.fprintf oc "sub %s\n"
             (String.concat "+" (List.map (fun b -> string_of_n b.bk_height) sb.sub_input.in_blocks));
           true
       | (_, OHalted) -> rc.dead <- true; Printf.fprintf oc "halted\n"; false
       | _ -> false) in
  if took then settle rc oc else
    match rc.queue with
    | [] -> ()
    | b :: rest ->
        (match step (rcsize rc) rc.rst (Recv b) with
         | (_, OBusy) -> ()
         | (s', (OAdded | OFull)) -> rc.rst <- s'; rc.queue <- rest; settle rc oc
         | (s', OOversized) -> rc.rst <- s'; rc.queue <- rest; rc.dead <- true; Printf.fprintf oc "halted\n"
         | _ -> rc.dead <- true; Printf.fprintf oc "halted\n")

let run_line (rc : rcase) oc (toks : string list) =
  let guarded f = (try f () with Nosize k -> rc.dead <- true; Printf.fprintf oc "nosize %s\n" k) in
  match toks with
  | "sizes" :: l :: _ ->
      rc.sizes <- (if l = "-" then [] else
        List.map (fun it -> match String.split_on_char '=' it with
            | [ k; v ] -> (k, v)
            | _ -> failwith ("bad sizes item " ^ it)) (String.split_on_char ',' l))
  | "feed" :: hs ->
      rc.queue <- rc.queue @ List.map (fun h ->
          { bk_height = n_of_string h; bk_hash = n_of_string h; bk_rollups = [] }) hs;
      guarded (fun () -> settle rc oc)
  | [ "done" ] -> rc.inflight <- false; guarded (fun () -> settle rc oc)
  | t :: _ -> failwith ("unknown run-case op " ^ t)
  | [] -> ()

let run ic oc =
  let st = ref (init []) in
  let rcur : rcase option ref = ref None in
  let cap () = (match !st.pending with None -> true | Some _ -> false) in
  List.iter (fun line ->
    match split_ws line with
    | [] -> ()
    | "case" :: name :: _ when String.length name >= 3 && String.sub name 0 3 = "run" ->
        rcur := Some { rst = init []; queue = []; inflight = false; sizes = []; dead = false };
        Printf.fprintf oc "%s\n" line
    | toks when (match !rcur, toks with Some _, t :: _ -> t <> "case" | _ -> false) ->
        (match !rcur with Some rc -> run_line rc oc toks | None -> ())
    | "case" :: rest ->
        rcur := None;
        let f = (try kv rest "filter" with _ -> "-") in
        let f = if f = "-" then [] else List.map n_of_string (String.split_on_char ',' f) in
        st := init f;
        Printf.fprintf oc "%s\n" line
    | "recv" :: rest ->
        let h = kv rest "h" in
        let halted_impl = List.mem "halted" rest in
        let b = if halted_impl then { bk_height = n_of_string h; bk_hash = n_of_string "0"; bk_rollups = [] }
          else { bk_height = n_of_string h; bk_hash = n_of_string (kv rest "in");
                 bk_rollups = parse_rollups (kv rest "rd") } in
        let sz = if halted_impl then max_plus_one else size_of (kv rest "csize") in
        let (s', o) = step (fun _ -> sz) !st (Recv b) in
        st := s';
        (match o with
         | OHalted -> Printf.fprintf oc "recv h=%s halted\n" h
         | OBusy -> Printf.fprintf oc "recv h=%s res=busy cap=%b\n" h (cap ())
         | OAdded -> Printf.fprintf oc "recv h=%s res=ok cap=%b\n" h (cap ())
         | OFull -> Printf.fprintf oc "recv h=%s res=full cap=%b\n" h (cap ())
         | OOversized -> Printf.fprintf oc "recv h=%s res=oversized cap=%b\n" h (cap ())
         | _ -> Printf.fprintf oc "recv h=%s bad\n" h)
    | "take" :: rest ->
        let sz = (try size_of (kv rest "csize2") with _ -> max_plus_one) in
        let (s', o) = step (fun _ -> sz) !st Take in
        st := s';
        (match o with
         | OHalted -> Printf.fprintf oc "take halted\n"
         | ONone -> Printf.fprintf oc "take none\n"
         | OSub (sb, r) ->
             Printf.fprintf oc "take %s readd=%s cap=%b\n" (string_of_sub sb)
               (match r with None -> "none" | Some c -> class_of c) (cap ())
         | _ -> Printf.fprintf oc "take bad\n")
    | t :: _ -> failwith ("unknown op " ^ t)) (read_lines ic)
