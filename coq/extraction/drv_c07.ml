module List = Stdlib.List
module String = Stdlib.String
module Option = Stdlib.Option
module Array = Stdlib.Array
module Bytes = Stdlib.Bytes
module Char = Stdlib.Char
module Buffer = Stdlib.Buffer
module Printf = Stdlib.Printf
module Hashtbl = Stdlib.Hashtbl
(* C07 model driver: the extracted BlockDataModel instantiated with byte strings, real SHA-256
   and the protobuf framing of RollupData::SequencedData.  Reads the model script derived by
   harness/c07.py from the implementation's `c07 blockdata` lines and the case's ops, prints the
   same observation lines as the Rust hooks (app::verif_c07, celestia::verify::verif_c07). *)
open Util
open BlockDataModel

let beq (a : string) (b : string) = String.equal a b
let ltb (a : string) (b : string) = String.compare a b < 0
let blen (s : string) = n_of_string (string_of_int (String.length s))
let cat (a : string) (b : string) = a ^ b
let sha = Sha256.digest
let leafH = Sha256.leaf_hash
let nodeH = Sha256.node_hash
let emptyH = Sha256.empty_hash
let zeroD = Sha256.zero32

let varint (n : int) : string =
  let b = Buffer.create 4 in
  let rec go n = if n < 128 then Buffer.add_char b (Char.chr n)
    else (Buffer.add_char b (Char.chr ((n land 127) lor 128)); go (n lsr 7)) in
  go n; Buffer.contents b
(* RollupData { sequenced_data = 1: bytes } (a oneof member is written even when empty) *)
let encS (payload : string) : string = "\x0a" ^ varint (String.length payload) ^ payload
let encD (d : string) : string = d

let rec nat_of_int (n : int) : Datatypes.nat = if n <= 0 then Datatypes.O else Datatypes.S (nat_of_int (n - 1))
let hex16 (s : string) = String.sub (Sha256.hex s) 0 16

let le64 (n : int) : string = String.init 8 (fun i -> Char.chr ((n lsr (8 * i)) land 255))
let list_digest (items : string list) : string =
  hex16 (Sha256.digest (String.concat "" (List.map (fun it -> le64 (String.length it) ^ it) items)))

let rollup_bytes (tok : string) : string =
  if String.length tok >= 2 && tok.[0] = 'r' && (match int_of_string_opt (String.sub tok 1 (String.length tok - 1)) with Some _ -> true | None -> false)
  then String.make 32 (Char.chr (int_of_string (String.sub tok 1 (String.length tok - 1))))
  else Sha256.unhex tok
let show_rollup (id : string) : string =
  if String.length id = 32 && String.for_all (fun c -> c = id.[0]) id then Printf.sprintf "r%d" (Char.code id.[0])
  else Sha256.hex id

let join_or_dash = function [] -> "-" | l -> String.concat "," l
let split_list (v : string) : string list = if v = "-" || v = "" then [] else String.split_on_char ',' v
let kv_opt toks k = try Some (kv toks k) with _ -> None

let show_proof (p : string MerkleModel.proof) : string =
  Printf.sprintf "%s/%s/%s" (string_of_n p.MerkleModel.leaf_index) (string_of_n p.MerkleModel.tree_size)
    (hex16 (Sha256.digest (String.concat "" p.MerkleModel.audit_path)))

let data_summary (d : (string * string list) list) : string =
  join_or_dash (List.map (fun (id, txs) -> Printf.sprintf "%s:%d:%s" (show_rollup id) (List.length txs) (list_digest txs)) d)

let pverifies_ p lh r = pverifies beq nodeH p lh r
let rollup_leaf_ id txs = rollup_leaf cat leafH nodeH emptyH id txs
let recv_full_ b = recv_full beq blen cat sha leafH nodeH emptyH b
let recv_filtered_ f = recv_filtered beq blen cat sha leafH nodeH emptyH f
let recv_meta_ m = recv_meta beq blen sha leafH nodeH emptyH m
let audit_blob_ m b = audit_blob beq cat leafH nodeH emptyH m b
let collect_ es = collect beq es

(* one tampering from its tokens; positions / values as in the Rust hook *)
let flip_last (s : string) : string =
  if s = "" then "\001" else
    let b = Bytes.of_string s in
    let i = Bytes.length b - 1 in
    Bytes.set b i (Char.chr (Char.code (Bytes.get b i) lxor 1)); Bytes.to_string b

let parse_tamper (f : string filtered) (toks : string list) : string tamper =
  let nat i = nat_of_int (int_of_string (List.nth toks i)) in
  let num i = n_of_string (List.nth toks i) in
  let ent j = List.nth_opt f.f_entries (int_of_string (List.nth toks j)) in
  match List.hd toks with
  | "alter" ->
      let x = (match ent 1 with
          | Some e -> (match List.nth_opt e.e_txs (int_of_string (List.nth toks 2)) with Some y -> flip_last y | None -> "")
          | None -> "") in
      TAlter (nat 1, nat 2, x)
  | "swap" -> TSwap (nat 1, nat 2)
  | "drop" -> TDrop (nat 1, nat 2)
  | "dup" -> TDup (nat 1, nat 2)
  | "app" -> TApp (nat 1, Sha256.unhex (List.nth toks 2))
  | "reid" -> TReid (nat 1, rollup_bytes (List.nth toks 2))
  | "mvdata" -> TMvData (nat 1, nat 2)
  | "swapproof" -> TSwapProof (nat 1, nat 2)
  | "pidx" -> TPIdx (nat 1, num 2)
  | "psize" -> TPSize (nat 1, num 2)
  | "ppath" ->
      let x = (match ent 1 with
          | Some e -> (match List.nth_opt e.e_proof.MerkleModel.audit_path (int_of_string (List.nth toks 2)) with
              | Some y -> flip_last y | None -> "")
          | None -> "") in
      TPPath (nat 1, nat 2, x)
  | "ppathdrop" -> TPPathDrop (nat 1)
  | "rmentry" -> TRmEntry (nat 1)
  | "dupentry" -> TDupEntry (nat 1)
  | "swapentry" -> TSwapEntry (nat 1, nat 2)
  | "rtr" -> TRtr (flip_last f.f_rtr)
  | "dh" -> TDh (flip_last f.f_dh)
  | "bh" -> TBh (flip_last f.f_hash)
  | "idsdrop" -> TIdsDrop (nat 1)
  | "idsadd" -> TIdsAdd (rollup_bytes (List.nth toks 1))
  | "idsswap" -> TIdsSwap (nat 1)
  | "rtpidx" -> TRtpIdx (num 1)
  | "rtpsize" -> TRtpSize (num 1)
  | "ripidx" -> TRipIdx (num 1)
  | "ripsize" -> TRipSize (num 1)
  | "swaprtprip" -> TSwapRtpRip
  | t -> failwith ("unknown tamper " ^ t)

let detail_lines label (rtr : string) (es : string entry list) : string list =
  List.mapi (fun i e ->
      Printf.sprintf "%s e%d id=%s n=%d dig=%s proof=%s ok=%b" label i (show_rollup e.e_id) (List.length e.e_txs)
        (list_digest e.e_txs) (show_proof e.e_proof)
        (pverifies_ e.e_proof (rollup_leaf_ e.e_id e.e_txs) rtr)) es

let raw_summary (es : string entry list) : string =
  join_or_dash (List.map (fun e -> Printf.sprintf "%s:%d:%s" (show_rollup e.e_id) (List.length e.e_txs) (list_digest e.e_txs)) es)

(* verdict of the Celestia receivers on (metadata, blobs): (line, accepted data) *)
let cel_verdict (m : string meta) (bs : string blob list) : string =
  let mok = recv_meta_ m in
  let verdicts = List.map (fun b ->
      if not (blob_ok blen b) then "derr"
      else if not mok then "-"
      else if audit_blob_ m b then (if beq m.m_hash b.bl_hash then "ok" else "otherblock")
      else "bad") bs in
  let accepted = List.concat (List.map2 (fun b v -> if v = "ok" then [ (b.bl_id, b.bl_txs) ] else []) bs verdicts) in
  if mok then Printf.sprintf "recv=ok blobs=%s data=%s all=%s" (join_or_dash verdicts) (data_summary accepted)
      (join_or_dash (List.map show_rollup m.m_ids))
  else Printf.sprintf "recv=err blobs=%s" (join_or_dash verdicts)

let cel_detail label (m : string meta) (bs : string blob list) : string list =
  if not (recv_meta_ m) then [] else
    List.concat (List.mapi (fun i b ->
        if not (blob_ok blen b) then [] else
          [ Printf.sprintf "%s e%d id=%s n=%d dig=%s proof=%s ok=%b" label i (show_rollup b.bl_id) (List.length b.bl_txs)
              (list_digest b.bl_txs) (show_proof b.bl_proof) (audit_blob_ m b) ]) bs)

let run ic oc =
  let blocks : (int, string block) Hashtbl.t = Hashtbl.create 16 in
  let last = ref 0 in
  let resolve (tok : string) : int =
    if tok = "last" then !last
    else if String.length tok > 5 && String.sub tok 0 5 = "last-" then !last - int_of_string (String.sub tok 5 (String.length tok - 5))
    else int_of_string tok in
  let pr fmt = Printf.fprintf oc fmt in
  List.iter (fun line ->
    match split_ws line with
    | [] -> ()
    | "case" :: _ -> Hashtbl.reset blocks; last := 0; pr "%s\n" line
    | "block" :: toks ->
        let h = int_of_string (kv toks "h") in
        let bh = Sha256.unhex (kv toks "bh") in
        let pair s = (match String.index_opt s ':' with
            | Some i -> (String.sub s 0 i, String.sub s (i + 1) (String.length s - i - 1))
            | None -> failwith ("bad pair " ^ s)) in
        let subs = List.map (fun s -> let (r, p) = pair s in (rollup_bytes r, if p = "e" then "" else Sha256.unhex p)) (split_list (kv toks "subs")) in
        (* deposits: grouped per rollup in emission order, groups in order of first occurrence *)
        let deps = List.fold_left (fun acc s ->
            let (r, d) = pair s in
            let r = rollup_bytes r and d = Sha256.unhex d in
            if List.mem_assoc r acc then List.map (fun (k, v) -> if k = r then (k, v @ [ d ]) else (k, v)) acc
            else acc @ [ (r, [ d ]) ]) [] (split_list (kv toks "deps")) in
        let rest = List.map (fun s -> let (k, d) = pair s in
                              ((match k with "u" -> KUpgrade | "e" -> KEci | _ -> KTx), Sha256.unhex d)) (split_list (kv toks "rest")) in
        (match finalize beq ltb cat sha leafH nodeH emptyH zeroD encS encD bh rest subs deps with
         | BuildOk b -> Hashtbl.replace blocks h b; last := h; pr "block h=%d build=ok\n" h
         | BuildErrIds -> pr "block h=%d build=errids\n" h
         | BuildErrTxs -> pr "block h=%d build=errtxs\n" h
         | BuildPanic -> pr "block h=%d build=panic\n" h)
    | "c07" :: rest ->
        let (is_tamper, form, toks) = (match rest with
            | "tamper" :: form :: toks -> (true, form, toks)
            | form :: toks -> (false, form, toks)
            | [] -> failwith "c07 what") in
        let kvs = List.filter (fun t -> String.contains t '=') toks in
        let optoks = List.filter (fun t -> not (String.contains t '=')) toks in
        let h = resolve (kv kvs "h") in
        let ids_tok = (match kv_opt kvs "ids" with Some v -> v | None -> "-") in
        let ids_text = if form = "filt" then " ids=" ^ ids_tok else "" in
        let label = if is_tamper then Printf.sprintf "c07 tamper %s h=%d%s %s" form h ids_text (String.concat " " optoks)
          else Printf.sprintf "c07 %s h=%d%s" form h ids_text in
        (match Hashtbl.find_opt blocks h with
         | None -> pr "%s serve=err:norecord\n" label
         | Some b0 ->
             let b = stored_block beq b0 in
             let head (f : string filtered) ids_line verdict =
               Printf.sprintf "%s %s bh=%s rtr=%s dh=%s rtp=%s rip=%s raw=%s%s" label verdict (Sha256.hex f.f_hash)
                 (Sha256.hex f.f_rtr) (Sha256.hex f.f_dh) (show_proof f.f_rtp) (show_proof f.f_rip)
                 (raw_summary f.f_entries) ids_line in
             (match form with
              | "full" ->
                  let f0 = full_as_f b in
                  let b' = if is_tamper then tamper_full (parse_tamper f0 optoks) b else b in
                  let verdict = if recv_full_ b' then Printf.sprintf "recv=ok data=%s" (data_summary (List.map entry_data (collect_ b'.b_entries)))
                    else "recv=err" in
                  if is_tamper then pr "%s changed=%b %s\n" label (b' <> b) verdict
                  else begin
                    pr "%s\n" (head f0 "" verdict);
                    if recv_full_ b' then List.iter (pr "%s\n") (detail_lines label b'.b_rtr (collect_ b'.b_entries))
                  end
              | "filt" ->
                  let f0 = serve_filtered beq ltb b (List.map rollup_bytes (split_list ids_tok)) in
                  let f' = if is_tamper then tamper_f (parse_tamper f0 optoks) f0 else f0 in
                  let verdict = if recv_filtered_ f' then
                      Printf.sprintf "recv=ok data=%s all=%s" (data_summary (List.map entry_data (collect_ f'.f_entries)))
                        (join_or_dash (List.map show_rollup f'.f_all))
                    else "recv=err" in
                  if is_tamper then pr "%s changed=%b %s\n" label (f' <> f0) verdict
                  else begin
                    pr "%s\n" (head f0 (" all=" ^ join_or_dash (List.map show_rollup f0.f_all)) verdict);
                    if recv_filtered_ f' then List.iter (pr "%s\n") (detail_lines label f'.f_rtr (collect_ f'.f_entries))
                  end
              | "cel" ->
                  let mb0 = split_celestia b in
                  let f0 = cel_as_f mb0 in
                  let (m', bs') = if is_tamper then tamper_cel (parse_tamper f0 optoks) b.b_hash mb0 else mb0 in
                  let verdict = cel_verdict m' bs' in
                  if is_tamper then pr "%s changed=%b %s\n" label ((m', bs') <> mb0) verdict
                  else begin
                    pr "%s\n" (head f0 (" all=" ^ join_or_dash (List.map show_rollup f0.f_all)) verdict);
                    List.iter (pr "%s\n") (cel_detail label m' bs')
                  end
              | f -> failwith ("unknown form " ^ f)))
    | "recon" :: toks ->
        (* recon h=<H> tamper=<op_args|-> rollup=<r> blobs=own|all|none *)
        let h = resolve (kv toks "h") in
        let r = rollup_bytes (kv toks "rollup") in
        (match Hashtbl.find_opt blocks h with
         | None -> pr "recon norecord\n"
         | Some b0 ->
             let b = stored_block beq b0 in
             let mb0 = split_celestia b in
             let tam = kv toks "tamper" in
             let (m', bs') = if tam = "-" then mb0
               else tamper_cel (parse_tamper (cel_as_f mb0) (String.split_on_char '_' tam)) b.b_hash mb0 in
             let sel = (match kv toks "blobs" with
                 | "own" -> List.filter (fun bl -> beq bl.bl_id r) bs'
                 | "none" -> []
                 | _ -> bs') in
             let mok = recv_meta_ m' in
             let metas = if mok then [ m' ] else [] in
             let bverd = List.map (fun bl -> if blob_ok blen bl then "ok" else "err") sel in
             let good = List.filter (fun bl -> blob_ok blen bl) sel in
             let out = reconstruct beq cat leafH nodeH emptyH metas good r in
             let out = List.sort compare (List.map (fun (hh, txs) -> Printf.sprintf "%s:%d:%s" (hex16 hh) (List.length txs) (list_digest txs)) out) in
             pr "recon metas=%s blobs=%s out=%s\n" (if mok then "ok" else "err") (join_or_dash bverd) (join_or_dash out))
    | t :: _ -> failwith ("unknown op " ^ t)) (read_lines ic)
