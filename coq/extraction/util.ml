module List = Stdlib.List
module String = Stdlib.String
module Option = Stdlib.Option
module Array = Stdlib.Array
module Bytes = Stdlib.Bytes
module Char = Stdlib.Char
module Buffer = Stdlib.Buffer
module Printf = Stdlib.Printf
(* Glue between text lines and extracted Coq values.  Trusted for the tie only. *)
let uint_of_string (s : string) : Decimal.uint =
  let r = ref Decimal.Nil in
  for i = String.length s - 1 downto 0 do
    r := (match s.[i] with
      | '0' -> Decimal.D0 !r | '1' -> Decimal.D1 !r | '2' -> Decimal.D2 !r
      | '3' -> Decimal.D3 !r | '4' -> Decimal.D4 !r | '5' -> Decimal.D5 !r
      | '6' -> Decimal.D6 !r | '7' -> Decimal.D7 !r | '8' -> Decimal.D8 !r
      | '9' -> Decimal.D9 !r | c -> failwith (Printf.sprintf "bad digit %c in %s" c s))
  done; !r

let n_of_string (s : string) : BinNums.coq_N = BinNat.N.of_uint (uint_of_string s)

let string_of_n (n : BinNums.coq_N) : string =
  let b = Buffer.create 20 in
  let rec go (u : Decimal.uint) = match u with
    | Decimal.Nil -> ()
    | Decimal.D0 r -> Buffer.add_char b '0'; go r | Decimal.D1 r -> Buffer.add_char b '1'; go r
    | Decimal.D2 r -> Buffer.add_char b '2'; go r | Decimal.D3 r -> Buffer.add_char b '3'; go r
    | Decimal.D4 r -> Buffer.add_char b '4'; go r | Decimal.D5 r -> Buffer.add_char b '5'; go r
    | Decimal.D6 r -> Buffer.add_char b '6'; go r | Decimal.D7 r -> Buffer.add_char b '7'; go r
    | Decimal.D8 r -> Buffer.add_char b '8'; go r | Decimal.D9 r -> Buffer.add_char b '9'; go r in
  go (BinNat.N.to_uint n);
  if Buffer.length b = 0 then "0" else Buffer.contents b

let split_ws (s : string) : string list =
  List.filter (fun x -> x <> "") (String.split_on_char ' ' (String.trim s))

let read_lines (ic : in_channel) : string list =
  let rec go acc = match input_line ic with
    | l -> go (l :: acc)
    | exception End_of_file -> List.rev acc in
  go []

(* "k=v" lookup in a token list *)
let kv (toks : string list) (k : string) : string =
  let p = k ^ "=" in
  let pl = String.length p in
  match List.find_opt (fun t -> String.length t >= pl && String.sub t 0 pl = p) toks with
  | Some t -> String.sub t pl (String.length t - pl)
  | None -> failwith ("missing key " ^ k)
