module List = Stdlib.List
module String = Stdlib.String
module Option = Stdlib.Option
module Array = Stdlib.Array
module Bytes = Stdlib.Bytes
module Char = Stdlib.Char
module Buffer = Stdlib.Buffer
module Printf = Stdlib.Printf
(* C11 system-level replay.  Input: the observation lines of the system harness
   (crates/astria-sequencer-relayer/src/relayer/write/verif.rs).  Every observed event is
   translated into events of CrashModel (the internal receive/take steps are inferred from the
   heights a BlobTx carries); an event the model does not enable, or a state file / Celestia
   content that differs from the model's, shows up as a differing output line. *)
open Util
open SubmissionModel
open CrashModel

let n = n_of_string
let sn = string_of_n
let ints_of (s : string) : BinNums.coq_N list =
  if s = "-" || s = "" then [] else List.map n (String.split_on_char '+' s)

(* one Celestia transaction (= one hash); [mids] are the model tx ids of all attempts that produced
   these very bytes *)
type bc = { idx : int; hs : string; mutable landed : bool; mutable mids : BinNums.coq_N list;
            mutable confirmed : string option }

type rs = {
  mutable s : sys;
  mutable bcasts : bc list;          (* arrival order *)
  mutable prepfails : int;           (* observed try_prepare failures not yet applied *)
  mutable refused : string list;     (* first problems of the current line *)
}

let note r msg = r.refused <- r.refused @ [ msg ]

let ev_name = function
  | EFetch -> "fetch" | ERecv _ -> "recv" | ETake -> "take" | EPrepareFail -> "prepare-fail"
  | EPrepareOk -> "prepare-ok" | EDeliver -> "deliver" | ERespOk -> "resp-ok" | ERespErr -> "resp-err"
  | ERespTimeout -> "resp-timeout" | EPollOk -> "poll-ok" | EReconfirmOk -> "reconfirm-ok"
  | EReconfirmTimeout -> "reconfirm-timeout" | EStartupOk -> "startup-ok"
  | EStartupTimeout -> "startup-timeout" | ECelConfirm _ -> "celestia-confirm" | ECrash -> "crash"
  | ERestart -> "restart"

let apply r e =
  match step r.s e with
  | Some s' -> r.s <- s'; true
  | None -> note r ("not-enabled:" ^ ev_name e); false

let idx_of_mid r (tx : BinNums.coq_N) : string =
  match List.find_opt (fun b -> List.mem tx b.mids) r.bcasts with
  | Some b -> string_of_int b.idx
  | None -> "?"

let file_desc r : string =
  match r.s.sdisk with
  | Fresh -> "fresh"
  | Started (c, l) -> Printf.sprintf "started:%s:%s" (sn c) (sn l)
  | Prepared (h, c, l, tx) -> Printf.sprintf "prepared:%s:%s:%s:%s" (sn h) (sn c) (sn l) (idx_of_mid r tx)

let delivered r (tx : BinNums.coq_N) = List.exists (fun rc -> rc.tx_id = tx) r.s.cel

let txs_desc r : string =
  if r.bcasts = [] then "-" else
    String.concat "," (List.map (fun b ->
        let st = if not b.landed then "lost" else
            (* every delivered attempt of this transaction must agree with Celestia's status *)
            let sts = List.map (fun tx -> match find_confirmed tx r.s.cel with Some c -> "c" ^ sn c | None -> "pending")
                (List.filter (delivered r) b.mids) in
            (match List.sort_uniq compare sts with
             | [] -> "pending"
             | [ x ] -> x
             | l -> String.concat "/" l) in
        Printf.sprintf "%d:%s:%s" b.idx b.hs st) r.bcasts)

let vol r = r.s.proc

let last_of (l : BinNums.coq_N list) = match List.rev l with x :: _ -> Some x | [] -> None

(* make the model hold an in-flight attempt: receive from the channel until [stop batch] *)
let ensure_attempt r (stop : BinNums.coq_N list -> bool) =
  match vol r with
  | None -> note r "no-process"
  | Some v ->
      (match v.v_mode with
       | MStartup _ -> note r "attempt-during-startup-confirmation"
       | MRun ->
           (match v.inflight with
            | Some a ->
                (match a.at_phase with
                 | PIdle (ETimedOut _) -> ignore (apply r EReconfirmTimeout)
                 | PPrepared _ | PSent _ ->
                     (* an unanswered broadcast: the client's request timeout fired *)
                     ignore (apply r ERespTimeout); ignore (apply r EReconfirmTimeout)
                 | _ -> ())
            | None ->
                let guard = ref 0 in
                let rec go () =
                  incr guard;
                  match vol r with
                  | Some v when not (stop v.batch) && v.chan <> [] && !guard < 10000 ->
                      if apply r (ERecv false) then go ()
                  | _ -> () in
                go ();
                ignore (apply r ETake)))

let flush_prepfails r =
  for _ = 1 to r.prepfails do ignore (apply r EPrepareFail) done;
  r.prepfails <- 0

let phase r = match vol r with
  | Some v -> (match v.inflight with Some a -> Some a.at_phase | None -> None)
  | None -> None

let at_hs r = match vol r with
  | Some v -> (match v.inflight with Some a -> a.at_hs | None -> [])
  | None -> []

(* the state file became `prepared` with greatest height h *)
let infer_prepare r (stop : BinNums.coq_N list -> bool) =
  (match phase r with
   | Some (PPrepared tx) when idx_of_mid r tx = "?" -> ()   (* this very prepare, not yet broadcast *)
   | _ ->
       (* (a broadcast that was never answered is a request timeout at the client) *)
       ensure_attempt r stop;
       flush_prepfails r;
       ignore (apply r EPrepareOk))

let on_event r (e : string) =
  match String.split_on_char ':' e with
  | "file" :: desc ->
      let desc_s = String.concat ":" desc in
      (match desc with
       | [ "prepared"; h; _; _; _ ] ->
           let h = n h in
           (match r.s.sdisk, phase r with
            | Prepared (h', _, _, tx), Some (PPrepared tx')
              when h' = h && tx = tx' && (idx_of_mid r tx = "?" || List.nth desc 4 = idx_of_mid r tx) -> ()
            | _ -> infer_prepare r (fun b -> last_of b = Some h))
       | [ "started"; c; l ] ->
           (match vol r with
            | Some v ->
                (match v.v_mode with
                 | MStartup (_, c0, l0, _) ->
                     if n c = c0 && n l = l0 then ignore (apply r EStartupTimeout)
                     else ignore (apply r EStartupOk)
                 | MRun ->
                     (match phase r with
                      | Some (PPolling _) -> ignore (apply r EPollOk)
                      | Some (PIdle (ETimedOut _)) -> ignore (apply r EReconfirmOk)
                      | Some (PPrepared _) | Some (PSent _) ->
                          ignore (apply r ERespTimeout); ignore (apply r EReconfirmOk)
                      | _ -> note r "unexpected-started-write"))
            | None -> note r "file-write-while-down")
       | _ -> ());
      (* compare without the tx index (it may not be known yet) *)
      let strip s = match String.split_on_char ':' s with
        | [ "prepared"; h; c; l; _ ] -> String.concat ":" [ "prepared"; h; c; l ]
        | _ -> s in
      if strip (file_desc r) <> strip desc_s then
        note r (Printf.sprintf "file-is-%s-model-has-%s" desc_s (file_desc r))
  | [ "bcast"; idx; hs; plan; _hash_in_file ] ->
      let hsl = ints_of hs in
      infer_prepare r (fun b -> b = hsl);
      if at_hs r <> hsl then
        note r (Printf.sprintf "blobtx-carries-%s-model-expects-%s" hs
                  (String.concat "+" (List.map sn (at_hs r))));
      let mid = (match phase r with Some (PPrepared tx) -> Some tx | _ -> None) in
      let idx = int_of_string idx in
      let entry = (match List.find_opt (fun b -> b.idx = idx) r.bcasts with
          | Some b -> b
          | None ->
              let b = { idx; hs; landed = false; mids = []; confirmed = None } in
              r.bcasts <- r.bcasts @ [ b ]; b) in
      (* Celestia holds the transaction if this call lands or if it already held these bytes *)
      entry.landed <- entry.landed || List.mem plan [ "ok"; "errl"; "tol"; "hangl" ];
      (match mid with Some tx -> entry.mids <- entry.mids @ [ tx ] | None -> ());
      if entry.hs <> hs then note r "same-hash-different-heights";
      if entry.landed then begin
        ignore (apply r EDeliver);
        (match entry.confirmed, mid with
         | Some c, Some tx -> ignore (apply r (ECelConfirm (tx, n c)))
         | _ -> ())
      end;
      (match plan with
       | "ok" -> ignore (apply r ERespOk)
       | "err" | "errl" | "rej" -> ignore (apply r ERespErr)
       | "to" | "tol" -> ignore (apply r ERespTimeout)
       | _ -> ())
  | [ "prepfail" ] ->
      (match phase r with
       | Some (PIdle (ETimedOut _)) -> ignore (apply r EReconfirmTimeout); ignore (apply r EPrepareFail)
       | Some (PIdle _) -> ignore (apply r EPrepareFail)
       | _ -> r.prepfails <- r.prepfails + 1)
  | [ "gettx"; idx; c ] ->
      (match List.find_opt (fun b -> b.idx = int_of_string idx) r.bcasts with
       | Some b when b.landed && b.confirmed = Some c -> ()
       | _ -> note r "gettx-confirmed-but-not-in-model")
  | "exit" :: _ -> note r "relayer-exited"
  | _ -> ()

let strip_toks toks =
  List.filter (fun t ->
      not (List.exists (fun p -> String.length t >= String.length p && String.sub t 0 (String.length p) = p)
             [ "ev="; "file="; "txs="; "first="; "refused=" ])) toks

let initial_file (hdr : string) : fstate =
  let spec = (try kv (split_ws hdr) "init" with _ -> "fresh") in
  match String.split_on_char ':' spec with
  | [ "started"; c; l ] -> Started (n c, n l)
  | [ "prepared"; h; c; l ] -> Prepared (n h, n c, n l, n "999999")
  | _ -> Fresh

let run_sys (hdr : string) (lines : string list) oc =
  let r = { s = init (initial_file hdr); bcasts = []; prepfails = 0; refused = [] } in
  let started = ref false in
  List.iter (fun line ->
    let toks = split_ws line in
    match toks with
    | [] -> ()
    | op :: _ ->
        r.refused <- [];
        let events = (try kv toks "ev" with _ -> "-") in
        if events <> "-" then List.iter (on_event r) (String.split_on_char ';' events);
        let head = ref (String.concat " " (strip_toks toks)) in
        (match op with
         | "start" ->
             if not !started then begin
               (* the initial file is whatever the harness reports before the first start *)
               started := true
             end;
             let ok = apply r ERestart in
             r.refused <- List.filter (fun x -> x <> "not-enabled:restart") r.refused;
             let first = (match vol r with Some v when ok -> sn v.reader_next | _ -> "-") in
             head := Printf.sprintf "start res=%s first=%s" (if ok then "ok" else "err") first
         | "fetch" ->
             let k = int_of_string (kv toks "n") in
             let first = (match vol r with Some v -> sn v.reader_next | None -> "-") in
             for _ = 1 to k do ignore (apply r EFetch) done;
             head := Printf.sprintf "fetch n=%d first=%s" k first
         | "confirm" ->
             let idx_s = kv toks "idx" in
             let idx = (try int_of_string idx_s with _ -> -1) in
             let c = kv toks "c" in
             let res = (match List.find_opt (fun b -> b.idx = idx) r.bcasts with
                 | None -> "unknown"
                 | Some b when not b.landed -> "lost"
                 | Some b when b.confirmed <> None -> "already"
                 | Some b ->
                     b.confirmed <- Some c;
                     List.iter (fun tx -> if delivered r tx then ignore (apply r (ECelConfirm (tx, n c)))) b.mids;
                     "ok") in
             head := Printf.sprintf "confirm idx=%s c=%s res=%s" idx_s c res
         | "crash" -> (match vol r with Some _ -> ignore (apply r ECrash) | None -> ())
         | _ -> ());
        Printf.fprintf oc "%s file=%s txs=%s%s\n" !head (file_desc r) (txs_desc r)
          (if r.refused = [] then "" else " refused=" ^ String.concat "," r.refused)) lines

