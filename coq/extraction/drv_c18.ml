module List = Stdlib.List
module String = Stdlib.String
module Option = Stdlib.Option
module Array = Stdlib.Array
module Bytes = Stdlib.Bytes
module Char = Stdlib.Char
module Buffer = Stdlib.Buffer
module Printf = Stdlib.Printf
module Hashtbl = Stdlib.Hashtbl
(* C18 model driver: reads the same op script as the Rust harness
   (crates/astria-sequencer/src/app/verif_c18.rs) and prints the model's observation lines in
   the same format.  Strings (ports, base denominations, rollup addresses, event ids) are
   interned to N; "transfer" is port 0. *)
open Util
open Ics20Model

let n_of_int (i : int) = n_of_string (string_of_int i)
let is_zero (n : BinNums.coq_N) = (match n with BinNums.N0 -> true | _ -> false)

(* ---- interning ------------------------------------------------------------------------- *)
let mk_intern () =
  let fwd : (string, int) Hashtbl.t = Hashtbl.create 16 in
  let bwd : (int, string) Hashtbl.t = Hashtbl.create 16 in
  let intern s =
    match Hashtbl.find_opt fwd s with
    | Some i -> n_of_int i
    | None ->
      let i = Hashtbl.length fwd in
      Hashtbl.replace fwd s i; Hashtbl.replace bwd i s; n_of_int i in
  let name n = Hashtbl.find bwd (int_of_string (string_of_n n)) in
  (intern, name)

let (intern_port, port_name) = mk_intern ()
let () = ignore (intern_port "transfer")
let (intern_base, base_name) = mk_intern ()
let (intern_str, str_name) = mk_intern ()

let is_digits s = s <> "" && (let ok = ref true in String.iter (fun c -> if c < '0' || c > '9' then ok := false) s; !ok)

let strip_prefix (p : string) (s : string) : string option =
  let pl = String.length p in
  if String.length s >= pl && String.sub s 0 pl = p
  then Some (String.sub s pl (String.length s - pl)) else None

(* ---- denominations ---------------------------------------------------------------------- *)
let parse_trace (s : string) : denom =
  let parts = String.split_on_char '/' s in
  let n = List.length parts in
  if n mod 2 = 0 || List.exists (fun x -> x = "") parts then failwith ("bad denom " ^ s);
  let rec go = function
    | [b] -> ([], intern_base b)
    | p :: c :: r ->
      let cn = (match strip_prefix "channel-" c with
          | Some d when is_digits d -> n_of_string d
          | _ -> failwith ("bad channel in denom " ^ s)) in
      let (t, b) = go r in ((intern_port p, cn) :: t, b)
    | [] -> failwith "empty" in
  go parts

let string_of_denom ((t, b) : denom) : string =
  String.concat "" (List.map (fun (p, c) -> port_name p ^ "/channel-" ^ string_of_n c ^ "/") t)
  ^ base_name b

(* `<denom>` | `ibc:<denom>` *)
let denom_form (tok : string) : pdenom =
  match strip_prefix "ibc:" tok with
  | Some r -> PIbc (parse_trace r)
  | None -> PTrace (parse_trace tok)

(* packet data denom: also `bad:<k>` *)
let packet_denom (tok : string) : pdenom =
  match strip_prefix "bad:" tok with
  | Some k -> if List.mem k ["0"; "1"; "2"; "3"; "4"; "5"] then PBadDenom else failwith "bad denom kind"
  | None -> denom_form tok

(* ---- other tokens ----------------------------------------------------------------------- *)
let account (tok : string) : BinNums.coq_N =
  match strip_prefix "a" tok with
  | Some d when is_digits d && int_of_string d < 16 -> n_of_string d
  | _ -> failwith ("bad account " ^ tok)

let packet_address (tok : string) : BinNums.coq_N option =
  match strip_prefix "bad:" tok with
  | Some k -> if List.mem k ["0"; "1"; "2"; "3"; "4"] then None else failwith "bad address kind"
  | None ->
    (match strip_prefix "compat:" tok with
     | Some r -> Some (account r)
     | None -> Some (account tok))

(* u128::from_str accepts an optional leading '+' *)
let packet_amount (tok : string) : BinNums.coq_N option =
  if tok = "-" then None else
  let body = (match strip_prefix "+" tok with Some r -> r | None -> tok) in
  if is_digits body then Some (n_of_string body) else None

let u128_max = n_of_string "340282366920938463463374607431768211455"
let u64_max = n_of_string "18446744073709551615"
let leq a b = BinNat.N.leb a b

let num_le (mx : BinNums.coq_N) (tok : string) : BinNums.coq_N =
  if not (is_digits tok) then failwith ("bad number " ^ tok);
  let n = n_of_string tok in
  if leq n mx then n else failwith ("number out of range " ^ tok)

let small (tok : string) : int =
  if is_digits tok && String.length tok < 9 then int_of_string tok else failwith ("bad number " ^ tok)

let memo_addr (s : string) : memo = MAddr (intern_str s, n_of_int (String.length s))

(* (as Ics20TransferDeposit, as Ics20WithdrawalFromRollup) *)
let rec memo_views (tok : string) : memo * memo =
  if tok = "-" || tok = "bad" then (MNone, MNone)
  else if tok = "depempty" || tok = "wfrempty" then (memo_addr "", memo_addr "")
  else match strip_prefix "deplen:" tok with
    | Some n -> (memo_addr (String.make (small n) 'x'), MNone)
    | None ->
      match strip_prefix "dep:" tok with
      | Some s -> (memo_addr s, MNone)
      | None ->
        match strip_prefix "wfr:" tok with
        | Some s -> (MNone, memo_addr s)
        | None -> failwith ("bad memo " ^ tok)

let string_arg (v : string) : string =
  if v = "-" then "" else
  match strip_prefix "len:" v with
  | Some n -> String.make (try int_of_string n with _ -> 0) 'x'
  | None -> v

let show_dest (s : string) : string =
  if s = "" then "-"
  else if String.length s > 24 || String.contains s ' ' then Printf.sprintf "len%d" (String.length s)
  else s

let opt_kv toks k = try Some (kv toks k) with _ -> None

(* ---- driver state ----------------------------------------------------------------------- *)
let st : state option ref = ref None
let universe : (string * denom) list ref = ref []     (* sorted by string at dump *)
let channels : int list ref = ref []
let sent : (string, packet) Hashtbl.t = Hashtbl.create 16

let add_channel c = if not (List.mem c !channels) then channels := c :: !channels

let nria () = parse_trace "nria"

let dump_state (oc : Buffer.t) (prefix : string) (s : state) : unit =
  let denoms = List.sort (fun (a, _) (b, _) -> compare a b) !universe in
  for k = 1 to 9 do
    List.iter (fun (name, d) ->
        let v = s.bal (n_of_int k) d in
        if not (is_zero v) then Printf.bprintf oc "%sbal a%d %s %s\n" prefix k name (string_of_n v))
      denoms
  done;
  List.iter (fun c ->
      List.iter (fun (name, d) ->
          let v = s.esc (n_of_int c) d in
          if not (is_zero v) then Printf.bprintf oc "%sesc %d %s %s\n" prefix c name (string_of_n v))
        denoms)
    (List.sort compare !channels);
  List.iter (fun (name, d) ->
      if mem_denom d s.regd then Printf.bprintf oc "%sreg %s\n" prefix name)
    denoms;
  let show (d : deposit) =
    Printf.sprintf "r%s a%s %s %s %s" (string_of_n d.dp_rollup) (string_of_n d.dp_bridge)
      (string_of_n d.dp_amount) (string_of_denom d.dp_asset) (show_dest (str_name d.dp_dest)) in
  let rollups = List.sort_uniq compare
      (List.map (fun (d : deposit) -> int_of_string (string_of_n d.dp_rollup)) s.deposits) in
  List.iter (fun r ->
      List.iter (fun (d : deposit) ->
          if int_of_string (string_of_n d.dp_rollup) = r then Printf.bprintf oc "%sdep %s\n" prefix (show d))
        s.deposits)
    rollups;
  List.iter (fun d -> Printf.bprintf oc "%sev %s\n" prefix (show d)) s.events

let dump (oc : Buffer.t) (s : state) : unit =
  dump_state oc "" s; Printf.bprintf oc "end\n"

(* ---- packets ---------------------------------------------------------------------------- *)
let bad_packet sp sc dp dc : packet =
  { p_ok = false; p_denom = PBadDenom; p_amount = None; p_receiver = None; p_sender = None;
    p_memo_dep = MNone; p_memo_wfr = MNone; p_sport = sp; p_schan = sc; p_dport = dp; p_dchan = dc }

let channel_num (tok : string) : BinNums.coq_N = num_le u64_max tok

(* returns (check_ok, packet) *)
let recv_packet (toks : string list) : bool * packet =
  let sp = intern_port (kv toks "sp") and sc = channel_num (kv toks "sc")
  and dp = intern_port (kv toks "dp") and dc = channel_num (kv toks "dc") in
  match opt_kv toks "raw" with
  | Some "bad" -> (true, bad_packet sp sc dp dc)
  | Some ("empty" | "long") -> (false, bad_packet sp sc dp dc)
  | Some _ -> failwith "bad raw"
  | None ->
    let (mdep, mwfr) = memo_views (kv toks "memo") in
    (true,
     { p_ok = true; p_denom = packet_denom (kv toks "denom"); p_amount = packet_amount (kv toks "amt");
       p_receiver = packet_address (kv toks "to"); p_sender = None;
       p_memo_dep = mdep; p_memo_wfr = mwfr; p_sport = sp; p_schan = sc; p_dport = dp; p_dchan = dc })

let refund_packet (toks : string list) : packet =
  let sp = intern_port (kv toks "sp") and sc = channel_num (kv toks "sc") in
  let dp = intern_port "transfer" and dc = n_of_int 99 in
  match opt_kv toks "raw" with
  | Some ("bad" | "empty" | "long") -> bad_packet sp sc dp dc
  | Some _ -> failwith "bad raw"
  | None ->
    let (mdep, mwfr) = memo_views (kv toks "memo") in
    { p_ok = true; p_denom = packet_denom (kv toks "denom"); p_amount = packet_amount (kv toks "amt");
      p_receiver = None; p_sender = packet_address (kv toks "sender");
      p_memo_dep = mdep; p_memo_wfr = mwfr; p_sport = sp; p_schan = sc; p_dport = dp; p_dchan = dc }

let withdrawal_of (toks : string list) : string * withdrawal =
  let id = kv toks "id" in
  let signer = account (kv toks "from") in
  let chan = channel_num (kv toks "chan") in
  let dn = denom_form (kv toks "denom") in
  let amt = num_le u128_max (kv toks "amt") in
  let ret = account (kv toks "ret") in
  let bridge = (match opt_kv toks "bridge" with
      | None | Some "-" -> None
      | Some a -> Some (account a)) in
  let with_wfr = bridge <> None || opt_kv toks "evid" <> None in
  let (evid, evid_len, blk, rret, rret_len, mwfr) =
    if with_wfr then begin
      let blk = num_le u64_max (kv toks "blk") in
      let e = string_arg (kv toks "evid") and r = string_arg (kv toks "rret") in
      (intern_str e, n_of_int (String.length e), blk, intern_str r, n_of_int (String.length r),
       memo_addr r)
    end else begin
      let (_, mwfr) = memo_views (match opt_kv toks "memo" with Some m -> m | None -> "-") in
      (intern_str "", n_of_int 0, n_of_int 0, intern_str "", n_of_int 0, mwfr)
    end in
  (id, { w_signer = signer; w_chan = chan; w_denom = dn; w_amount = amt; w_ret = ret;
         w_bridge = bridge; w_evid = evid; w_evid_len = evid_len; w_blk = blk; w_rret = rret;
         w_rret_len = rret_len; w_memo_wfr = mwfr })

(* ---- ops -------------------------------------------------------------------------------- *)
let run_op (oc : Buffer.t) (op : string) (args : string list) (line : string) : unit =
  let need () = (match !st with Some s -> s | None -> failwith "no chain") in
  match op with
  | "case" ->
    st := None; universe := []; channels := []; Hashtbl.reset sent;
    Printf.bprintf oc "%s\n" (String.trim line)
  | "chain" ->
    let bb = (match kv args "bb" with "0" -> false | "1" -> true | _ -> failwith "bad bb") in
    Hashtbl.reset sent;
    st := Some (put_feeasset (put_reg (init_state bb) (nria ())) (nria ()));
    Printf.bprintf oc "chain ok\n"
  | "denoms" ->
    let ds = List.map (fun t -> let d = parse_trace t in (string_of_denom d, d)) args in
    List.iter (fun (n, d) -> if not (List.mem_assoc n !universe) then universe := !universe @ [(n, d)]) ds;
    Printf.bprintf oc "denoms ok\n"
  | _ when !st = None -> Printf.bprintf oc "%s nochain\n" op
  | "chan" ->
    (match args with
     | n :: rest ->
       let c = small n and cp = small (kv rest "cp") in
       st := Some (put_chan (need ()) (n_of_int c));
       add_channel c; add_channel cp;
       Printf.bprintf oc "chan ok\n"
     | _ -> failwith "usage")
  | "reg" ->
    (match args with [d] -> st := Some (put_reg (need ()) (parse_trace d)) | _ -> failwith "usage");
    Printf.bprintf oc "reg ok\n"
  | "feeasset" ->
    (match args with [d] -> st := Some (put_feeasset (need ()) (parse_trace d)) | _ -> failwith "usage");
    Printf.bprintf oc "feeasset ok\n"
  | "bal" ->
    (match args with
     | [a; d; v] -> st := Some (put_bal (need ()) (account a) (parse_trace d) (num_le u128_max v))
     | _ -> failwith "usage");
    Printf.bprintf oc "bal ok\n"
  | "esc" ->
    (match args with
     | [c; d; v] ->
       let cn = small c in
       st := Some (put_esc (need ()) (n_of_int cn) (parse_trace d) (num_le u128_max v));
       add_channel cn
     | _ -> failwith "usage");
    Printf.bprintf oc "esc ok\n"
  | "bridge" ->
    (match args with
     | a :: rest ->
       let s = need () in
       let ad = account a in
       let rollup = small (kv rest "rollup") in
       if rollup > 255 then failwith "rollup";
       let withdrawer = account (kv rest "withdrawer") in
       let asset = parse_trace (kv rest "asset") in
       let disabled = (match opt_kv rest "disabled" with
           | None | Some "-" -> (match find_bridge s ad with Some b -> b.br_disabled | None -> false)
           | Some "0" -> false | Some "1" -> true | Some _ -> failwith "bad disabled") in
       st := Some (put_bridge s ad { br_rollup = n_of_int rollup; br_asset = asset;
                                     br_withdrawer = withdrawer; br_disabled = disabled })
     | _ -> failwith "usage");
    Printf.bprintf oc "bridge ok\n"
  | "dis" ->
    (match args with
     | [a; f] ->
       let b = (match f with "0" -> false | "1" -> true | _ -> failwith "flag") in
       let (s', _) = step (need ()) (OSetDisabled (account a, b)) in st := Some s'
     | _ -> failwith "usage");
    Printf.bprintf oc "dis ok\n"
  | "dump" -> Printf.bprintf oc "dump\n"; dump oc (need ())
  | "wd" ->
    let (id, w) = withdrawal_of args in
    let s = need () in
    let (s', o) = step s (OWd w) in
    st := Some s';
    (match o with
     | OutWd true -> Hashtbl.replace sent id (sent_packet w); Printf.bprintf oc "wd %s ok\n" id
     | _ -> Printf.bprintf oc "wd %s err\n" id);
    dump oc s'
  | "recv" ->
    let seq = num_le u64_max (kv args "seq") in
    let (check_ok, p) = recv_packet args in
    let s = need () in
    let (s', o) = step s (ORecv (check_ok, seq, p)) in
    st := Some s';
    let q = string_of_n seq in
    (match o with
     | OutRejected -> Printf.bprintf oc "recv %s rejected\n" q
     | OutAck true -> Printf.bprintf oc "recv %s ack=ok\n" q
     | OutAck false -> Printf.bprintf oc "recv %s ack=err\n" q
     | OutFail ->
       Printf.bprintf oc "recv %s fail\n" q;
       dump_state oc "dirty " (fst (receive_tokens s p))
     | _ -> failwith "unexpected output");
    dump oc s'
  | "ack" | "timeout" ->
    let found = (match opt_kv args "pkt" with
        | Some id -> (match Hashtbl.find_opt sent id with
            | Some p -> `Pkt (id, p)
            | None -> `Unknown id)
        | None -> `Pkt ("-", refund_packet args)) in
    (match found with
     | `Unknown id -> Printf.bprintf oc "%s %s unknown\n" op id
     | `Pkt (label, p) ->
       let o = if op = "timeout" then OTimeout p
         else OAck ((match kv args "res" with
             | "ok" -> AckOk | "err" -> AckErr | "bad" -> AckBad | _ -> failwith "bad res"), p) in
       let s = need () in
       let (s', x) = step s o in
       st := Some s';
       (match x with
        | OutRejected -> Printf.bprintf oc "%s %s rejected\n" op label
        | OutOk -> Printf.bprintf oc "%s %s ok\n" op label
        | OutFail ->
          Printf.bprintf oc "%s %s fail\n" op label;
          dump_state oc "dirty " (fst (refund_tokens s p))
        | _ -> failwith "unexpected output");
       dump oc s')
  | other -> failwith ("unknown op " ^ other)

let run ic oc =
  List.iter (fun line ->
      match split_ws line with
      | [] -> ()
      | op :: _ when String.length op > 0 && op.[0] = '#' -> ()
      | op :: args ->
        let buf = Buffer.create 256 in
        let saved = !st in
        (try
           run_op buf op args line;
           output_string oc (Buffer.contents buf)
         with Failure _ | Not_found | Invalid_argument _ ->
           st := saved;
           Printf.fprintf oc "%s parseerr\n" op))
    (read_lines ic)
