let () =
  match Sys.argv with
  | [| _; "c16" |] -> Drv_c16.run stdin stdout
  | [| _; "c08" |] -> Drv_c08.run stdin stdout
  | [| _; "c09" |] -> Drv_c09.run stdin stdout
  | _ -> prerr_endline "usage: driver <model>  (script on stdin)"; exit 2
