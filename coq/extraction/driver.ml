let () =
  match Sys.argv with
  | [| _; "c16" |] -> Drv_c16.run stdin stdout
  | [| _; "c08" |] -> Drv_c08.run stdin stdout
  | [| _; "c09" |] -> Drv_c09.run stdin stdout
  | [| _; "c15" |] -> Drv_c15.run stdin stdout
  | [| _; "c17" |] -> Drv_c17.run stdin stdout
  | [| _; "c10" |] -> Drv_c10.run stdin stdout
  | [| _; "c12" |] -> Drv_c12.run stdin stdout
  | [| _; "c11" |] -> Drv_c11.run stdin stdout
  | [| _; "c13" |] -> Drv_c13.run stdin stdout
  | [| _; "ledger" |] -> Drv_ledger.run stdin stdout
  | [| _; "c14" |] -> Drv_c14.run stdin stdout
  | [| _; "c05" |] -> Drv_c05.run stdin stdout
  | [| _; "c18" |] -> Drv_c18.run stdin stdout
  | [| _; "c06" |] -> Drv_c06.run stdin stdout
  | [| _; "c07" |] -> Drv_c07.run stdin stdout
  | _ -> prerr_endline "usage: driver <model>  (script on stdin)"; exit 2
