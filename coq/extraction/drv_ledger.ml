module List = Stdlib.List
module String = Stdlib.String
module Option = Stdlib.Option
module Array = Stdlib.Array
module Bytes = Stdlib.Bytes
module Char = Stdlib.Char
module Buffer = Stdlib.Buffer
module Printf = Stdlib.Printf
module Hashtbl = Stdlib.Hashtbl
(* Ledger model driver (C01..C04).  Input: the op script of the sequencer harness
   (crates/astria-sequencer/src/app/verif.rs + verif_ledger.rs) in which, after the first `dump`
   of every case, the implementation's dump lines are inserted as `init <line>` (terminated by
   `init end`): the model state is seeded from that dump and every later observation is the
   model's own.  Output: the observation lines in the harness' format, minus the fields the model
   does not have (tx `len=`, `apphash=`, `vupdates=`, `rawhash`). *)
open Util
open LedgerModel

let n_of_int (i : int) : BinNums.coq_N = n_of_string (string_of_int i)
let int_of_n (n : BinNums.coq_N) : int = int_of_string (string_of_n n)
let n0 = n_of_int 0
let neq a b = BinNat.N.eqb a b

let accounts = 16
let asset_table = [| "nria"; "transfer/channel-0/utia"; "transfer/channel-1/uosmo"; "ugly" |]
let asset_hash = Array.map (fun d -> Sha256.hex (Sha256.digest d)) asset_table
let dump_channels = 3
let kinds = [| KTransfer; KRollup; KIcs20; KInitBridge; KLock; KUnlock; KBTransfer; KBSudo;
               KIbcRelay; KValUpdate; KFeeAsset; KFeeChange; KRelayer; KSudoChange; KIbcSudo;
               KRecover; KPairs; KMarkets |]
let kind_names = [| "transfer"; "rollup"; "ics20w"; "initbridge"; "lock"; "unlock"; "btransfer";
                    "bsudo"; "ibcrelay"; "valupdate"; "feeasset"; "feechange"; "relayer";
                    "sudochange"; "ibcsudo"; "recover"; "pairs"; "markets" |]
let kind_of_name (s : string) : kind =
  let r = ref None in
  Array.iteri (fun i n -> if n = s then r := Some kinds.(i)) kind_names;
  match !r with Some k -> k | None -> failwith ("unknown fee kind " ^ s)
let kind_name (k : kind) : string = kind_names.(int_of_n (kind_index k))

let rec class_name = function
  | ENonce -> "nonce" | EAuth -> "auth" | EOverflow -> "overflow" | EDisabled -> "disabled"
  | EExists -> "exists" | EMissing -> "missing" | EFeeAsset -> "feeasset" | EFunds -> "funds"
  | EPrefix -> "prefix" | EBridge -> "bridge" | EDecode -> "decode" | EChainId -> "chainid"
  | EOther -> "other"
  | ENonFatal e -> class_name e
(* AbciErrorCode::TRANSACTION_FAILED_EXECUTION: the result code of a tx that failed non-fatally *)
let nonfatal_code = 10

(* ---- naming of entities ---- *)
let strip_prefix (p : string) (s : string) : string option =
  let pl = String.length p in
  if String.length s >= pl && String.sub s 0 pl = p then Some (String.sub s pl (String.length s - pl))
  else None

let index_of (p : string) (s : string) : int =
  match strip_prefix p s with
  | Some d -> (try int_of_string d with _ -> failwith ("bad name " ^ s))
  | None -> failwith ("bad name " ^ s)

let acct (s : string) : BinNums.coq_N = n_of_int (index_of "a" s)
let opt_acct (s : string) : BinNums.coq_N option = if s = "-" then None else Some (acct s)
let rollup_of (s : string) : BinNums.coq_N = n_of_int (index_of "r" s)
let chan_of (s : string) : BinNums.coq_N = n_of_int (index_of "channel-" s)

(* asset token -> (id, is trace-prefixed form, display length, leading channel of the trace) *)
let asset_info (s : string) : BinNums.coq_N * bool * int * int option =
  match strip_prefix "ibc/" s with
  | Some h ->
    let h = String.lowercase_ascii h in
    let r = ref None in
    Array.iteri (fun i x -> if x = h then r := Some i) asset_hash;
    (match !r with
     | Some i -> (n_of_int i, false, 68, None)
     | None -> failwith ("unknown ibc asset " ^ s))
  | None ->
    let i = index_of "s" s in
    if i < 0 || i > 3 then failwith ("unknown asset " ^ s);
    let lead = match i with 1 -> Some 0 | 2 -> Some 1 | _ -> None in
    (n_of_int i, true, String.length asset_table.(i), lead)
let asset_id (s : string) : BinNums.coq_N = let (i, _, _, _) = asset_info s in i

(* interning of free-form strings (event ids, destination addresses) *)
let evid_tbl : (string, int) Hashtbl.t = Hashtbl.create 64
let evid_names : string list ref = ref []
let evid_of (s : string) : BinNums.coq_N =
  match Hashtbl.find_opt evid_tbl s with
  | Some i -> n_of_int i
  | None ->
    let i = Hashtbl.length evid_tbl in
    Hashtbl.add evid_tbl s i; evid_names := s :: !evid_names; n_of_int i
let dest_tbl : (string, int) Hashtbl.t = Hashtbl.create 64
let dest_rev : (int, string) Hashtbl.t = Hashtbl.create 64
let dest_of (s : string) : BinNums.coq_N =
  match Hashtbl.find_opt dest_tbl s with
  | Some i -> n_of_int i
  | None ->
    let i = Hashtbl.length dest_tbl in
    Hashtbl.add dest_tbl s i; Hashtbl.add dest_rev i s; n_of_int i
let dest_name (n : BinNums.coq_N) : string =
  match Hashtbl.find_opt dest_rev (int_of_n n) with
  | Some "" -> "-" | Some s -> s | None -> "?"

(* transactions: script id -> (content, tx option); content -> last id defined with it *)
let tx_content : (string, string) Hashtbl.t = Hashtbl.create 256
let tx_defs : (string, tx) Hashtbl.t = Hashtbl.create 256
let content_id : (string, int) Hashtbl.t = Hashtbl.create 256
let content_name : (int, string) Hashtbl.t = Hashtbl.create 256
let txid_name (n : BinNums.coq_N) : string =
  match Hashtbl.find_opt content_name (int_of_n n) with Some s -> s | None -> "?"

(* ---- parsing of actions ---- *)
let kv_opt (toks : string list) (k : string) : string option =
  try Some (kv toks k) with Failure _ -> None
let kv_some (toks : string list) (k : string) : string option =
  match kv_opt toks k with Some "-" -> None | x -> x
let num toks k = n_of_string (kv toks k)
let slen (s : string) = n_of_int (String.length s)

let parse_action (toks : string list) : action =
  match toks with
  | [] -> failwith "empty action"
  | name :: rest ->
    let fa () = asset_id (kv rest "fee") in
    (match name with
     | "transfer" ->
       ATransfer (acct (kv rest "to"), num rest "amt", asset_id (kv rest "asset"), fa ())
     | "lock" ->
       let (a, trace, len, _) = asset_info (kv rest "asset") in
       let dest = kv rest "dest" in
       ALock (acct (kv rest "to"), num rest "amt", a, not trace, n_of_int len, fa (),
              dest_of dest, slen dest)
     | "unlock" ->
       let ev = kv rest "evid" in
       let memo = match kv_some rest "memo" with Some m -> m | None -> "" in
       AUnlock (acct (kv rest "to"), num rest "amt", fa (), acct (kv rest "bridge"), slen memo,
                num rest "blk", evid_of ev, slen ev)
     | "btransfer" ->
       let ev = kv rest "evid" in
       let dest = kv rest "dest" in
       ABTransfer (acct (kv rest "to"), num rest "amt", fa (), dest_of dest, slen dest,
                   acct (kv rest "bridge"), num rest "blk", evid_of ev, slen ev)
     | "initbridge" ->
       AInitBridge (rollup_of (kv rest "rollup"), asset_id (kv rest "asset"), fa (),
                    opt_acct (match kv_opt rest "sudo" with Some x -> x | None -> "-"),
                    opt_acct (match kv_opt rest "withdrawer" with Some x -> x | None -> "-"))
     | "bsudo" ->
       let dis = match kv_opt rest "disable" with Some "1" -> true | _ -> false in
       ABSudo (acct (kv rest "bridge"),
               opt_acct (match kv_opt rest "newsudo" with Some x -> x | None -> "-"),
               opt_acct (match kv_opt rest "newwithdrawer" with Some x -> x | None -> "-"),
               fa (), dis)
     | "ics20w" ->
       let (a, trace, _, lead) = asset_info (kv rest "denom") in
       let c = kv rest "chan" in
       let ci = index_of "channel-" c in
       let is_source = trace && (match lead with Some l -> l <> ci | None -> true) in
       let bridge = opt_acct (match kv_opt rest "bridge" with Some x -> x | None -> "-") in
       let memo = match kv_some rest "evid" with
         | Some ev ->
           let blk = match kv_some rest "blk" with Some b -> n_of_string b | None -> n0 in
           let rret = match kv_some rest "rret" with Some r -> r | None -> "rollupret" in
           MemoRollup (blk, evid_of ev, slen ev, slen rret)
         | None -> MemoBad in
       AIcs20 (num rest "amt", a, is_source, n_of_int ci, fa (), bridge, memo)
     | "rollup" -> ARollup (rollup_of (kv rest "id"), num rest "len", fa ())
     | "feechange" -> AFeeChange (kind_of_name (kv rest "kind"), num rest "base", num rest "mult")
     | "feeasset" ->
       (match kv_opt rest "add" with
        | Some a -> AFeeAsset (true, asset_id a)
        | None -> AFeeAsset (false, asset_id (kv rest "remove")))
     | "sudochange" -> ASudoChange (acct (kv rest "to"))
     | "ibcsudo" -> AIbcSudo (acct (kv rest "to"))
     | "relayer" ->
       (match kv_opt rest "add" with
        | Some a -> ARelayer (true, acct a)
        | None -> ARelayer (false, acct (kv rest "remove")))
     | "valupdate" -> AValUpdate (acct (kv rest "key"), num rest "power")
     | "ibcrelay" -> AIbcRelayFailing (num rest "bad")
     | other -> failwith ("unknown action " ^ other))

let split_actions (toks : string list) : string list list =
  let rec go cur acc = function
    | [] -> List.rev (if cur = [] then acc else List.rev cur :: acc)
    | ";" :: r -> go [] (if cur = [] then acc else List.rev cur :: acc) r
    | t :: r -> go (t :: cur) acc r in
  go [] [] toks

let group_name (g : BinNums.coq_N) : string =
  match int_of_n g with
  | 1 -> "UnbundleableSudo" | 2 -> "BundleableSudo" | 3 -> "UnbundleableGeneral"
  | _ -> "BundleableGeneral"

(* ---- chain state held by the driver ---- *)
let committed : state option ref = ref None
let working : state option ref = ref None          (* Some: inside a manual block *)
let height = ref 0
let bb_height = ref 3
let pre_channels : int list ref = ref []
let last_block_deposits : deposit list ref = ref []

let cur () : state =
  match !working, !committed with
  | Some s, _ -> s
  | None, Some s -> s
  | None, None -> failwith "no state (missing init dump)"
let set_cur (s : state) : unit =
  match !working with Some _ -> working := Some s | None -> committed := Some s

let empty_state () : state =
  { bal = (fun _ _ -> n0); nonce = (fun _ -> n0); escrow = (fun _ _ -> n0);
    bridge = (fun _ -> None); wevent = (fun _ _ -> None); sudo = n0; ibc_sudo = n0;
    relayer = (fun _ -> false); fees = (fun _ -> None); fee_assets = [];
    known_assets = (fun a -> neq a n0); channels = (fun _ -> false);
    validators = (fun _ -> None); valcount = n0; block_fees = []; deposits = [];
    blackburn = false; height = n0 }

(* ---- printing ---- *)
let out_buf = Buffer.create 65536
let emit (s : string) = Buffer.add_string out_buf s; Buffer.add_char out_buf '\n'

let show_opt_acct = function Some x -> "a" ^ string_of_n x | None -> "-"

let show_deposit (d : deposit) : string =
  Printf.sprintf "rollup=r%s bridge=a%s asset=s%s amount=%s dest=%s srctx=%s idx=%s"
    (string_of_n d.d_rollup) (string_of_n d.d_bridge) (string_of_n d.d_asset)
    (string_of_n d.d_amount) (dest_name d.d_dest) (txid_name d.d_tx) (string_of_n d.d_idx)

(* deposits grouped by rollup (numeric order), insertion order within a rollup *)
let by_rollup (ds : deposit list) : deposit list =
  let keyed = List.mapi (fun i d -> (int_of_n d.d_rollup, i, d)) ds in
  List.map (fun (_, _, d) -> d) (List.sort (fun (a, i, _) (b, j, _) -> compare (a, i) (b, j)) keyed)

let dump (s : state) : unit =
  emit "dump begin";
  for a = 0 to accounts - 1 do
    for k = 0 to 3 do
      let v = s.bal (n_of_int a) (n_of_int k) in
      if not (neq v n0) then emit (Printf.sprintf "bal a%d s%d %s" a k (string_of_n v))
    done
  done;
  for a = 0 to accounts - 1 do
    let v = s.nonce (n_of_int a) in
    if not (neq v n0) then emit (Printf.sprintf "nonce a%d %s" a (string_of_n v))
  done;
  for c = 0 to dump_channels - 1 do
    for k = 0 to 3 do
      let v = s.escrow (n_of_int c) (n_of_int k) in
      if not (neq v n0) then emit (Printf.sprintf "escrow channel-%d s%d %s" c k (string_of_n v))
    done
  done;
  let bridges = ref [] in
  for a = 0 to accounts - 1 do
    match s.bridge (n_of_int a) with
    | None -> ()
    | Some br ->
      bridges := a :: !bridges;
      emit (Printf.sprintf "bridge a%d rollup=r%s asset=s%s sudo=%s withdrawer=%s disabled=%s lasttx=%s"
              a (string_of_n br.br_rollup) (string_of_n br.br_asset) (show_opt_acct br.br_sudo)
              (show_opt_acct br.br_withdrawer)
              (match br.br_disabled with Some true -> "1" | Some false -> "0" | None -> "-")
              (match br.br_lasttx with Some t -> txid_name t | None -> "-"))
  done;
  let evs = List.sort compare !evid_names in
  List.iter (fun a ->
      List.iter (fun ev ->
          match s.wevent (n_of_int a) (evid_of ev) with
          | Some blk -> emit (Printf.sprintf "wevent a%d %s %s" a ev (string_of_n blk))
          | None -> ()) evs)
    (List.rev !bridges);
  emit ("sudo a" ^ string_of_n s.sudo);
  emit ("ibcsudo a" ^ string_of_n s.ibc_sudo);
  for a = 0 to accounts - 1 do
    if s.relayer (n_of_int a) then emit (Printf.sprintf "relayer a%d" a)
  done;
  Array.iteri (fun i k ->
      match s.fees k with
      | Some (b, m) -> emit (Printf.sprintf "fee %s %s %s" kind_names.(i) (string_of_n b) (string_of_n m))
      | None -> emit (Printf.sprintf "fee %s none" kind_names.(i))) kinds;
  List.iter (fun k -> emit (Printf.sprintf "feeasset s%d" k))
    (List.sort_uniq compare (List.map int_of_n s.fee_assets));
  for a = 0 to accounts - 1 do
    match s.validators (n_of_int a) with
    | Some p -> emit (Printf.sprintf "validator a%d power=%s" a (string_of_n p))
    | None -> ()
  done;
  emit ("valcount " ^ string_of_n s.valcount);
  for k = 0 to 3 do
    let v = bf_total s.block_fees (n_of_int k) in
    if not (neq v n0) then emit (Printf.sprintf "blockfees s%d %s" k (string_of_n v))
  done;
  let counts = Hashtbl.create 8 in
  List.iter (fun d ->
      let r = int_of_n d.d_rollup in
      Hashtbl.replace counts r (1 + (match Hashtbl.find_opt counts r with Some c -> c | None -> 0)))
    s.deposits;
  List.iter (fun (r, c) -> emit (Printf.sprintf "deposits r%d %d" r c))
    (List.sort compare (Hashtbl.fold (fun r c acc -> (r, c) :: acc) counts []));
  emit "dump end"

(* ---- init from the implementation's first dump ---- *)
let init_state (lines : string list list) : state =
  let s = ref (empty_state ()) in
  List.iter (fun ch -> s := op_ibcchan !s (n_of_int ch)) !pre_channels;
  let fee_assets = ref [] in
  List.iter (fun toks ->
      match toks with
      | ["bal"; a; k; v] ->
        let st = !s in
        s := set_bal st (upd2 st.bal (acct a) (asset_id k) (n_of_string v))
      | ["nonce"; a; v] -> let st = !s in s := set_nonce st (upd1 st.nonce (acct a) (n_of_string v))
      | ["escrow"; c; k; v] ->
        let st = !s in
        s := set_escrow st (upd2 st.escrow (chan_of c) (asset_id k) (n_of_string v))
      | "bridge" :: a :: rest ->
        let oa k = opt_acct (kv rest k) in
        let br = { br_rollup = rollup_of (kv rest "rollup"); br_asset = asset_id (kv rest "asset");
                   br_sudo = oa "sudo"; br_withdrawer = oa "withdrawer";
                   br_disabled = (match kv rest "disabled" with "1" -> Some true | "0" -> Some false | _ -> None);
                   br_lasttx = None } in
        if kv rest "lasttx" <> "-" then failwith "init dump with a bridge lasttx is not supported";
        s := put_bridge !s (acct a) br
      | ["wevent"; a; ev; blk] -> s := put_wevent !s (acct a) (evid_of ev) (n_of_string blk)
      | ["sudo"; a] -> s := set_sudo !s (acct a)
      | ["ibcsudo"; a] -> s := set_ibc_sudo !s (acct a)
      | ["relayer"; a] -> let st = !s in s := set_relayer st (upd1 st.relayer (acct a) true)
      | ["fee"; k; "none"] -> ignore k
      | ["fee"; k; b; m] ->
        let st = !s in
        s := set_fees st (updk st.fees (kind_of_name k) (Some (n_of_string b, n_of_string m)))
      | ["feeasset"; k] -> fee_assets := asset_id k :: !fee_assets
      | ["validator"; a; p] ->
        let st = !s in
        let p = match strip_prefix "power=" p with Some x -> n_of_string x | None -> failwith "bad validator line" in
        s := set_validators st (upd1 st.validators (acct a) (Some p)) st.valcount
      | ["valcount"; "-"] -> failwith "pre-Aspen state is not modelled"
      | ["valcount"; c] -> let st = !s in s := set_validators st st.validators (n_of_string c)
      | "blockfees" :: _ | "deposits" :: _ -> failwith "init dump inside a block is not supported"
      | "rawhash" :: _ | ["dump"; _] -> ()
      | t :: _ -> failwith ("unknown init line " ^ t)
      | [] -> ()) lines;
  let st = set_fee_assets !s (List.rev !fee_assets) in
  let bb = !bb_height <> 0 && !bb_height <= !height in
  set_round st bb (n_of_int !height)

(* ---- ops ---- *)
let abandon () = working := None

let construct_line (what : string) (id : string) (s : state) (t : tx) : (checked_tx, string) Stdlib.result =
  match construct_tx s t with
  | LedgerModel.Ok c -> Stdlib.Ok c
  | LedgerModel.Err e ->
    let classes =
      if BinNat.N.ltb t.tx_nonce (s.nonce t.tx_signer) then [ENonce]
      else construct_action_errors s t.tx_signer t.tx_actions in
    let classes = if classes = [] then [e] else classes in
    let names = List.sort_uniq compare (List.map class_name classes) in
    Stdlib.Error (Printf.sprintf "%s %s constructerr=%s" what id (String.concat "|" names))

let exec_lines (id : string) (s : state) (c : checked_tx) : state * bool =
  let before = List.length s.deposits in
  match exec_tx s c with
  | (s', OutOk evs) ->
    let newdeps = List.filteri (fun i _ -> i >= before) s'.deposits in
    emit (Printf.sprintf "exec %s ok fees=%d depevents=%d" id (List.length evs) (List.length newdeps));
    List.iter (fun e ->
        emit (Printf.sprintf "fee %s pos=%s kind=%s asset=s%s amount=%s" id (string_of_n e.fe_pos)
                (kind_name e.fe_kind) (string_of_n e.fe_asset) (string_of_n e.fe_amount))) evs;
    List.iter (fun d -> emit (Printf.sprintf "dep %s %s" id (show_deposit d))) (by_rollup newdeps);
    (s', true)
  | (s', OutErr e) ->
    emit (Printf.sprintf "exec %s err=%s unchanged=true%s" id (class_name e)
            (if is_nonfatal e then " included=1" else ""));
    (s', false)

let define_tx (id : string) (signer : string) (nonce : string) (rest : string list) : unit =
  let actions = List.map parse_action (split_actions rest) in
  match build_group actions with
  | None -> emit (Printf.sprintf "tx %s builderr" id)
  | Some g ->
    let content = String.concat " " (signer :: nonce :: rest) in
    let cid = match Hashtbl.find_opt content_id content with
      | Some c -> c
      | None -> let c = Hashtbl.length content_id in Hashtbl.add content_id content c; c in
    (match Hashtbl.find_opt tx_content id with
     | Some old ->
       (match Hashtbl.find_opt content_id old with
        | Some oc -> Hashtbl.remove content_name oc
        | None -> ())
     | None -> ());
    Hashtbl.replace tx_content id content;
    Hashtbl.replace content_name cid id;
    Hashtbl.replace tx_defs id
      { tx_id = n_of_int cid; tx_signer = acct signer; tx_nonce = n_of_string nonce;
        tx_actions = actions };
    emit (Printf.sprintf "tx %s group=%s" id (group_name g))

let run ic oc =
  let lines = Array.of_list (read_lines ic) in
  let n = Array.length lines in
  let i = ref 0 in
  while !i < n do
    let line = lines.(!i) in
    incr i;
    (match split_ws line with
     | [] -> ()
     | "case" :: _ ->
       committed := None; working := None; height := 0; bb_height := 3; pre_channels := [];
       last_block_deposits := [];
       emit (String.trim line)
     | "genesis" :: rest ->
       committed := None; working := None; height := 0; pre_channels := [];
       bb_height := (match kv_opt rest "blackburn" with Some h -> int_of_string h | None -> 3);
       (match kv_opt rest "aspen" with
        | Some "1" | None -> ()
        | Some _ -> failwith "only aspen=1 is modelled");
       emit "genesis ok"
     | "advance" :: rest ->
       let k = match rest with [] -> 1 | x :: _ -> int_of_string x in
       abandon ();
       height := !height + k;
       (match !committed with
        | Some s ->
          committed := Some (begin_block s (n_of_int !bb_height) (n_of_int !height));
          last_block_deposits := []
        | None -> ());
       emit (Printf.sprintf "advance height=%d" !height)
     | ["ibcchan"; c] ->
       if !height = 0 then emit "ibcchan err=height0"
       else begin
         (match !committed with
          | None -> pre_channels := index_of "channel-" c :: !pre_channels
          | Some _ -> set_cur (op_ibcchan (cur ()) (chan_of c)));
         emit "ibcchan ok"
       end
     | ["mint"; a; k; v] ->
       let (ai, trace, _, _) = asset_info k in
       set_cur (op_mint (cur ()) (acct a) ai (n_of_string v) trace);
       emit "mint ok"
     | ["setnonce"; a; v] ->
       set_cur (op_setnonce (cur ()) (acct a) (n_of_string v));
       emit "setnonce ok"
     | ["allowfee"; k] ->
       let (ai, trace, _, _) = asset_info k in
       set_cur (op_allowfee (cur ()) ai trace);
       emit "allowfee ok"
     | ["escrow"; c; k; v] ->
       let (ai, trace, _, _) = asset_info k in
       set_cur (op_escrow (cur ()) (chan_of c) ai (n_of_string v) trace);
       emit "escrow ok"
     | "tx" :: id :: signer :: nonce :: rest -> define_tx id signer nonce rest
     | "txr" :: id :: signer :: delta :: rest ->
       let cur_nonce = int_of_n ((cur ()).nonce (acct signer)) in
       let d = int_of_string (match strip_prefix "+" delta with Some x -> x | None -> delta) in
       let nn = max 0 (min 4294967295 (cur_nonce + d)) in
       emit (Printf.sprintf "nonce %s %d" id nn);
       define_tx id signer (string_of_int nn) rest
     | "dump" :: _ ->
       (match !committed with
        | None ->
          (* the implementation's dump follows as `init` lines *)
          let acc = ref [] in
          let fin = ref false in
          while not !fin && !i < n do
            (match split_ws lines.(!i) with
             | ["init"; "end"] -> fin := true
             | "init" :: toks -> acc := toks :: !acc
             | _ -> failwith "expected init lines after the first dump");
            incr i
          done;
          committed := Some (init_state (List.rev !acc))
        | Some _ -> ());
       dump (cur ())
     | "block" :: ids ->
       abandon ();
       let s = (match !committed with Some s -> s | None -> failwith "block before init") in
       let h = !height + 1 in
       (* construction against the committed state *)
       let entries = List.map (fun id ->
           match Hashtbl.find_opt tx_defs id with
           | None -> (id, `Unknown)
           | Some t ->
             (match construct_line "txres" id s t with
              | Stdlib.Ok c -> (id, `Checked c)
              | Stdlib.Error l -> (id, `Line l))) ids in
       let s1 = begin_block s (n_of_int !bb_height) (n_of_int h) in
       let st = ref s1 in
       let results = List.map (fun (id, e) ->
           match e with
           | `Unknown -> (Printf.sprintf "txres %s unknown" id, true)
           | `Line l -> (l, true)
           | `Checked c ->
             (match exec_tx !st c with
              | (s', OutOk _) -> st := s'; (Printf.sprintf "txres %s code=0" id, false)
              | (_, OutErr e) when is_nonfatal e ->
                (Printf.sprintf "txres %s code=%d" id nonfatal_code, false)
              | (_, OutErr e) -> (Printf.sprintf "txres %s dropped=%s" id (class_name e), false)))
           entries in
       (match end_block !st with
        | LedgerModel.Ok (s', ds) ->
          List.iter (fun (l, _) -> emit l) results;
          committed := Some s'; height := h; last_block_deposits := ds;
          emit (Printf.sprintf "block height=%d" h)
        | LedgerModel.Err e ->
          List.iter (fun (l, early) -> if early then emit l) results;
          emit (Printf.sprintf "block err=%s" (class_name e)))
     | ["begin"] ->
       (match !working with
        | Some _ -> emit "begin err=inblock"
        | None ->
          let s = (match !committed with Some s -> s | None -> failwith "begin before init") in
          let h = !height + 1 in
          working := Some (begin_block s (n_of_int !bb_height) (n_of_int h));
          emit (Printf.sprintf "begin height=%d" h))
     | ["exec"; id] ->
       (match !working with
        | None -> emit (Printf.sprintf "exec %s err=noblock" id)
        | Some s ->
          (match Hashtbl.find_opt tx_defs id with
           | None -> emit (Printf.sprintf "exec %s unknown" id)
           | Some t ->
             (match construct_line "exec" id s t with
              | Stdlib.Error l -> emit l
              | Stdlib.Ok c ->
                let (s', _) = exec_lines id s c in
                working := Some s')))
     | ["end"] ->
       (match !working with
        | None -> emit "end err=noblock"
        | Some s ->
          working := None;
          (match end_block s with
           | LedgerModel.Ok (s', ds) ->
             height := !height + 1;
             committed := Some s'; last_block_deposits := ds;
             emit (Printf.sprintf "end height=%d" !height)
           | LedgerModel.Err e -> emit (Printf.sprintf "end err=%s" (class_name e))))
     | ["deposits"] ->
       let ds = by_rollup (cur ()).deposits in
       emit (Printf.sprintf "deposits n=%d" (List.length ds));
       List.iter (fun d -> emit ("cdep " ^ show_deposit d)) ds
     | ["bdeposits"] ->
       let ds = by_rollup !last_block_deposits in
       emit (Printf.sprintf "bdeposits height=%d n=%d" !height (List.length ds));
       List.iter (fun d -> emit ("bdep " ^ show_deposit d)) ds
     | t :: _ -> failwith ("unknown op " ^ t))
  done;
  output_string oc (Buffer.contents out_buf)
