module List = Stdlib.List
module String = Stdlib.String
module Option = Stdlib.Option
module Array = Stdlib.Array
module Bytes = Stdlib.Bytes
module Char = Stdlib.Char
module Buffer = Stdlib.Buffer
module Printf = Stdlib.Printf
(* C08 model driver: same op script as the Rust harness (crates/astria-merkle/src/verif.rs);
   the abstract hash of the model is instantiated with real SHA-256. *)
open Util
open MerkleModel

let nodeH = Sha256.node_hash
let emptyH = Sha256.empty_hash
let zeroD = Sha256.zero32
let eqD (a : string) (b : string) = String.equal a b

let son = function Some n -> string_of_n n | None -> "panic"
let leaf seed k = Printf.sprintf "L%s:%d" seed k

(* split a byte string into 32-byte segments + number of trailing bytes *)
let segments (s : string) : string list * int =
  let n = String.length s / 32 in
  (List.init n (fun i -> String.sub s (32 * i) 32), String.length s mod 32)

let run ic oc =
  let tree = ref [] in
  List.iter (fun line ->
    match split_ws line with
    | [] -> ()
    | "case" :: _ -> Printf.fprintf oc "%s\n" line
    | [ "tree"; n; seed ] ->
        let n = int_of_string n in
        let rec go t k = if k >= n then Some t else
            match push nodeH zeroD t (Sha256.leaf_hash (leaf seed k)) with
            | Some t' -> go t' (k + 1) | None -> None in
        (match go [] 0 with
         | Some t -> tree := t; Printf.fprintf oc "tree len=%d\n" (List.length t)
         | None -> Printf.fprintf oc "tree panic\n")
    | [ "root" ] ->
        (match root emptyH !tree with
         | Some r -> Printf.fprintf oc "root %s\n" (Sha256.hex r)
         | None -> Printf.fprintf oc "root panic\n")
    | [ "proof"; i ] ->
        (match construct_proof !tree (n_of_string i) with
         | None -> Printf.fprintf oc "proof panic\n"
         | Some None -> Printf.fprintf oc "proof none\n"
         | Some (Some p) ->
             Printf.fprintf oc "proof idx=%s size=%s path=%s\n" (string_of_n p.leaf_index)
               (string_of_n p.tree_size)
               (if p.audit_path = [] then "-" else String.concat "," (List.map Sha256.hex p.audit_path)))
    | [ "verify"; path; idx; size; lf; rt ] ->
        let (segs, extra) = segments (Sha256.unhex path) in
        let lh = Sha256.leaf_hash (Sha256.unhex lf) in
        (match try_into_proof segs (n_of_string (string_of_int extra)) (n_of_string idx) (n_of_string size) with
         | DZeroTreeSize -> Printf.fprintf oc "verify err=zero\n"
         | DLeafIndexOutsideTree -> Printf.fprintf oc "verify err=outside\n"
         | DNotMultipleOf32 -> Printf.fprintf oc "verify err=notmult\n"
         | DOk p ->
             (match verify nodeH eqD p lh (Sha256.unhex rt), reconstruct_root nodeH p lh with
              | Some b, Some r -> Printf.fprintf oc "verify ok=%b rec=%s\n" b (Sha256.hex r)
              | _ -> Printf.fprintf oc "verify panic\n"))
    | "idx" :: f :: args ->
        let a = Array.of_list (List.map n_of_string args) in
        let pair = function Some (x, y) -> Printf.sprintf "(%s,%s)" (string_of_n x) (string_of_n y) | None -> "panic" in
        let r = (match f with
          | "last_set_bit" -> son (last_set_bit a.(0))
          | "last_zero_bit" -> son (last_zero_bit a.(0))
          | "perfect_parent" -> son (perfect_parent a.(0))
          | "perfect_left_child" -> son (perfect_left_child a.(0))
          | "perfect_right_child" -> son (perfect_right_child a.(0))
          | "complete_root" -> son (complete_root a.(0))
          | "complete_parent" -> son (complete_parent a.(0) a.(1))
          | "checked_complete_parent" ->
              (match checked_complete_parent a.(0) a.(1) with
               | None -> "panic" | Some None -> "None" | Some (Some p) -> "Some(" ^ string_of_n p ^ ")")
          | "complete_right_child" -> son (complete_right_child a.(0) a.(1))
          | "complete_parent_and_sibling" -> pair (complete_parent_and_sibling a.(0) a.(1))
          | "is_perfect" -> (match is_perfect a.(0) with Some b -> string_of_bool b | None -> "panic")
          | "is_leaf_index_in_tree" -> string_of_bool (is_leaf_index_in_tree a.(0) a.(1))
          | _ -> failwith ("unknown fn " ^ f)) in
        Printf.fprintf oc "idx %s %s\n" f r
    | t :: _ -> failwith ("unknown op " ^ t)) (read_lines ic)
