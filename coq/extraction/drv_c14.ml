module List = Stdlib.List
module String = Stdlib.String
module Option = Stdlib.Option
module Array = Stdlib.Array
module Bytes = Stdlib.Bytes
module Char = Stdlib.Char
module Buffer = Stdlib.Buffer
module Printf = Stdlib.Printf
module Hashtbl = Stdlib.Hashtbl
(* C14 model driver.  Input: the op script of harness/c14.py, where every `propose` line carries
   the mempool's builder queue as observed on the implementation (`propose <id,id,...|->`): the
   mempool is not part of this model.  Output: the model's observation lines in the format of
   canon(implementation lines). *)
open Util
module V = ValidatorsModel

let idx (tok : string) : BinNums.coq_N =
  (* a<k> / n<k> -> k ; "-" -> 0 *)
  if tok = "-" || tok = "" then n_of_string "0"
  else n_of_string (String.sub tok 1 (String.length tok - 1))

let kv_opt (toks : string list) (k : string) : string option =
  let p = k ^ "=" in
  let pl = String.length p in
  match List.find_opt (fun t -> String.length t >= pl && String.sub t 0 pl = p) toks with
  | Some t -> Some (String.sub t pl (String.length t - pl))
  | None -> None

let split_on (c : char) (s : string) : string list =
  List.filter (fun x -> x <> "") (String.split_on_char c s)

let class_of (e : V.err) : string =
  match e with
  | V.ENonce -> "nonce" | V.EAuth -> "auth" | V.EMissing -> "missing"
  | V.EOnly -> "other" | V.ECount -> "other" | V.EOverflow -> "overflow"

let classes (es : V.err list) : string =
  String.concat "|" (List.sort_uniq compare (List.map class_of es))

let show_updates (b : (BinNums.coq_N * BinNums.coq_N) list) : string =
  if b = [] then "-"
  else String.concat "," (List.map (fun (k, p) -> "a" ^ string_of_n k ^ ":" ^ string_of_n p) b)

let show_name (n : BinNums.coq_N) : string =
  let s = string_of_n n in if s = "0" then "-" else "n" ^ s

let show_set (m : (BinNums.coq_N * (BinNums.coq_N * BinNums.coq_N)) list) : string =
  if m = [] then "-"
  else String.concat ","
      (List.map (fun (k, (p, n)) -> "a" ^ string_of_n k ^ ":" ^ string_of_n p ^ ":" ^ show_name n) m)

(* split a token list on the token ";" *)
let rec split_actions (toks : string list) : string list list =
  let rec go cur acc = function
    | [] -> List.rev (List.rev cur :: acc)
    | ";" :: r -> go [] (List.rev cur :: acc) r
    | t :: r -> go (t :: cur) acc r in
  List.filter (fun l -> l <> []) (go [] [] toks)

let parse_action (toks : string list) : V.action option =
  match toks with
  | "valupdate" :: rest ->
      (match kv_opt rest "key", kv_opt rest "power" with
       | Some k, Some p ->
           let name = match kv_opt rest "name" with Some n -> idx n | None -> n_of_string "0" in
           Some { V.a_key = idx k; V.a_power = n_of_string p; V.a_name = name }
       | _ -> None)
  | _ -> None

let run ic oc =
  let st : V.vstate option ref = ref None in
  let txs : (string, V.tx) Hashtbl.t = Hashtbl.create 64 in
  let block_line (s : V.vstate) (batch : (BinNums.coq_N * BinNums.coq_N) list) =
    Printf.fprintf oc "block height=%s vupdates=%s\n" (string_of_n s.V.st_height) (show_updates batch) in
  List.iter (fun line ->
    match split_ws line with
    | [] -> ()
    | t :: _ when String.length t > 0 && t.[0] = '#' -> ()
    | "case" :: _ ->
        st := None;
        Printf.fprintf oc "%s\n" (String.trim line)
    | "genesis" :: rest ->
        let vals = match kv_opt rest "vals" with
          | Some v -> List.map (fun e -> match String.split_on_char ':' e with
                                   | [k; p] -> (idx k, n_of_string p)
                                   | _ -> failwith ("bad vals entry " ^ e)) (split_on ',' v)
          | None -> List.map (fun k -> (n_of_string k, n_of_string "10")) ["0"; "1"; "2"] in
        let sudo = match kv_opt rest "sudo" with Some s -> idx s | None -> n_of_string "0" in
        let aspen = match kv_opt rest "aspen" with Some h -> n_of_string h | None -> n_of_string "1" in
        st := Some (V.genesis { V.g_vals = vals; V.g_sudo = sudo; V.g_aspen_h = aspen });
        Printf.fprintf oc "genesis ok\n"
    | "vdump" :: _ ->
        (match !st with
         | None -> Printf.fprintf oc "vdump parseerr\n"
         | Some s ->
             Printf.fprintf oc "vdump era=%s count=%s set=%s upd=%s\n"
               (if s.V.st_aspen then "post" else "pre")
               (match s.V.st_count with Some c -> string_of_n c | None -> "-")
               (show_set s.V.st_vals) (show_updates s.V.st_upds))
    | "tx" :: id :: signer :: nonce :: rest ->
        let acts = List.map parse_action (split_actions rest) in
        if acts = [] || List.exists (fun a -> a = None) acts then
          Printf.fprintf oc "tx %s parseerr\n" id
        else begin
          Hashtbl.replace txs id
            { V.t_signer = idx signer; V.t_nonce = n_of_string nonce; V.t_acts = List.map Option.get acts };
          Printf.fprintf oc "tx %s ok\n" id
        end
    | "block" :: ids ->
        (match !st with
         | None -> Printf.fprintf oc "block parseerr\n"
         | Some s ->
             let known = List.filter (fun id -> Hashtbl.mem txs id) ids in
             let b = { V.b_mode = V.Finalize; V.b_txs = List.map (Hashtbl.find txs) known } in
             let ((s', batch), rs) = V.run_block s b in
             let rs = ref rs in
             List.iter (fun id ->
               if not (Hashtbl.mem txs id) then Printf.fprintf oc "txres %s unknown\n" id
               else begin
                 (match !rs with
                  | V.ROk :: _ -> Printf.fprintf oc "txres %s code=0\n" id
                  | V.RConstructErr es :: _ -> Printf.fprintf oc "txres %s constructerr=%s\n" id (classes es)
                  | V.RFail e :: _ -> Printf.fprintf oc "txres %s dropped=%s\n" id (class_of e)
                  | [] -> failwith "result list too short");
                 rs := List.tl !rs
               end) ids;
             st := Some s';
             block_line s' batch)
    | "advance" :: rest ->
        (match !st with
         | None -> Printf.fprintf oc "advance parseerr\n"
         | Some s ->
             let n = match rest with c :: _ -> int_of_string c | [] -> 1 in
             let cur = ref s in
             for _ = 1 to n do
               let ((s', _), _) = V.run_block !cur { V.b_mode = V.Finalize; V.b_txs = [] } in
               cur := s'
             done;
             st := Some !cur;
             Printf.fprintf oc "advance height=%s\n" (string_of_n !cur.V.st_height))
    | "checktx" :: id :: _ ->
        (match !st, Hashtbl.find_opt txs id with
         | None, _ -> Printf.fprintf oc "checktx %s parseerr\n" id
         | _, None -> Printf.fprintf oc "checktx %s unknown\n" id
         | Some s, Some t ->
             (match V.construct_errs s t with
              | [] -> Printf.fprintf oc "checktx %s ok\n" id
              | es -> Printf.fprintf oc "checktx %s failed=%s\n" id (classes es)))
    | "propose" :: rest ->
        (match !st, rest with
         | None, _ -> Printf.fprintf oc "propose parseerr\n"
         | Some _, [] -> Printf.fprintf oc "propose noqueue\n"
         | Some s, q :: _ ->
             let ids = if q = "-" then [] else split_on ',' q in
             if List.exists (fun id -> not (Hashtbl.mem txs id)) ids then
               Printf.fprintf oc "propose unknownqueue\n"
             else begin
               let b = { V.b_mode = V.Propose; V.b_txs = List.map (Hashtbl.find txs) ids } in
               let ((s', batch), rs) = V.run_block s b in
               let included = List.filter_map (fun (id, r) -> if r = V.ROk then Some id else None)
                   (List.combine ids rs) in
               Printf.fprintf oc "queue %s\n" (if ids = [] then "-" else String.concat "," ids);
               Printf.fprintf oc "included %s\n" (if included = [] then "-" else String.concat "," included);
               st := Some s';
               block_line s' batch
             end)
    | "validate" :: _ -> ()
    | t :: _ -> Printf.fprintf oc "%s unsupported\n" t) (read_lines ic)
