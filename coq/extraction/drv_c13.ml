module List = Stdlib.List
module String = Stdlib.String
module Option = Stdlib.Option
module Array = Stdlib.Array
module Bytes = Stdlib.Bytes
module Char = Stdlib.Char
module Buffer = Stdlib.Buffer
module Printf = Stdlib.Printf
(* C13 model driver.  Input: the op script (same text the Rust harness reads).  Output: the
   model's observation lines in the harness's format: `<op> res=<class> | <dump>`. *)
open Util
open MempoolModel

let ios (n : BinNums.coq_N) : int = int_of_string (string_of_n n)

let reason_code = function
  | RExpired -> "exp" | RStale -> "stale" | RLower -> "lower" | RFail -> "fail"
  | RInternal -> "int" | RIncl h -> "incl" ^ string_of_n h

let ierr_code = function
  | EAlreadyPresent -> "already_present" | ENonceTooLow -> "nonce_too_low"
  | ENonceTaken -> "nonce_taken" | ENonceGap -> "nonce_gap"
  | EAccountSizeLimit -> "account_size_limit" | EBalanceTooLow -> "balance_too_low"
  | EParkedSizeLimit -> "parked_size_limit"

let status_code = function
  | None -> "N" | Some SPending -> "P" | Some SParked -> "K"
  | Some (SRemoved r) -> "R" ^ reason_code r

let costs_str (cs : (BinNums.coq_N * BinNums.coq_N) list) : string =
  let l = List.filter (fun (_, c) -> string_of_n c <> "0") cs in
  let l = List.sort (fun (a, _) (b, _) -> compare (ios a) (ios b)) l in
  if l = [] then "-"
  else String.concat "/" (List.map (fun (a, c) -> string_of_n a ^ ":" ^ string_of_n c) l)

let container_str (u : BinNums.coq_N list) (c : BinNums.coq_N -> entry list) : string =
  String.concat ","
    (List.concat_map (fun a ->
       List.map (fun e ->
         Printf.sprintf "%s.%s.%s.%s" (string_of_n a) (string_of_n (e_nonce e))
           (string_of_n (e_id e)) (costs_str e.e_costs)) (c a)) u)

let dump (s : sys) : string =
  let u = s.s_universe and p = s.s_pool in
  let ids = List.sort compare (List.map (fun t -> ios t.t_id) s.s_defs) in
  let nid i = n_of_string (string_of_int i) in
  let cont = List.sort compare (List.map ios p.p_contained) in
  let rc = List.sort compare (List.map (fun (k, r) -> (ios k, reason_code r)) p.p_rcache) in
  let rr = List.filter_map (fun i ->
             match assoc_get p.p_recent (nid i) with
             | Some h -> Some (Printf.sprintf "%d:%s" i (string_of_n h))
             | None -> None) ids in
  let pn = List.map (fun a -> match pending_nonce (p.p_pending a) with
                              | Some n -> string_of_n n | None -> "-") u in
  let st = List.map (fun i -> Printf.sprintf "%d:%s" i (status_code (tx_status u p (nid i)))) ids in
  Printf.sprintf "pend=%s park=%s cont=%s rc=%s rr=%s len=%d pn=%s st=%s q=%s"
    (container_str u p.p_pending) (container_str u p.p_parked)
    (String.concat "," (List.map string_of_int cont))
    (String.concat "," (List.map (fun (k, r) -> Printf.sprintf "%d:%s" k r) rc))
    (String.concat "," rr)
    (List.length p.p_contained)
    (String.concat "," pn) (String.concat "," st)
    (String.concat "," (List.map string_of_n (builder_queue u p)))

let out_str = function
  | OOk -> "ok" | OBad -> "bad" | OGroup g -> "group" ^ string_of_n g
  | ONonce n -> string_of_n n | OUndefined -> "undefined" | OSkip -> "skip"
  | OAlready SPending -> "already_pending" | OAlready SParked -> "already_parked"
  | OAlready (SRemoved _) -> "already_removed"
  | ORemoved r -> "removed:" ^ reason_code r
  | OFailedChecks -> "failedchecks"
  | OIns IPending -> "pending" | OIns IParked -> "parked"
  | OIns (IErr e) -> "err:" ^ ierr_code e
  | OMaint _ -> "ok"

let parse_op (toks : string list) : op =
  let n = n_of_string in
  match toks with
  | ["tx"; id; a; nonce; g; asset; amt; fa] ->
      OpTx { t_id = n id; t_acct = n a; t_nonce = n nonce; t_group = n g; t_asset = n asset;
             t_amount = n amt; t_fee_asset = n fa }
  | ["bump"; a; k] -> OpBump (n a, n k)
  | ["bal"; a; asset; v] -> OpBal (n a, n asset, n v)
  | ["fee"; ft; fi] -> OpFee (n ft, n fi)
  | ["ins"; id] -> OpIns (n id)
  | ["insd"; id] -> OpInsd (n id)
  | ["rm"; id] -> OpRm (n id)
  | "maint" :: rc :: h :: ids -> OpMaint (rc <> "0", n h, List.map n ids)
  | ["advance"; d] -> OpAdvance (n d)
  | _ -> failwith ("bad op: " ^ String.concat " " toks)

let run ic oc =
  let st = ref None in
  List.iter (fun line ->
    match split_ws line with
    | [] -> ()
    | ["case"; pmax; k; na] ->
        st := Some (init (n_of_string pmax) (n_of_string k) (n_of_string na));
        Printf.fprintf oc "case %s %s %s\n" pmax k na
    | toks ->
        let s = Option.get !st in
        let (s', o) = step s (parse_op toks) in
        st := Some s';
        let extra = (match o with
          | OMaint od -> Printf.sprintf " orderdep=%d" (if od then 1 else 0)
          | _ -> "") in
        Printf.fprintf oc "%s res=%s | %s%s\n" (String.concat " " toks) (out_str o) (dump s') extra)
    (read_lines ic)
