module List = Stdlib.List
module String = Stdlib.String
module Option = Stdlib.Option
module Array = Stdlib.Array
module Bytes = Stdlib.Bytes
module Char = Stdlib.Char
module Buffer = Stdlib.Buffer
module Printf = Stdlib.Printf
(* C15 model driver: reads the same case script as the Rust harness
   (crates/astria-sequencer/src/app/vote_extension/verif.rs) and prints the model's observation
   lines in the same format.  ed25519 is instantiated with the ideal scheme of OracleModel
   (a signature = signer key + signed message). *)
open Util
open OracleModel

let z_of_string (s : string) : BinNums.coq_Z =
  if String.length s > 0 && s.[0] = '-'
  then BinInt.Z.opp (BinInt.Z.of_N (n_of_string (String.sub s 1 (String.length s - 1))))
  else BinInt.Z.of_N (n_of_string s)

let string_of_z (z : BinNums.coq_Z) : string =
  match z with
  | BinNums.Zneg _ -> "-" ^ string_of_n (BinInt.Z.abs_N z)
  | _ -> string_of_n (BinInt.Z.abs_N z)

let n_of_int (i : int) = n_of_string (string_of_int i)
let chain = n_of_int 15

type case = {
  header : string; h : BinNums.coq_N; ecr : BinNums.coq_N; lcr : BinNums.coq_N;
  maxpairs : BinNums.coq_N;
  mutable vals : (BinNums.coq_N * BinNums.coq_N) list;
  mutable pairs : (BinNums.coq_N * (BinNums.coq_N * BinNums.coq_N)) list;
  mutable votes : string list list;
  mutable lc : lcvote list;
  mutable map : (BinNums.coq_N * (BinNums.coq_N * BinNums.coq_N)) list;
}

let flag_of = function
  | "absent" -> FAbsent | "commit" -> FCommit | "nil" -> FNil | "legacy" -> FLegacy
  | s -> failwith ("flag " ^ s)
let flag_letter = function FAbsent -> "a" | FCommit -> "c" | FNil -> "n" | FLegacy -> "l"

(* BTreeMap semantics: ascending ids, a later entry for the same id replaces the earlier *)
let ext_of (spec : string) : ext =
  match spec with
  | "-" -> XPrices []
  | "g" -> XGarbage
  | "u" -> XUnknown
  | _ ->
    let items = List.map (fun it ->
      match String.index_opt it ':' with
      | None -> failwith ("ext item " ^ it)
      | Some i ->
        let id = String.sub it 0 i and p = String.sub it (i + 1) (String.length it - i - 1) in
        let pb = if String.length p > 0 && p.[0] = 'L'
          then (let n = String.sub p 1 (String.length p - 1) in
                if n = "16" then failwith "L16 is not a malformed price";
                PLen (n_of_string n))
          else PInt (z_of_string p) in
        (id, pb)) (String.split_on_char ',' spec) in
    let tbl = Hashtbl.create 8 in
    List.iter (fun (id, pb) -> Hashtbl.replace tbl id pb) items;
    let ids = List.sort_uniq (fun a b ->
      compare (String.length a, a) (String.length b, b)) (List.map fst items) in
    XPrices (List.map (fun id -> (n_of_string id, Hashtbl.find tbl id)) ids)

let sig_of (c : case) (k : BinNums.coq_N) (e : ext) (spec : string) : isig option =
  let hm = if BinNat.N.eqb c.h (n_of_int 0) then n_of_int 0 else BinNat.N.sub c.h (n_of_int 1) in
  let (kind, arg) = match String.index_opt spec ':' with
    | Some i -> (String.sub spec 0 i, String.sub spec (i + 1) (String.length spec - i - 1))
    | None -> (spec, "") in
  match kind with
  | "none" -> None
  | "zero" -> Some IJunk
  | "ok" -> Some (ISigned (k, e, hm, c.ecr, chain))
  | "by" -> Some (ISigned (n_of_string arg, e, hm, c.ecr, chain))
  | "round" -> Some (ISigned (k, e, hm, n_of_string arg, chain))
  | "height" -> Some (ISigned (k, e, n_of_string arg, c.ecr, chain))
  | "chain" -> Some (ISigned (k, e, hm, c.ecr, BinNat.N.succ chain))
  | "ext" -> Some (ISigned (k, (match e with XGarbage -> XUnknown | _ -> XGarbage), hm, c.ecr, chain))
  | s -> failwith ("sig " ^ s)

let err_name = function
  | EDup -> "dup" | ETotalOverflow -> "total_overflow" | ESigMissing -> "sig_missing"
  | ENcExt -> "nc_ext" | ENcSig -> "nc_sig" | ESubOverflow -> "sub_overflow" | ENoKey -> "nokey"
  | EBadSig -> "badsig" | EZeroTotal -> "zero_total" | EMulOverflow -> "mul_overflow"
  | EAddOverflow -> "add_overflow" | EInsufficient -> "insufficient" | ERound -> "round"
  | ELen -> "len" | EAddr -> "addr" | EPower -> "power" | EFlag -> "flag"
  | EVeDecode -> "ve_decode" | EVeCount -> "ve_count" | EVeLen -> "ve_len" | EMap -> "map"
  | EDecode -> "decode" | EPrice -> "price" | ENoPairState -> "nopairstate"

let unit_res = function Ok _ -> "ok" | Err e -> "err=" ^ err_name e | Panic -> "panic"

let describe_votes (vs : isig vote list) : string =
  if vs = [] then "-" else
  String.concat "," (List.map (fun v ->
    flag_letter v.v_flag ^ (if ext_is_empty v.v_ext then "" else "e")
    ^ (match v.v_sig with Some _ -> "s" | None -> "")) vs)

let cmp_n a b = if BinNat.N.ltb a b then -1 else if BinNat.N.eqb a b then 0 else 1

let describe_map (mp : (BinNums.coq_N * (BinNums.coq_N * BinNums.coq_N)) list) : string =
  if mp = [] then "-" else
  String.concat "," (List.map (fun (id, (name, dec)) ->
    Printf.sprintf "%s:%s:%s" (string_of_n id) (string_of_n name) (string_of_n dec))
    (List.sort (fun (a, _) (b, _) -> cmp_n a b) mp))

let run_case oc (c : case) =
  Printf.fprintf oc "%s\n" c.header;
  let st = { st_chain = chain; st_vals = List.rev c.vals; st_maxpairs = c.maxpairs;
             st_pairs = List.rev c.pairs } in
  let votes = List.map (fun t ->
    match t with
    | [k; p; f; e; s] ->
      let k = n_of_string k and e = ext_of e in
      { v_addr = k; v_power = n_of_string p; v_flag = flag_of f; v_ext = e; v_sig = sig_of c k e s }
    | _ -> failwith "vote") (List.rev c.votes) in
  let ec = { ec_round = c.ecr; ec_votes = votes } in
  let lc = { lc_round = c.lcr; lc_votes = List.rev c.lc } in
  let mp = List.rev c.map in
  Printf.fprintf oc "vve %s\n" (unit_res (validate_vote_extensions ideal_sig_ok st c.h ec));
  Printf.fprintf oc "validate %s\n" (unit_res (validate_proposal ideal_sig_ok st c.h lc ec mp));
  (match prepare_proposal ideal_sig_ok st c.h ec with
   | Ok (ec', mp') ->
     Printf.fprintf oc "prepare ok votes=%s map=%s\n" (describe_votes ec'.ec_votes) (describe_map mp')
   | Err e -> Printf.fprintf oc "prepare err=%s\n" (err_name e)
   | Panic -> Printf.fprintf oc "prepare panic\n");
  (match prepare_or_empty ideal_sig_ok st c.h ec with
   | Some (ec', mp') ->
     Printf.fprintf oc "revalidate %s\n" (unit_res (validate_proposal ideal_sig_ok st c.h lc ec' mp'))
   | None -> Printf.fprintf oc "revalidate skipped\n");
  let exts = List.map (fun v -> v.v_ext) votes in
  (match calculate_prices exts mp with
   | Ok ps ->
     Printf.fprintf oc "prices ok %s\n"
       (if ps = [] then "-" else String.concat "," (List.map (fun ((name, dec), z) ->
          Printf.sprintf "%s:%s=%s" (string_of_n name) (string_of_n dec) (string_of_z z)) ps))
   | Err e -> Printf.fprintf oc "prices err=%s\n" (err_name e)
   | Panic -> Printf.fprintf oc "prices panic\n");
  let known = List.map (fun (_, (name, _)) -> name) st.st_pairs in
  (match apply_prices known exts mp with
   | Ok ws ->
     let names = List.sort_uniq cmp_n known in
     let items = List.filter_map (fun name ->
       (* the last write to a pair wins in the store *)
       match List.filter (fun ((n, _), _) -> BinNat.N.eqb n name) ws with
       | [] -> None
       | l -> let (_, z) = List.nth l (List.length l - 1) in
              Some (Printf.sprintf "%s=%s" (string_of_n name) (string_of_z z))) names in
     Printf.fprintf oc "apply ok %s\n" (if items = [] then "-" else String.concat "," items)
   | Err e -> Printf.fprintf oc "apply err=%s\n" (err_name e)
   | Panic -> Printf.fprintf oc "apply panic\n")

let run ic oc =
  let cur = ref None in
  let flush () = (match !cur with Some c -> run_case oc c | None -> ()); cur := None in
  List.iter (fun line ->
    match split_ws line with
    | [] -> ()
    | "case" :: n :: rest ->
      flush ();
      cur := Some { header = "case " ^ n; h = n_of_string (kv rest "h");
                    ecr = n_of_string (kv rest "ecr"); lcr = n_of_string (kv rest "lcr");
                    maxpairs = n_of_string (kv rest "maxpairs");
                    vals = []; pairs = []; votes = []; lc = []; map = [] }
    | [ "val"; k; _power ] ->
      let c = Option.get !cur in c.vals <- (n_of_string k, n_of_string k) :: c.vals
    | [ "pair"; id; name; dec ] ->
      let c = Option.get !cur in
      c.pairs <- (n_of_string id, (n_of_string name, n_of_string dec)) :: c.pairs
    | "vote" :: t -> let c = Option.get !cur in c.votes <- t :: c.votes
    | [ "lc"; k; p; f ] ->
      let c = Option.get !cur in
      c.lc <- { l_addr = n_of_string k; l_power = n_of_string p; l_flag = flag_of f } :: c.lc
    | [ "map"; id; name; dec ] ->
      let c = Option.get !cur in
      c.map <- (n_of_string id, (n_of_string name, n_of_string dec)) :: c.map
    | t :: _ -> failwith ("unknown op " ^ t)) (read_lines ic);
  flush ()
