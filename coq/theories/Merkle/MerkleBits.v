(** C08 — arithmetic meaning of the bit tricks of astria-merkle's flat in-order tree.
    A node whose index has [j] trailing one bits, [off + 2^j - 1] with [2^(j+1) | off],
    is the root of a perfect subtree of [2^j] leaves starting at index [off]. *)
From Astria Require Import Merkle.MerkleModel.

Arguments N.add : simpl never.
Arguments N.sub : simpl never.
Arguments N.mul : simpl never.
Arguments N.pow : simpl never.
Arguments N.land : simpl never.
Arguments N.lor : simpl never.
Arguments N.lxor : simpl never.
Arguments N.shiftl : simpl never.
Arguments N.shiftr : simpl never.
Arguments N.modulo : simpl never.
Arguments N.div : simpl never.
Arguments N.testbit : simpl never.
Arguments N.log2_up : simpl never.

(** * testbit toolkit *)
Lemma pow2_pos j : 0 < 2 ^ j.
Proof. apply N.neq_0_lt_0, N.pow_nonzero. discriminate. Qed.

Lemma pow2_S j : 2 ^ (j + 1) = 2 * 2 ^ j.
Proof. rewrite N.add_1_r. apply N.pow_succ_r'. Qed.

Lemma pow2_le j k : j <= k -> 2 ^ j <= 2 ^ k.
Proof. intros H. apply N.pow_le_mono_r; [discriminate|exact H]. Qed.

Lemma pow2_lt j k : j < k -> 2 ^ j < 2 ^ k.
Proof. intros H. apply N.pow_lt_mono_r; [reflexivity|exact H]. Qed.

Lemma tb_ones j b : N.testbit (2 ^ j - 1) b = (b <? j).
Proof.
  rewrite N.sub_1_r, <- N.ones_equiv.
  destruct (N.ltb_spec b j) as [H|H].
  - apply N.ones_spec_low; exact H.
  - apply N.ones_spec_high; exact H.
Qed.

Lemma MAXU_ones : MAXU = 2 ^ 64 - 1.
Proof. reflexivity. Qed.

Lemma tb_max b : N.testbit MAXU b = (b <? 64).
Proof. rewrite MAXU_ones. apply tb_ones. Qed.

Lemma tb_low off m b : off mod 2 ^ m = 0 -> b < m -> N.testbit off b = false.
Proof.
  intros Hm Hb. rewrite <- (N.mod_pow2_bits_low off m b Hb), Hm. apply N.bits_0.
Qed.

Lemma tb_high x m b : x < 2 ^ m -> m <= b -> N.testbit x b = false.
Proof.
  intros Hx Hb. rewrite <- (N.mod_small x (2 ^ m) Hx).
  apply N.mod_pow2_bits_high; exact Hb.
Qed.

Lemma tb_split off x m b : off mod 2 ^ m = 0 -> x < 2 ^ m ->
  N.testbit (off + x) b = if b <? m then N.testbit x b else N.testbit off b.
Proof.
  intros Hm Hx.
  assert (Hl : N.land off x = 0).
  { apply N.bits_inj. intros k. rewrite N.land_spec, N.bits_0.
    destruct (N.ltb_spec k m) as [H|H].
    - rewrite (tb_low off m k Hm H). reflexivity.
    - rewrite (tb_high x m k Hx H). apply andb_false_r. }
  rewrite (N.add_nocarry_lxor _ _ Hl), (N.lxor_lor _ _ Hl), N.lor_spec.
  destruct (N.ltb_spec b m) as [H|H].
  - rewrite (tb_low off m b Hm H). reflexivity.
  - rewrite (tb_high x m b Hx H). apply orb_false_r.
Qed.

Lemma mod_pow2_weaken off j k : j <= k -> off mod 2 ^ k = 0 -> off mod 2 ^ j = 0.
Proof.
  intros Hjk Hk.
  apply N.mod_divide in Hk; [|apply N.pow_nonzero; discriminate].
  apply N.mod_divide; [apply N.pow_nonzero; discriminate|].
  destruct Hk as [q Hq]. exists (q * 2 ^ (k - j)).
  rewrite <- N.mul_assoc, <- N.pow_add_r.
  replace (k - j + j) with k by lia. exact Hq.
Qed.

Lemma mod_pow2_add off j : off mod 2 ^ j = 0 -> (off + 2 ^ j) mod 2 ^ j = 0.
Proof.
  intros H.
  assert (Hnz : 2 ^ j <> 0) by (apply N.pow_nonzero; discriminate).
  rewrite <- N.add_mod_idemp_r by exact Hnz.
  rewrite N.mod_same by exact Hnz. rewrite N.add_0_r. exact H.
Qed.

Ltac cmp :=
  repeat match goal with
         | |- context [?a <? ?b] => destruct (N.ltb_spec a b)
         | |- context [?a =? ?b] => destruct (N.eqb_spec a b)
         end.

(** * last_zero_bit *)
Lemma last_set_bit_spec off j :
  off mod 2 ^ (j + 1) = 0 ->
  last_set_bit (off + 2 ^ j) = Some (2 ^ j).
Proof.
  intros Hoff. unfold last_set_bit, bind.
  pose proof (pow2_pos j) as Hp. pose proof (pow2_S j) as HS.
  assert (Hc : checked_sub (off + 2 ^ j) 1 = Some (off + (2 ^ j - 1))).
  { apply checked_sub_Some. lia. }
  rewrite Hc.
  assert (Hland : N.land (off + (2 ^ j - 1)) (off + 2 ^ j) = off).
  { apply N.bits_inj. intros b. rewrite N.land_spec.
    rewrite (tb_split off (2 ^ j - 1) (j + 1) b Hoff) by lia.
    rewrite (tb_split off (2 ^ j) (j + 1) b Hoff) by lia.
    rewrite tb_ones, N.pow2_bits_eqb.
    cmp; try lia; cbn [andb]; try (symmetry; apply (tb_low off (j + 1) b Hoff); lia).
    apply andb_diag. }
  rewrite Hland. apply checked_sub_Some. lia.
Qed.

Lemma last_zero_bit_spec off j :
  off mod 2 ^ (j + 1) = 0 -> off + 2 ^ j <= MAXU ->
  last_zero_bit (off + 2 ^ j - 1) = Some (2 ^ j).
Proof.
  intros Hoff Hle. unfold last_zero_bit, bind.
  pose proof (pow2_pos j) as Hp.
  assert (Hc : checked_add MAXU (off + 2 ^ j - 1) 1 = Some (off + 2 ^ j)).
  { apply checked_add_Some. lia. }
  rewrite Hc. apply last_set_bit_spec. exact Hoff.
Qed.

(** * perfect tree navigation *)
Lemma shl64_pow j : j + 1 < 64 -> shl64 (2 ^ j) 1 = 2 ^ (j + 1).
Proof.
  intros Hj. unfold shl64. rewrite N.shiftl_mul_pow2, <- N.pow_add_r.
  apply N.mod_small. apply pow2_lt. exact Hj.
Qed.

Lemma shr_pow j : N.shiftr (2 ^ (j + 1)) 1 = 2 ^ j.
Proof.
  rewrite N.shiftr_div_pow2, pow2_S, N.pow_1_r, N.mul_comm.
  apply N.div_mul. discriminate.
Qed.

Lemma tb_lnot64 x b : N.testbit (lnot64 x) b = xorb (N.testbit x b) (b <? 64).
Proof. unfold lnot64. rewrite N.lxor_spec, tb_max. reflexivity. Qed.

Lemma tb_one b : N.testbit 1 b = (0 =? b).
Proof. change 1 with (2 ^ 0). apply N.pow2_bits_eqb. Qed.

(** numbers of the shape 2^(j+1) + (2^j - 1) *)
Lemma tb_hi_ones j b :
  N.testbit (2 ^ (j + 1) + (2 ^ j - 1)) b = if b <? j + 1 then b <? j else j + 1 =? b.
Proof.
  pose proof (pow2_pos j) as Hp. pose proof (pow2_S j) as HS.
  rewrite (tb_split (2 ^ (j + 1)) (2 ^ j - 1) (j + 1) b).
  - rewrite tb_ones, N.pow2_bits_eqb. reflexivity.
  - apply N.mod_same. apply N.pow_nonzero. discriminate.
  - lia.
Qed.

Section Perfect.
  Variables off j : N.
  Hypothesis Hoff : off mod 2 ^ (j + 2) = 0.
  Hypothesis Hbound : off + 2 ^ (j + 2) <= 2 ^ 64.

  Let Hp := pow2_pos j.
  Let HS := pow2_S j.

  Lemma HSS : 2 ^ (j + 2) = 4 * 2 ^ j.
  Proof. replace (j + 2) with (j + 1 + 1) by lia. rewrite !pow2_S. lia. Qed.

  Lemma Hj62 : j + 2 <= 64.
  Proof.
    destruct (N.le_gt_cases (j + 2) 64) as [H|H]; [exact H|].
    apply pow2_lt in H. pose proof (pow2_pos (j + 2)). lia.
  Qed.

  Lemma Hoff64 : off < 2 ^ 64.
  Proof. pose proof (pow2_pos (j + 2)). lia. Qed.

  Lemma Hoff1 : off mod 2 ^ (j + 1) = 0.
  Proof. apply (mod_pow2_weaken off (j + 1) (j + 2)); [lia|exact Hoff]. Qed.

  Lemma tb_off_hi b : 64 <= b -> N.testbit off b = false.
  Proof. apply tb_high. exact Hoff64. Qed.

  Lemma tb_off_lo b : b < j + 2 -> N.testbit off b = false.
  Proof. apply tb_low. exact Hoff. Qed.

  (** left child root -> parent *)
  Lemma perfect_parent_left :
    perfect_parent (off + 2 ^ j - 1) = Some (off + 2 ^ (j + 1) - 1).
  Proof.
    pose proof HSS as HSS. pose proof Hj62 as Hj.
    unfold perfect_parent, bind.
    rewrite (last_zero_bit_spec off j Hoff1) by (rewrite MAXU_ones; lia).
    f_equal.
    rewrite shl64_pow by lia.
    replace (off + 2 ^ j - 1) with (off + (2 ^ j - 1)) by lia.
    replace (off + 2 ^ (j + 1) - 1) with (off + (2 ^ (j + 1) - 1)) by lia.
    apply N.bits_inj. intros b.
    rewrite N.land_spec, N.lor_spec, tb_lnot64, !N.pow2_bits_eqb.
    rewrite (tb_split off (2 ^ j - 1) (j + 2) b Hoff) by lia.
    rewrite (tb_split off (2 ^ (j + 1) - 1) (j + 2) b Hoff) by lia.
    rewrite !tb_ones.
    cmp; try lia; cbn [andb orb xorb]; try reflexivity;
      rewrite ?andb_true_r, ?andb_false_r; try reflexivity.
    symmetry. apply tb_off_hi. lia.
  Qed.

  (** right child root -> parent *)
  Lemma perfect_parent_right :
    perfect_parent (off + 2 ^ (j + 1) + 2 ^ j - 1) = Some (off + 2 ^ (j + 1) - 1).
  Proof.
    pose proof HSS as HSS. pose proof Hj62 as Hj.
    unfold perfect_parent, bind.
    rewrite (last_zero_bit_spec (off + 2 ^ (j + 1)) j)
      by (try apply mod_pow2_add; try apply Hoff1; rewrite ?MAXU_ones; lia).
    f_equal.
    rewrite shl64_pow by lia.
    replace (off + 2 ^ (j + 1) + 2 ^ j - 1) with (off + (2 ^ (j + 1) + (2 ^ j - 1))) by lia.
    replace (off + 2 ^ (j + 1) - 1) with (off + (2 ^ (j + 1) - 1)) by lia.
    apply N.bits_inj. intros b.
    rewrite N.land_spec, N.lor_spec, tb_lnot64, !N.pow2_bits_eqb.
    rewrite (tb_split off (2 ^ (j + 1) + (2 ^ j - 1)) (j + 2) b Hoff) by lia.
    rewrite (tb_split off (2 ^ (j + 1) - 1) (j + 2) b Hoff) by lia.
    rewrite tb_hi_ones, !tb_ones.
    cmp; try lia; cbn [andb orb xorb]; try reflexivity;
      rewrite ?andb_true_r, ?andb_false_r; try reflexivity.
    symmetry. apply tb_off_hi. lia.
  Qed.

  Lemma is_branch_root : is_branch (off + 2 ^ (j + 1) - 1) = true.
  Proof.
    pose proof HSS as HSS.
    unfold is_branch. apply N.eqb_eq.
    replace (off + 2 ^ (j + 1) - 1) with (off + (2 ^ (j + 1) - 1)) by lia.
    apply N.bits_inj. intros b.
    rewrite N.land_spec, tb_one.
    rewrite (tb_split off (2 ^ (j + 1) - 1) (j + 2) b Hoff) by lia.
    rewrite tb_ones.
    cmp; try lia; cbn [andb]; try reflexivity; apply andb_false_r.
  Qed.

  Lemma last_zero_bit_root :
    last_zero_bit (off + 2 ^ (j + 1) - 1) = Some (2 ^ (j + 1)).
  Proof.
    pose proof HSS as HSS.
    apply last_zero_bit_spec.
    - replace (j + 1 + 1) with (j + 2) by lia. exact Hoff.
    - rewrite MAXU_ones. lia.
  Qed.

  Lemma perfect_left_child_spec :
    perfect_left_child (off + 2 ^ (j + 1) - 1) = Some (off + 2 ^ j - 1).
  Proof.
    pose proof HSS as HSS. pose proof Hj62 as Hj.
    unfold perfect_left_child, bind.
    rewrite is_branch_root. cbn [assert]. rewrite last_zero_bit_root.
    f_equal. rewrite shr_pow.
    replace (off + 2 ^ j - 1) with (off + (2 ^ j - 1)) by lia.
    replace (off + 2 ^ (j + 1) - 1) with (off + (2 ^ (j + 1) - 1)) by lia.
    apply N.bits_inj. intros b.
    rewrite N.land_spec, tb_lnot64, !N.pow2_bits_eqb.
    rewrite (tb_split off (2 ^ j - 1) (j + 2) b Hoff) by lia.
    rewrite (tb_split off (2 ^ (j + 1) - 1) (j + 2) b Hoff) by lia.
    rewrite !tb_ones.
    cmp; try lia; cbn [andb orb xorb]; try reflexivity;
      rewrite ?andb_true_r, ?andb_false_r; try reflexivity.
    symmetry. apply tb_off_hi. lia.
  Qed.

  Lemma perfect_right_child_spec :
    perfect_right_child (off + 2 ^ (j + 1) - 1) = Some (off + 2 ^ (j + 1) + 2 ^ j - 1).
  Proof.
    pose proof HSS as HSS. pose proof Hj62 as Hj.
    unfold perfect_right_child, bind.
    rewrite is_branch_root. cbn [assert]. rewrite last_zero_bit_root.
    f_equal. rewrite shr_pow.
    replace (off + 2 ^ (j + 1) + 2 ^ j - 1) with (off + (2 ^ (j + 1) + (2 ^ j - 1))) by lia.
    replace (off + 2 ^ (j + 1) - 1) with (off + (2 ^ (j + 1) - 1)) by lia.
    apply N.bits_inj. intros b.
    rewrite N.land_spec, N.lor_spec, tb_lnot64, !N.pow2_bits_eqb.
    rewrite (tb_split off (2 ^ (j + 1) + (2 ^ j - 1)) (j + 2) b Hoff) by lia.
    rewrite (tb_split off (2 ^ (j + 1) - 1) (j + 2) b Hoff) by lia.
    rewrite tb_hi_ones, !tb_ones.
    cmp; try lia; cbn [andb orb xorb]; try reflexivity;
      rewrite ?andb_true_r, ?andb_false_r, ?orb_false_r; try reflexivity.
    symmetry. apply tb_off_hi. lia.
  Qed.
End Perfect.
