(** C08 — model of crates/astria-merkle (lib.rs, audit.rs) after the `fix:` commit.
    [usize] = 64 bit; every function that can panic in the Rust code returns [option]
    ([None] = panic).  Hashes are abstract: [D] with [nodeH], [emptyH]; [zeroD] is the
    32-zero-byte placeholder written by [push] before the parents are recomputed.
    Proof-free: this file is what gets extracted and run against the code. *)
From Astria Require Export Base.Bounded.

Definition MAXU : N := U64_MAX.

Definition bind {A B} (x : option A) (f : A -> option B) : option B :=
  match x with Some a => f a | None => None end.
Notation "'do' x <- a ; b" := (bind a (fun x => b)) (at level 200, x name, a at level 100, b at level 200).
Notation "'do' ' ( x , y ) <- a ; b" := (bind a (fun '(x, y) => b))
  (at level 200, x name, y name, a at level 100, b at level 200).

(** bit helpers on 64-bit words *)
Definition lnot64 (x : N) : N := N.lxor x MAXU.                 (* !x *)
Definition shl64 (x k : N) : N := (N.shiftl x k) mod 2 ^ 64.    (* x << k, k < 64 *)
Definition assert (b : bool) : option unit := if b then Some tt else None.

(** [last_set_bit]: x - ((x-1) & x); panics for x = 0 *)
Definition last_set_bit (x : N) : option N :=
  do xm <- checked_sub x 1;
  checked_sub x (N.land xm x).

(** [last_zero_bit]: last_set_bit(x+1); panics for x = usize::MAX *)
Definition last_zero_bit (x : N) : option N :=
  do x1 <- checked_add MAXU x 1;
  last_set_bit x1.

Definition perfect_parent (i : N) : option N :=
  do z <- last_zero_bit i;
  Some (N.land (N.lor z i) (lnot64 (shl64 z 1))).

Definition is_branch (i : N) : bool := N.land i 1 =? 1.

Definition perfect_left_child (p : N) : option N :=
  do _ <- assert (is_branch p);
  do z <- last_zero_bit p;
  Some (N.land p (lnot64 (N.shiftr z 1))).

Definition perfect_right_child (p : N) : option N :=
  do _ <- assert (is_branch p);
  do z <- last_zero_bit p;
  Some (N.land (N.lor p z) (lnot64 (N.shiftr z 1))).

(** [usize::next_power_of_two] in a debug build: panics when the result does not fit *)
Definition next_power_of_two (x : N) : option N :=
  let r := if x <=? 1 then 1 else 2 ^ N.log2_up x in
  if r <=? MAXU then Some r else None.

Definition wrapping_add1 (n : N) : N := (n + 1) mod 2 ^ 64.

Definition is_perfect (n : N) : option bool :=
  if n =? 1 then Some true
  else do p <- next_power_of_two n; Some (p =? wrapping_add1 n).

Definition perfect_root (n : N) : option N :=
  do b <- is_perfect n;
  do _ <- assert b;
  Some (N.shiftr n 1).

Definition complete_root (n : N) : option N :=
  do p <- next_power_of_two (wrapping_add1 n);
  perfect_root (p - 1).      (* saturating_sub(1) *)

(** [complete_parent]: the loop; 65 iterations suffice before [last_zero_bit] must overflow.
    Out of fuel is reported as a panic too and excluded by [complete_parent_fuel_enough]. *)
Fixpoint complete_parent_loop (fuel : nat) (i n : N) : option N :=
  match fuel with
  | O => None
  | S f => do p <- perfect_parent i;
           if p <? n then Some p else complete_parent_loop f p n
  end.
Definition complete_parent (i n : N) : option N := complete_parent_loop 66 i n.

(** [checked_complete_parent] (added by the fix): [Some None] = no parent inside the tree.
    The outer option is kept only for out-of-fuel, which never happens (see MerkleBits). *)
Fixpoint checked_complete_parent_loop (fuel : nat) (i n : N) : option (option N) :=
  match fuel with
  | O => None
  | S f =>
      match checked_add MAXU i 1 with
      | None => Some None
      | Some i1 =>
          match last_set_bit i1 with
          | None => None        (* unreachable: i1 >= 1 *)
          | Some z =>
              let p := N.land (N.lor z i) (lnot64 (shl64 z 1)) in
              if p <? n then Some (Some p) else checked_complete_parent_loop f p n
          end
      end
  end.
Definition checked_complete_parent (i n : N) : option (option N) :=
  checked_complete_parent_loop 66 i n.

Definition complete_left_child (p : N) : option N := perfect_left_child p.

Definition complete_right_child (i n : N) : option N :=
  do _ <- assert (is_branch i);
  do _ <- assert (i <? n);
  do r <- perfect_right_child i;
  if r <? n then Some r
  else
    do i1 <- checked_add MAXU i 1;
    do m <- checked_sub n i1;
    do root <- complete_root m;
    checked_add MAXU i1 root.

Definition complete_parent_and_sibling (i n : N) : option (N * N) :=
  do _ <- assert (i <? n);
  do p <- complete_parent i n;
  do s <- (if i <? p then complete_right_child p n else complete_left_child p);
  Some (p, s).

Definition leaf_index_to_tree_index (j : N) : option N := checked_mul MAXU j 2.

(** after the fix: no panic, [false] when 2*i overflows *)
Definition is_leaf_index_in_tree (i n : N) : bool :=
  match checked_mul MAXU i 2 with Some j => j <? n | None => false end.

Section Tree.
  Variable D : Type.
  Variable nodeH : D -> D -> D.
  Variable emptyH : D.
  Variable zeroD : D.

  (** the flat node array *)
  Definition tree := list D.

  Definition tlen (t : tree) : N := N.of_nat (length t).

  Definition get_node (t : tree) (i : N) : option D :=
    if i <? tlen t then nth_error t (N.to_nat i) else None.

  Fixpoint set_nth (t : tree) (k : nat) (v : D) : tree :=
    match t, k with
    | [], _ => []
    | _ :: r, O => v :: r
    | x :: r, S k' => x :: set_nth r k' v
    end.

  Definition set_node (t : tree) (i : N) (v : D) : option tree :=
    if i <? tlen t then Some (set_nth t (N.to_nat i) v) else None.

  (** the loop of [LeafBuilder::drop] *)
  Fixpoint push_loop (fuel : nat) (t : tree) (idx size root : N) : option tree :=
    match fuel with
    | O => None
    | S f =>
        do idx' <- complete_parent idx size;
        do l <- complete_left_child idx';
        do r <- complete_right_child idx' size;
        do hl <- get_node t l;
        do hr <- get_node t r;
        do t' <- set_node t idx' (nodeH hl hr);
        if idx' =? root then Some t' else push_loop f t' idx' size root
    end.

  (** [Tree::push] given the leaf hash *)
  Definition push (t : tree) (leaf_hash : D) : option tree :=
    match t with
    | [] => Some [leaf_hash]
    | _ =>
        let t1 := t ++ [zeroD; zeroD] in
        let size := tlen t1 in
        do idx <- checked_sub size 1;
        do t2 <- set_node t1 idx leaf_hash;
        do root <- complete_root size;
        push_loop 66 t2 idx size root
    end.

  Fixpoint from_leaves_acc (t : tree) (ls : list D) : option tree :=
    match ls with
    | [] => Some t
    | l :: r => do t' <- push t l; from_leaves_acc t' r
    end.
  Definition from_leaves (ls : list D) : option tree := from_leaves_acc [] ls.

  Definition root (t : tree) : option D :=
    match t with
    | [] => Some emptyH
    | _ => do r <- complete_root (tlen t); get_node t r
    end.

  Record proof := { audit_path : list D; leaf_index : N; tree_size : N }.

  Fixpoint proof_loop (fuel : nat) (t : tree) (ti root n : N) (acc : list D) : option (list D) :=
    match fuel with
    | O => None
    | S f =>
        if ti =? root then Some acc
        else
          do '(p, s) <- complete_parent_and_sibling ti n;
          do h <- get_node t s;
          proof_loop f t p root n (acc ++ [h])
    end.

  (** [Tree::construct_proof]: outer [None] = panic, inner [None] = no proof *)
  Definition construct_proof (t : tree) (li : N) : option (option proof) :=
    let n := tlen t in
    if n =? 0 then Some None
    else if negb (is_leaf_index_in_tree li n) then Some None
    else
      do ti <- leaf_index_to_tree_index li;
      do root <- complete_root n;
      do path <- proof_loop 66 t ti root n [];
      Some (Some {| audit_path := path; leaf_index := li; tree_size := n |}).

  Inductive decode_result :=
  | DOk (p : proof)
  | DZeroTreeSize
  | DLeafIndexOutsideTree
  | DNotMultipleOf32.

  (** [UncheckedProof::try_into_proof]; the audit path arrives as whole segments plus a
      number of trailing bytes ([extra_bytes] = len mod 32) *)
  Definition try_into_proof (path : list D) (extra_bytes li size : N) : decode_result :=
    if size =? 0 then DZeroTreeSize
    else if negb (is_leaf_index_in_tree li size) then DLeafIndexOutsideTree
    else if negb (extra_bytes =? 0) then DNotMultipleOf32
    else DOk {| audit_path := path; leaf_index := li; tree_size := size |}.

  (** [Proof::reconstruct_root_with_leaf_hash] (after the fix) *)
  Fixpoint reconstruct_loop (path : list D) (i n : N) (acc : D) : option D :=
    match path with
    | [] => Some acc
    | s :: r =>
        match checked_complete_parent i n with
        | None => None
        | Some None => reconstruct_loop r i n (nodeH acc s)
        | Some (Some p) =>
            reconstruct_loop r p n (if i <? p then nodeH acc s else nodeH s acc)
        end
    end.

  Definition reconstruct_root (p : proof) (leaf_hash : D) : option D :=
    do i <- leaf_index_to_tree_index (leaf_index p);
    reconstruct_loop (audit_path p) i (tree_size p) leaf_hash.

  Variable eqD : D -> D -> bool.

  (** [Proof::verify] given the leaf hash *)
  Definition verify (p : proof) (leaf_hash root_hash : D) : option bool :=
    do r <- reconstruct_root p leaf_hash; Some (eqD root_hash r).

  (** RFC 6962 section 2.1 on leaf hashes, by recursion on a depth bound [d] (2^d >= |l|):
      k = 2^(d-1) is the largest power of two smaller than |l| exactly when 2^(d-1) < |l| <= 2^d;
      for shorter lists the bound is lowered. *)
  Fixpoint mth_d (d : nat) (l : list D) : D :=
    match d with
    | O => match l with [] => emptyH | x :: _ => x end
    | S d' =>
        let k := Nat.pow 2 d' in
        if Nat.leb (length l) k then mth_d d' l
        else nodeH (mth_d d' (firstn k l)) (mth_d d' (skipn k l))
    end.
  Definition mth (l : list D) : D := mth_d (Nat.log2_up (length l)) l.

  (** RFC 6962 section 2.1.1 audit path PATH(m, D[n]), leaf-to-root order *)
  Fixpoint rfc_path_d (d : nat) (m : nat) (l : list D) : list D :=
    match d with
    | O => []
    | S d' =>
        let k := Nat.pow 2 d' in
        if Nat.leb (length l) k then rfc_path_d d' m l
        else if Nat.ltb m k
             then rfc_path_d d' m (firstn k l) ++ [mth_d d' (skipn k l)]
             else rfc_path_d d' (m - k) (skipn k l) ++ [mth_d d' (firstn k l)]
    end.
  Definition rfc_path (m : nat) (l : list D) : list D := rfc_path_d (Nat.log2_up (length l)) m l.

End Tree.

Arguments audit_path {D}.
Arguments leaf_index {D}.
Arguments tree_size {D}.
Arguments DOk {D}.
Arguments DZeroTreeSize {D}.
Arguments DLeafIndexOutsideTree {D}.
Arguments DNotMultipleOf32 {D}.
