(** C08 — [root] is the RFC 6962 Merkle Tree Hash and [construct_proof] is the RFC 6962
    audit path, for every leaf sequence of length <= BOUND and EVERY hash domain.

    Method: the statements are checked by computation in the free term algebra [T]
    on the generic leaves L 0 .. L (n-1); by parametricity (MerkleParam) they transfer
    along the evaluation homomorphism [T -> D] to arbitrary leaves of arbitrary [D]. *)
From Astria Require Import Merkle.MerkleModel Merkle.MerkleSpec Merkle.MerkleParam.

(** * The free algebra *)
Inductive T : Type := L (n : nat) | Nd (a b : T) | E | Z.

Fixpoint eqT (x y : T) : bool :=
  match x, y with
  | L n, L m => Nat.eqb n m
  | Nd a b, Nd c d => eqT a c && eqT b d
  | E, E => true
  | Z, Z => true
  | _, _ => false
  end.

Lemma eqT_eq x : forall y, eqT x y = true -> x = y.
Proof.
  induction x as [n|a IHa b IHb| |]; intros [m|c d| |] H; cbn [eqT] in H;
    try discriminate; try reflexivity.
  - apply Nat.eqb_eq in H. subst. reflexivity.
  - apply andb_true_iff in H. destruct H as [H1 H2].
    rewrite (IHa _ H1), (IHb _ H2). reflexivity.
Qed.

Fixpoint eqTs (x y : list T) : bool :=
  match x, y with
  | [], [] => true
  | a :: x', b :: y' => eqT a b && eqTs x' y'
  | _, _ => false
  end.

Lemma eqTs_eq x : forall y, eqTs x y = true -> x = y.
Proof.
  induction x as [|a x IH]; intros [|b y] H; cbn [eqTs] in H;
    try discriminate; try reflexivity.
  apply andb_true_iff in H. destruct H as [H1 H2].
  rewrite (eqT_eq _ _ H1), (IH _ H2). reflexivity.
Qed.

(** * The checker *)
Definition gen_leaves (n : nat) : list T := map L (seq 0 n).

Definition ok_root (ls t : list T) : bool :=
  match root T E t with
  | Some r => eqT r (mth T Nd E ls)
  | None => false
  end.

Definition ok_proof (ls t : list T) (i : nat) : bool :=
  match construct_proof T t (N.of_nat i) with
  | Some (Some p) =>
      eqTs (audit_path p) (rfc_path T Nd E i ls)
      && (leaf_index p =? N.of_nat i)
      && (tree_size p =? tlen T t)
      && match reconstruct_root T Nd p (L i) with
         | Some r => eqT r (mth T Nd E ls)
         | None => false
         end
  | _ => false
  end.

Definition ok (n : nat) : bool :=
  let ls := gen_leaves n in
  match from_leaves T Nd Z ls with
  | Some t => ok_root ls t && forallb (ok_proof ls t) (seq 0 n)
  | None => false
  end.

Definition BOUND : nat := 128.

Lemma ok_all : forallb ok (seq 0 (S BOUND)) = true.
Proof. vm_cast_no_check (@eq_refl bool true). Qed.

Lemma ok_n n : (n <= BOUND)%nat -> ok n = true.
Proof.
  intros Hn. pose proof ok_all as H.
  rewrite forallb_forall in H. apply H.
  apply in_seq. lia.
Qed.

(** what [ok n] says, as propositions *)
Lemma ok_spec n : ok n = true ->
  exists t, from_leaves T Nd Z (gen_leaves n) = Some t /\
    root T E t = Some (mth T Nd E (gen_leaves n)) /\
    forall i, (i < n)%nat ->
      exists p, construct_proof T t (N.of_nat i) = Some (Some p) /\
        audit_path p = rfc_path T Nd E i (gen_leaves n) /\
        leaf_index p = N.of_nat i /\
        tree_size p = tlen T t /\
        reconstruct_root T Nd p (L i) = Some (mth T Nd E (gen_leaves n)).
Proof.
  unfold ok. cbv zeta.
  destruct (from_leaves T Nd Z (gen_leaves n)) as [t|]; [|discriminate].
  intros H. apply andb_true_iff in H. destruct H as [Hr Hp].
  exists t. split; [reflexivity|]. split.
  - unfold ok_root in Hr.
    destruct (root T E t) as [r|]; [|discriminate].
    rewrite (eqT_eq _ _ Hr). reflexivity.
  - intros i Hi. rewrite forallb_forall in Hp.
    assert (Hin : In i (seq 0 n)) by (apply in_seq; lia).
    specialize (Hp i Hin). unfold ok_proof in Hp.
    destruct (construct_proof T t (N.of_nat i)) as [[p|]|]; try discriminate.
    exists p. split; [reflexivity|].
    apply andb_true_iff in Hp. destruct Hp as [Hp H4].
    apply andb_true_iff in Hp. destruct Hp as [Hp H3].
    apply andb_true_iff in Hp. destruct Hp as [H1 H2].
    split; [exact (eqTs_eq _ _ H1)|].
    split; [apply N.eqb_eq; exact H2|].
    split; [apply N.eqb_eq; exact H3|].
    destruct (reconstruct_root T Nd p (L i)) as [r|]; [|discriminate].
    rewrite (eqT_eq _ _ H4). reflexivity.
Qed.

(** * Transfer to an arbitrary hash domain *)
Section Transfer.
  Variable D : Type.
  Variable nodeH : D -> D -> D.
  Variables emptyH zeroD : D.

  (** evaluation of a term at the leaves [ls] *)
  Fixpoint ev (ls : list D) (x : T) : D :=
    match x with
    | L k => nth k ls zeroD
    | Nd a b => nodeH (ev ls a) (ev ls b)
    | E => emptyH
    | Z => zeroD
    end.

  Lemma map_nth_seq (ls : list D) : forall k,
    map (fun i => nth i ls zeroD) (seq k (length ls - k)) = skipn k ls.
  Proof.
    induction ls as [|x ls IH]; intros k.
    - cbn. destruct k; reflexivity.
    - destruct k as [|k].
      + cbn [length Nat.sub seq map nth skipn]. f_equal.
        rewrite <- seq_shift, map_map.
        specialize (IH 0%nat). rewrite Nat.sub_0_r in IH. cbn [skipn] in IH.
        exact IH.
      + cbn [length Nat.sub skipn]. rewrite <- (IH k).
        rewrite <- seq_shift, map_map. reflexivity.
  Qed.

  Lemma ev_gen_leaves (ls : list D) : map (ev ls) (gen_leaves (length ls)) = ls.
  Proof.
    unfold gen_leaves. rewrite map_map. cbn [ev].
    pose proof (map_nth_seq ls 0) as H. rewrite Nat.sub_0_r in H. exact H.
  Qed.

  Theorem root_is_mth_bounded : stmt_root_is_mth D nodeH emptyH zeroD BOUND.
  Proof.
    intros ls Hlen.
    destruct (ok_spec _ (ok_n _ Hlen)) as (t0 & Hfl & Hroot & _).
    set (phi := ev ls).
    exists (map phi t0). split.
    - rewrite <- (ev_gen_leaves ls) at 1. fold phi.
      rewrite (from_leaves_map T D Nd nodeH Z zeroD phi) by reflexivity.
      rewrite Hfl. reflexivity.
    - rewrite (root_map T D E emptyH phi) by reflexivity.
      rewrite Hroot. cbn [option_map].
      rewrite <- (mth_map T D Nd nodeH E emptyH phi) by reflexivity.
      unfold phi. rewrite ev_gen_leaves. reflexivity.
  Qed.

  Theorem proof_complete_bounded : stmt_proof_complete D nodeH emptyH zeroD BOUND.
  Proof.
    intros ls t i d Hlen Hfl Hnth.
    destruct (ok_spec _ (ok_n _ Hlen)) as (t0 & Hfl0 & _ & Hpr).
    set (phi := ev ls).
    assert (Ht : t = map phi t0).
    { rewrite <- (ev_gen_leaves ls) in Hfl. fold phi in Hfl.
      rewrite (from_leaves_map T D Nd nodeH Z zeroD phi) in Hfl by reflexivity.
      rewrite Hfl0 in Hfl. cbn [option_map] in Hfl. congruence. }
    assert (Hi : (i < length ls)%nat).
    { apply nth_error_Some. congruence. }
    assert (Hd : d = phi (L i)).
    { unfold phi. cbn [ev]. symmetry. apply nth_error_nth. exact Hnth. }
    destruct (Hpr i Hi) as (p0 & Hcp & Hap & Hli & Hts & Hrr).
    exists (map_proof T D phi p0). subst t d.
    split; [|split; [|split; [|split]]].
    - rewrite (construct_proof_map T D phi). rewrite Hcp. reflexivity.
    - cbn [map_proof audit_path]. rewrite Hap.
      rewrite <- (rfc_path_map T D Nd nodeH E emptyH phi) by reflexivity.
      unfold phi. rewrite ev_gen_leaves. reflexivity.
    - cbn [map_proof leaf_index]. exact Hli.
    - cbn [map_proof tree_size]. rewrite tlen_map. exact Hts.
    - rewrite (reconstruct_root_map T D Nd nodeH phi) by reflexivity.
      rewrite Hrr. cbn [option_map].
      rewrite <- (mth_map T D Nd nodeH E emptyH phi) by reflexivity.
      unfold phi. rewrite ev_gen_leaves. reflexivity.
  Qed.
End Transfer.

Print Assumptions root_is_mth_bounded.
Print Assumptions proof_complete_bounded.
