(** C08 -- totality of Merkle audit-proof verification: for every decodable
    (path, leaf index, tree size) triple of machine integers, [verify] returns a boolean
    and never panics.  The core is a bit-level argument about [checked_complete_parent]:
    every iteration of its loop strictly increases the number of trailing one bits of the
    index, which is bounded by 64. *)
From Astria Require Import Merkle.MerkleSpec.

Local Arguments N.add : simpl never.
Local Arguments N.mul : simpl never.
Local Arguments N.sub : simpl never.
Local Arguments N.pow : simpl never.
Local Arguments N.land : simpl never.
Local Arguments N.lor : simpl never.
Local Arguments N.lxor : simpl never.
Local Arguments N.testbit : simpl never.
Local Arguments N.shiftl : simpl never.
Local Arguments N.modulo : simpl never.

(** * generic bit facts *)

Lemma pow2_64 : 2 ^ 64 = 18446744073709551616.
Proof. reflexivity. Qed.

Lemma MAXU_val : MAXU = 18446744073709551615.
Proof. reflexivity. Qed.

Lemma MAXU_ones : MAXU = N.ones 64.
Proof. reflexivity. Qed.

Lemma testbit_high_of_lt x j : x < 2 ^ 64 -> 64 <= j -> N.testbit x j = false.
Proof.
  intros Hx Hj. rewrite <- (N.mod_small x (2 ^ 64) Hx).
  apply N.mod_pow2_bits_high. exact Hj.
Qed.

Lemma lt_of_testbit_high x : (forall j, 64 <= j -> N.testbit x j = false) -> x < 2 ^ 64.
Proof.
  intros H.
  assert (Hm : x mod 2 ^ 64 = x).
  { apply N.bits_inj. intros j.
    destruct (N.lt_ge_cases j 64) as [Hj|Hj].
    - apply N.mod_pow2_bits_low. exact Hj.
    - rewrite (N.mod_pow2_bits_high x 64 j Hj). symmetry. apply H. exact Hj. }
  rewrite <- Hm. apply N.mod_lt. rewrite pow2_64. discriminate.
Qed.

Lemma land_even_odd a : N.land (2 * a) (2 * a + 1) = 2 * a.
Proof.
  apply N.bits_inj. intros j. rewrite N.land_spec.
  destruct (N.eq_dec j 0) as [->|Hj].
  - rewrite N.testbit_even_0. reflexivity.
  - rewrite <- (N.succ_pred j Hj).
    rewrite N.testbit_even_succ, N.testbit_odd_succ by apply N.le_0_l.
    apply andb_diag.
Qed.

Lemma land_odd_even u v : N.land (2 * u + 1) (2 * v) = 2 * N.land u v.
Proof.
  apply N.bits_inj. intros j. rewrite N.land_spec.
  destruct (N.eq_dec j 0) as [->|Hj].
  - rewrite !N.testbit_even_0. apply andb_false_r.
  - rewrite <- (N.succ_pred j Hj).
    rewrite !N.testbit_even_succ, N.testbit_odd_succ by apply N.le_0_l.
    rewrite N.land_spec. reflexivity.
Qed.

(** * the lowest set bit: x = 2^m (2a+1) *)

Lemma odd_decomp x : 0 < x -> exists (m : nat) (a : N), x = 2 ^ N.of_nat m * (2 * a + 1).
Proof.
  destruct x as [|p]; [intros H; exfalso; lia|intros _].
  induction p as [p IH|p IH|].
  - exists O, (N.pos p). change (2 ^ N.of_nat 0) with 1. lia.
  - destruct IH as [m [a IH]]. exists (S m), a.
    rewrite Nat2N.inj_succ, N.pow_succ_r'.
    replace (N.pos p~0) with (2 * N.pos p) by lia. rewrite IH. lia.
  - exists O, 0. reflexivity.
Qed.

Lemma lsb_key (m : nat) : forall a x, x = 2 ^ N.of_nat m * (2 * a + 1) ->
  x - N.land (x - 1) x = 2 ^ N.of_nat m /\
  N.testbit (x - 1) (N.of_nat m) = false /\
  forall j, j < N.of_nat m -> N.testbit (x - 1) j = true.
Proof.
  induction m as [|m IH]; intros a x Hx.
  - change (2 ^ N.of_nat 0) with 1 in *. change (N.of_nat 0) with 0.
    replace (x - 1) with (2 * a) by lia.
    replace x with (2 * a + 1) by lia.
    rewrite land_even_odd. split; [lia|]. split.
    + apply N.testbit_even_0.
    + intros j Hj. exfalso. lia.
  - rewrite Nat2N.inj_succ, N.pow_succ_r' in *.
    set (y := 2 ^ N.of_nat m * (2 * a + 1)) in *.
    destruct (IH a y eq_refl) as [IH1 [IH2 IH3]].
    assert (Hy : 0 < y).
    { unfold y. apply N.mul_pos_pos; [|lia]. apply N.neq_0_lt_0, N.pow_nonzero. discriminate. }
    replace (x - 1) with (2 * (y - 1) + 1) by lia.
    replace x with (2 * y) by lia.
    rewrite land_odd_even. split; [lia|]. split.
    + rewrite N.testbit_odd_succ by apply N.le_0_l. exact IH2.
    + intros j Hj. destruct (N.eq_dec j 0) as [->|Hj0].
      * apply N.testbit_odd_0.
      * rewrite <- (N.succ_pred j Hj0).
        rewrite N.testbit_odd_succ by apply N.le_0_l.
        apply IH3. lia.
Qed.

(** [last_set_bit (i+1)] is 2^m where m is the number of trailing one bits of i *)
Lemma last_set_bit_succ i : i < MAXU ->
  exists m, last_set_bit (i + 1) = Some (2 ^ m) /\ m < 64 /\
            N.testbit i m = false /\
            forall j, j < m -> N.testbit i j = true.
Proof.
  intros Hi.
  destruct (odd_decomp (i + 1)) as [m [a Hx]]; [lia|].
  destruct (lsb_key m a (i + 1) Hx) as [K1 [K2 K3]].
  replace (i + 1 - 1) with i in * by lia.
  assert (Hpos : 0 < 2 ^ N.of_nat m).
  { apply N.neq_0_lt_0, N.pow_nonzero. discriminate. }
  exists (N.of_nat m). split; [|split; [|split]].
  - unfold last_set_bit, bind, checked_sub.
    destruct (N.leb_spec 1 (i + 1)) as [_|Hc]; [|exfalso; lia].
    replace (i + 1 - 1) with i by lia.
    destruct (N.leb_spec (N.land i (i + 1)) (i + 1)) as [_|Hc]; [|exfalso; lia].
    rewrite K1. reflexivity.
  - apply (N.pow_lt_mono_r_iff 2); [lia|].
    rewrite pow2_64. rewrite MAXU_val in Hi. lia.
  - exact K2.
  - exact K3.
Qed.

(** * one iteration of the parent loop *)

Definition ones (k : nat) (i : N) : Prop := forall j, j < N.of_nat k -> N.testbit i j = true.

Lemma testbit_MAXU_low j : j < 64 -> N.testbit MAXU j = true.
Proof. intros Hj. rewrite MAXU_ones. apply N.ones_spec_low. exact Hj. Qed.

Lemma testbit_shl64_pow2 m j : j <= m -> N.testbit (shl64 (2 ^ m) 1) j = false.
Proof.
  intros Hj. unfold shl64.
  destruct (N.lt_ge_cases j 64) as [Hlt|Hge].
  - rewrite N.mod_pow2_bits_low by exact Hlt.
    rewrite N.shiftl_mul_pow2, <- N.pow_add_r.
    apply N.pow2_bits_false. lia.
  - apply N.mod_pow2_bits_high. exact Hge.
Qed.

Lemma parent_step i m :
  i <= MAXU -> m < 64 -> N.testbit i m = false -> (forall j, j < m -> N.testbit i j = true) ->
  let p := N.land (N.lor (2 ^ m) i) (lnot64 (shl64 (2 ^ m) 1)) in
  p <= MAXU /\ forall k, ones k i -> ones (S k) p.
Proof.
  intros Hi Hm Hbit Hlow p. split.
  - assert (Hp : p < 2 ^ 64); [|rewrite pow2_64 in Hp; rewrite MAXU_val; lia].
    apply lt_of_testbit_high. intros j Hj. unfold p.
    rewrite N.land_spec, N.lor_spec.
    rewrite (testbit_high_of_lt i j) by (try exact Hj; rewrite pow2_64; rewrite MAXU_val in Hi; lia).
    rewrite N.pow2_bits_false by lia. reflexivity.
  - intros k Hk j Hj.
    assert (Hkm : N.of_nat k <= m).
    { apply N.le_ngt. intros Hc. rewrite (Hk m Hc) in Hbit. discriminate. }
    assert (Hjm : j <= m) by lia.
    unfold p, lnot64. rewrite N.land_spec, N.lor_spec, N.lxor_spec.
    rewrite testbit_shl64_pow2 by exact Hjm.
    rewrite testbit_MAXU_low by lia.
    destruct (N.eq_dec j m) as [->|Hne].
    + rewrite N.pow2_bits_true. reflexivity.
    + rewrite Hlow by lia. rewrite orb_true_r. reflexivity.
Qed.

(** * the loop never runs out of fuel *)

Lemma ccp_loop_total n : forall (f k : nat) i,
  i <= MAXU -> ones k i -> (66 <= f + k)%nat ->
  exists r, checked_complete_parent_loop f i n = Some r /\
            forall p, r = Some p -> p <= MAXU.
Proof.
  induction f as [|f IH]; intros k i Hi Hk Hfk.
  - exfalso.
    assert (Hb : N.testbit i 64 = true) by (apply Hk; lia).
    rewrite testbit_high_of_lt in Hb; [discriminate| |lia].
    rewrite pow2_64. rewrite MAXU_val in Hi. lia.
  - cbn [checked_complete_parent_loop].
    destruct (checked_add MAXU i 1) as [i1|] eqn:Hadd.
    + apply checked_add_Some in Hadd. destruct Hadd as [-> Hle].
      destruct (last_set_bit_succ i) as [m [Hz [Hm [Hbit Hlow]]]]; [lia|].
      rewrite Hz.
      destruct (parent_step i m Hi Hm Hbit Hlow) as [Hp Hones].
      cbv zeta.
      destruct (N.land (N.lor (2 ^ m) i) (lnot64 (shl64 (2 ^ m) 1)) <? n).
      * eexists. split; [reflexivity|]. intros p Hpe. injection Hpe as <-. exact Hp.
      * apply (IH (S k)); [exact Hp|apply Hones; exact Hk|lia].
    + exists None. split; [reflexivity|]. intros p Hpe. discriminate Hpe.
Qed.

Lemma ones_0 i : ones 0 i.
Proof. intros j Hj. exfalso. change (N.of_nat 0) with 0 in Hj. lia. Qed.

Lemma checked_complete_parent_total i n : i <= MAXU ->
  exists r, checked_complete_parent i n = Some r /\ forall p, r = Some p -> p <= MAXU.
Proof.
  intros Hi. unfold checked_complete_parent.
  apply (ccp_loop_total n 66 0 i Hi (ones_0 i)). lia.
Qed.

Lemma checked_complete_parent_not_None i n : i <= MAXU ->
  checked_complete_parent_loop 66 i n <> None.
Proof.
  intros Hi. destruct (checked_complete_parent_total i n Hi) as [r [Hr _]].
  unfold checked_complete_parent in Hr. rewrite Hr. discriminate.
Qed.

(** * reconstruction and verification are total *)

Section Total.
  Variable D : Type.
  Variable nodeH : D -> D -> D.
  Variable eqD : D -> D -> bool.

  Lemma reconstruct_loop_total n : forall path i acc, i <= MAXU ->
    exists x, reconstruct_loop D nodeH path i n acc = Some x.
  Proof.
    induction path as [|s r IH]; intros i acc Hi.
    - exists acc. reflexivity.
    - cbn [reconstruct_loop].
      destruct (checked_complete_parent_total i n Hi) as [[p|] [Hr Hp]]; rewrite Hr.
      + apply IH. apply Hp. reflexivity.
      + apply IH. exact Hi.
  Qed.

  Lemma leaf_index_in_tree_inv li size : is_leaf_index_in_tree li size = true ->
    leaf_index_to_tree_index li = Some (li * 2) /\ li * 2 <= MAXU.
  Proof.
    unfold is_leaf_index_in_tree, leaf_index_to_tree_index, checked_mul.
    destruct (N.leb_spec (li * 2) MAXU) as [Hle|Hgt]; [|discriminate].
    intros _. split; [reflexivity|exact Hle].
  Qed.

  Lemma verify_total_sec : stmt_verify_total D nodeH eqD.
  Proof.
    intros path extra li size _ _. unfold try_into_proof.
    destruct (size =? 0); [exact I|].
    destruct (is_leaf_index_in_tree li size) eqn:Hin; cbn [negb]; [|exact I].
    destruct (extra =? 0); cbn [negb]; [|exact I].
    intros l r.
    destruct (leaf_index_in_tree_inv li size Hin) as [Hti Hle].
    unfold verify, reconstruct_root, bind. cbn [leaf_index audit_path tree_size].
    rewrite Hti.
    destruct (reconstruct_loop_total size path (li * 2) l Hle) as [x Hx].
    rewrite Hx. eexists. reflexivity.
  Qed.
End Total.

Theorem verify_total : forall (D : Type) (nodeH : D -> D -> D) (eqD : D -> D -> bool),
  stmt_verify_total D nodeH eqD.
Proof. exact verify_total_sec. Qed.

Print Assumptions verify_total.
Print Assumptions checked_complete_parent_not_None.
