(** C08 -- soundness of Merkle audit-proof verification: two accepted proofs that differ
    (in the leaf hash, or in the audit path) exhibit an explicit collision of the node hash;
    the accepted root is unique. *)
From Astria Require Import Merkle.MerkleSpec.

Section Sound.
  Variable D : Type.
  Variable nodeH : D -> D -> D.
  Variable eqD : D -> D -> bool.

  Local Notation Collision := (Collision D nodeH).
  Local Notation EqDSpec := (EqDSpec D eqD).
  Local Notation reconstruct_loop := (reconstruct_loop D nodeH).
  Local Notation reconstruct_root := (reconstruct_root D nodeH).
  Local Notation verify := (verify D nodeH eqD).

  Hypothesis Heq : EqDSpec.

  Lemma eqD_dec (a b : D) : a = b \/ a <> b.
  Proof.
    destruct (eqD a b) eqn:E.
    - left. apply Heq. exact E.
    - right. intros Hab. apply Heq in Hab. congruence.
  Qed.

  (** equal outputs of the node hash: equal inputs, or a collision *)
  Lemma nodeH_inj_or_collision a b c d :
    nodeH a b = nodeH c d -> (a = c /\ b = d) \/ Collision.
  Proof.
    intros Hh.
    destruct (eqD_dec a c) as [Hac|Hac].
    - destruct (eqD_dec b d) as [Hbd|Hbd].
      + left. split; assumption.
      + right. exists a, b, c, d. split; [|exact Hh].
        intros Hp. inversion Hp. contradiction.
    - right. exists a, b, c, d. split; [|exact Hh].
      intros Hp. inversion Hp. contradiction.
  Qed.

  (** the central induction: the sequence of indices and directions depends on (i, n) only *)
  Lemma reconstruct_loop_inj n :
    forall path path' i acc acc' x,
      length path = length path' ->
      reconstruct_loop path i n acc = Some x ->
      reconstruct_loop path' i n acc' = Some x ->
      (acc = acc' /\ path = path') \/ Collision.
  Proof.
    induction path as [|s r IH]; intros path' i acc acc' x Hlen H1 H2.
    - destruct path' as [|s' r']; [|discriminate Hlen].
      cbn [MerkleModel.reconstruct_loop] in H1, H2.
      left. split; [congruence|reflexivity].
    - destruct path' as [|s' r']; [discriminate Hlen|].
      cbn [length] in Hlen. injection Hlen as Hlen.
      cbn [MerkleModel.reconstruct_loop] in H1, H2.
      destruct (checked_complete_parent i n) as [[p|]|]; [| |discriminate H1].
      + destruct (IH r' p _ _ x Hlen H1 H2) as [[Hacc Hr]|Hc]; [|right; exact Hc].
        destruct (i <? p).
        * destruct (nodeH_inj_or_collision _ _ _ _ Hacc) as [[Ha Hs]|Hc]; [|right; exact Hc].
          left. split; [exact Ha|]. rewrite Hs, Hr. reflexivity.
        * destruct (nodeH_inj_or_collision _ _ _ _ Hacc) as [[Hs Ha]|Hc]; [|right; exact Hc].
          left. split; [exact Ha|]. rewrite Hs, Hr. reflexivity.
      + destruct (IH r' i _ _ x Hlen H1 H2) as [[Hacc Hr]|Hc]; [|right; exact Hc].
        destruct (nodeH_inj_or_collision _ _ _ _ Hacc) as [[Ha Hs]|Hc]; [|right; exact Hc].
        left. split; [exact Ha|]. rewrite Hs, Hr. reflexivity.
  Qed.

  (** [verify] accepts exactly when the reconstructed root is the claimed one *)
  Lemma verify_true_inv p l r :
    verify p l r = Some true -> reconstruct_root p l = Some r.
  Proof.
    unfold MerkleModel.verify, bind. intros H.
    destruct (reconstruct_root p l) as [x|]; [|discriminate H].
    injection H as H. apply Heq in H. rewrite H. reflexivity.
  Qed.

  Lemma reconstruct_root_inv p l r :
    reconstruct_root p l = Some r ->
    exists i, reconstruct_loop (audit_path p) i (tree_size p) l = Some r.
  Proof.
    unfold MerkleModel.reconstruct_root, bind. intros H.
    destruct (leaf_index_to_tree_index (leaf_index p)) as [i|]; [|discriminate H].
    exists i. exact H.
  Qed.

  Lemma reconstruct_root_inv2 p p' l l' r r' :
    leaf_index p = leaf_index p' ->
    reconstruct_root p l = Some r ->
    reconstruct_root p' l' = Some r' ->
    exists i, reconstruct_loop (audit_path p) i (tree_size p) l = Some r /\
              reconstruct_loop (audit_path p') i (tree_size p') l' = Some r'.
  Proof.
    unfold MerkleModel.reconstruct_root, bind. intros Hli H H'. rewrite <- Hli in H'.
    destruct (leaf_index_to_tree_index (leaf_index p)) as [i|]; [|discriminate H].
    exists i. split; assumption.
  Qed.

  Lemma sound_leaf_sec : stmt_sound_leaf D nodeH eqD.
  Proof.
    intros _ p l l' r H1 H2.
    apply verify_true_inv in H1. apply verify_true_inv in H2.
    destruct (reconstruct_root_inv2 p p l l' r r eq_refl H1 H2) as [i [L1 L2]].
    destruct (reconstruct_loop_inj _ _ _ _ _ _ _ eq_refl L1 L2) as [[Ha _]|Hc].
    - left. exact Ha.
    - right. exact Hc.
  Qed.

  Lemma sound_path_sec : stmt_sound_path D nodeH eqD.
  Proof.
    intros _ path path' li n l r Hlen H1 H2.
    apply verify_true_inv in H1. apply verify_true_inv in H2.
    destruct (reconstruct_root_inv2 {| audit_path := path; leaf_index := li; tree_size := n |}
                {| audit_path := path'; leaf_index := li; tree_size := n |}
                l l r r eq_refl H1 H2) as [i [L1 L2]].
    cbn [audit_path tree_size] in L1, L2.
    destruct (reconstruct_loop_inj _ _ _ _ _ _ _ Hlen L1 L2) as [[_ Hp]|Hc].
    - left. exact Hp.
    - right. exact Hc.
  Qed.

  Lemma sound_root_sec : stmt_sound_root D nodeH eqD.
  Proof.
    intros _ p l r r' H1 H2.
    apply verify_true_inv in H1. apply verify_true_inv in H2.
    congruence.
  Qed.
End Sound.

Theorem sound_leaf : forall (D : Type) (nodeH : D -> D -> D) (eqD : D -> D -> bool),
  stmt_sound_leaf D nodeH eqD.
Proof. intros D nodeH eqD Heq. exact (sound_leaf_sec D nodeH eqD Heq Heq). Qed.

Theorem sound_path : forall (D : Type) (nodeH : D -> D -> D) (eqD : D -> D -> bool),
  stmt_sound_path D nodeH eqD.
Proof. intros D nodeH eqD Heq. exact (sound_path_sec D nodeH eqD Heq Heq). Qed.

Theorem sound_root : forall (D : Type) (nodeH : D -> D -> D) (eqD : D -> D -> bool),
  stmt_sound_root D nodeH eqD.
Proof. intros D nodeH eqD Heq. exact (sound_root_sec D nodeH eqD Heq Heq). Qed.

Print Assumptions sound_leaf.
Print Assumptions sound_path.
Print Assumptions sound_root.
