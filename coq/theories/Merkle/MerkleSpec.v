(** C08 — the statements (as [Prop] definitions) that MerkleSound / MerkleTotal / MerkleRoot prove.
    Kept apart so that the proof files and Properties/C08.v talk about the same text. *)
From Astria Require Export Merkle.MerkleModel.

Section Spec.
  Variable D : Type.
  Variable nodeH : D -> D -> D.
  Variable emptyH zeroD : D.
  Variable eqD : D -> D -> bool.

  (** an explicit collision of the node hash *)
  Definition Collision : Prop :=
    exists a b c d : D, (a, b) <> (c, d) /\ nodeH a b = nodeH c d.

  Definition EqDSpec : Prop := forall a b, eqD a b = true <-> a = b.

  Local Notation verify := (verify D nodeH eqD).
  Local Notation reconstruct_root := (reconstruct_root D nodeH).
  Local Notation from_leaves := (from_leaves D nodeH zeroD).
  Local Notation root := (root D emptyH).
  Local Notation construct_proof := (construct_proof D).
  Local Notation try_into_proof := (try_into_proof D).
  Local Notation mth := (mth D nodeH emptyH).
  Local Notation rfc_path := (rfc_path D nodeH emptyH).

  (** soundness: same proof, two leaf hashes *)
  Definition stmt_sound_leaf : Prop :=
    EqDSpec -> forall p l l' r,
      verify p l r = Some true -> verify p l' r = Some true -> l = l' \/ Collision.

  (** soundness: same index/size/leaf, two audit paths of the same length *)
  Definition stmt_sound_path : Prop :=
    EqDSpec -> forall path path' li n l r,
      length path = length path' ->
      verify {| audit_path := path; leaf_index := li; tree_size := n |} l r = Some true ->
      verify {| audit_path := path'; leaf_index := li; tree_size := n |} l r = Some true ->
      path = path' \/ Collision.

  (** soundness: the claimed root is determined *)
  Definition stmt_sound_root : Prop :=
    EqDSpec -> forall p l r r',
      verify p l r = Some true -> verify p l r' = Some true -> r = r'.

  (** totality: any decodable (path, index, size) triple of machine integers verifies to
      true or false against any leaf and root — never a panic ([None]) *)
  Definition stmt_verify_total : Prop :=
    forall path extra li size, li <= MAXU -> size <= MAXU ->
      match try_into_proof path extra li size with
      | DOk p => forall l r, exists b, verify p l r = Some b
      | _ => True
      end.

  (** RFC 6962 root, for every leaf sequence that fits the address space *)
  Definition stmt_root_is_mth (bound : nat) : Prop :=
    forall ls : list D, (length ls <= bound)%nat ->
      exists t, from_leaves ls = Some t /\ root t = Some (mth ls).

  (** completeness: the constructed proof is the RFC 6962 audit path and reconstructs the root *)
  Definition stmt_proof_complete (bound : nat) : Prop :=
    forall (ls : list D) t i d, (length ls <= bound)%nat ->
      from_leaves ls = Some t -> nth_error ls i = Some d ->
      exists p, construct_proof t (N.of_nat i) = Some (Some p) /\
                audit_path p = rfc_path i ls /\
                leaf_index p = N.of_nat i /\
                tree_size p = tlen D t /\
                reconstruct_root p d = Some (mth ls).
End Spec.
