(** C08 — the flat in-order array of a complete tree, defined by the RFC 6962 split,
    and its elementary properties (length, position of the root, sub-arrays). *)
From Astria Require Import Merkle.MerkleModel Merkle.MerkleBits Merkle.MerkleNav.

Lemma P_pow d : N.of_nat (Nat.pow 2 d) = P d.
Proof. unfold P. rewrite Nat2N.inj_pow. reflexivity. Qed.

Lemma pow_pos d : (0 < Nat.pow 2 d)%nat.
Proof. pose proof (P_pow d). pose proof (P_pos d). lia. Qed.

Lemma nth_error_firstn_lt {A} k : forall (l : list A) m, (m < k)%nat ->
  nth_error (firstn k l) m = nth_error l m.
Proof.
  induction k as [|k IH]; intros l m H; [lia|].
  destruct l as [|x l]; [reflexivity|].
  destruct m as [|m]; [reflexivity|].
  cbn [firstn nth_error]. apply IH. lia.
Qed.

Lemma nth_error_skipn_add {A} k : forall (l : list A) m,
  nth_error (skipn k l) m = nth_error l (k + m).
Proof.
  induction k as [|k IH]; intros l m; [reflexivity|].
  destruct l as [|x l]; [destruct m; reflexivity|].
  cbn [skipn plus nth_error]. apply IH.
Qed.

Section Layout.
  Variable D : Type.
  Variable nodeH : D -> D -> D.
  Variable emptyH : D.

  Local Notation tlen := (tlen D).
  Local Notation get_node := (get_node D).
  Local Notation mth_d := (mth_d D nodeH emptyH).

  (** ** arrays *)
  Lemma tlen_app (a b : list D) : tlen (a ++ b) = tlen a + tlen b.
  Proof. unfold MerkleModel.tlen. rewrite app_length. lia. Qed.

  Lemma tlen_cons (x : D) (a : list D) : tlen (x :: a) = 1 + tlen a.
  Proof. unfold MerkleModel.tlen. cbn [length]. lia. Qed.

  Lemma tlen_nil : tlen [] = 0.
  Proof. reflexivity. Qed.

  Lemma get_node_app_r (a b : list D) i : get_node (a ++ b) (tlen a + i) = get_node b i.
  Proof.
    unfold MerkleModel.get_node. rewrite tlen_app.
    destruct (N.ltb_spec i (tlen b)) as [H|H].
    - assert (H' : tlen a + i <? tlen a + tlen b = true) by (apply N.ltb_lt; lia).
      rewrite H'. unfold MerkleModel.tlen.
      replace (N.to_nat (N.of_nat (length a) + i)) with (length a + N.to_nat i)%nat by lia.
      rewrite nth_error_app2 by lia. f_equal. lia.
    - assert (H' : tlen a + i <? tlen a + tlen b = false) by (apply N.ltb_ge; lia).
      rewrite H'. reflexivity.
  Qed.

  Lemma get_node_app_l (a b : list D) i : i < tlen a -> get_node (a ++ b) i = get_node a i.
  Proof.
    intros Hi. unfold MerkleModel.get_node. rewrite tlen_app.
    assert (H1 : i <? tlen a + tlen b = true) by (apply N.ltb_lt; lia).
    assert (H2 : i <? tlen a = true) by (apply N.ltb_lt; lia).
    rewrite H1, H2. apply nth_error_app1. unfold MerkleModel.tlen in Hi. lia.
  Qed.

  Lemma get_node_head (x : D) (a : list D) : get_node (x :: a) 0 = Some x.
  Proof. reflexivity. Qed.

  Lemma set_nth_app (a b : list D) g v :
    set_nth D (a ++ g :: b) (length a) v = a ++ v :: b.
  Proof.
    induction a as [|y a IH]; [reflexivity|].
    cbn [app length set_nth]. rewrite IH. reflexivity.
  Qed.

  Lemma set_node_app (a b : list D) g v :
    set_node D (a ++ g :: b) (tlen a) v = Some (a ++ v :: b).
  Proof.
    unfold set_node. rewrite tlen_app, tlen_cons.
    assert (H : tlen a <? tlen a + (1 + tlen b) = true) by (apply N.ltb_lt; lia).
    rewrite H. unfold MerkleModel.tlen. rewrite Nat2N.id, set_nth_app. reflexivity.
  Qed.

  (** ** the layout *)
  Fixpoint layout_d (d : nat) (l : list D) : list D :=
    match d with
    | O => l
    | S d' =>
        let k := Nat.pow 2 d' in
        if Nat.leb (length l) k then layout_d d' l
        else layout_d d' (firstn k l)
             ++ nodeH (mth_d d' (firstn k l)) (mth_d d' (skipn k l))
             :: layout_d d' (skipn k l)
    end.

  Lemma layout_skip d l : (length l <= Nat.pow 2 d)%nat -> layout_d (S d) l = layout_d d l.
  Proof.
    intros H. cbn [layout_d]. apply Nat.leb_le in H. rewrite H. reflexivity.
  Qed.

  Lemma layout_node d l : (Nat.pow 2 d < length l)%nat ->
    layout_d (S d) l =
    layout_d d (firstn (Nat.pow 2 d) l)
    ++ nodeH (mth_d d (firstn (Nat.pow 2 d) l)) (mth_d d (skipn (Nat.pow 2 d) l))
    :: layout_d d (skipn (Nat.pow 2 d) l).
  Proof.
    intros H. cbn [layout_d]. apply Nat.leb_gt in H. rewrite H. reflexivity.
  Qed.

  Lemma mth_skip d l : (length l <= Nat.pow 2 d)%nat -> mth_d (S d) l = mth_d d l.
  Proof.
    intros H. cbn [MerkleModel.mth_d]. apply Nat.leb_le in H. rewrite H. reflexivity.
  Qed.

  Lemma mth_node d l : (Nat.pow 2 d < length l)%nat ->
    mth_d (S d) l =
    nodeH (mth_d d (firstn (Nat.pow 2 d) l)) (mth_d d (skipn (Nat.pow 2 d) l)).
  Proof.
    intros H. cbn [MerkleModel.mth_d]. apply Nat.leb_gt in H. rewrite H. reflexivity.
  Qed.

  (** facts about the split of [l] at [k = 2^d] *)
  Lemma split_facts d l :
    (Nat.pow 2 d < length l)%nat -> (length l <= Nat.pow 2 (S d))%nat ->
    length (firstn (Nat.pow 2 d) l) = Nat.pow 2 d /\
    (1 <= length (skipn (Nat.pow 2 d) l) <= Nat.pow 2 d)%nat /\
    tlen (firstn (Nat.pow 2 d) l) = P d /\
    tlen (skipn (Nat.pow 2 d) l) = tlen l - P d /\
    P d < tlen l /\ tlen l <= P (S d).
  Proof.
    intros Hlo Hhi. pose proof (P_pow d) as HP. pose proof (P_pow (S d)) as HPS.
    pose proof (P_S d) as HS.
    unfold MerkleModel.tlen. rewrite firstn_length, skipn_length.
    cbn [Nat.pow] in Hhi.
    repeat apply conj; lia.
  Qed.

  Lemma layout_len d : forall l, (1 <= length l)%nat -> (length l <= Nat.pow 2 d)%nat ->
    tlen (layout_d d l) = 2 * tlen l - 1.
  Proof.
    induction d as [|d IH]; intros l H1 Hd.
    - cbn [layout_d]. cbn [Nat.pow] in Hd. unfold MerkleModel.tlen. lia.
    - destruct (Nat.le_gt_cases (length l) (Nat.pow 2 d)) as [Hle|Hgt].
      + rewrite layout_skip by exact Hle. apply IH; assumption.
      + rewrite layout_node by exact Hgt.
        destruct (split_facts d l Hgt Hd) as (HlL & HlR & HtL & HtR & Hlo & Hhi).
        pose proof (pow_pos d) as Hk.
        rewrite tlen_app, tlen_cons, !IH by lia.
        rewrite HtL, HtR. pose proof (P_pos d). lia.
  Qed.

  Lemma layout_root d : forall l, (1 <= length l)%nat -> (length l <= Nat.pow 2 d)%nat ->
    get_node (layout_d d l) (P (lg (tlen l)) - 1) = Some (mth_d d l).
  Proof.
    induction d as [|d IH]; intros l H1 Hd.
    - cbn [Nat.pow] in Hd. destruct l as [|x [|y l]]; cbn [length] in *; try lia.
      reflexivity.
    - destruct (Nat.le_gt_cases (length l) (Nat.pow 2 d)) as [Hle|Hgt].
      + rewrite layout_skip, mth_skip by exact Hle. apply IH; assumption.
      + rewrite layout_node, mth_node by exact Hgt.
        destruct (split_facts d l Hgt Hd) as (HlL & HlR & HtL & HtR & Hlo & Hhi).
        pose proof (pow_pos d) as Hk. pose proof (P_S d) as HS. pose proof (P_pos d) as Hp.
        assert (Hlg : lg (tlen l) = S d) by (apply lg_unique; lia).
        rewrite Hlg.
        assert (HL : tlen (layout_d d (firstn (Nat.pow 2 d) l)) = P (S d) - 1).
        { rewrite layout_len by lia. rewrite HtL. lia. }
        replace (P (S d) - 1) with (tlen (layout_d d (firstn (Nat.pow 2 d) l)) + 0) by lia.
        rewrite get_node_app_r. reflexivity.
  Qed.

  Lemma layout_plus d k : forall l, (length l <= Nat.pow 2 d)%nat ->
    layout_d (k + d) l = layout_d d l.
  Proof.
    induction k as [|k IH]; intros l Hl; [reflexivity|].
    cbn [plus]. rewrite layout_skip; [apply IH; exact Hl|].
    assert (P d <= P (k + d)) by (apply P_le; lia).
    pose proof (P_pow d). pose proof (P_pow (k + d)). lia.
  Qed.

  Lemma layout_indep d d' l :
    (length l <= Nat.pow 2 d)%nat -> (length l <= Nat.pow 2 d')%nat ->
    layout_d d l = layout_d d' l.
  Proof.
    intros H H'. destruct (Nat.le_ge_cases d d') as [Hle|Hge].
    - replace d' with ((d' - d) + d)%nat by lia. symmetry. apply layout_plus. exact H.
    - replace d with ((d - d') + d')%nat by lia. apply layout_plus. exact H'.
  Qed.

  (** ** sub-arrays of a fixed global array *)
  Definition Sub (t : list D) (off : N) (d : nat) (l : list D) : Prop :=
    exists pre post, t = pre ++ layout_d d l ++ post /\ tlen pre = off.

  Lemma Sub_skip t off d l :
    Sub t off (S d) l -> (length l <= Nat.pow 2 d)%nat -> Sub t off d l.
  Proof.
    intros (pre & post & Ht & Hpre) Hle. exists pre, post.
    rewrite layout_skip in Ht by exact Hle. split; assumption.
  Qed.

  Lemma Sub_left t off d l :
    Sub t off (S d) l -> (Nat.pow 2 d < length l)%nat ->
    Sub t off d (firstn (Nat.pow 2 d) l).
  Proof.
    intros (pre & post & Ht & Hpre) Hgt.
    rewrite layout_node in Ht by exact Hgt.
    eexists pre, _. split; [|exact Hpre].
    rewrite Ht. rewrite <- !app_assoc. reflexivity.
  Qed.

  Lemma Sub_right t off d l :
    Sub t off (S d) l -> (Nat.pow 2 d < length l)%nat -> (length l <= Nat.pow 2 (S d))%nat ->
    Sub t (off + P (S d)) d (skipn (Nat.pow 2 d) l).
  Proof.
    intros (pre & post & Ht & Hpre) Hgt Hle.
    rewrite layout_node in Ht by exact Hgt.
    destruct (split_facts d l Hgt Hle) as (HlL & HlR & HtL & HtR & Hlo & Hhi).
    pose proof (pow_pos d) as Hk. pose proof (P_S d) as HS. pose proof (P_pos d) as Hp.
    exists (pre ++ layout_d d (firstn (Nat.pow 2 d) l)
            ++ [nodeH (mth_d d (firstn (Nat.pow 2 d) l)) (mth_d d (skipn (Nat.pow 2 d) l))]),
      post.
    split.
    - rewrite Ht. rewrite <- !app_assoc. reflexivity.
    - rewrite !tlen_app, tlen_cons, tlen_nil, layout_len by lia.
      rewrite HtL. lia.
  Qed.

  Lemma Sub_root t off d l :
    Sub t off d l -> (1 <= length l)%nat -> (length l <= Nat.pow 2 d)%nat ->
    get_node t (rroot off (tlen l)) = Some (mth_d d l).
  Proof.
    intros (pre & post & Ht & Hpre) H1 Hd. subst t off.
    unfold rroot. pose proof (P_pos (lg (tlen l))) as Hp.
    replace (tlen pre + P (lg (tlen l)) - 1) with (tlen pre + (P (lg (tlen l)) - 1)) by lia.
    rewrite get_node_app_r.
    pose proof (layout_root d l H1 Hd) as Hr.
    rewrite get_node_app_l; [exact Hr|].
    unfold MerkleModel.get_node in Hr.
    destruct (P (lg (tlen l)) - 1 <? tlen (layout_d d l)) eqn:E; [|discriminate].
    apply N.ltb_lt. exact E.
  Qed.
End Layout.
