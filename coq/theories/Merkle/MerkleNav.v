(** C08 — navigation in the flat in-order complete tree: [complete_root],
    [complete_parent], [complete_left_child], [complete_right_child] and
    [checked_complete_parent] computed on the RFC 6962 split of a leaf range. *)
From Astria Require Import Merkle.MerkleModel Merkle.MerkleBits.

(** powers of two indexed by a [nat] depth *)
Definition P (d : nat) : N := 2 ^ N.of_nat d.

Lemma P_0 : P 0 = 1.
Proof. reflexivity. Qed.

Lemma P_S d : P (S d) = 2 * P d.
Proof. unfold P. rewrite Nat2N.inj_succ. apply N.pow_succ_r'. Qed.

Lemma P_pos d : 0 < P d.
Proof. apply pow2_pos. Qed.

Lemma P_le a b : (a <= b)%nat -> P a <= P b.
Proof. intros H. apply pow2_le. lia. Qed.

Lemma P_lt a b : (a < b)%nat -> P a < P b.
Proof. intros H. apply pow2_lt. lia. Qed.

Lemma P_lt_inv a b : P a < P b -> (a < b)%nat.
Proof.
  intros H. destruct (Nat.lt_ge_cases a b) as [Hlt|Hge]; [exact Hlt|].
  apply P_le in Hge. lia.
Qed.

Lemma P_N1 d : 2 ^ (N.of_nat d + 1) = P (S d).
Proof. unfold P. f_equal. lia. Qed.

Lemma P_N2 d : 2 ^ (N.of_nat d + 2) = P (S (S d)).
Proof. unfold P. f_equal. lia. Qed.

Lemma P_63 : P 63 = 2 ^ 63.
Proof. reflexivity. Qed.

Lemma P_mod_weaken off a b : (a <= b)%nat -> off mod P b = 0 -> off mod P a = 0.
Proof. intros H. apply mod_pow2_weaken. lia. Qed.

Lemma P_mod_add off a b : (a <= b)%nat -> off mod P b = 0 -> (off + P b) mod P a = 0.
Proof.
  intros Hab H. apply (P_mod_weaken _ a b Hab). apply mod_pow2_add. exact H.
Qed.

(** ceiling of log2 as a depth *)
Definition lg (m : N) : nat := N.to_nat (N.log2_up m).

Lemma P_lg m : P (lg m) = 2 ^ N.log2_up m.
Proof. unfold P, lg. rewrite N2Nat.id. reflexivity. Qed.

Lemma lg_spec m : 1 <= m -> m <= P (lg m) /\ P (lg m) < 2 * m.
Proof.
  intros Hm. rewrite P_lg.
  destruct (N.eq_dec m 1) as [->|Hne].
  - change (N.log2_up 1) with 0. change (2 ^ 0) with 1. lia.
  - assert (H1 : 1 < m) by lia.
    pose proof (N.log2_up_spec m H1) as [Hlo Hhi].
    pose proof (N.log2_up_pos m H1) as Hpos.
    split; [exact Hhi|].
    replace (N.log2_up m) with (N.succ (N.pred (N.log2_up m))) by lia.
    rewrite N.pow_succ_r'. lia.
Qed.

Lemma lg_unique m e : m <= P e -> P e < 2 * m -> lg m = e.
Proof.
  intros Hhi Hlo. destruct e as [|e].
  - rewrite P_0 in *. assert (m = 1) by lia. subst. reflexivity.
  - rewrite P_S in Hlo. unfold lg.
    rewrite (N.log2_up_unique m (N.of_nat (S e))).
    + apply Nat2N.id.
    + lia.
    + split.
      * replace (N.pred (N.of_nat (S e))) with (N.of_nat e) by lia.
        fold (P e). lia.
      * exact Hhi.
Qed.

Lemma lg_le m d : 1 <= m -> m <= P d -> (lg m <= d)%nat.
Proof.
  intros Hm Hd. pose proof (lg_spec m Hm) as [_ Hlo].
  destruct (Nat.le_gt_cases (lg m) d) as [H|H]; [exact H|].
  assert (Hle : P (S d) <= P (lg m)) by (apply P_le; lia).
  rewrite P_S in Hle. lia.
Qed.

(** * complete_root *)
Lemma next_power_of_two_spec x :
  1 < x -> 2 ^ N.log2_up x <= MAXU -> next_power_of_two x = Some (2 ^ N.log2_up x).
Proof.
  intros Hx Hle. unfold next_power_of_two.
  destruct (N.leb_spec x 1) as [H|H]; [lia|].
  destruct (N.leb_spec (2 ^ N.log2_up x) MAXU) as [H'|H']; [reflexivity|lia].
Qed.

Lemma complete_root_spec m :
  1 <= m -> m <= 2 ^ 62 -> complete_root (2 * m - 1) = Some (P (lg m) - 1).
Proof.
  intros Hm Hmax.
  pose proof (lg_spec m Hm) as [Hhi Hlo].
  set (e := lg m) in *.
  assert (H62 : 2 ^ 62 = 4611686018427387904) by reflexivity.
  assert (HM : MAXU = 18446744073709551615) by reflexivity.
  assert (H64 : 2 ^ 64 = 18446744073709551616) by reflexivity.
  unfold complete_root, bind.
  assert (Hw : wrapping_add1 (2 * m - 1) = 2 * m).
  { unfold wrapping_add1. replace (2 * m - 1 + 1) with (2 * m) by lia.
    apply N.mod_small. lia. }
  rewrite Hw.
  assert (Hl2 : 2 ^ N.log2_up (2 * m) = 2 * P e).
  { rewrite N.log2_up_double by lia. rewrite N.pow_succ_r'.
    unfold e. rewrite P_lg. reflexivity. }
  rewrite next_power_of_two_spec by (rewrite ?Hl2; lia).
  rewrite Hl2.
  unfold perfect_root, bind.
  assert (Hperf : is_perfect (2 * P e - 1) = Some true).
  { unfold is_perfect.
    destruct (N.eqb_spec (2 * P e - 1) 1) as [H1|H1]; [reflexivity|].
    assert (Hl3 : N.log2_up (2 * P e - 1) = N.of_nat (S e)).
    { apply N.log2_up_unique; [lia|].
      replace (N.pred (N.of_nat (S e))) with (N.of_nat e) by lia.
      fold (P e). fold (P (S e)). rewrite P_S. lia. }
    unfold bind.
    rewrite next_power_of_two_spec; rewrite ?Hl3; fold (P (S e)); rewrite ?P_S; try lia.
    f_equal. apply N.eqb_eq. unfold wrapping_add1.
    replace (2 * P e - 1 + 1) with (2 * P e) by lia.
    symmetry. apply N.mod_small. lia. }
  rewrite Hperf. cbn [assert]. f_equal.
  rewrite N.shiftr_div_pow2. change (2 ^ 1) with 2.
  symmetry. apply (N.div_unique _ 2 _ 1); lia.
Qed.

(** * the checked parent loop computes what the unchecked loop computes *)
Lemma checked_loop_of_loop fuel : forall i n p,
  complete_parent_loop fuel i n = Some p ->
  checked_complete_parent_loop fuel i n = Some (Some p).
Proof.
  induction fuel as [|f IH]; intros i n p H; [discriminate|].
  cbn [complete_parent_loop checked_complete_parent_loop] in *.
  unfold perfect_parent, last_zero_bit, bind in H.
  destruct (checked_add MAXU i 1) as [i1|]; [|discriminate].
  destruct (last_set_bit i1) as [z|]; [|discriminate].
  destruct (N.land (N.lor z i) (lnot64 (shl64 z 1)) <? n); [congruence|].
  apply IH. exact H.
Qed.

Lemma checked_of_complete_parent i n p :
  complete_parent i n = Some p -> checked_complete_parent i n = Some (Some p).
Proof. apply checked_loop_of_loop. Qed.

(** * geometry of a subtree
    [Geo off d c n]: the [c] leaves of the subtree occupy the indices
    [off, off + 2c - 1) of a tree of [n] nodes; the enclosing virtual perfect tree has
    depth [d]; the subtree is perfect or reaches the end of the array. *)
Definition Geo (off : N) (d : nat) (c n : N) : Prop :=
  off mod P (S d) = 0 /\ 1 <= c /\ c <= P d /\
  (c = P d /\ off + 2 * c - 1 <= n \/ off + 2 * c - 1 = n) /\
  off + P (S d) <= 2 ^ 63.

Lemma Geo_skip off d c n : Geo off (S d) c n -> c <= P d -> Geo off d c n.
Proof.
  intros (Hal & H1 & Hc & Hend & Hb) Hle.
  pose proof (P_S d) as HS. pose proof (P_S (S d)) as HSS.
  repeat apply conj; try lia.
  - apply (P_mod_weaken off (S d) (S (S d))); [lia|exact Hal].
Qed.

Lemma Geo_left off d c n : Geo off (S d) c n -> P d < c -> Geo off d (P d) n.
Proof.
  intros (Hal & H1 & Hc & Hend & Hb) Hlt.
  pose proof (P_S d) as HS. pose proof (P_S (S d)) as HSS. pose proof (P_pos d) as Hp.
  repeat apply conj; try lia.
  - apply (P_mod_weaken off (S d) (S (S d))); [lia|exact Hal].
Qed.

Lemma Geo_right off d c n :
  Geo off (S d) c n -> P d < c -> Geo (off + P (S d)) d (c - P d) n.
Proof.
  intros (Hal & H1 & Hc & Hend & Hb) Hlt.
  pose proof (P_S d) as HS. pose proof (P_S (S d)) as HSS. pose proof (P_pos d) as Hp.
  repeat apply conj; try lia.
  - rewrite N.add_mod by lia.
    rewrite (P_mod_weaken off (S d) (S (S d))) by (try lia; exact Hal).
    rewrite N.mod_same by lia. reflexivity.
Qed.

(** the index of the real root of a subtree of [c] leaves at [off] *)
Definition rroot (off c : N) : N := off + P (lg c) - 1.

Section Node.
  Variables (off : N) (d : nat) (c n : N).
  Hypothesis HG : Geo off (S d) c n.
  Hypothesis Hc : P d < c.

  Let p := off + P (S d) - 1.
  Let lc := off + P d - 1.
  Let rr := rroot (off + P (S d)) (c - P d).

  Lemma node_facts :
    off mod P (S (S d)) = 0 /\ off + P (S (S d)) <= 2 ^ 63 /\
    1 <= c - P d /\ c - P d <= P d /\ P (S d) = 2 * P d /\ P (S (S d)) = 4 * P d /\
    0 < P d /\ (d <= 61)%nat.
  Proof.
    destruct HG as (Hal & H1 & Hcle & Hend & Hb).
    pose proof (P_S d) as HS. pose proof (P_S (S d)) as HSS. pose proof (P_pos d) as Hp.
    repeat apply conj; try lia; try assumption.
    assert (Hlt : P (S (S d)) < P 64).
    { change (P 64) with 18446744073709551616.
      change (2 ^ 63) with 9223372036854775808 in Hb. lia. }
    apply P_lt_inv in Hlt. lia.
  Qed.

  Lemma p_lt_n : p < n.
  Proof.
    destruct HG as (Hal & H1 & Hcle & Hend & Hb). pose proof node_facts. unfold p. lia.
  Qed.

  Lemma rr_bounds : p < rr /\ rr < n /\ lc < p /\ rr < off + 2 * c - 1.
  Proof.
    destruct HG as (Hal & H1 & Hcle & Hend & Hb).
    destruct node_facts as (_ & _ & Hm1 & Hm2 & HS & HSS & Hp & _).
    pose proof (lg_spec (c - P d) Hm1) as [Hhi Hlo].
    pose proof (P_pos (lg (c - P d))).
    unfold p, rr, lc, rroot. repeat apply conj; lia.
  Qed.

  Lemma bits_al : off mod 2 ^ (N.of_nat d + 2) = 0.
  Proof. rewrite P_N2. apply node_facts. Qed.

  Lemma bits_bd : off + 2 ^ (N.of_nat d + 2) <= 2 ^ 64.
  Proof.
    rewrite P_N2. destruct node_facts as (_ & Hb & _).
    change (2 ^ 63) with 9223372036854775808 in Hb.
    change (2 ^ 64) with 18446744073709551616. lia.
  Qed.

  Lemma nav_left_child : complete_left_child p = Some lc.
  Proof.
    unfold complete_left_child, p, lc.
    pose proof (perfect_left_child_spec off (N.of_nat d) bits_al bits_bd) as H.
    rewrite P_N1 in H. exact H.
  Qed.

  Lemma nav_parent_of_left : complete_parent lc n = Some p.
  Proof.
    unfold complete_parent. cbn [complete_parent_loop]. unfold bind.
    pose proof (perfect_parent_left off (N.of_nat d) bits_al bits_bd) as H.
    rewrite P_N1 in H. fold (P d) in H. fold lc in H. fold p in H.
    rewrite H. pose proof p_lt_n as Hlt. apply N.ltb_lt in Hlt. rewrite Hlt. reflexivity.
  Qed.

  (** climbing from the root of the right subtree through absent virtual nodes *)
  Lemma climb k : forall e f, (e + k = d)%nat ->
    ((0 < k)%nat -> n <= off + P (S d) + P (S e) - 1) ->
    complete_parent_loop (S k + f) (off + P (S d) + P e - 1) n = Some p.
  Proof.
    destruct node_facts as (Hal & Hb & _ & _ & HS & HSS & Hp & Hd).
    induction k as [|k IH]; intros e f He Hge.
    - assert (e = d) by lia. subst e.
      cbn [plus complete_parent_loop]. unfold bind.
      pose proof (perfect_parent_right off (N.of_nat d) bits_al bits_bd) as H.
      rewrite P_N1 in H. fold (P d) in H. fold p in H. rewrite H.
      pose proof p_lt_n as Hlt. apply N.ltb_lt in Hlt. rewrite Hlt. reflexivity.
    - change (S (S k) + f)%nat with (S (S k + f)).
      cbn [complete_parent_loop]. unfold bind.
      assert (Hal' : (off + P (S d)) mod 2 ^ (N.of_nat e + 2) = 0).
      { rewrite P_N2.
        rewrite N.add_mod by (pose proof (P_pos (S (S e))); lia).
        rewrite (P_mod_weaken off (S (S e)) (S (S d))) by (try lia; exact Hal).
        assert (Hd' : P (S d) mod P (S (S e)) = 0).
        { apply (P_mod_weaken (P (S d)) (S (S e)) (S d)); [lia|].
          apply N.mod_same. pose proof (P_pos (S d)). lia. }
        rewrite Hd'. reflexivity. }
      assert (Hle : P (S (S e)) <= P (S d)) by (apply P_le; lia).
      assert (Hbd' : off + P (S d) + 2 ^ (N.of_nat e + 2) <= 2 ^ 64).
      { rewrite P_N2. change (2 ^ 63) with 9223372036854775808 in Hb.
        change (2 ^ 64) with 18446744073709551616. lia. }
      pose proof (perfect_parent_left (off + P (S d)) (N.of_nat e) Hal' Hbd') as H.
      rewrite P_N1 in H. fold (P e) in H. rewrite H.
      assert (Hnlt : off + P (S d) + P (S e) - 1 <? n = false).
      { apply N.ltb_ge. apply Hge. lia. }
      rewrite Hnlt.
      apply (IH (S e) f); [lia|].
      intros _. pose proof (P_S (S e)). pose proof (P_pos (S e)).
      assert (n <= off + P (S d) + P (S e) - 1) by (apply Hge; lia). lia.
  Qed.

  Lemma nav_parent_of_right : complete_parent rr n = Some p.
  Proof.
    destruct HG as (Hal0 & H1 & Hcle & Hend & Hb0).
    destruct node_facts as (Hal & Hb & Hm1 & Hm2 & HS & HSS & Hp & Hd).
    pose proof (lg_spec (c - P d) Hm1) as [Hhi Hlo].
    pose proof (lg_le (c - P d) d Hm1 Hm2) as Hle.
    set (e := lg (c - P d)) in *.
    unfold complete_parent, rr, rroot. fold e.
    replace 66%nat with (S (d - e) + (65 - (d - e)))%nat by lia.
    apply climb; [lia|].
    intros Hk.
    assert (He : (S e <= d)%nat) by lia.
    assert (HPe : P (S e) <= P d) by (apply P_le; exact He).
    pose proof (P_S e) as HSe.
    destruct Hend as [[Hperf _]|Hend]; lia.
  Qed.

  Lemma nav_right_child : complete_right_child p n = Some rr.
  Proof.
    destruct HG as (Hal0 & H1 & Hcle & Hend & Hb0).
    destruct node_facts as (Hal & Hb & Hm1 & Hm2 & HS & HSS & Hp & Hd).
    pose proof (lg_spec (c - P d) Hm1) as [Hhi Hlo].
    unfold complete_right_child, bind.
    pose proof (is_branch_root off (N.of_nat d) bits_al bits_bd) as Hbr.
    rewrite P_N1 in Hbr. fold p in Hbr. rewrite Hbr. cbn [assert].
    pose proof p_lt_n as Hlt. apply N.ltb_lt in Hlt. rewrite Hlt. cbn [assert].
    pose proof (perfect_right_child_spec off (N.of_nat d) bits_al bits_bd) as Hr.
    rewrite P_N1 in Hr. fold (P d) in Hr. fold p in Hr. rewrite Hr.
    destruct (N.ltb_spec (off + P (S d) + P d - 1) n) as [Hrn|Hrn].
    - f_equal. unfold rr, rroot.
      assert (He : lg (c - P d) = d).
      { apply lg_unique; [exact Hm2|]. destruct Hend as [[Hperf _]|Hend]; lia. }
      rewrite He. reflexivity.
    - destruct Hend as [[Hperf Hend]|Hend]; [lia|].
      assert (Hc1 : checked_add MAXU p 1 = Some (off + P (S d))).
      { apply checked_add_Some. unfold p.
        change MAXU with 18446744073709551615.
        change (2 ^ 63) with 9223372036854775808 in Hb. lia. }
      rewrite Hc1.
      assert (Hc2 : checked_sub n (off + P (S d)) = Some (2 * (c - P d) - 1)).
      { apply checked_sub_Some. lia. }
      rewrite Hc2.
      rewrite complete_root_spec; [|exact Hm1|].
      + apply checked_add_Some. unfold rr, rroot.
        pose proof (P_pos (lg (c - P d))).
        change MAXU with 18446744073709551615.
        change (2 ^ 63) with 9223372036854775808 in Hb. lia.
      + change (2 ^ 63) with 9223372036854775808 in Hb.
        change (2 ^ 62) with 4611686018427387904. lia.
  Qed.

  Lemma nav_checked_parent_of_left : checked_complete_parent lc n = Some (Some p).
  Proof. apply checked_of_complete_parent, nav_parent_of_left. Qed.

  Lemma nav_checked_parent_of_right : checked_complete_parent rr n = Some (Some p).
  Proof. apply checked_of_complete_parent, nav_parent_of_right. Qed.
End Node.
