(** C08 — unbounded version: for every leaf sequence that fits the 64-bit address space
    (at most 2^62 leaves) [root] is the RFC 6962 Merkle Tree Hash, [construct_proof] is
    the RFC 6962 audit path, and the path reconstructs the root.

    Invariant: [from_leaves ls] is the in-order array [layout_d] of the RFC split. *)
From Astria Require Import Merkle.MerkleModel Merkle.MerkleSpec.
From Astria Require Import Merkle.MerkleBits Merkle.MerkleNav Merkle.MerkleLayout.

Section Full.
  Variable D : Type.
  Variable nodeH : D -> D -> D.
  Variables emptyH zeroD : D.

  Local Notation tlen := (tlen D).
  Local Notation get_node := (get_node D).
  Local Notation set_node := (set_node D).
  Local Notation mth_d := (mth_d D nodeH emptyH).
  Local Notation rfc_path_d := (rfc_path_d D nodeH emptyH).
  Local Notation layout_d := (layout_d D nodeH emptyH).
  Local Notation Sub := (Sub D nodeH emptyH).
  Local Notation push_loop := (push_loop D nodeH).
  Local Notation push := (push D nodeH zeroD).
  Local Notation proof_loop := (proof_loop D).
  Local Notation reconstruct_loop := (reconstruct_loop D nodeH).

  (** * construct_proof *)
  Lemma proof_spine d : forall l m off t n groot acc,
    Sub t off d l -> Geo off d (tlen l) n -> n = tlen t -> (m < length l)%nat ->
    (groot < off \/ groot = rroot off (tlen l) \/ off + 2 * tlen l - 1 <= groot) ->
    exists s, (s <= d)%nat /\ forall f,
      proof_loop (s + f) t (off + 2 * N.of_nat m) groot n acc
      = proof_loop f t (rroot off (tlen l)) groot n (acc ++ rfc_path_d d m l).
  Proof.
    induction d as [|d IH]; intros l m off t n groot acc HS HG Hn Hm Hroot.
    - exists 0%nat. split; [lia|]. intros f.
      destruct HG as (_ & H1 & Hc & _). rewrite P_0 in Hc.
      assert (Hl : tlen l = 1) by lia.
      unfold MerkleModel.tlen in Hl. assert (m = 0)%nat by lia. subst m.
      cbn [MerkleModel.rfc_path_d plus]. rewrite app_nil_r.
      unfold rroot, MerkleModel.tlen. replace (N.of_nat (length l)) with 1 by lia.
      change (lg 1) with 0%nat. rewrite P_0. f_equal. lia.
    - pose proof HG as (_ & H1 & Hc & _).
      pose proof (P_pow d) as HP. pose proof (P_pow (S d)) as HPS.
      destruct (Nat.le_gt_cases (length l) (Nat.pow 2 d)) as [Hle|Hgt].
      + (* the virtual node is absent *)
        assert (HG' : Geo off d (tlen l) n).
        { apply Geo_skip; [exact HG|]. unfold MerkleModel.tlen. lia. }
        destruct (IH l m off t n groot acc (Sub_skip _ _ _ _ _ _ _ HS Hle) HG' Hn Hm Hroot)
          as (s & Hs & Heq).
        exists s. split; [lia|]. intros f. rewrite Heq. f_equal.
        cbn [MerkleModel.rfc_path_d]. apply Nat.leb_le in Hle. rewrite Hle. reflexivity.
      + assert (Hhi : (length l <= Nat.pow 2 (S d))%nat) by (unfold MerkleModel.tlen in Hc; lia).
        destruct (split_facts D d l Hgt Hhi) as (HlL & HlR & HtL & HtR & Hlo & Hhi').
        pose proof (pow_pos d) as Hk. pose proof (P_S d) as HSd. pose proof (P_pos d) as Hp.
        assert (Hlg : lg (tlen l) = S d) by (apply lg_unique; lia).
        assert (Hrl : rroot off (tlen l) = off + P (S d) - 1).
        { unfold rroot. rewrite Hlg. reflexivity. }
        set (k := Nat.pow 2 d) in *.
        set (lL := firstn k l) in *. set (lR := skipn k l) in *.
        pose proof (Geo_left _ _ _ _ HG Hlo) as HGL.
        pose proof (Geo_right _ _ _ _ HG Hlo) as HGR.
        pose proof (Sub_left _ _ _ _ _ _ _ HS Hgt) as HSL.
        pose proof (Sub_right _ _ _ _ _ _ _ HS Hgt Hhi) as HSR.
        fold k in HSL, HSR. fold lL in HSL. fold lR in HSR.
        pose proof (rr_bounds off d (tlen l) n HG Hlo) as (Hprr & Hrrn & Hlcp & Hrre).
        pose proof (p_lt_n off d (tlen l) n HG Hlo) as Hpn.
        assert (HrL : rroot off (tlen lL) = off + P d - 1).
        { unfold rroot. rewrite HtL. rewrite (lg_unique (P d) d) by lia. reflexivity. }
        cbn [MerkleModel.rfc_path_d]. fold k. fold lL. fold lR.
        assert (Hleb : Nat.leb (length l) k = false) by (apply Nat.leb_gt; exact Hgt).
        rewrite Hleb.
        destruct (Nat.ltb_spec m k) as [Hmk|Hmk].
        * (* leaf in the left, perfect subtree *)
          assert (HmL : (m < length lL)%nat) by lia.
          assert (HrootL : groot < off \/ groot = rroot off (tlen lL)
                           \/ off + 2 * tlen lL - 1 <= groot).
          { rewrite HrL, HtL. destruct Hroot as [Hr|[Hr|Hr]]; [left; lia| |].
            - right. right. rewrite Hr, Hrl. lia.
            - right. right. lia. }
          rewrite <- HtL in HGL.
          destruct (IH lL m off t n groot acc HSL HGL Hn HmL HrootL) as (s & Hs & Heq).
          exists (S s). split; [lia|]. intros f.
          replace (S s + f)%nat with (s + S f)%nat by lia. rewrite Heq.
          rewrite HrL, Hrl. cbn [MerkleModel.proof_loop].
          assert (Hne : off + P d - 1 =? groot = false).
          { apply N.eqb_neq. rewrite Hrl in Hroot. lia. }
          rewrite Hne. unfold complete_parent_and_sibling, bind.
          assert (Hltn : off + P d - 1 <? n = true) by (apply N.ltb_lt; lia).
          rewrite Hltn. cbn [assert].
          rewrite (nav_parent_of_left off d (tlen l) n HG Hlo).
          assert (Hltp : off + P d - 1 <? off + P (S d) - 1 = true) by (apply N.ltb_lt; lia).
          rewrite Hltp.
          rewrite (nav_right_child off d (tlen l) n HG Hlo).
          rewrite <- HtR. rewrite (Sub_root _ _ _ _ _ _ _ HSR) by lia.
          rewrite <- app_assoc. reflexivity.
        * (* leaf in the right subtree *)
          assert (HmR : (m - k < length lR)%nat).
          { unfold lR. rewrite skipn_length. lia. }
          assert (HrootR : groot < off + P (S d) \/ groot = rroot (off + P (S d)) (tlen lR)
                           \/ off + P (S d) + 2 * tlen lR - 1 <= groot).
          { rewrite HtR. destruct Hroot as [Hr|[Hr|Hr]]; [left; lia| |].
            - left. rewrite Hr, Hrl. lia.
            - right. right. lia. }
          rewrite <- HtR in HGR.
          destruct (IH lR (m - k)%nat (off + P (S d)) t n groot acc HSR HGR Hn HmR HrootR)
            as (s & Hs & Heq).
          exists (S s). split; [lia|]. intros f.
          replace (S s + f)%nat with (s + S f)%nat by lia.
          replace (off + 2 * N.of_nat m) with (off + P (S d) + 2 * N.of_nat (m - k)) by lia.
          rewrite Heq. rewrite Hrl. cbn [MerkleModel.proof_loop].
          rewrite HtR in *.
          assert (Hne : rroot (off + P (S d)) (tlen l - P d) =? groot = false).
          { apply N.eqb_neq. rewrite Hrl in Hroot.
            destruct Hroot as [Hr'|[Hr'|Hr']]; lia. }
          rewrite Hne. unfold complete_parent_and_sibling, bind.
          assert (Hltn : rroot (off + P (S d)) (tlen l - P d) <? n = true)
            by (apply N.ltb_lt; lia).
          rewrite Hltn. cbn [assert].
          rewrite (nav_parent_of_right off d (tlen l) n HG Hlo).
          assert (Hltp : rroot (off + P (S d)) (tlen l - P d) <? off + P (S d) - 1 = false)
            by (apply N.ltb_ge; lia).
          rewrite Hltp.
          rewrite (nav_left_child off d (tlen l) n HG Hlo).
          rewrite <- HrL. rewrite (Sub_root _ _ _ _ _ _ _ HSL) by lia.
          rewrite <- app_assoc. reflexivity.
  Qed.
  (** * reconstruct_root *)
  Lemma recon_spine d : forall l m x off n rest,
    Geo off d (tlen l) n -> nth_error l m = Some x ->
    reconstruct_loop (rfc_path_d d m l ++ rest) (off + 2 * N.of_nat m) n x
    = reconstruct_loop rest (rroot off (tlen l)) n (mth_d d l).
  Proof.
    induction d as [|d IH]; intros l m x off n rest HG Hx.
    - destruct HG as (_ & H1 & Hc & _). rewrite P_0 in Hc.
      assert (Hl : tlen l = 1) by lia. rewrite Hl.
      unfold MerkleModel.tlen in Hl.
      destruct l as [|y [|z l]]; cbn [length] in Hl; try lia.
      destruct m as [|m]; [|destruct m; discriminate].
      cbn in Hx. inversion Hx; subst y.
      cbn [MerkleModel.rfc_path_d MerkleModel.mth_d app].
      unfold rroot. change (lg 1) with 0%nat. rewrite P_0. f_equal. lia.
    - pose proof HG as (_ & H1 & Hc & _).
      pose proof (P_pow d) as HP. pose proof (P_pow (S d)) as HPS.
      assert (Hm : (m < length l)%nat) by (apply nth_error_Some; congruence).
      destruct (Nat.le_gt_cases (length l) (Nat.pow 2 d)) as [Hle|Hgt].
      + assert (HG' : Geo off d (tlen l) n).
        { apply Geo_skip; [exact HG|]. unfold MerkleModel.tlen. lia. }
        rewrite (mth_skip D nodeH emptyH d l Hle).
        cbn [MerkleModel.rfc_path_d]. pose proof Hle as Hle'. apply Nat.leb_le in Hle'.
        rewrite Hle'. apply IH; assumption.
      + assert (Hhi : (length l <= Nat.pow 2 (S d))%nat) by (unfold MerkleModel.tlen in Hc; lia).
        destruct (split_facts D d l Hgt Hhi) as (HlL & HlR & HtL & HtR & Hlo & Hhi').
        pose proof (pow_pos d) as Hk. pose proof (P_S d) as HSd. pose proof (P_pos d) as Hp.
        assert (Hlg : lg (tlen l) = S d) by (apply lg_unique; lia).
        assert (Hrl : rroot off (tlen l) = off + P (S d) - 1).
        { unfold rroot. rewrite Hlg. reflexivity. }
        rewrite (mth_node D nodeH emptyH d l Hgt).
        set (k := Nat.pow 2 d) in *.
        set (lL := firstn k l) in *. set (lR := skipn k l) in *.
        pose proof (Geo_left _ _ _ _ HG Hlo) as HGL.
        pose proof (Geo_right _ _ _ _ HG Hlo) as HGR.
        pose proof (rr_bounds off d (tlen l) n HG Hlo) as (Hprr & Hrrn & Hlcp & Hrre).
        assert (HrL : rroot off (tlen lL) = off + P d - 1).
        { unfold rroot. rewrite HtL. rewrite (lg_unique (P d) d) by lia. reflexivity. }
        cbn [MerkleModel.rfc_path_d]. fold k. fold lL. fold lR.
        assert (Hleb : Nat.leb (length l) k = false) by (apply Nat.leb_gt; exact Hgt).
        rewrite Hleb. rewrite Hrl.
        destruct (Nat.ltb_spec m k) as [Hmk|Hmk].
        * assert (HxL : nth_error lL m = Some x).
          { unfold lL. rewrite nth_error_firstn_lt by exact Hmk. exact Hx. }
          rewrite <- HtL in HGL. rewrite <- app_assoc.
          rewrite (IH lL m x off n _ HGL HxL). rewrite HrL.
          cbn [app MerkleModel.reconstruct_loop].
          rewrite (nav_checked_parent_of_left off d (tlen l) n HG Hlo).
          assert (Hltp : off + P d - 1 <? off + P (S d) - 1 = true) by (apply N.ltb_lt; lia).
          rewrite Hltp. reflexivity.
        * assert (HxR : nth_error lR (m - k) = Some x).
          { unfold lR. rewrite nth_error_skipn_add. replace (k + (m - k))%nat with m by lia. exact Hx. }
          rewrite <- HtR in HGR. rewrite <- app_assoc.
          replace (off + 2 * N.of_nat m) with (off + P (S d) + 2 * N.of_nat (m - k)) by lia.
          rewrite (IH lR (m - k)%nat x (off + P (S d)) n _ HGR HxR). rewrite HtR.
          cbn [app MerkleModel.reconstruct_loop].
          rewrite (nav_checked_parent_of_right off d (tlen l) n HG Hlo).
          assert (Hltp : rroot (off + P (S d)) (tlen l - P d) <? off + P (S d) - 1 = false)
            by (apply N.ltb_ge; lia).
          rewrite Hltp. reflexivity.
  Qed.
  (** * push *)
  (** the array of a right-spine subtree before the parents of the new last leaf are
      recomputed: arbitrary values [g] at the spine positions *)
  Inductive PreL : nat -> list D -> list D -> Prop :=
  | pre0 x : PreL 0 [x] [x]
  | preskip d l a : (length l <= Nat.pow 2 d)%nat -> PreL d l a -> PreL (S d) l a
  | prenode d l g a :
      (Nat.pow 2 d < length l)%nat -> (length l <= Nat.pow 2 (S d))%nat ->
      PreL d (skipn (Nat.pow 2 d) l) a ->
      PreL (S d) l (layout_d d (firstn (Nat.pow 2 d) l) ++ g :: a).

  Lemma PreL_single d x : PreL d [x] [x].
  Proof.
    induction d as [|d IH]; [constructor|].
    apply preskip; [|exact IH]. cbn [length]. pose proof (pow_pos d). lia.
  Qed.

  Lemma PreL_node_inv d l a : PreL (S d) l a -> (Nat.pow 2 d < length l)%nat ->
    exists g a', a = layout_d d (firstn (Nat.pow 2 d) l) ++ g :: a' /\
                 PreL d (skipn (Nat.pow 2 d) l) a' /\ (length l <= Nat.pow 2 (S d))%nat.
  Proof.
    intros H Hgt. inversion H as [|d0 l0 a0 Hle H0|d0 l0 g a0 Hlo Hhi H0]; subst.
    - lia.
    - exists g, a0. repeat split; assumption.
  Qed.

  Lemma push_prep d : forall l x, (1 <= length l)%nat -> (length l + 1 <= Nat.pow 2 d)%nat ->
    PreL d (l ++ [x]) (layout_d d l ++ [zeroD; x]).
  Proof.
    induction d as [|d IH]; intros l x H1 Hd.
    - cbn [Nat.pow] in Hd. lia.
    - pose proof (pow_pos d) as Hk.
      assert (Hlen : length (l ++ [x]) = (length l + 1)%nat) by (rewrite app_length; reflexivity).
      destruct (Nat.le_gt_cases (length l + 1) (Nat.pow 2 d)) as [Hle|Hgt].
      + apply preskip; [lia|]. rewrite layout_skip by lia. apply IH; assumption.
      + assert (Hf : firstn (Nat.pow 2 d) (l ++ [x]) = firstn (Nat.pow 2 d) l).
        { rewrite firstn_app. replace (Nat.pow 2 d - length l)%nat with 0%nat by lia.
          cbn [firstn]. apply app_nil_r. }
        assert (Hs : skipn (Nat.pow 2 d) (l ++ [x]) = skipn (Nat.pow 2 d) l ++ [x]).
        { rewrite skipn_app. replace (Nat.pow 2 d - length l)%nat with 0%nat by lia.
          reflexivity. }
        destruct (Nat.eq_dec (length l) (Nat.pow 2 d)) as [Heq|Hne].
        * rewrite layout_skip by lia.
          assert (HfL : firstn (Nat.pow 2 d) l = l) by (apply firstn_all2; lia).
          assert (HsL : skipn (Nat.pow 2 d) l = []) by (apply skipn_all2; lia).
          rewrite <- HfL at 2. rewrite <- Hf.
          apply prenode; [lia|lia|]. rewrite Hs, HsL. apply PreL_single.
        * rewrite layout_node by lia.
          rewrite <- app_assoc. cbn [app]. rewrite <- Hf.
          rewrite Hf at 2.
          apply prenode; [lia|lia|]. rewrite Hs.
          apply IH; rewrite skipn_length; cbn [Nat.pow] in Hd; lia.
  Qed.

  Lemma push_step off d l n pre g groot f :
    Geo off (S d) (tlen l) n -> (Nat.pow 2 d < length l)%nat ->
    (length l <= Nat.pow 2 (S d))%nat -> tlen pre = off ->
    push_loop (S f)
      (pre ++ layout_d d (firstn (Nat.pow 2 d) l) ++ g :: layout_d d (skipn (Nat.pow 2 d) l))
      (rroot (off + P (S d)) (tlen l - P d)) n groot
    = if off + P (S d) - 1 =? groot then Some (pre ++ layout_d (S d) l)
      else push_loop f (pre ++ layout_d (S d) l) (off + P (S d) - 1) n groot.
  Proof.
    intros HG Hgt Hhi Hpre.
    destruct (split_facts D d l Hgt Hhi) as (HlL & HlR & HtL & HtR & Hlo & Hhi').
    pose proof (pow_pos d) as Hk. pose proof (P_S d) as HSd. pose proof (P_pos d) as Hp.
    rewrite (layout_node D nodeH emptyH d l Hgt).
    set (k := Nat.pow 2 d) in *.
    set (lL := firstn k l) in *. set (lR := skipn k l) in *.
    set (t := pre ++ layout_d d lL ++ g :: layout_d d lR).
    assert (HSL : Sub t off d lL).
    { exists pre, (g :: layout_d d lR). split; [reflexivity|exact Hpre]. }
    assert (HtLL : tlen (layout_d d lL) = P (S d) - 1).
    { rewrite (layout_len D nodeH emptyH) by lia. rewrite HtL. lia. }
    assert (HSR : Sub t (off + P (S d)) d lR).
    { exists (pre ++ layout_d d lL ++ [g]), []. split.
      - unfold t. rewrite app_nil_r, <- !app_assoc. reflexivity.
      - rewrite !tlen_app, tlen_cons, tlen_nil, HtLL. lia. }
    cbn [MerkleModel.push_loop]. unfold bind.
    rewrite (nav_parent_of_right off d (tlen l) n HG Hlo).
    rewrite (nav_left_child off d (tlen l) n HG Hlo).
    rewrite (nav_right_child off d (tlen l) n HG Hlo).
    assert (HrL : rroot off (tlen lL) = off + P d - 1).
    { unfold rroot. rewrite HtL. rewrite (lg_unique (P d) d) by lia. reflexivity. }
    rewrite <- HrL. rewrite (Sub_root _ _ _ _ _ _ _ HSL) by lia.
    rewrite <- HtR. rewrite (Sub_root _ _ _ _ _ _ _ HSR) by lia.
    assert (Hset : set_node t (off + P (S d) - 1)
                     (nodeH (mth_d d lL) (mth_d d lR))
                   = Some (pre ++ layout_d d lL
                             ++ nodeH (mth_d d lL) (mth_d d lR) :: layout_d d lR)).
    { unfold t. rewrite !app_assoc.
      replace (off + P (S d) - 1) with (tlen (pre ++ layout_d d lL))
        by (rewrite tlen_app, HtLL; lia).
      apply set_node_app. }
    rewrite Hset. reflexivity.
  Qed.

  Lemma PreL_bounds d l a : PreL d l a ->
    (1 <= length l)%nat /\ (length l <= Nat.pow 2 d)%nat.
  Proof.
    induction 1 as [x|d l a Hle H IH|d l g a Hlo Hhi H IH].
    - cbn. lia.
    - cbn [Nat.pow]. lia.
    - lia.
  Qed.

  Lemma push_spine d l a : PreL d l a -> forall pre off n groot,
    tlen pre = off -> Geo off d (tlen l) n -> off + 2 * tlen l - 1 = n ->
    groot < rroot off (tlen l) ->
    exists s, (s <= d)%nat /\ forall f,
      push_loop (s + f) (pre ++ a) (n - 1) n groot
      = push_loop f (pre ++ layout_d d l) (rroot off (tlen l)) n groot.
  Proof.
    induction 1 as [x|d l a Hle H IH|d l g a Hlo Hhi H IH];
      intros pre off n groot Hpre HG Hn Hroot.
    - exists 0%nat. split; [lia|]. intros f. cbn [plus MerkleLayout.layout_d].
      f_equal. unfold rroot. change (tlen [x]) with 1 in *. change (lg 1) with 0%nat.
      rewrite P_0. lia.
    - assert (HG' : Geo off d (tlen l) n).
      { apply Geo_skip; [exact HG|]. pose proof (P_pow d). unfold MerkleModel.tlen. lia. }
      destruct (IH pre off n groot Hpre HG' Hn Hroot) as (s & Hs & Heq).
      exists s. split; [lia|]. intros f. rewrite Heq.
      rewrite (layout_skip D nodeH emptyH d l Hle). reflexivity.
    - destruct (split_facts D d l Hlo Hhi) as (HlL & HlR & HtL & HtR & Hlo' & Hhi').
      pose proof (pow_pos d) as Hk. pose proof (P_S d) as HSd. pose proof (P_pos d) as Hp.
      assert (Hlg : lg (tlen l) = S d) by (apply lg_unique; lia).
      assert (Hrl : rroot off (tlen l) = off + P (S d) - 1).
      { unfold rroot. rewrite Hlg. reflexivity. }
      pose proof (rr_bounds off d (tlen l) n HG Hlo') as (Hprr & Hrrn & Hlcp & Hrre).
      pose proof (Geo_right _ _ _ _ HG Hlo') as HGR.
      set (k := Nat.pow 2 d) in *.
      set (lL := firstn k l) in *. set (lR := skipn k l) in *.
      assert (HtLL : tlen (layout_d d lL) = P (S d) - 1).
      { rewrite (layout_len D nodeH emptyH) by lia. rewrite HtL. lia. }
      assert (Hpre' : tlen (pre ++ layout_d d lL ++ [g]) = off + P (S d)).
      { rewrite !tlen_app, tlen_cons, tlen_nil, HtLL. lia. }
      rewrite <- HtR in HGR.
      assert (Hn' : off + P (S d) + 2 * tlen lR - 1 = n) by lia.
      assert (Hroot' : groot < rroot (off + P (S d)) (tlen lR)) by (rewrite HtR; lia).
      destruct (IH (pre ++ layout_d d lL ++ [g]) (off + P (S d)) n groot
                  Hpre' HGR Hn' Hroot') as (s & Hs & Heq).
      exists (S s). split; [lia|]. intros f.
      replace (S s + f)%nat with (s + S f)%nat by lia.
      replace (pre ++ layout_d d lL ++ g :: a) with ((pre ++ layout_d d lL ++ [g]) ++ a)
        by (rewrite <- !app_assoc; reflexivity).
      rewrite Heq.
      replace ((pre ++ layout_d d lL ++ [g]) ++ layout_d d lR)
        with (pre ++ layout_d d lL ++ g :: layout_d d lR)
        by (rewrite <- !app_assoc; reflexivity).
      rewrite HtR. subst lL lR k.
      rewrite (push_step off d l n pre g groot f HG Hlo Hhi Hpre).
      assert (Hne : off + P (S d) - 1 =? groot = false) by (apply N.eqb_neq; lia).
      rewrite Hne, Hrl. reflexivity.
  Qed.
  (** * top level *)
  Lemma Geo_top d c : 1 <= c -> c <= P d -> P d <= 2 ^ 62 -> Geo 0 d c (2 * c - 1).
  Proof.
    intros H1 Hc Hd. pose proof (P_S d) as HS. pose proof (P_pos d) as Hp.
    change (2 ^ 62) with 4611686018427387904 in Hd.
    unfold Geo. change (2 ^ 63) with 9223372036854775808.
    repeat apply conj; try lia; try (apply N.mod_0_l; lia).
  Qed.

  Lemma depth_bound d c : c <= 2 ^ 62 -> P d < 2 * c -> P d <= 2 ^ 62 /\ (d <= 62)%nat.
  Proof.
    intros Hc Hd.
    assert (Hlt : P d < P 63).
    { change (P 63) with 9223372036854775808.
      change (2 ^ 62) with 4611686018427387904 in Hc. lia. }
    apply P_lt_inv in Hlt.
    assert (Hle : P d <= P 62) by (apply P_le; lia).
    change (P 62) with (2 ^ 62) in Hle. split; [exact Hle|lia].
  Qed.

  Lemma P_log2_up n : (1 <= n)%nat ->
    N.of_nat n <= P (Nat.log2_up n) /\ P (Nat.log2_up n) < 2 * N.of_nat n /\
    (n <= Nat.pow 2 (Nat.log2_up n))%nat.
  Proof.
    intros Hn. destruct (Nat.eq_dec n 1) as [->|Hne].
    - change (Nat.log2_up 1) with 0%nat. rewrite P_0. cbn. lia.
    - assert (H1 : (1 < n)%nat) by lia.
      pose proof (Nat.log2_up_spec n H1) as [Hlo Hhi].
      pose proof (Nat.log2_up_pos n H1) as Hpos.
      set (e := Nat.log2_up n) in *.
      destruct e as [|e]; [lia|]. cbn [Nat.pred] in Hlo.
      pose proof (P_pow e) as HPe. pose proof (P_pow (S e)) as HPS. pose proof (P_S e) as HS.
      repeat apply conj; lia.
  Qed.

  Lemma push_nonempty t x : t <> [] ->
    push t x =
    (do idx <- checked_sub (tlen (t ++ [zeroD; zeroD])) 1;
     do t2 <- set_node (t ++ [zeroD; zeroD]) idx x;
     do root <- complete_root (tlen (t ++ [zeroD; zeroD]));
     push_loop 66 t2 idx (tlen (t ++ [zeroD; zeroD])) root).
  Proof. destruct t; [congruence|reflexivity]. Qed.

  Lemma push_layout d l x d' :
    (1 <= length l)%nat -> (length l <= Nat.pow 2 d)%nat ->
    (length l + 1 <= Nat.pow 2 d')%nat -> tlen l + 1 <= 2 ^ 62 ->
    push (layout_d d l) x = Some (layout_d d' (l ++ [x])).
  Proof.
    intros H1 Hd Hd' Hmax.
    set (l' := l ++ [x]).
    assert (Hlen' : length l' = (length l + 1)%nat) by (unfold l'; rewrite app_length; reflexivity).
    assert (Htl' : tlen l' = tlen l + 1) by (unfold MerkleModel.tlen; lia).
    assert (Htl1 : 1 <= tlen l) by (unfold MerkleModel.tlen; lia).
    assert (Hc1 : 1 <= tlen l') by lia.
    pose proof (lg_spec (tlen l') Hc1) as [Hhi Hlo].
    destruct (lg (tlen l')) as [|e] eqn:He.
    { rewrite P_0 in Hhi. lia. }
    pose proof (P_S e) as HSe. pose proof (P_pos e) as Hpe.
    pose proof (P_pow e) as HPe. pose proof (P_pow (S e)) as HPSe.
    assert (Hmax' : tlen l' <= 2 ^ 62) by lia.
    destruct (depth_bound (S e) (tlen l') Hmax' Hlo) as [HPmax He62].
    assert (Hl'hi : (length l' <= Nat.pow 2 (S e))%nat) by (unfold MerkleModel.tlen in Hhi; lia).
    assert (Hl'lo : (Nat.pow 2 e < length l')%nat) by (unfold MerkleModel.tlen in Hlo; lia).
    rewrite (layout_indep D nodeH emptyH d (S e) l) by lia.
    rewrite (layout_indep D nodeH emptyH d' (S e) l') by lia.
    set (t := layout_d (S e) l).
    assert (Htlen : tlen t = 2 * tlen l - 1) by (apply layout_len; lia).
    assert (Hne : t <> []).
    { intros E. rewrite E in Htlen. rewrite tlen_nil in Htlen. lia. }
    rewrite (push_nonempty t x Hne).
    set (n := tlen (t ++ [zeroD; zeroD])).
    assert (Hn : n = 2 * tlen l' - 1).
    { unfold n. rewrite tlen_app, !tlen_cons, tlen_nil. lia. }
    unfold bind.
    assert (Hc : checked_sub n 1 = Some (n - 1)) by (apply checked_sub_Some; lia).
    rewrite Hc.
    assert (Hset : set_node (t ++ [zeroD; zeroD]) (n - 1) x = Some (t ++ [zeroD; x])).
    { replace (t ++ [zeroD; zeroD]) with ((t ++ [zeroD]) ++ zeroD :: [])
        by (rewrite <- app_assoc; reflexivity).
      replace (n - 1) with (tlen (t ++ [zeroD]))
        by (rewrite tlen_app, tlen_cons, tlen_nil; lia).
      rewrite set_node_app. rewrite <- app_assoc. reflexivity. }
    rewrite Hset.
    rewrite Hn at 1. rewrite (complete_root_spec (tlen l') Hc1 Hmax'). rewrite He.
    (* the array before the loop *)
    assert (Hpre : PreL (S e) l' (t ++ [zeroD; x])) by (apply push_prep; lia).
    destruct (PreL_node_inv e l' _ Hpre Hl'lo) as (g & a' & Ha & HpreR & _).
    rewrite Ha.
    assert (HG : Geo 0 (S e) (tlen l') n).
    { rewrite Hn. apply Geo_top; assumption. }
    assert (Hlo' : P e < tlen l') by lia.
    destruct (split_facts D e l' Hl'lo Hl'hi) as (HlL & HlR & HtL & HtR & _ & _).
    pose proof (rr_bounds 0 e (tlen l') n HG Hlo') as (Hprr & Hrrn & Hlcp & Hrre).
    pose proof (Geo_right _ _ _ _ HG Hlo') as HGR.
    set (k := Nat.pow 2 e) in *.
    set (lL := firstn k l') in *. set (lR := skipn k l') in *.
    assert (HtLL : tlen (layout_d e lL) = P (S e) - 1).
    { rewrite (layout_len D nodeH emptyH) by lia. rewrite HtL. lia. }
    assert (Hpre' : tlen (layout_d e lL ++ [g]) = 0 + P (S e)).
    { rewrite !tlen_app, tlen_cons, tlen_nil, HtLL. lia. }
    rewrite <- HtR in HGR.
    assert (Hn' : 0 + P (S e) + 2 * tlen lR - 1 = n) by lia.
    assert (Hroot' : P (S e) - 1 < rroot (0 + P (S e)) (tlen lR)) by (rewrite HtR; lia).
    destruct (push_spine e lR a' HpreR (layout_d e lL ++ [g]) (0 + P (S e)) n (P (S e) - 1)
                Hpre' HGR Hn' Hroot') as (s & Hs & Heq).
    replace 66%nat with (s + S (65 - s))%nat by lia.
    replace (layout_d e lL ++ g :: a') with ((layout_d e lL ++ [g]) ++ a')
      by (rewrite <- !app_assoc; reflexivity).
    rewrite Heq.
    replace ((layout_d e lL ++ [g]) ++ layout_d e lR)
      with ([] ++ layout_d e lL ++ g :: layout_d e lR)
      by (rewrite <- !app_assoc; reflexivity).
    rewrite HtR. subst lL lR k.
    rewrite (push_step 0 e l' n [] g (P (S e) - 1) (65 - s) HG Hl'lo Hl'hi (eq_refl _)).
    rewrite N.add_0_l, N.eqb_refl. reflexivity.
  Qed.

  (** the canonical array of a leaf sequence *)
  Definition lay (l : list D) : list D := layout_d (Nat.log2_up (length l)) l.

  Lemma from_leaves_acc_lay r : forall l, (1 <= length l)%nat ->
    tlen l + tlen r <= 2 ^ 62 ->
    from_leaves_acc D nodeH zeroD (lay l) r = Some (lay (l ++ r)).
  Proof.
    induction r as [|y r IH]; intros l H1 Hmax.
    - rewrite app_nil_r. reflexivity.
    - cbn [from_leaves_acc]. unfold bind.
      rewrite tlen_cons in Hmax.
      assert (Hlen' : length (l ++ [y]) = (length l + 1)%nat) by (rewrite app_length; reflexivity).
      pose proof (P_log2_up (length l) H1) as (_ & _ & Hl).
      assert (H1' : (1 <= length (l ++ [y]))%nat) by lia.
      pose proof (P_log2_up (length (l ++ [y])) H1') as (_ & _ & Hl').
      unfold lay at 1.
      rewrite (push_layout _ l y (Nat.log2_up (length (l ++ [y])))); try lia.
      fold (lay (l ++ [y])).
      replace (l ++ y :: r) with ((l ++ [y]) ++ r) by (rewrite <- app_assoc; reflexivity).
      apply IH; [lia|]. unfold MerkleModel.tlen in *. lia.
  Qed.

  Lemma from_leaves_lay ls : tlen ls <= 2 ^ 62 ->
    from_leaves D nodeH zeroD ls = Some (match ls with [] => [] | _ => lay ls end).
  Proof.
    intros Hmax. destruct ls as [|x r]; [reflexivity|].
    unfold from_leaves. cbn [from_leaves_acc MerkleModel.push]. unfold bind.
    change [x] with (lay [x]).
    rewrite tlen_cons in Hmax.
    rewrite from_leaves_acc_lay; [reflexivity|cbn; lia|].
    rewrite tlen_cons, tlen_nil. lia.
  Qed.

  (** never unfolded to a unary numeral: only used through [bound_N] *)
  Local Notation FULL_BOUND := (N.to_nat (2 ^ 62)).

  Lemma bound_N (ls : list D) : (length ls <= FULL_BOUND)%nat -> tlen ls <= 2 ^ 62.
  Proof. unfold MerkleModel.tlen. lia. Qed.

  (** facts shared by the two theorems for a nonempty [ls] *)
  Lemma top_facts ls : (1 <= length ls)%nat -> tlen ls <= 2 ^ 62 ->
    let d := Nat.log2_up (length ls) in
    let n := tlen (lay ls) in
    n = 2 * tlen ls - 1 /\ Geo 0 d (tlen ls) n /\ (length ls <= Nat.pow 2 d)%nat /\
    lg (tlen ls) = d /\ (d <= 62)%nat /\
    complete_root n = Some (P d - 1) /\ Sub (lay ls) 0 d ls.
  Proof.
    intros H1 Hmax d n.
    pose proof (P_log2_up (length ls) H1) as (Hhi & Hlo & Hd). fold d in Hhi, Hlo, Hd.
    fold (tlen ls) in Hhi, Hlo.
    assert (Hc1 : 1 <= tlen ls) by (unfold MerkleModel.tlen; lia).
    destruct (depth_bound d (tlen ls) Hmax Hlo) as [HPmax Hd62].
    assert (Hn : n = 2 * tlen ls - 1) by (apply layout_len; assumption).
    assert (Hlg : lg (tlen ls) = d) by (apply lg_unique; assumption).
    split; [exact Hn|]. split; [rewrite Hn; apply Geo_top; assumption|].
    split; [exact Hd|]. split; [exact Hlg|]. split; [exact Hd62|]. split.
    - rewrite Hn, (complete_root_spec (tlen ls) Hc1 Hmax), Hlg. reflexivity.
    - exists [], []. split; [|reflexivity]. rewrite app_nil_r. reflexivity.
  Qed.

  Theorem root_is_mth : stmt_root_is_mth D nodeH emptyH zeroD FULL_BOUND.
  Proof.
    intros ls Hlen. apply bound_N in Hlen.
    rewrite (from_leaves_lay ls Hlen).
    destruct ls as [|x r]; [exists []; split; reflexivity|].
    set (ls := x :: r) in *.
    assert (H1 : (1 <= length ls)%nat) by (cbn; lia).
    exists (lay ls). split; [reflexivity|].
    destruct (top_facts ls H1 Hlen) as (Hn & HG & Hd & Hlg & Hd62 & Hcr & HS).
    assert (Hne : lay ls <> []).
    { intros E. rewrite E, tlen_nil in Hn. unfold MerkleModel.tlen in Hn. lia. }
    unfold MerkleModel.root. destruct (lay ls) as [|y t'] eqn:E; [congruence|].
    unfold bind. rewrite Hcr.
    pose proof (Sub_root _ _ _ _ _ _ _ HS H1 Hd) as Hr.
    unfold rroot in Hr. rewrite Hlg, N.add_0_l in Hr. exact Hr.
  Qed.

  Theorem proof_complete : stmt_proof_complete D nodeH emptyH zeroD FULL_BOUND.
  Proof.
    intros ls t i x Hlen Hfl Hx. apply bound_N in Hlen.
    rewrite (from_leaves_lay ls Hlen) in Hfl.
    assert (Hi : (i < length ls)%nat) by (apply nth_error_Some; congruence).
    assert (H1 : (1 <= length ls)%nat) by lia.
    assert (Ht : t = lay ls).
    { destruct ls; [cbn in H1; lia|]. congruence. }
    subst t.
    destruct (top_facts ls H1 Hlen) as (Hn & HG & Hd & Hlg & Hd62 & Hcr & HS).
    set (d := Nat.log2_up (length ls)) in *.
    set (n := tlen (lay ls)) in *.
    assert (Hc1 : 1 <= tlen ls) by (unfold MerkleModel.tlen; lia).
    assert (Hmax62 : 2 ^ 62 = 4611686018427387904) by reflexivity.
    assert (HiN : N.of_nat i < tlen ls) by (unfold MerkleModel.tlen; lia).
    exists {| audit_path := rfc_path_d d i ls; leaf_index := N.of_nat i; tree_size := n |}.
    assert (Hmul : checked_mul MAXU (N.of_nat i) 2 = Some (N.of_nat i * 2)).
    { unfold checked_mul. change MAXU with 18446744073709551615.
      destruct (N.leb_spec (N.of_nat i * 2) 18446744073709551615) as [H|H]; [reflexivity|lia]. }
    split; [|split; [reflexivity|split; [reflexivity|split; [reflexivity|]]]].
    - unfold MerkleModel.construct_proof. fold n.
      assert (Hn0 : n =? 0 = false) by (apply N.eqb_neq; lia).
      rewrite Hn0. unfold is_leaf_index_in_tree, leaf_index_to_tree_index. rewrite Hmul.
      assert (Hlt : N.of_nat i * 2 <? n = true) by (apply N.ltb_lt; lia).
      rewrite Hlt. cbn [negb]. unfold bind. rewrite Hcr.
      assert (Hroot : P d - 1 < 0 \/ P d - 1 = rroot 0 (tlen ls)
                      \/ 0 + 2 * tlen ls - 1 <= P d - 1).
      { right. left. unfold rroot. rewrite Hlg. lia. }
      destruct (proof_spine d ls i 0 (lay ls) n (P d - 1) [] HS HG (eq_refl _) Hi Hroot)
        as (s & Hs & Heq).
      replace 66%nat with (s + S (65 - s))%nat by lia.
      replace (N.of_nat i * 2) with (0 + 2 * N.of_nat i) by lia.
      rewrite Heq. unfold rroot. rewrite Hlg, N.add_0_l.
      cbn [MerkleModel.proof_loop app]. rewrite N.eqb_refl. reflexivity.
    - unfold MerkleModel.reconstruct_root, bind, leaf_index_to_tree_index.
      cbn [audit_path leaf_index tree_size]. rewrite Hmul.
      replace (N.of_nat i * 2) with (0 + 2 * N.of_nat i) by lia.
      rewrite <- (app_nil_r (rfc_path_d d i ls)).
      rewrite (recon_spine d ls i x 0 n [] HG Hx).
      reflexivity.
  Qed.
End Full.

Check root_is_mth
  : forall (D : Type) (nodeH : D -> D -> D) (emptyH zeroD : D),
    stmt_root_is_mth D nodeH emptyH zeroD (N.to_nat (2 ^ 62)).
Check proof_complete
  : forall (D : Type) (nodeH : D -> D -> D) (emptyH zeroD : D),
    stmt_proof_complete D nodeH emptyH zeroD (N.to_nat (2 ^ 62)).
Print Assumptions root_is_mth.
Print Assumptions proof_complete.
