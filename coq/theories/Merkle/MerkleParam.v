(** C08 — parametricity of the Merkle model in the hash domain: every model function
    commutes with a homomorphism [phi : D1 -> D2] of (nodeH, emptyH, zeroD).
    The index arithmetic never inspects hashes, so each lemma is an induction on the
    fuel or on the list. *)
From Astria Require Import Merkle.MerkleModel.

Section Param.
  Variables D1 D2 : Type.
  Variable node1 : D1 -> D1 -> D1.
  Variable node2 : D2 -> D2 -> D2.
  Variables (e1 z1 : D1) (e2 z2 : D2).
  Variable phi : D1 -> D2.
  Hypothesis phi_node : forall a b, phi (node1 a b) = node2 (phi a) (phi b).
  Hypothesis phi_e : phi e1 = e2.
  Hypothesis phi_z : phi z1 = z2.

  Definition map_proof (p : proof D1) : proof D2 :=
    {| audit_path := map phi (audit_path p);
       leaf_index := leaf_index p;
       tree_size := tree_size p |}.

  Lemma tlen_map t : tlen D2 (map phi t) = tlen D1 t.
  Proof. unfold tlen. rewrite map_length. reflexivity. Qed.

  Lemma get_node_map t i :
    get_node D2 (map phi t) i = option_map phi (get_node D1 t i).
  Proof.
    unfold get_node. rewrite tlen_map.
    destruct (i <? tlen D1 t); [|reflexivity].
    rewrite nth_error_map. reflexivity.
  Qed.

  Lemma set_nth_map t k v :
    set_nth D2 (map phi t) k (phi v) = map phi (set_nth D1 t k v).
  Proof.
    revert k. induction t as [|x t IH]; intros k; [reflexivity|].
    destruct k as [|k]; cbn [map set_nth]; [reflexivity|].
    rewrite IH. reflexivity.
  Qed.

  Lemma set_node_map t i v :
    set_node D2 (map phi t) i (phi v) = option_map (map phi) (set_node D1 t i v).
  Proof.
    unfold set_node. rewrite tlen_map.
    destruct (i <? tlen D1 t); [|reflexivity].
    cbn [option_map]. rewrite set_nth_map. reflexivity.
  Qed.

  Lemma push_loop_map fuel : forall t idx size root,
    push_loop D2 node2 fuel (map phi t) idx size root
    = option_map (map phi) (push_loop D1 node1 fuel t idx size root).
  Proof.
    induction fuel as [|f IH]; intros t idx size root; [reflexivity|].
    cbn [push_loop]. unfold bind.
    destruct (complete_parent idx size) as [idx'|]; [|reflexivity].
    destruct (complete_left_child idx') as [l|]; [|reflexivity].
    destruct (complete_right_child idx' size) as [r|]; [|reflexivity].
    rewrite !get_node_map.
    destruct (get_node D1 t l) as [hl|]; cbn [option_map]; [|reflexivity].
    destruct (get_node D1 t r) as [hr|]; cbn [option_map]; [|reflexivity].
    rewrite <- phi_node, set_node_map.
    destruct (set_node D1 t idx' (node1 hl hr)) as [t'|]; cbn [option_map]; [|reflexivity].
    destruct (idx' =? root); [reflexivity|].
    apply IH.
  Qed.

  Lemma push_map t v :
    push D2 node2 z2 (map phi t) (phi v) = option_map (map phi) (push D1 node1 z1 t v).
  Proof.
    destruct t as [|x t]; [reflexivity|].
    unfold push.
    change (map phi (x :: t)) with (phi x :: map phi t).
    cbv beta iota.
    change (phi x :: map phi t) with (map phi (x :: t)).
    replace (map phi (x :: t) ++ [z2; z2]) with (map phi ((x :: t) ++ [z1; z1]))
      by (rewrite map_app; cbn [map]; rewrite phi_z; reflexivity).
    rewrite tlen_map. unfold bind.
    destruct (checked_sub (tlen D1 ((x :: t) ++ [z1; z1])) 1) as [idx|]; [|reflexivity].
    rewrite set_node_map.
    destruct (set_node D1 ((x :: t) ++ [z1; z1]) idx v) as [t2|]; cbn [option_map]; [|reflexivity].
    destruct (complete_root (tlen D1 ((x :: t) ++ [z1; z1]))) as [root|]; [|reflexivity].
    apply push_loop_map.
  Qed.

  Lemma from_leaves_acc_map ls : forall t,
    from_leaves_acc D2 node2 z2 (map phi t) (map phi ls)
    = option_map (map phi) (from_leaves_acc D1 node1 z1 t ls).
  Proof.
    induction ls as [|l ls IH]; intros t; [reflexivity|].
    cbn [map from_leaves_acc]. unfold bind.
    rewrite push_map.
    destruct (push D1 node1 z1 t l) as [t'|]; cbn [option_map]; [|reflexivity].
    apply IH.
  Qed.

  Lemma from_leaves_map ls :
    from_leaves D2 node2 z2 (map phi ls)
    = option_map (map phi) (from_leaves D1 node1 z1 ls).
  Proof. unfold from_leaves. apply (from_leaves_acc_map ls []). Qed.

  Lemma root_map t :
    root D2 e2 (map phi t) = option_map phi (root D1 e1 t).
  Proof.
    destruct t as [|x t]; [cbn; rewrite phi_e; reflexivity|].
    unfold root.
    change (map phi (x :: t)) with (phi x :: map phi t).
    cbv beta iota.
    change (phi x :: map phi t) with (map phi (x :: t)).
    rewrite tlen_map. unfold bind.
    destruct (complete_root (tlen D1 (x :: t))) as [r|]; [|reflexivity].
    apply get_node_map.
  Qed.

  Lemma proof_loop_map fuel : forall t ti root n acc,
    proof_loop D2 fuel (map phi t) ti root n (map phi acc)
    = option_map (map phi) (proof_loop D1 fuel t ti root n acc).
  Proof.
    induction fuel as [|f IH]; intros t ti root n acc; [reflexivity|].
    cbn [proof_loop].
    destruct (ti =? root); [reflexivity|].
    unfold bind.
    destruct (complete_parent_and_sibling ti n) as [[p s]|]; [|reflexivity].
    rewrite get_node_map.
    destruct (get_node D1 t s) as [h|]; cbn [option_map]; [|reflexivity].
    rewrite <- IH. rewrite map_app. reflexivity.
  Qed.

  Lemma construct_proof_map t li :
    construct_proof D2 (map phi t) li
    = option_map (option_map map_proof) (construct_proof D1 t li).
  Proof.
    unfold construct_proof. rewrite tlen_map.
    destruct (tlen D1 t =? 0); [reflexivity|].
    destruct (negb (is_leaf_index_in_tree li (tlen D1 t))); [reflexivity|].
    unfold bind.
    destruct (leaf_index_to_tree_index li) as [ti|]; [|reflexivity].
    destruct (complete_root (tlen D1 t)) as [root|]; [|reflexivity].
    change (@nil D2) with (map phi []).
    rewrite proof_loop_map.
    destruct (proof_loop D1 66 t ti root (tlen D1 t) []) as [path|]; reflexivity.
  Qed.

  Lemma reconstruct_loop_map path : forall i n acc,
    reconstruct_loop D2 node2 (map phi path) i n (phi acc)
    = option_map phi (reconstruct_loop D1 node1 path i n acc).
  Proof.
    induction path as [|s r IH]; intros i n acc; [reflexivity|].
    cbn [map reconstruct_loop].
    destruct (checked_complete_parent i n) as [[p|]|]; [| |reflexivity].
    - destruct (i <? p); rewrite <- phi_node; apply IH.
    - rewrite <- phi_node; apply IH.
  Qed.

  Lemma reconstruct_root_map p v :
    reconstruct_root D2 node2 (map_proof p) (phi v)
    = option_map phi (reconstruct_root D1 node1 p v).
  Proof.
    unfold reconstruct_root, bind. cbn [map_proof leaf_index audit_path tree_size].
    destruct (leaf_index_to_tree_index (leaf_index p)) as [i|]; [|reflexivity].
    apply reconstruct_loop_map.
  Qed.

  Lemma mth_d_map d : forall l,
    mth_d D2 node2 e2 d (map phi l) = phi (mth_d D1 node1 e1 d l).
  Proof.
    induction d as [|d IH]; intros l.
    - destruct l; cbn; [symmetry; exact phi_e|reflexivity].
    - cbn [mth_d]. rewrite map_length.
      destruct (Nat.leb (length l) (Nat.pow 2 d)); [apply IH|].
      rewrite firstn_map, skipn_map, !IH, phi_node. reflexivity.
  Qed.

  Lemma mth_map l : mth D2 node2 e2 (map phi l) = phi (mth D1 node1 e1 l).
  Proof. unfold mth. rewrite map_length. apply mth_d_map. Qed.

  Lemma rfc_path_d_map d : forall m l,
    rfc_path_d D2 node2 e2 d m (map phi l) = map phi (rfc_path_d D1 node1 e1 d m l).
  Proof.
    induction d as [|d IH]; intros m l; [reflexivity|].
    cbn [rfc_path_d]. rewrite map_length.
    destruct (Nat.leb (length l) (Nat.pow 2 d)); [apply IH|].
    destruct (Nat.ltb m (Nat.pow 2 d)).
    - rewrite firstn_map, skipn_map, IH, mth_d_map, map_app. reflexivity.
    - rewrite firstn_map, skipn_map, IH, mth_d_map, map_app. reflexivity.
  Qed.

  Lemma rfc_path_map m l :
    rfc_path D2 node2 e2 m (map phi l) = map phi (rfc_path D1 node1 e1 m l).
  Proof. unfold rfc_path. rewrite map_length. apply rfc_path_d_map. Qed.

End Param.
