(** C10 — proofs, layer 1: the executor under arbitrary admitted deliveries. *)
From Astria Require Import Conductor.ConductorSpec.

Ltac brk :=
  repeat match goal with
  | H : context [N.leb ?a ?b] |- _ => destruct (N.leb_spec a b)
  | H : context [N.ltb ?a ?b] |- _ => destruct (N.ltb_spec a b)
  | H : context [N.eqb ?a ?b] |- _ => destruct (N.eqb_spec a b)
  | |- context [N.leb ?a ?b] => destruct (N.leb_spec a b)
  | |- context [N.ltb ?a ?b] => destruct (N.ltb_spec a b)
  | |- context [N.eqb ?a ?b] => destruct (N.eqb_spec a b)
  end.

(* ------------------------------------------------------------------------------------- *)
(** * Arithmetic of the two maps *)

Lemma map_r2s_Some ss rs n h :
  map_r2s ss rs n = Some h ->
  rs <= n + 1 /\ rs <= ss + n /\ h = ss + n - rs /\ h <= I64_MAX /\ n + 1 <= U64_MAX.
Proof.
  unfold map_r2s, checked_add, checked_sub. intros H. brk; try discriminate.
  inversion H; subst. repeat split; lia.
Qed.

Lemma next_of_Some ss rs n v :
  next_of ss rs n = Some v ->
  rs <= n + 1 /\ rs <= ss + n /\ v = ss + n - rs + 1 /\ n + 1 <= U64_MAX.
Proof.
  unfold next_of. destruct (map_r2s ss rs n) as [h|] eqn:E; [|discriminate].
  apply map_r2s_Some in E. intros H. brk; try discriminate. inversion H; subst. intuition lia.
Qed.

Lemma next_of_inj ss rs a b v : next_of ss rs a = Some v -> next_of ss rs b = Some v -> a = b.
Proof. intros Ha Hb. apply next_of_Some in Ha, Hb. lia. Qed.

Lemma next_of_succ ss rs a v w :
  next_of ss rs a = Some v -> next_of ss rs (a + 1) = Some w -> w = v + 1.
Proof. intros Ha Hb. apply next_of_Some in Ha, Hb. lia. Qed.

Lemma s2r_next ss rs a v bn : next_of ss rs a = Some v -> s2r ss rs v = Some bn -> bn = a + 1.
Proof.
  intros Ha. apply next_of_Some in Ha. unfold s2r, checked_sub, checked_add. intros H.
  brk; try discriminate. inversion H; subst. lia.
Qed.

Lemma s2r_inj ss rs h h' k : s2r ss rs h = Some k -> s2r ss rs h' = Some k -> h = h'.
Proof.
  unfold s2r, checked_sub, checked_add. intros H H'. brk; try discriminate.
  inversion H; inversion H'; subst. lia.
Qed.

(* ------------------------------------------------------------------------------------- *)
(** * [every] *)

Lemma every_nil (Q : event -> list event -> Prop) : every Q [].
Proof. intros l e r H. destruct l; discriminate. Qed.

Lemma every_cons (Q : event -> list event -> Prop) e tr : Q e tr -> every Q tr -> every Q (e :: tr).
Proof.
  intros He Ht l e' r H. destruct l as [|x l]; cbn in H.
  - inversion H; subst. exact He.
  - inversion H; subst. eapply Ht. reflexivity.
Qed.

Lemma every_tail (Q : event -> list event -> Prop) e tr : every Q (e :: tr) -> every Q tr.
Proof. intros H l e' r E. apply (H (e :: l) e' r). cbn. now rewrite E. Qed.

Lemma every_head (Q : event -> list event -> Prop) e tr : every Q (e :: tr) -> Q e tr.
Proof. intros H. apply (H [] e tr). reflexivity. Qed.

(* ------------------------------------------------------------------------------------- *)
(** * Hashes *)

Definition hnum (h : bhash) : N := match h with HGen n => n | HExec n _ _ => n end.
Definition hwf (m : meta) : Prop := hnum (m_hash m) = m_num m.

Lemma bhash_eqb_eq a b : bhash_eqb a b = true -> a = b.
Proof.
  destruct a, b; cbn; try discriminate.
  - intros H. apply N.eqb_eq in H. now subst.
  - intros H. apply andb_true_iff in H as [H H3]. apply andb_true_iff in H as [H1 H2].
    apply N.eqb_eq in H1, H2, H3. now subst.
Qed.

Lemma bhash_eqb_refl a : bhash_eqb a a = true.
Proof. destruct a; cbn; rewrite ?N.eqb_refl; reflexivity. Qed.

Lemma meta_eq m m' : m_num m = m_num m' -> m_hash m = m_hash m' -> m = m'.
Proof. destruct m, m'; cbn; intros; subst; reflexivity. Qed.

(** executed blocks of a trace, newest first *)
Fixpoint emetas (tr : list event) : list meta :=
  match tr with
  | [] => []
  | EvExec _ _ (Some m) :: r => m :: emetas r
  | _ :: r => emetas r
  end.

Lemma in_exec_emetas p h m tr : In (EvExec p h (Some m)) tr -> In m (emetas tr).
Proof.
  induction tr as [|e tr IH]; cbn; [tauto|]. intros [->|H]; cbn; [now left|].
  destruct e as [| | ? ? [?|] | |]; cbn; auto.
Qed.

Lemma last_exec_None tr : last_exec tr = None <-> emetas tr = [].
Proof.
  induction tr as [|e tr IH]; cbn; [tauto|].
  destruct e as [| | ? ? [?|] | |]; cbn; auto. split; discriminate.
Qed.

Lemma last_exec_in tr h m : last_exec tr = Some (h, m) -> In m (emetas tr).
Proof.
  induction tr as [|e tr IH]; cbn; [discriminate|].
  destruct e as [| | ? ? [?|] | |]; cbn; auto. intros H; inversion H; now left.
Qed.

Lemma find_hash_hnum (r : rollup) (h : bhash) n :
  (forall m, In m (r_exec r) -> hwf m) -> r_find_hash r h = Some n -> n = hnum h.
Proof.
  intros W. unfold r_find_hash.
  destruct (find _ (r_exec r)) as [m|] eqn:F.
  - apply find_some in F as [Hin He]. apply bhash_eqb_eq in He. intros H; inversion H; subst.
    now rewrite <- (W m Hin).
  - destruct h; [|discriminate]. cbn. destruct (n0 <=? r_presoft r); [|discriminate].
    intros H; now inversion H.
Qed.

(* ------------------------------------------------------------------------------------- *)
(** * The invariant *)

Definition lead (x0 : exec) : Prop := firm_only_soft_lead x0.

(** trace part: holds in every reachable state, live or not *)
Record TrInv (x0 : exec) (tr : list event) : Prop := {
  ti_exec : every (Qexec x0) tr;
  ti_mono : ~ lead x0 -> every (Qmono x0) tr;
  ti_le : every Qle tr;
  ti_names : every (Qnames x0) tr
}.

Definition consts (x0 : exec) (s : xs) : Prop :=
  x_mode (xe s) = x_mode x0 /\ x_sstart (xe s) = x_sstart x0 /\ x_rstart (xe s) = x_rstart x0.

(** soft modes (SoftOnly, SoftAndFirm) *)
Record SoftInv (x0 : exec) (s : xs) : Prop := {
  si_range : forall m, In m (emetas (xt s)) ->
      m_num (x_soft x0) < m_num m <= m_num (x_soft (xe s)) /\
      (m_num m = m_num (x_soft (xe s)) -> m = x_soft (xe s));
  si_tip : match last_exec (xt s) with
           | Some (h, m) => x_soft (xe s) = m /\ (forall v, nexts (xe s) = Some v -> v = h + 1)
           | None => x_soft (xe s) = x_soft x0
           end;
  si_same : m_num (x_firm (xe s)) = m_num (x_soft (xe s)) -> x_firm (xe s) = x_soft (xe s);
  si_pend : forall k m, c_find k (x_pend (xe s)) = Some m ->
      m_num m = k /\ exists p h, In (EvExec p h (Some m)) (xt s) /\
                                 s2r (x_sstart x0) (x_rstart x0) h = Some k;
  si_pend_all : forall m, In m (emetas (xt s)) -> m_num (x_firm (xe s)) < m_num m ->
      c_find (m_num m) (x_pend (xe s)) = Some m
}.

(** FirmOnly *)
Definition FirmInv (x0 : exec) (s : xs) : Prop :=
  match last_exec (xt s) with
  | Some (h, m) => x_firm (xe s) = m /\ x_soft (xe s) = m /\
                   (forall v, nextf (xe s) = Some v -> v = h + 1)
  | None => x_firm (xe s) = x_firm x0 /\ x_soft (xe s) = x_soft x0
  end.

Record Live (x0 : exec) (s : xs) : Prop := {
  li_le : m_num (x_firm (xe s)) <= m_num (x_soft (xe s));
  li_sync : last_commit x0 (xt s) = (x_firm (xe s), x_soft (xe s));
  li_rexec : r_exec (xr s) = emetas (xt s);
  li_pre : r_presoft (xr s) = m_num (x_soft x0);
  li_fault : r_fault (xr s) = None;
  li_wf : forall m, In m (emetas (xt s)) -> hwf m;
  li_wff : hwf (x_firm (xe s));
  li_wfs : hwf (x_soft (xe s));
  li_mode : match x_mode x0 with
            | FirmOnly => FirmInv x0 s
            | _ => SoftInv x0 s
            end
}.

Record Inv (x0 : exec) (s : xs) : Prop := {
  inv_consts : consts x0 s;
  inv_tr : TrInv x0 (xt s);
  inv_err : xd s <> Some EFirmGtSoft /\ xd s <> Some EContractWrong;
  inv_live : xd s = None -> Live x0 s
}.

(** what a session start guarantees *)
Record Start (x0 : exec) : Prop := {
  st_pend : x_pend x0 = [];
  st_firm : m_hash (x_firm x0) = HGen (m_num (x_firm x0));
  st_soft : m_hash (x_soft x0) = HGen (m_num (x_soft x0));
  st_le : m_num (x_firm x0) <= m_num (x_soft x0)
}.

Lemma session_start x0 : session x0 -> Start x0.
Proof.
  intros (md & ss & rs & lk & f & so & b & H). unfold session_exec in H.
  destruct (_ || _) eqn:E1; [discriminate|]. apply orb_false_iff in E1 as [_ E1].
  destruct (negb _); [discriminate|]. destruct (match md with SoftAndFirm => _ | _ => _ end); [discriminate|].
  inversion H; subst; clear H. constructor; cbn; try reflexivity. brk; [discriminate|lia].
Qed.

Lemma start_same x0 : Start x0 -> m_num (x_firm x0) = m_num (x_soft x0) -> x_firm x0 = x_soft x0.
Proof.
  intros [_ Hf Hs _] E. apply meta_eq; [exact E|]. now rewrite Hf, Hs, E.
Qed.

Lemma inv_init x0 : Start x0 -> Inv x0 (xs_of x0).
Proof.
  intros St. constructor; cbn.
  - repeat split.
  - constructor; intros; apply every_nil.
  - split; discriminate.
  - intros _. constructor; cbn; try reflexivity; try tauto.
    + apply St.
    + unfold hwf. now rewrite (st_firm _ St).
    + unfold hwf. now rewrite (st_soft _ St).
    + destruct (x_mode x0).
      * constructor; cbn; try tauto; try discriminate; [apply (start_same _ St)|rewrite (st_pend _ St); discriminate].
      * split; reflexivity.
      * constructor; cbn; try tauto; try discriminate; [apply (start_same _ St)|rewrite (st_pend _ St); discriminate].
Qed.

(* ------------------------------------------------------------------------------------- *)
(** * Trace extension lemmas *)

Lemma tr_took_soft x0 tr h : TrInv x0 tr -> TrInv x0 (EvTookSoft h :: tr).
Proof. intros [A B C D]. constructor; intros; apply every_cons; cbn; auto. Qed.

Lemma tr_took_firm x0 tr h c : TrInv x0 tr -> TrInv x0 (EvTookFirm h c :: tr).
Proof. intros [A B C D]. constructor; intros; apply every_cons; cbn; auto. Qed.

Lemma tr_get x0 tr n r : TrInv x0 tr -> TrInv x0 (EvGet n r :: tr).
Proof. intros [A B C D]. constructor; intros; apply every_cons; cbn; auto. Qed.

Lemma tr_exec x0 tr p h r : TrInv x0 tr -> Qexec x0 (EvExec p h r) tr -> TrInv x0 (EvExec p h r :: tr).
Proof. intros [A B C D] Q. constructor; intros; apply every_cons; cbn; auto. Qed.

Lemma tr_update x0 tr f s b :
  TrInv x0 tr -> (~ lead x0 -> Qmono x0 (EvUpdate f s b) tr) -> Qle (EvUpdate f s b) tr ->
  Qnames x0 (EvUpdate f s b) tr -> TrInv x0 (EvUpdate f s b :: tr).
Proof.
  intros [A B C D] Q1 Q2 Q3. constructor.
  - apply every_cons; cbn; auto.
  - intros L. apply every_cons; [exact (Q1 L)|exact (B L)].
  - apply every_cons; auto.
  - apply every_cons; auto.
Qed.

(* ------------------------------------------------------------------------------------- *)
(** * The execution API under the invariant *)

Lemma rollup_exec_spec r parent h r' res :
  r_fault r = None -> (forall m, In m (r_exec r) -> hwf m) ->
  rollup_exec r parent h = (r', res) ->
  r_presoft r' = r_presoft r /\ r_fault r' = None /\
  match res with
  | None => r_exec r' = r_exec r
  | Some m => r_exec r' = m :: r_exec r /\ m_num m = hnum parent + 1 /\ hwf m
  end.
Proof.
  intros F W. unfold rollup_exec. rewrite F.
  destruct (r_find_hash r parent) as [n|] eqn:E; cbn.
  - apply find_hash_hnum in E; [|exact W]. subst n.
    unfold checked_add. destruct (hnum parent + 1 <=? U64_MAX) eqn:E1; cbn.
    + rewrite N.add_0_r, E1. intros H; inversion H; subst; cbn; repeat split; reflexivity.
    + intros H; inversion H; subst; cbn; repeat split; reflexivity.
  - intros H; inversion H; subst; cbn; repeat split; reflexivity.
Qed.

(* ------------------------------------------------------------------------------------- *)
(** * Characterisation of the two helper steps *)

Lemma update_commitment_cases s f so b lvl :
  let s' := update_commitment s f so b lvl in
  (m_num so < m_num f /\ s' = die s EFirmGtSoft) \/
  (m_num f <= m_num so /\ xt s' = EvUpdate f so b :: xt s /\ xr s' = xr s /\
   ((xd s' = None /\ xe s' = set_commit (xe s) f so b) \/
    (xd s' = Some EInvalidState /\ xe s' = xe s))).
Proof.
  unfold update_commitment. destruct (N.ltb_spec (m_num so) (m_num f)) as [L|L]; [left; split; [lia|reflexivity]|].
  right. split; [assumption|]. destruct (_ && _); cbn; auto.
Qed.

Lemma exec_and_check_cases s parent cur h s' om :
  exec_and_check s parent cur h = (s', om) ->
  exists r' res, rollup_exec (xr s) parent h = (r', res) /\
    xt s' = EvExec parent h res :: xt s /\ xr s' = r' /\ xe s' = xe s /\
    match om with
    | Some m => res = Some m /\ xd s' = None /\ m_num m = cur + 1
    | None => xd s' = Some ERpc \/ xd s' = Some EContractMax \/
              (xd s' = Some EContractWrong /\ exists m, res = Some m /\ m_num m <> cur + 1)
    end.
Proof.
  unfold exec_and_check. destruct (rollup_exec (xr s) parent h) as [r' res] eqn:E. intros H0.
  exists r', res. split; [reflexivity|]. revert H0.
  destruct res as [m|].
  - unfold checked_add. destruct (cur + 1 <=? U64_MAX).
    + destruct (N.eqb_spec (m_num m) (cur + 1)) as [Q|Q]; intros H0; inversion H0; subst; cbn; repeat split; auto.
      right; right. split; [reflexivity|]. exists m. auto.
    + intros H0; inversion H0; subst; cbn; repeat split; auto.
  - intros H0; inversion H0; subst; cbn; repeat split; auto.
Qed.

(** find/remove on the pending map *)
Lemma c_find_remove_same {A} k (l : list (N * A)) : c_find k (c_remove k l) = None.
Proof.
  induction l as [|[k' a] l IH]; cbn; [reflexivity|].
  destruct (N.eqb_spec k' k); [exact IH|]. cbn. destruct (N.eqb_spec k' k); [contradiction|exact IH].
Qed.

Lemma c_find_remove_other {A} k k' (l : list (N * A)) : k <> k' -> c_find k (c_remove k' l) = c_find k l.
Proof.
  intros D. induction l as [|[k2 a] l IH]; cbn; [reflexivity|].
  destruct (N.eqb_spec k2 k').
  - subst. destruct (N.eqb_spec k' k); [congruence|exact IH].
  - cbn. destruct (N.eqb_spec k2 k); [reflexivity|exact IH].
Qed.

(* ------------------------------------------------------------------------------------- *)
(** * Preservation *)

Lemma inv_dead x0 s e :
  consts x0 s -> TrInv x0 (xt s) -> xd s = Some e -> e <> EFirmGtSoft -> e <> EContractWrong ->
  Inv x0 s.
Proof.
  intros C T D E1 E2. constructor; auto.
  - rewrite D. split; congruence.
  - rewrite D. discriminate.
Qed.

Lemma inv_die x0 s e : Inv x0 s -> e <> EFirmGtSoft -> e <> EContractWrong -> Inv x0 (die s e).
Proof. intros [C T _ _] E1 E2. apply inv_dead with e; auto. Qed.

Lemma live_tick x0 s e :
  (match e with EvTookSoft _ | EvTookFirm _ _ => True | _ => False end) ->
  Live x0 s -> Live x0 (tick s e).
Proof.
  intros He [A B C D E F G H I].
  destruct e; try contradiction; (constructor; cbn; auto;
    destruct (x_mode x0); [destruct I as [I1 I2 I3 I4 I5]; constructor; cbn; auto;
                             intros k m Hk; destruct (I4 k m Hk) as (Q1 & p & h' & Q2 & Q3);
                             split; [exact Q1|exists p, h'; auto]
                          | exact I
                          | destruct I as [I1 I2 I3 I4 I5]; constructor; cbn; auto;
                             intros k m Hk; destruct (I4 k m Hk) as (Q1 & p & h' & Q2 & Q3);
                             split; [exact Q1|exists p, h'; auto]]).
Qed.

Lemma inv_tick x0 s e :
  (match e with EvTookSoft _ | EvTookFirm _ _ => True | _ => False end) ->
  Inv x0 s -> Inv x0 (tick s e).
Proof.
  intros He [C T E L]. constructor; cbn; auto.
  - destruct e; try contradiction; [apply tr_took_soft|apply tr_took_firm]; exact T.
  - intros D. apply live_tick; auto.
Qed.


Lemma soft_ge_pre x0 s : SoftInv x0 s -> m_num (x_soft x0) <= m_num (x_soft (xe s)).
Proof.
  intros [R T _ _ _]. destruct (last_exec (xt s)) as [[h m]|] eqn:E.
  - destruct T as [T _]. apply last_exec_in in E. apply R in E. rewrite T. lia.
  - rewrite T. lia.
Qed.

Lemma soft_step x0 s h :
  Start x0 -> x_mode x0 <> FirmOnly -> Inv x0 s -> xd s = None ->
  Inv x0 (execute_soft (tick s (EvTookSoft h)) h).
Proof.
  intros St Md I0 D0.
  assert (I1 : Inv x0 (tick s (EvTookSoft h))) by (apply inv_tick; [exact Logic.I|exact I0]).
  assert (D1 : xd (tick s (EvTookSoft h)) = None) by exact D0.
  remember (tick s (EvTookSoft h)) as s1 eqn:Hs1. clear Hs1 I0 D0 s.
  destruct I1 as [C1 T1 E1 L1]. specialize (L1 D1).
  assert (SI : SoftInv x0 s1) by (pose proof (li_mode _ _ L1) as M; destruct (x_mode x0); [exact M|congruence|exact M]).
  destruct C1 as (Cm & Cs & Cr).
  unfold execute_soft.
  destruct (nexts (xe s1)) as [es|] eqn:Ns.
  2:{ apply inv_dead with EPanic; cbn; auto; try discriminate. repeat split; auto. }
  destruct (N.ltb_spec h es) as [Hlt|Hge].
  { constructor; auto. repeat split; auto. }
  destruct (N.ltb_spec es h) as [Hgt|Hle].
  { apply inv_dead with EOutOfOrder; cbn; auto; try discriminate. repeat split; auto. }
  assert (h = es) by lia. subst h. clear Hge Hle.
  destruct (s2r (x_sstart (xe s1)) (x_rstart (xe s1)) es) as [bn|] eqn:Sr.
  2:{ apply inv_dead with EMap; cbn; auto; try discriminate. repeat split; auto. }
  assert (Hbn : bn = m_num (x_soft (xe s1)) + 1) by (eapply s2r_next; [exact Ns|exact Sr]).
  destruct (exec_and_check s1 (m_hash (x_soft (xe s1))) (m_num (x_soft (xe s1))) es) as [s2 om] eqn:EC.
  apply exec_and_check_cases in EC as (r' & res & RE & Xt2 & Xr2 & Xe2 & Hom).
  pose proof (rollup_exec_spec _ _ _ _ _ (li_fault _ _ L1)
                (fun m Hm => li_wf _ _ L1 m (eq_ind _ (fun l => In m l) Hm _ (li_rexec _ _ L1))) RE)
    as (Rp & Rf & Rres).
  (* the ExecuteBlock event is in order *)
  assert (QE : Qexec x0 (EvExec (m_hash (x_soft (xe s1))) es res) (xt s1)).
  { cbn. pose proof (si_tip _ _ SI) as Tip. destruct (last_exec (xt s1)) as [[h' m']|].
    - destruct Tip as [Ts Tn]. split; [now rewrite Ts|]. apply Tn. exact Ns.
    - unfold head_meta, start_height. rewrite <- Tip.
      replace (nexts x0) with (nexts (xe s1)).
      + destruct (x_mode x0); try congruence; auto.
      + unfold nexts. now rewrite Cs, Cr, Tip. }
  assert (T2 : TrInv x0 (xt s2)) by (rewrite Xt2; apply tr_exec; assumption).
  assert (C2 : consts x0 s2) by (unfold consts; rewrite Xe2; auto).
  destruct om as [m|].
  2:{ destruct Hom as [Hd|[Hd|[Hd (m & Hr & Hn)]]].
      - apply inv_dead with ERpc; auto; discriminate.
      - apply inv_dead with EContractMax; auto; discriminate.
      - exfalso. subst res. destruct Rres as (_ & Rn & _). apply Hn. rewrite Rn.
        now rewrite (li_wfs _ _ L1). }
  destruct Hom as (Hr & D2 & Hn). subst res. destruct Rres as (Rex & _ & Wm).
  pose proof (update_commitment_cases s2 (x_firm (xe s1)) m (x_base (xe s1)) SoftOnly) as UC.
  remember (update_commitment s2 (x_firm (xe s1)) m (x_base (xe s1)) SoftOnly) as s3 eqn:Hs3. clear Hs3.
  pose proof (li_le _ _ L1) as Le.
  destruct UC as [[Bad _]|(Ok & Xt3 & Xr3 & Alt)]; [lia|].
  assert (T3 : TrInv x0 (xt s3)).
  { rewrite Xt3. apply tr_update; auto.
    - intros _. cbn. rewrite Xt2. cbn. rewrite (li_sync _ _ L1). cbn. lia.
    - cbn. left. rewrite Xt2. cbn. now rewrite (li_sync _ _ L1). }
  destruct Alt as [[D3 Xe3]|[D3 Xe3]].
  2:{ rewrite D3. apply inv_dead with EInvalidState; auto; try discriminate.
      unfold consts. rewrite Xe3, Xe2. auto. }
  rewrite D3.
  pose proof (soft_ge_pre _ _ SI) as Gp.
  constructor; cbn.
  - unfold consts; cbn. rewrite Xe3, Xe2. cbn. auto.
  - exact T3.
  - split; discriminate.
  - intros _. rewrite Xe3, Xe2, Xt3, Xt2, Xr3, Xr2. constructor; cbn; auto.
    + rewrite Rex. now rewrite (li_rexec _ _ L1).
    + now rewrite Rp, (li_pre _ _ L1).
    + intros m' [<-|Hm']; [exact Wm|]. apply (li_wf _ _ L1). exact Hm'.
    + exact (li_wff _ _ L1).
    + assert (SI' : SoftInv x0 {| xe := set_pend (set_commit (xe s1) (x_firm (xe s1)) m (x_base (xe s1)))
                                         ((bn, m) :: c_remove bn (x_pend (xe s1)));
                                  xr := r';
                                  xt := EvUpdate (x_firm (xe s1)) m (x_base (xe s1))
                                          :: EvExec (m_hash (x_soft (xe s1))) es (Some m) :: xt s1;
                                  xd := None |}).
      { constructor; cbn.
        - intros m' [<-|Hm']; [split; [lia|auto]|].
          destruct (si_range _ _ SI m' Hm') as [Rg _]. split; [lia|intros; lia].
        - split; [reflexivity|]. intros v Hv. unfold nexts in Hv, Ns. cbn in Hv. rewrite Hn in Hv.
          eapply next_of_succ; [exact Ns|exact Hv].
        - intros; lia.
        - intros k m0. destruct (N.eqb_spec bn k) as [->|Dk].
          + intros Hk; inversion Hk; subst m0. split; [lia|].
            exists (m_hash (x_soft (xe s1))), es. split; [right; now left|]. now rewrite <- Cs, <- Cr.
          + rewrite c_find_remove_other by congruence. intros Hk.
            destruct (si_pend _ _ SI k m0 Hk) as (Q1 & p & h' & Q2 & Q3).
            split; [exact Q1|]. exists p, h'. split; [right; right; exact Q2|exact Q3].
        - intros m' [<-|Hm'] Hf.
          + rewrite Hn, <- Hbn. now rewrite N.eqb_refl.
          + destruct (si_range _ _ SI m' Hm') as [Rg _].
            destruct (N.eqb_spec bn (m_num m')) as [Q|Q]; [lia|].
            rewrite c_find_remove_other by congruence. apply (si_pend_all _ _ SI); assumption. }
      destruct (x_mode x0); [exact SI'|congruence|exact SI'].
Qed.


Lemma next_of_fun ss rs a v w : next_of ss rs a = Some v -> next_of ss rs a = Some w -> v = w.
Proof. congruence. Qed.

Lemma firm_step_both x0 s h c :
  Start x0 -> x_mode x0 = SoftAndFirm -> Inv x0 s -> xd s = None ->
  Inv x0 (execute_firm (tick s (EvTookFirm h c)) h c).
Proof.
  intros St Md I0 D0.
  assert (I1 : Inv x0 (tick s (EvTookFirm h c))) by (apply inv_tick; [exact Logic.I|exact I0]).
  assert (D1 : xd (tick s (EvTookFirm h c)) = None) by exact D0.
  assert (Lt : last_took (xt (tick s (EvTookFirm h c))) = Some (DFirm h c)) by reflexivity.
  remember (tick s (EvTookFirm h c)) as s1 eqn:Hs1. clear Hs1 I0 D0 s.
  destruct I1 as [C1 T1 E1 L1]. specialize (L1 D1).
  assert (SI : SoftInv x0 s1) by (pose proof (li_mode _ _ L1) as M; now rewrite Md in M).
  destruct C1 as (Cm & Cs & Cr).
  pose proof (li_le _ _ L1) as Le.
  pose proof (soft_ge_pre _ _ SI) as Gp.
  unfold execute_firm.
  destruct (nextf (xe s1)) as [ef|] eqn:Nf.
  2:{ apply inv_dead with EPanic; cbn; auto; try discriminate. repeat split; auto. }
  destruct (N.eqb_spec h ef) as [->|Hne]; cbn [negb].
  2:{ apply inv_dead with EFirmHeight; cbn; auto; try discriminate. repeat split; auto. }
  destruct (s2r (x_sstart (xe s1)) (x_rstart (xe s1)) ef) as [bn|] eqn:Sr.
  2:{ apply inv_dead with EMap; cbn; auto; try discriminate. repeat split; auto. }
  assert (Hbn : bn = m_num (x_firm (xe s1)) + 1) by (eapply s2r_next; [exact Nf|exact Sr]).
  destruct (nexts (xe s1)) as [es|] eqn:Ns.
  2:{ apply inv_dead with EPanic; cbn; auto; try discriminate. repeat split; auto. }
  rewrite Cm, Md. cbn [should_execute_firm].
  assert (WR : forall m, In m (r_exec (xr s1)) -> hwf m).
  { intros m Hm. apply (li_wf _ _ L1). now rewrite <- (li_rexec _ _ L1). }
  destruct (N.eqb_spec ef es) as [<-|Hfs].
  - (* firm and soft expect the same height: execute, then set both *)
    assert (Hnum : m_num (x_firm (xe s1)) = m_num (x_soft (xe s1))) by (eapply next_of_inj; [exact Nf|exact Ns]).
    pose proof (si_same _ _ SI Hnum) as Hsame.
    destruct (exec_and_check s1 (m_hash (x_firm (xe s1))) (m_num (x_firm (xe s1))) ef) as [s2 om] eqn:EC.
    apply exec_and_check_cases in EC as (r' & res & RE & Xt2 & Xr2 & Xe2 & Hom).
    pose proof (rollup_exec_spec _ _ _ _ _ (li_fault _ _ L1) WR RE) as (Rp & Rf & Rres).
    assert (QE : Qexec x0 (EvExec (m_hash (x_firm (xe s1))) ef res) (xt s1)).
    { cbn. rewrite Hsame. pose proof (si_tip _ _ SI) as Tip. destruct (last_exec (xt s1)) as [[h' m']|].
      - destruct Tip as [Ts Tn]. split; [now rewrite Ts|]. apply Tn. exact Ns.
      - unfold head_meta, start_height. rewrite <- Tip, Md.
        replace (nexts x0) with (nexts (xe s1)); [auto|].
        unfold nexts. now rewrite Cs, Cr, Tip. }
    assert (T2 : TrInv x0 (xt s2)) by (rewrite Xt2; apply tr_exec; assumption).
    assert (C2 : consts x0 s2) by (unfold consts; rewrite Xe2; auto).
    destruct om as [m|].
    2:{ destruct Hom as [Hd|[Hd|[Hd (m & Hr & Hn)]]].
        - apply inv_dead with ERpc; auto; discriminate.
        - apply inv_dead with EContractMax; auto; discriminate.
        - exfalso. subst res. destruct Rres as (_ & Rn & _). apply Hn. rewrite Rn.
          now rewrite (li_wff _ _ L1). }
    destruct Hom as (Hr & D2 & Hn). subst res. destruct Rres as (Rex & _ & Wm).
    pose proof (update_commitment_cases s2 m m c SoftAndFirm) as UC.
    remember (update_commitment s2 m m c SoftAndFirm) as s3 eqn:Hs3. clear Hs3.
    destruct UC as [[Bad _]|(Ok & Xt3 & Xr3 & Alt)]; [lia|].
    assert (T3 : TrInv x0 (xt s3)).
    { rewrite Xt3. apply tr_update; auto.
      - intros _. cbn. rewrite Xt2. cbn. rewrite (li_sync _ _ L1). cbn. lia.
      - cbn. right. exists ef, c. rewrite Xt2. cbn. split; [exact Lt|]. left.
        exists (m_hash (x_firm (xe s1))). now left. }
    destruct Alt as [[D3 Xe3]|[D3 Xe3]].
    2:{ apply inv_dead with EInvalidState; auto; try discriminate.
        unfold consts. rewrite Xe3, Xe2. auto. }
    constructor.
    + unfold consts. rewrite Xe3, Xe2. cbn. auto.
    + exact T3.
    + rewrite D3. split; discriminate.
    + intros _. constructor; rewrite ?Xe3, ?Xe2, ?Xt3, ?Xt2, ?Xr3, ?Xr2; cbn; auto.
      * rewrite Rex. now rewrite (li_rexec _ _ L1).
      * now rewrite Rp, (li_pre _ _ L1).
      * intros m' [<-|Hm']; [exact Wm|]. apply (li_wf _ _ L1). exact Hm'.
      * rewrite Md. constructor; rewrite ?Xe3, ?Xe2, ?Xt3, ?Xt2; cbn.
        -- intros m' [<-|Hm']; [split; [lia|auto]|].
           destruct (si_range _ _ SI m' Hm') as [Rg _]. split; [lia|intros; lia].
        -- split; [reflexivity|]. intros v Hv. unfold nexts in Hv, Ns. cbn in Hv. rewrite Hn, Hnum in Hv.
           eapply next_of_succ; [exact Ns|exact Hv].
        -- reflexivity.
        -- intros k m0 Hk. destruct (si_pend _ _ SI k m0 Hk) as (Q1 & p & h' & Q2 & Q3).
           split; [exact Q1|]. exists p, h'. split; [right; right; exact Q2|exact Q3].
        -- intros m' [<-|Hm'] Hf; [lia|].
           destruct (si_range _ _ SI m' Hm') as [Rg _]. lia.
  - (* firm behind soft: no execution, only the firm commitment moves *)
    assert (Hlt : m_num (x_firm (xe s1)) < m_num (x_soft (xe s1))).
    { destruct (N.eq_dec (m_num (x_firm (xe s1))) (m_num (x_soft (xe s1)))) as [Q|Q]; [|lia].
      exfalso. apply Hfs. unfold nextf, nexts in Nf, Ns. rewrite Q in Nf. congruence. }
    (* the common tail: the firm commitment becomes [b], a block of number bn *)
    assert (Tail : forall s1' pend' b,
      xe s1' = set_pend (xe s1) pend' -> xr s1' = xr s1 -> xd s1' = None ->
      m_num b = bn -> hwf b ->
      TrInv x0 (xt s1') -> last_took (xt s1') = Some (DFirm ef c) ->
      last_commit x0 (xt s1') = last_commit x0 (xt s1) -> emetas (xt s1') = emetas (xt s1) ->
      last_exec (xt s1') = last_exec (xt s1) ->
      (forall e, In e (xt s1) -> In e (xt s1')) ->
      ((exists p, In (EvExec p ef (Some b)) (xt s1')) \/
       (m_num b <= m_num (x_soft x0) /\ m_hash b = HGen (m_num b))) ->
      (m_num b = m_num (x_soft (xe s1)) -> b = x_soft (xe s1)) ->
      (forall k m, c_find k pend' = Some m -> c_find k (x_pend (xe s1)) = Some m) ->
      (forall m, In m (emetas (xt s1)) -> bn < m_num m ->
                 c_find (m_num m) pend' = c_find (m_num m) (x_pend (xe s1))) ->
      Inv x0 (update_commitment s1' b (x_soft (xe s1)) c FirmOnly)).
    { intros s1' pend' b Xe1 Xr1 Dd Hb Wb T1' Lt' Lc' Em' Le' Sub Src Same PSub PAll.
      pose proof (update_commitment_cases s1' b (x_soft (xe s1)) c FirmOnly) as UC.
      remember (update_commitment s1' b (x_soft (xe s1)) c FirmOnly) as s3 eqn:Hs3. clear Hs3.
      destruct UC as [[Bad _]|(Ok & Xt3 & Xr3 & Alt)]; [lia|].
      assert (T3 : TrInv x0 (xt s3)).
      { rewrite Xt3. apply tr_update; auto.
        - intros _. cbn. rewrite Lc', (li_sync _ _ L1). cbn. lia.
        - cbn. right. exists ef, c. split; [exact Lt'|]. destruct Src as [Src|[S1 S2]]; [now left|].
          right. repeat split; auto. rewrite <- Cs, <- Cr, Hb. exact Sr. }
      assert (C3 : consts x0 s3).
      { unfold consts. destruct Alt as [[_ Xe3]|[_ Xe3]]; rewrite Xe3, ?Xe1; cbn; auto. }
      destruct Alt as [[D3 Xe3]|[D3 Xe3]].
      2:{ apply inv_dead with EInvalidState; auto; discriminate. }
      constructor; auto.
      { rewrite D3. split; discriminate. }
      intros _. constructor; rewrite ?Xe3, ?Xt3, ?Xr3, ?Xe1, ?Xr1; cbn; auto.
      - rewrite Em'. exact (li_rexec _ _ L1).
      - exact (li_pre _ _ L1).
      - exact (li_fault _ _ L1).
      - rewrite Em'. exact (li_wf _ _ L1).
      - exact (li_wfs _ _ L1).
      - rewrite Md. constructor; rewrite ?Xe3, ?Xt3, ?Xe1; cbn.
        + rewrite Em'. exact (si_range _ _ SI).
        + rewrite Le'. pose proof (si_tip _ _ SI) as Tip. destruct (last_exec (xt s1)) as [[h' m']|]; [|exact Tip].
          destruct Tip as [Ts Tn]. split; [exact Ts|]. intros v Hv. apply Tn. exact Hv.
        + exact Same.
        + intros k m0 Hk. apply PSub in Hk. destruct (si_pend _ _ SI k m0 Hk) as (Q1 & p & h' & Q2 & Q3).
          split; [exact Q1|]. exists p, h'. split; [right; apply Sub; exact Q2|exact Q3].
        + rewrite Em'. intros m' Hm' Hf. rewrite PAll by (auto; lia).
          apply (si_pend_all _ _ SI); [exact Hm'|lia]. }
    destruct (c_find bn (x_pend (xe s1))) as [b|] eqn:Fb.
    + destruct (si_pend _ _ SI bn b Fb) as (Qn & p & h' & Qin & Qs).
      assert (h' = ef) by (eapply s2r_inj; [exact Qs|rewrite <- Cs, <- Cr; exact Sr]). subst h'.
      pose proof (in_exec_emetas _ _ _ _ Qin) as Bin.
      apply Tail with (pend' := c_remove bn (x_pend (xe s1))); cbn; auto.
      * apply (li_wf _ _ L1). exact Bin.
      * left. exists p. exact Qin.
      * apply (si_range _ _ SI b Bin).
      * intros k m Hk. destruct (N.eq_dec k bn) as [->|Dk]; [now rewrite c_find_remove_same in Hk|].
        now rewrite c_find_remove_other in Hk by exact Dk.
      * intros m Hm Hgt. apply c_find_remove_other. lia.
    + assert (Hfind : r_find_num (xr s1) bn = if bn <=? m_num (x_soft x0) then Some (HGen bn) else None).
      { unfold r_find_num. rewrite (li_pre _ _ L1).
        destruct (find (fun m => m_num m =? bn) (r_exec (xr s1))) as [m'|] eqn:Ff; [|reflexivity].
        exfalso. apply find_some in Ff as [Hin He]. apply N.eqb_eq in He.
        rewrite (li_rexec _ _ L1) in Hin.
        pose proof (si_pend_all _ _ SI m' Hin) as Q. rewrite He in Q. rewrite Q in Fb by lia. discriminate. }
      rewrite Hfind. destruct (N.leb_spec bn (m_num (x_soft x0))) as [Hpre|Hpre].
      * apply Tail with (pend' := x_pend (xe s1)); cbn; auto.
        -- now destruct (xe s1).
        -- reflexivity.
        -- apply tr_get. exact T1.
        -- intros Q. assert (Hs : m_num (x_soft (xe s1)) = m_num (x_soft x0)) by lia.
           pose proof (si_tip _ _ SI) as Tip. destruct (last_exec (xt s1)) as [[h' m']|] eqn:El.
           ++ exfalso. destruct Tip as [Ts _]. apply last_exec_in in El. apply (si_range _ _ SI) in El.
              rewrite <- Ts in El. lia.
           ++ rewrite Tip. apply meta_eq; cbn; [now rewrite <- Tip|]. rewrite (st_soft _ St). now rewrite <- Tip, <- Q.
      * apply inv_dead with ERpc; cbn; auto; try discriminate.
        -- repeat split; auto.
        -- apply tr_get. exact T1.
Qed.


Lemma firm_step_firmonly x0 s h c :
  Start x0 -> x_mode x0 = FirmOnly -> Inv x0 s -> xd s = None ->
  Inv x0 (execute_firm (tick s (EvTookFirm h c)) h c).
Proof.
  intros St Md I0 D0.
  assert (I1 : Inv x0 (tick s (EvTookFirm h c))) by (apply inv_tick; [exact Logic.I|exact I0]).
  assert (D1 : xd (tick s (EvTookFirm h c)) = None) by exact D0.
  assert (Lt : last_took (xt (tick s (EvTookFirm h c))) = Some (DFirm h c)) by reflexivity.
  remember (tick s (EvTookFirm h c)) as s1 eqn:Hs1. clear Hs1 I0 D0 s.
  destruct I1 as [C1 T1 E1 L1]. specialize (L1 D1).
  assert (FI : FirmInv x0 s1) by (pose proof (li_mode _ _ L1) as M; now rewrite Md in M).
  destruct C1 as (Cm & Cs & Cr).
  pose proof (li_le _ _ L1) as Le.
  unfold execute_firm.
  destruct (nextf (xe s1)) as [ef|] eqn:Nf.
  2:{ apply inv_dead with EPanic; cbn; auto; try discriminate. repeat split; auto. }
  destruct (N.eqb_spec h ef) as [->|Hne]; cbn [negb].
  2:{ apply inv_dead with EFirmHeight; cbn; auto; try discriminate. repeat split; auto. }
  destruct (s2r (x_sstart (xe s1)) (x_rstart (xe s1)) ef) as [bn|] eqn:Sr.
  2:{ apply inv_dead with EMap; cbn; auto; try discriminate. repeat split; auto. }
  destruct (nexts (xe s1)) as [es|] eqn:Ns.
  2:{ apply inv_dead with EPanic; cbn; auto; try discriminate. repeat split; auto. }
  rewrite Cm, Md. cbn [should_execute_firm].
  assert (WR : forall m, In m (r_exec (xr s1)) -> hwf m).
  { intros m Hm. apply (li_wf _ _ L1). now rewrite <- (li_rexec _ _ L1). }
  destruct (exec_and_check s1 (m_hash (x_firm (xe s1))) (m_num (x_firm (xe s1))) ef) as [s2 om] eqn:EC.
  apply exec_and_check_cases in EC as (r' & res & RE & Xt2 & Xr2 & Xe2 & Hom).
  pose proof (rollup_exec_spec _ _ _ _ _ (li_fault _ _ L1) WR RE) as (Rp & Rf & Rres).
  assert (QE : Qexec x0 (EvExec (m_hash (x_firm (xe s1))) ef res) (xt s1)).
  { cbn. unfold FirmInv in FI. destruct (last_exec (xt s1)) as [[h' m']|].
    - destruct FI as (Tf & Ts & Tn). split; [now rewrite Tf|]. apply Tn. exact Nf.
    - destruct FI as (Tf & Ts). unfold head_meta, start_height. rewrite Md, <- Tf.
      replace (nextf x0) with (nextf (xe s1)); [auto|].
      unfold nextf. now rewrite Cs, Cr, Tf. }
  assert (T2 : TrInv x0 (xt s2)) by (rewrite Xt2; apply tr_exec; assumption).
  assert (C2 : consts x0 s2) by (unfold consts; rewrite Xe2; auto).
  destruct om as [m|].
  2:{ destruct Hom as [Hd|[Hd|[Hd (m & Hr & Hn)]]].
      - apply inv_dead with ERpc; auto; discriminate.
      - apply inv_dead with EContractMax; auto; discriminate.
      - exfalso. subst res. destruct Rres as (_ & Rn & _). apply Hn. rewrite Rn.
        now rewrite (li_wff _ _ L1). }
  destruct Hom as (Hr & D2 & Hn). subst res. destruct Rres as (Rex & _ & Wm).
  pose proof (update_commitment_cases s2 m m c SoftAndFirm) as UC.
  remember (update_commitment s2 m m c SoftAndFirm) as s3 eqn:Hs3. clear Hs3.
  destruct UC as [[Bad _]|(Ok & Xt3 & Xr3 & Alt)]; [lia|].
  assert (T3 : TrInv x0 (xt s3)).
  { rewrite Xt3. apply tr_update; auto.
    - intros NL. cbn. rewrite Xt2. cbn. rewrite (li_sync _ _ L1). cbn. split; [lia|].
      (* without a soft lead at the start, soft = firm throughout *)
      assert (Heq : m_num (x_soft (xe s1)) = m_num (x_firm (xe s1))).
      { unfold FirmInv in FI. destruct (last_exec (xt s1)) as [[h' m']|].
        - destruct FI as (Tf & Ts & _). now rewrite Tf, Ts.
        - destruct FI as (Tf & Ts). rewrite Tf, Ts.
          destruct (N.lt_ge_cases (m_num (x_firm x0)) (m_num (x_soft x0))) as [Q|Q].
          + exfalso. apply NL. split; assumption.
          + pose proof (st_le _ St). lia. }
      lia.
    - cbn. right. exists ef, c. rewrite Xt2. cbn. split; [exact Lt|]. left.
      exists (m_hash (x_firm (xe s1))). now left. }
  destruct Alt as [[D3 Xe3]|[D3 Xe3]].
  2:{ apply inv_dead with EInvalidState; auto; try discriminate.
      unfold consts. rewrite Xe3, Xe2. auto. }
  constructor.
  - unfold consts. rewrite Xe3, Xe2. cbn. auto.
  - exact T3.
  - rewrite D3. split; discriminate.
  - intros _. constructor; rewrite ?Xe3, ?Xe2, ?Xt3, ?Xt2, ?Xr3, ?Xr2; cbn; auto.
    + rewrite Rex. now rewrite (li_rexec _ _ L1).
    + now rewrite Rp, (li_pre _ _ L1).
    + intros m' [<-|Hm']; [exact Wm|]. apply (li_wf _ _ L1). exact Hm'.
    + rewrite Md. unfold FirmInv. rewrite ?Xe3, ?Xe2, ?Xt3, ?Xt2. cbn.
      split; [reflexivity|]. split; [reflexivity|]. intros v Hv.
      unfold nextf in Hv, Nf. cbn in Hv. rewrite Hn in Hv.
      eapply next_of_succ; [exact Nf|exact Hv].
Qed.

Lemma deliver_inv x0 s d : Start x0 -> Inv x0 s -> admits (x_mode x0) d -> Inv x0 (deliver s d).
Proof.
  intros St I A. unfold deliver. destruct (xd s) eqn:D; [exact I|].
  destruct d as [h|h c]; cbn in A.
  - apply soft_step; auto. intros Q. rewrite Q in A. discriminate.
  - destruct (x_mode x0) eqn:Md; [discriminate| |].
    + apply firm_step_firmonly; auto.
    + apply firm_step_both; auto.
Qed.

Lemma xreach_inv x0 s : Start x0 -> xreach x0 s -> Inv x0 s.
Proof.
  intros St R. induction R.
  - apply inv_init. exact St.
  - apply deliver_inv; assumption.
  - apply inv_die; [assumption|discriminate|discriminate].
Qed.

(* ------------------------------------------------------------------------------------- *)
(** * Layer-1 theorems *)

Theorem exec_once_in_order : stmt_exec_once_in_order.
Proof. intros x0 s Hs R. apply (xreach_inv _ _ (session_start _ Hs) R). Qed.

Theorem commit_monotone : stmt_commit_monotone.
Proof. intros x0 s Hs NL R. apply (xreach_inv _ _ (session_start _ Hs) R). exact NL. Qed.

Theorem firm_le_soft : stmt_firm_le_soft.
Proof.
  intros x0 s Hs R. pose proof (xreach_inv _ _ (session_start _ Hs) R) as [_ T E _].
  split; [apply T|exact E].
Qed.

Theorem firm_names_executed_height : stmt_firm_names_executed_height.
Proof. intros x0 s Hs R. apply (xreach_inv _ _ (session_start _ Hs) R). Qed.

Theorem stale_dropped : stmt_stale_dropped.
Proof.
  intros s h es D Ns Hlt. unfold deliver. rewrite D. unfold execute_soft. cbn [tick xe].
  rewrite Ns. destruct (N.ltb_spec h es); [reflexivity|lia].
Qed.

(* ------------------------------------------------------------------------------------- *)
(** * The full monotonicity statement is false of the faithful model *)

Definition wit_x0 : exec :=
  {| x_mode := FirmOnly; x_sstart := 10; x_rstart := 1; x_look := 3;
     x_firm := {| m_num := 2; m_hash := HGen 2 |}; x_soft := {| m_num := 4; m_hash := HGen 4 |};
     x_base := 7; x_pend := [] |}.

Lemma wit_session : session_exec FirmOnly 10 1 3 2 4 7 = inl wit_x0.
Proof. reflexivity. Qed.

Theorem commit_monotone_refuted : stmt_commit_monotone_refuted.
Proof.
  exists wit_x0, (deliver (xs_of wit_x0) (DFirm 12 8)).
  split; [exists FirmOnly, 10, 1, 3, 2, 4, 7; exact wit_session|].
  split; [split; [reflexivity|cbn; lia]|].
  split; [apply xreach_deliver; [constructor|reflexivity]|].
  intros H. unfold every in H.
  remember (xt (deliver (xs_of wit_x0) (DFirm 12 8))) as tr eqn:E. vm_compute in E. subst tr.
  specialize (H [] _ _ eq_refl). cbn in H. destruct H as [_ H]. lia.
Qed.

(** non-vacuity: a SoftAndFirm session with firm arriving first, a stale soft block, a
    duplicate, soft running ahead and firm catching up through the pending map *)
Definition ex_x0 : exec :=
  {| x_mode := SoftAndFirm; x_sstart := 10; x_rstart := 1; x_look := 3;
     x_firm := {| m_num := 2; m_hash := HGen 2 |}; x_soft := {| m_num := 3; m_hash := HGen 3 |};
     x_base := 7; x_pend := [] |}.
Definition ex_deliveries : list delivery :=
  [DFirm 12 8; DFirm 13 9; DSoft 13; DSoft 14; DSoft 14; DSoft 15; DFirm 14 10; DFirm 15 11; DFirm 16 12].

Example ex_session : session ex_x0.
Proof. exists SoftAndFirm, 10, 1, 3, 2, 3, 7. reflexivity. Qed.

Lemma deliver_all_xreach x0 ds s :
  xreach x0 s -> Forall (admits (x_mode x0)) ds -> xreach x0 (deliver_all s ds).
Proof.
  intros R F. revert s R. induction F as [|d ds A F IH]; intros s R; [exact R|].
  cbn. apply IH. apply xreach_deliver; assumption.
Qed.

Example ex_reach : xreach ex_x0 (deliver_all (xs_of ex_x0) ex_deliveries).
Proof. apply deliver_all_xreach; [constructor|]. repeat constructor. Qed.

Example ex_nonvacuous :
  let s := deliver_all (xs_of ex_x0) ex_deliveries in
  xd s = None /\ length (emetas (xt s)) = 4%nat /\
  x_firm (xe s) = x_soft (xe s) /\ m_num (x_soft (xe s)) = 7 /\
  length (filter (fun e => match e with EvUpdate _ _ _ => true | _ => false end) (xt s)) = 7%nat /\
  length (filter (fun e => match e with EvGet _ _ => true | _ => false end) (xt s)) = 1%nat.
Proof. vm_compute. repeat split; reflexivity. Qed.
