(** C10 — proofs, layer 2: the honest composed system (readers, caches, channels, executor). *)
From Astria Require Import Conductor.ConductorSpec Conductor.ConductorProofs.

(** what the soft channel (then the enqueued block, then the cache's next height) may contain
    when the executor expects height [E]: every element is at most what the executor will expect
    when it gets there *)
Fixpoint soft_ok (E : N) (l : list N) (nxt : N) : Prop :=
  match l with
  | [] => nxt <= E
  | c :: r => c <= E /\ soft_ok (if c =? E then E + 1 else E) r nxt
  end.

(** the firm channel holds exactly the next expected heights, in order *)
Fixpoint firm_ok (E : N) (l : list (N * N)) (nxt : N) : Prop :=
  match l with
  | [] => nxt = E
  | (h, _) :: r => h = E /\ firm_ok (E + 1) r nxt
  end.

Definition olist {A} (o : option A) : list A := match o with Some a => [a] | None => [] end.

Lemma soft_ok_mono E E' l nxt : E <= E' -> soft_ok E l nxt -> soft_ok E' l nxt.
Proof.
  revert E E'. induction l as [|c l IH]; cbn; intros E E' Le H; [lia|].
  destruct H as [Hc H]. split; [lia|]. eapply IH; [|exact H].
  destruct (N.eqb_spec c E), (N.eqb_spec c E'); lia.
Qed.

Lemma soft_ok_snoc E l nxt : soft_ok E l nxt -> soft_ok E (l ++ [nxt]) (nxt + 1).
Proof.
  revert E. induction l as [|c l IH]; cbn; intros E H.
  - split; [exact H|]. destruct (N.eqb_spec nxt E); lia.
  - destruct H as [Hc H]. split; [exact Hc|]. apply IH. exact H.
Qed.

Lemma soft_ok_max E l nxt v : v <= E -> soft_ok E l nxt -> soft_ok E l (N.max nxt v).
Proof.
  revert E. induction l as [|c l IH]; cbn; intros E Hv H; [lia|].
  destruct H as [Hc H]. split; [exact Hc|]. apply IH; [|exact H].
  destruct (N.eqb_spec c E); lia.
Qed.

Lemma firm_ok_snoc E l nxt c : firm_ok E l nxt -> firm_ok E (l ++ [(nxt, c)]) (nxt + 1).
Proof.
  revert E. induction l as [|[h c'] l IH]; cbn; intros E H.
  - subst. split; reflexivity.
  - destruct H as [Hc H]. split; [exact Hc|]. apply IH. exact H.
Qed.

(** cache facts *)
Lemma c_insert_next {A} (c : cache A) h a : c_next (fst (c_insert c h a)) = c_next c.
Proof.
  unfold c_insert. destruct (h <? c_next c); [reflexivity|].
  destruct (c_find h (c_items c)); reflexivity.
Qed.

Lemma c_pop_some {A} (c c' : cache A) a : c_pop c = (c', PopSome a) -> c_next c' = c_next c + 1.
Proof.
  unfold c_pop. destruct (c_find (c_next c) (c_items c)); [|discriminate].
  unfold checked_add. destruct (c_next c + 1 <=? U64_MAX); intros H; inversion H; reflexivity.
Qed.

(* ------------------------------------------------------------------------------------- *)
(** * Effect of a delivery on the expected heights *)

Lemma nexts_same x x' :
  x_sstart x' = x_sstart x -> x_rstart x' = x_rstart x -> x_soft x' = x_soft x -> nexts x' = nexts x.
Proof. unfold nexts. now intros -> -> ->. Qed.

Lemma nextf_same x x' :
  x_sstart x' = x_sstart x -> x_rstart x' = x_rstart x -> x_firm x' = x_firm x -> nextf x' = nextf x.
Proof. unfold nextf. now intros -> -> ->. Qed.

Lemma update_live s f so b lvl :
  xd (update_commitment s f so b lvl) = None ->
  xe (update_commitment s f so b lvl) = set_commit (xe s) f so b.
Proof.
  pose proof (update_commitment_cases s f so b lvl) as [[_ E]|(_ & _ & _ & [[_ E]|[D _]])];
    intros H; try (rewrite E in H; discriminate); try congruence.
Qed.

(** a soft delivery: stale (nothing changes) or exactly the expected height (soft number + 1) *)
Lemma deliver_soft_effect s h :
  xd s = None ->
  let s' := deliver s (DSoft h) in
  (xd s' = Some EOutOfOrder -> exists es, nexts (xe s) = Some es /\ es < h) /\
  xd s' <> Some EFirmHeight /\
  (xd s' = None -> exists es, nexts (xe s) = Some es /\
     ((h < es /\ xe s' = xe s) \/
      (h = es /\ x_firm (xe s') = x_firm (xe s) /\ x_sstart (xe s') = x_sstart (xe s) /\
       x_rstart (xe s') = x_rstart (xe s) /\
       m_num (x_soft (xe s')) = m_num (x_soft (xe s)) + 1))).
Proof.
  intros D. unfold deliver. rewrite D. unfold execute_soft. cbn [tick xe].
  destruct (nexts (xe s)) as [es|] eqn:Ns; cbn.
  2:{ repeat split; try discriminate. }
  destruct (N.ltb_spec h es) as [L1|L1]; cbn.
  { rewrite D. repeat split; try discriminate. intros _. exists es. split; [reflexivity|]. left. auto. }
  destruct (N.ltb_spec es h) as [L2|L2]; cbn.
  { repeat split; try discriminate. intros _. exists es. auto. }
  assert (h = es) by lia. subst h.
  destruct (s2r _ _ es) as [bn|]; cbn.
  2:{ repeat split; try discriminate. }
  destruct (exec_and_check _ _ _ es) as [s2 om] eqn:EC.
  apply exec_and_check_cases in EC as (r' & res & RE & Xt2 & Xr2 & Xe2 & Hom). cbn in Xe2.
  destruct om as [m|].
  2:{ destruct Hom as [Hd|[Hd|[Hd _]]]; rewrite Hd; repeat split; try discriminate. }
  destruct Hom as (_ & D2 & Hn). cbn in Hn.
  remember (update_commitment s2 (x_firm (xe s)) m (x_base (xe s)) SoftOnly) as s3 eqn:Hs3.
  pose proof (update_commitment_cases s2 (x_firm (xe s)) m (x_base (xe s)) SoftOnly) as UC.
  rewrite <- Hs3 in UC.
  destruct (xd s3) as [e|] eqn:D3.
  - rewrite D3. assert (e = EFirmGtSoft \/ e = EInvalidState) as [->| ->].
    { destruct UC as [[_ E]|(_ & _ & _ & [[E _]|[E _]])].
      - rewrite E in D3. cbn in D3. inversion D3. now left.
      - congruence.
      - rewrite E in D3. inversion D3. now right. }
    + repeat split; discriminate.
    + repeat split; discriminate.
  - cbn. repeat split; try discriminate. intros _. exists es. split; [reflexivity|]. right.
    rewrite Hs3. rewrite update_live by (rewrite <- Hs3; exact D3). rewrite Xe2. cbn. auto.
Qed.


Lemma deliver_firm_effect x0 s h c :
  Start x0 -> x_mode x0 <> SoftOnly -> Inv x0 s -> xd s = None ->
  let s' := deliver s (DFirm h c) in
  (xd s' = Some EFirmHeight -> exists ef, nextf (xe s) = Some ef /\ h <> ef) /\
  xd s' <> Some EOutOfOrder /\
  (xd s' = None ->
     nextf (xe s) = Some h /\
     x_sstart (xe s') = x_sstart (xe s) /\ x_rstart (xe s') = x_rstart (xe s) /\
     m_num (x_firm (xe s')) = m_num (x_firm (xe s)) + 1 /\
     (x_mode x0 = SoftAndFirm ->
      x_soft (xe s') = x_soft (xe s) \/
      (nexts (xe s) = Some h /\ m_num (x_soft (xe s')) = m_num (x_soft (xe s)) + 1))).
Proof.
  intros St Md I D. pose proof (inv_live _ _ I D) as L.
  destruct (inv_consts _ _ I) as (Cm & Cs & Cr).
  unfold deliver. rewrite D. unfold execute_firm. cbn [tick xe xr xt].
  destruct (nextf (xe s)) as [ef|] eqn:Nf; cbn.
  2:{ repeat split; try discriminate. }
  destruct (N.eqb_spec h ef) as [->|Hne]; cbn.
  2:{ repeat split; try discriminate. intros _. exists ef. auto. }
  destruct (s2r _ _ ef) as [bn|] eqn:Sr; cbn.
  2:{ repeat split; try discriminate. }
  assert (Hbn : bn = m_num (x_firm (xe s)) + 1) by (eapply s2r_next; [exact Nf|exact Sr]).
  destruct (nexts (xe s)) as [es|] eqn:Ns; cbn.
  2:{ repeat split; try discriminate. }
  (* the tail after an update that replaces the firm commitment by a block of number bn *)
  assert (Upd : forall s1 pend' b so, xe s1 = set_pend (xe s) pend' -> m_num b = bn ->
     (x_mode x0 = SoftAndFirm ->
      so = x_soft (xe s) \/ (Some es = Some ef /\ m_num so = m_num (x_soft (xe s)) + 1)) ->
     forall lvl, let s' := update_commitment s1 b so c lvl in
     (xd s' = Some EFirmHeight -> exists ef0, Some ef = Some ef0 /\ ef <> ef0) /\
     xd s' <> Some EOutOfOrder /\
     (xd s' = None -> Some ef = Some ef /\ x_sstart (xe s') = x_sstart (xe s) /\
        x_rstart (xe s') = x_rstart (xe s) /\ m_num (x_firm (xe s')) = m_num (x_firm (xe s)) + 1 /\
        (x_mode x0 = SoftAndFirm ->
         x_soft (xe s') = x_soft (xe s) \/
         (Some es = Some ef /\ m_num (x_soft (xe s')) = m_num (x_soft (xe s)) + 1)))).
  { intros s1 pend' b so Xe1 Hb Hso lvl s'.
    pose proof (update_commitment_cases s1 b so c lvl) as UC. fold s' in UC.
    destruct (xd s') as [e|] eqn:D3.
    - assert (e = EFirmGtSoft \/ e = EInvalidState) as [->| ->].
      { destruct UC as [[_ E]|(_ & _ & _ & [[E _]|[E _]])].
        - rewrite E in D3. cbn in D3. inversion D3. now left.
        - congruence.
        - rewrite E in D3. inversion D3. now right. }
      + repeat split; discriminate.
      + repeat split; discriminate.
    - repeat split; try discriminate; unfold s'; rewrite update_live by exact D3; rewrite Xe1; cbn; auto.
      lia. }
  rewrite Cm.
  destruct (x_mode x0) eqn:M0; [congruence| |]; cbn [should_execute_firm].
  - (* FirmOnly: execute and set both *)
    destruct (exec_and_check _ _ _ ef) as [s2 om] eqn:EC.
    apply exec_and_check_cases in EC as (r' & res & RE & Xt2 & Xr2 & Xe2 & Hom). cbn in Xe2.
    destruct om as [m|].
    2:{ destruct Hom as [Hd|[Hd|[Hd _]]]; rewrite Hd; repeat split; try discriminate. }
    destruct Hom as (_ & D2 & Hn). cbn in Hn.
    apply Upd with (pend' := x_pend (xe s)).
    + rewrite Xe2. now destruct (xe s).
    + lia.
    + discriminate.
  - (* SoftAndFirm *)
    pose proof (li_mode _ _ L) as SI. rewrite M0 in SI.
    destruct (N.eqb_spec ef es) as [<-|Hfs].
    + destruct (exec_and_check _ _ _ ef) as [s2 om] eqn:EC.
      apply exec_and_check_cases in EC as (r' & res & RE & Xt2 & Xr2 & Xe2 & Hom). cbn in Xe2.
      destruct om as [m|].
      2:{ destruct Hom as [Hd|[Hd|[Hd _]]]; rewrite Hd; repeat split; try discriminate. }
      destruct Hom as (_ & D2 & Hn). cbn in Hn.
      apply Upd with (pend' := x_pend (xe s)).
      * rewrite Xe2. now destruct (xe s).
      * lia.
      * intros _. right. split; [reflexivity|].
        assert (m_num (x_firm (xe s)) = m_num (x_soft (xe s))) by (eapply next_of_inj; [exact Nf|exact Ns]).
        lia.
    + destruct (c_find bn (x_pend (xe s))) as [b|] eqn:Fb.
      * destruct (si_pend _ _ SI bn b Fb) as (Qn & _).
        apply Upd with (pend' := c_remove bn (x_pend (xe s))); auto.
      * destruct (r_find_num (xr s) bn) as [hsh|]; cbn.
        -- apply Upd with (pend' := x_pend (xe s)); auto. now destruct (xe s).
        -- repeat split; try discriminate.
Qed.


Record SysInv (x0 : exec) (s : sys) : Prop := {
  sy_x : xreach x0 (s_x s);
  sy_sc : s_sc s = None -> s_sq s = [] /\ s_senq s = None;
  sy_fc : s_fc s = None -> s_fq s = [] /\ s_fenq s = None;
  sy_msoft : with_soft (x_mode x0) = false -> s_sc s = None;
  sy_mfirm : with_firm (x_mode x0) = false -> s_fc s = None;
  sy_soft : xd (s_x s) = None -> forall c es, s_sc s = Some c -> nexts (xe (s_x s)) = Some es ->
            soft_ok es (s_sq s ++ olist (s_senq s)) (c_next c);
  sy_firm : xd (s_x s) = None -> forall c ef, s_fc s = Some c -> nextf (xe (s_x s)) = Some ef ->
            firm_ok ef (s_fq s ++ olist (s_fenq s)) (c_next c);
  sy_err : xd (s_x s) <> Some EOutOfOrder /\ xd (s_x s) <> Some EFirmHeight
}.

Lemma sysinv_init x0 : SysInv x0 (sys_of x0).
Proof.
  constructor; cbn; auto.
  - constructor.
  - intros ->. reflexivity.
  - intros ->. reflexivity.
  - intros _ c es Hc Hn. destruct (with_soft (x_mode x0)); [|discriminate].
    rewrite Hn in Hc. cbn in Hc. unfold c_new in Hc. destruct (es =? 0); [discriminate|].
    inversion Hc; subst; cbn. lia.
  - intros _ c ef Hc Hn. destruct (with_firm (x_mode x0)); [|discriminate].
    rewrite Hn in Hc. cbn in Hc. unfold c_new in Hc. destruct (ef =? 0); [discriminate|].
    inversion Hc; subst; cbn. reflexivity.
  - split; discriminate.
Qed.

(** a step that leaves the executor alone: only the soft/firm cache and queues matter *)
Lemma sysinv_reader x0 s s' :
  SysInv x0 s -> s_x s' = s_x s ->
  (s_sc s' = None -> s_sq s' = [] /\ s_senq s' = None) ->
  (s_fc s' = None -> s_fq s' = [] /\ s_fenq s' = None) ->
  (s_sc s' = None <-> s_sc s = None) -> (s_fc s' = None <-> s_fc s = None) ->
  (forall c' es, s_sc s' = Some c' -> exists c, s_sc s = Some c /\
     (nexts (xe (s_x s)) = Some es -> soft_ok es (s_sq s ++ olist (s_senq s)) (c_next c) ->
      soft_ok es (s_sq s' ++ olist (s_senq s')) (c_next c'))) ->
  (forall c' ef, s_fc s' = Some c' -> exists c, s_fc s = Some c /\
     (firm_ok ef (s_fq s ++ olist (s_fenq s)) (c_next c) ->
      firm_ok ef (s_fq s' ++ olist (s_fenq s')) (c_next c'))) ->
  SysInv x0 s'.
Proof.
  intros I Ex H1 H2 H3 H4 H5 H6. destruct I. constructor; rewrite ?Ex; auto.
  - intros M. apply H3. auto.
  - intros M. apply H4. auto.
  - intros D c' es Hc Hn. destruct (H5 c' es Hc) as (c & Hc0 & K). apply K; auto.
  - intros D c' ef Hc Hn. destruct (H6 c' ef Hc) as (c & Hc0 & K). apply K; auto.
Qed.

Lemma app_olist_none {A} (l : list A) : l ++ olist None = l.
Proof. cbn. apply app_nil_r. Qed.

Lemma hstep_inv x0 s l s' : Start x0 -> SysInv x0 s -> hstep s l = Some s' -> SysInv x0 s'.
Proof.
  intros St I H. destruct l; cbn in H.
  - (* LSf *)
    destruct (s_sc s) as [c|] eqn:Sc; [|discriminate]. unfold do_sf in H. rewrite Sc in H.
    destruct (c_insert c h tt) as [c' r] eqn:Ci. cbn in H. inversion H; subst s'; clear H.
    apply sysinv_reader with s; cbn; auto; try (split; congruence); try discriminate.
    + apply (sy_fc _ _ I).
    + intros c0 es Q. inversion Q; subst c0. exists c. split; [first [reflexivity|assumption]|]. intros _ K.
      replace c' with (fst (c_insert c h tt)) by now rewrite Ci. now rewrite c_insert_next.
    + intros c0 ef Q. exists c0. auto.
  - (* LSo *)
    unfold do_so in H. destruct (s_sc s) as [c|] eqn:Sc; [|discriminate].
    destruct (nexts (xe (s_x s))) as [v|] eqn:Nv; [|discriminate].
    inversion H; subst s'; clear H.
    apply sysinv_reader with s; cbn; auto; try (split; congruence); try discriminate.
    + apply (sy_fc _ _ I).
    + intros c0 es Q. inversion Q; subst c0. exists c. split; [first [reflexivity|assumption]|]. intros Ne K. cbn.
      apply soft_ok_max; [|exact K]. rewrite Nv in Ne. inversion Ne. lia.
    + intros c0 ef Q. exists c0. auto.
  - (* LSp *)
    unfold do_sp in H. destruct (s_sc s) as [c|] eqn:Sc; [|discriminate].
    destruct (s_senq s) eqn:Se; [discriminate|].
    destruct (c_pop c) as [c' [| u |]] eqn:Cp; try discriminate.
    pose proof (c_pop_some _ _ _ Cp) as Nx.
    destruct (lenN (s_sq s) <? s_scap s); inversion H; subst s'; clear H.
    + apply sysinv_reader with s; cbn; auto; try (split; congruence); try discriminate.
      * apply (sy_fc _ _ I).
      * intros c0 es Q. inversion Q; subst c0. exists c. split; [first [reflexivity|assumption]|]. intros _ K.
        rewrite Se, app_olist_none in K. rewrite app_nil_r, Nx. now apply soft_ok_snoc.
      * intros c0 ef Q. exists c0. auto.
    + apply sysinv_reader with s; cbn; auto; try (split; congruence); try discriminate.
      * apply (sy_fc _ _ I).
      * intros c0 es Q. inversion Q; subst c0. exists c. split; [first [reflexivity|assumption]|]. intros _ K.
        rewrite Se, app_olist_none in K. rewrite Nx. now apply soft_ok_snoc.
      * intros c0 ef Q. exists c0. auto.
  - (* LSq *)
    unfold do_sq in H. destruct (s_senq s) as [h|] eqn:Se; [|discriminate].
    destruct (lenN (s_sq s) <? s_scap s); [|discriminate]. inversion H; subst s'; clear H.
    destruct (s_sc s) as [c|] eqn:Sc; [|destruct (sy_sc _ _ I Sc); congruence].
    apply sysinv_reader with s; cbn; auto; try (split; congruence); try discriminate.
    + apply (sy_fc _ _ I).
    + intros c0 es Q. exists c. split; [first [reflexivity|assumption]|]. inversion Q; subst c0. intros _ K.
      rewrite Se in K. cbn in K. now rewrite app_nil_r.
    + intros c0 ef Q. exists c0. auto.
  - (* LFf *)
    destruct (s_fc s) as [fc|] eqn:Fc; [|discriminate]. unfold do_ff in H. rewrite Fc in H.
    destruct (c_insert fc h c) as [c' r] eqn:Ci. cbn in H. inversion H; subst s'; clear H.
    apply sysinv_reader with s; cbn; auto; try (split; congruence); try discriminate.
    + apply (sy_sc _ _ I).
    + intros c0 es Q. exists c0. auto.
    + intros c0 ef Q. inversion Q; subst c0. exists fc. split; [first [reflexivity|assumption]|]. intros K.
      replace c' with (fst (c_insert fc h c)) by now rewrite Ci. now rewrite c_insert_next.
  - (* LFp *)
    unfold do_fp in H. destruct (s_fc s) as [fc|] eqn:Fc; [|discriminate].
    destruct (s_fenq s) eqn:Fe; [discriminate|].
    destruct (c_pop fc) as [c' [| u |]] eqn:Cp; try discriminate.
    pose proof (c_pop_some _ _ _ Cp) as Nx.
    destruct (lenN (s_fq s) <? s_fcap s); inversion H; subst s'; clear H.
    + apply sysinv_reader with s; cbn; auto; try (split; congruence); try discriminate.
      * apply (sy_sc _ _ I).
      * intros c0 es Q. exists c0. auto.
      * intros c0 ef Q. inversion Q; subst c0. exists fc. split; [first [reflexivity|assumption]|]. intros K.
        rewrite Fe, app_olist_none in K. rewrite app_nil_r, Nx. now apply firm_ok_snoc.
    + apply sysinv_reader with s; cbn; auto; try (split; congruence); try discriminate.
      * apply (sy_sc _ _ I).
      * intros c0 es Q. exists c0. auto.
      * intros c0 ef Q. inversion Q; subst c0. exists fc. split; [first [reflexivity|assumption]|]. intros K.
        rewrite Fe, app_olist_none in K. rewrite Nx. now apply firm_ok_snoc.
  - (* LFq *)
    unfold do_fq in H. destruct (s_fenq s) as [[h c]|] eqn:Fe; [|discriminate].
    destruct (lenN (s_fq s) <? s_fcap s); [|discriminate]. inversion H; subst s'; clear H.
    destruct (s_fc s) as [fc|] eqn:Fc; [|destruct (sy_fc _ _ I Fc); congruence].
    apply sysinv_reader with s; cbn; auto; try (split; congruence); try discriminate.
    + apply (sy_sc _ _ I).
    + intros c0 es Q. exists c0. auto.
    + intros c0 ef Q. exists fc. split; [first [reflexivity|assumption]|]. inversion Q; subst c0. intros K.
      rewrite Fe in K. cbn in K. now rewrite app_nil_r.
  - (* LXf *)
    destruct (xd (s_x s)) eqn:D; [discriminate|].
    destruct (s_fq s) as [|[h c] rest] eqn:Fq; [discriminate|].
    destruct (spread_too_large (xe (s_x s))); [|discriminate]. inversion H; subst s'; clear H.
    destruct (s_fc s) as [fc|] eqn:Fc; [|destruct (sy_fc _ _ I Fc); congruence].
    assert (Wf : with_firm (x_mode x0) = true).
    { destruct (with_firm (x_mode x0)) eqn:W; [reflexivity|]. pose proof (sy_mfirm _ _ I W). congruence. }
    assert (Md : x_mode x0 <> SoftOnly) by (intros Q; rewrite Q in Wf; discriminate).
    pose proof (xreach_inv _ _ St (sy_x _ _ I)) as IX.
    pose proof (deliver_firm_effect x0 (s_x s) h c St Md IX D) as (E1 & E2 & E3).
    constructor; cbn.
    + apply xreach_deliver; [apply (sy_x _ _ I)|exact Wf].
    + apply (sy_sc _ _ I).
    + discriminate.
    + apply (sy_msoft _ _ I).
    + intros W. rewrite W in Wf. discriminate.
    + intros D' c0 es' Sc Ns'. destruct (E3 D') as (Nf & Css & Crs & Hf & Hs).
      assert (Md2 : x_mode x0 = SoftAndFirm).
      { destruct (x_mode x0) eqn:M; try congruence. pose proof (sy_msoft _ _ I). rewrite M in H.
        specialize (H eq_refl). congruence. }
      destruct (Hs Md2) as [Same|[Ns Hn]].
      * apply (sy_soft _ _ I D c0 es' Sc). rewrite <- Ns'. symmetry. now apply nexts_same.
      * apply soft_ok_mono with h; [|apply (sy_soft _ _ I D c0 h Sc Ns)].
        unfold nexts in Ns, Ns'. rewrite Css, Crs, Hn in Ns'.
        pose proof (next_of_succ _ _ _ _ _ Ns Ns'). lia.
    + intros D' c0 ef' Fc' Nf'. inversion Fc'; subst c0.
      destruct (E3 D') as (Nf & Css & Crs & Hf & _).
      pose proof (sy_firm _ _ I D fc h Fc Nf) as K. rewrite Fq in K. cbn in K. destruct K as [_ K].
      unfold nextf in Nf, Nf'. rewrite Css, Crs, Hf in Nf'.
      pose proof (next_of_succ _ _ _ _ _ Nf Nf'). subst ef'. exact K.
    + split; [exact E2|]. intros Q. destruct (E1 Q) as (ef & Nf & Hne).
      pose proof (sy_firm _ _ I D fc ef Fc Nf) as K. rewrite Fq in K. cbn in K. destruct K as [K _]. congruence.
  - (* LXs *)
    destruct (xd (s_x s)) eqn:D; [discriminate|].
    destruct (s_sq s) as [|h rest] eqn:Sq; [discriminate|].
    destruct (spread_too_large (xe (s_x s))) as [[|]|]; try discriminate. inversion H; subst s'; clear H.
    destruct (s_sc s) as [c|] eqn:Sc; [|destruct (sy_sc _ _ I Sc); congruence].
    assert (Ws : with_soft (x_mode x0) = true).
    { destruct (with_soft (x_mode x0)) eqn:W; [reflexivity|]. pose proof (sy_msoft _ _ I W). congruence. }
    pose proof (deliver_soft_effect (s_x s) h D) as (E1 & E2 & E3).
    constructor; cbn.
    + apply xreach_deliver; [apply (sy_x _ _ I)|exact Ws].
    + discriminate.
    + apply (sy_fc _ _ I).
    + intros W. rewrite W in Ws. discriminate.
    + apply (sy_mfirm _ _ I).
    + intros D' c0 es' Sc' Ns'. inversion Sc'; subst c0.
      destruct (E3 D') as (es & Ns & Alt).
      pose proof (sy_soft _ _ I D c es Sc Ns) as K. rewrite Sq in K. cbn in K. destruct K as [Hle K].
      destruct Alt as [[Hlt Xe]|(-> & Hf & Css & Crs & Hn)].
      * rewrite Xe in Ns'. rewrite Ns in Ns'. inversion Ns'; subst es'.
        destruct (N.eqb_spec h es); [lia|exact K].
      * rewrite N.eqb_refl in K. unfold nexts in Ns, Ns'. rewrite Css, Crs, Hn in Ns'.
        pose proof (next_of_succ _ _ _ _ _ Ns Ns'). subst es'. exact K.
    + intros D' c0 ef' Fc' Nf'. destruct (E3 D') as (es & Ns & Alt).
      apply (sy_firm _ _ I D c0 ef' Fc'). rewrite <- Nf'. symmetry.
      destruct Alt as [[_ Xe]|(_ & Hf & Css & Crs & _)]; [now rewrite Xe|now apply nextf_same].
    + split; [|exact E2]. intros Q. destruct (E1 Q) as (es & Ns & Hlt).
      pose proof (sy_soft _ _ I D c es Sc Ns) as K. rewrite Sq in K. cbn in K. destruct K as [K _]. lia.
  - (* LXp *)
    destruct (xd (s_x s)) eqn:D; [discriminate|].
    destruct (spread_too_large (xe (s_x s))); [discriminate|]. inversion H; subst s'; clear H.
    destruct I. constructor; cbn; auto; try discriminate.
    + apply xreach_panic. assumption.
    + split; discriminate.
Qed.

Lemma hsteps_inv x0 ls : forall s s', Start x0 -> SysInv x0 s -> hsteps s ls = Some s' -> SysInv x0 s'.
Proof.
  induction ls as [|l ls IH]; cbn; intros s s' St I H.
  - inversion H; subst; exact I.
  - destruct (hstep s l) as [s1|] eqn:E; [|discriminate].
    eapply IH; [exact St| |exact H]. eapply hstep_inv; eauto.
Qed.

Theorem system_refines : stmt_system_refines.
Proof.
  intros x0 s Hs (ls & H). apply (sy_x x0 s).
  eapply hsteps_inv; [apply session_start; exact Hs|apply sysinv_init|exact H].
Qed.

Theorem never_greater : stmt_never_greater.
Proof.
  intros x0 s Hs (ls & H).
  assert (I : SysInv x0 s) by (eapply hsteps_inv; [apply session_start; exact Hs|apply sysinv_init|exact H]).
  destruct (sy_err _ _ I) as [A B].
  destruct (firm_le_soft x0 (s_x s) Hs (sy_x _ _ I)) as (_ & C & D). auto.
Qed.

(** the harness' [run] is a sequence of executor steps of the relation *)
Lemma loop_iter_label s s' :
  loop_iter s = Some s' -> exists l, (l = LXf \/ l = LXs \/ l = LXp) /\ hstep s l = Some s'.
Proof.
  unfold loop_iter. destruct (xd (s_x s)) eqn:D; [discriminate|].
  destruct (spread_too_large (xe (s_x s))) as [tl|] eqn:Sp.
  - destruct (s_fq s) as [|[h c] rest] eqn:Fq.
    + destruct (s_sq s) as [|h rest] eqn:Sq; [discriminate|]. destruct tl; [discriminate|].
      intros H. exists LXs. split; [auto|]. cbn. rewrite D, Sq, Sp, Fq. exact H.
    + intros H. exists LXf. split; [auto|]. cbn. rewrite D, Fq, Sp. exact H.
  - intros H. exists LXp. split; [auto|]. cbn. rewrite D, Sp. exact H.
Qed.

Lemma run_loop_labels fuel : forall s, exists ls,
  hsteps s ls = Some (run_loop fuel s) /\ Forall (fun l => l = LXf \/ l = LXs \/ l = LXp) ls.
Proof.
  induction fuel as [|f IH]; intros s; cbn.
  - exists []. split; [reflexivity|constructor].
  - destruct (loop_iter s) as [s1|] eqn:E.
    + destruct (loop_iter_label _ _ E) as (l & Hl & Hs). destruct (IH s1) as (ls & H1 & H2).
      exists (l :: ls). split; [cbn; now rewrite Hs|constructor; assumption].
    + exists []. split; [reflexivity|constructor].
Qed.

Theorem run_is_interleaving : stmt_run_is_interleaving.
Proof. intros s. unfold do_run. cbn [fst]. apply run_loop_labels. Qed.

(** non-vacuity: an interleaving of the composed system in which the firm reader delivers first,
    the soft reader receives its blocks out of order and twice, a stale soft block reaches the
    executor, and the run ends with both commitments on an executed block *)
Definition ex_labels : list label :=
  [LFf 13 9; LFf 12 8; LSf 14; LSf 13; LSf 13; LFp; LFp; LSp; LXf; LXf; LSp; LXs; LXs; LSo;
   LFf 14 10; LFp; LXf; LFf 15 11; LFp; LXf].

Example ex_sys_nonvacuous :
  exists s, hsteps (sys_of ex_x0) ex_labels = Some s /\ xd (s_x s) = None /\
            length (emetas (xt (s_x s))) = 3%nat /\ m_num (x_firm (xe (s_x s))) = 6 /\
            x_firm (xe (s_x s)) = x_soft (xe (s_x s)).
Proof. eexists. vm_compute. repeat split; reflexivity. Qed.
