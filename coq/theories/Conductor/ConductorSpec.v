(** C10 — statements.  The RPC trace [xt] of the model is kept newest first; every statement
    about "each RPC relative to what happened before it" is phrased with [every]:
    [xt s = later ++ e :: earlier], where [earlier] is the history before [e] (newest first). *)
From Astria Require Export Conductor.ConductorModel.

Definition every (Q : event -> list event -> Prop) (tr : list event) : Prop :=
  forall later e earlier, tr = later ++ e :: earlier -> Q e earlier.

(** the most recent successful ExecuteBlock: (sequencer height, returned block) *)
Fixpoint last_exec (tr : list event) : option (N * meta) :=
  match tr with
  | [] => None
  | EvExec _ h (Some m) :: _ => Some (h, m)
  | _ :: r => last_exec r
  end.

(** the commitment state the rollup was last told (the session's initial one if none) *)
Fixpoint last_commit (x0 : exec) (tr : list event) : meta * meta :=
  match tr with
  | [] => (x_firm x0, x_soft x0)
  | EvUpdate f s _ :: _ => (f, s)
  | _ :: r => last_commit x0 r
  end.

(** the block the executor received most recently *)
Fixpoint last_took (tr : list event) : option delivery :=
  match tr with
  | [] => None
  | EvTookSoft h :: _ => Some (DSoft h)
  | EvTookFirm h c :: _ => Some (DFirm h c)
  | _ :: r => last_took r
  end.

(** the block on which the first execution of a session has to build, and its height *)
Definition head_meta (x : exec) : meta :=
  match x_mode x with FirmOnly => x_firm x | _ => x_soft x end.
Definition start_height (x : exec) : option N :=
  match x_mode x with FirmOnly => nextf x | _ => nexts x end.

(** deliveries that the commit level admits (no soft reader in FirmOnly, no firm reader in SoftOnly) *)
Definition admits (md : mode) (d : delivery) : Prop :=
  match d with DSoft _ => with_soft md = true | DFirm _ _ => with_firm md = true end.

(** Executor states reachable from a session by ANY sequence of admitted deliveries (arbitrary
    heights: duplicates, stale, out of order, firm first, ...) and precondition panics. *)
Inductive xreach (x0 : exec) : xs -> Prop :=
| xreach_init : xreach x0 (xs_of x0)
| xreach_deliver s d : xreach x0 s -> admits (x_mode x0) d -> xreach x0 (deliver s d)
| xreach_panic s : xreach x0 s -> xreach x0 (die s EPanic).

Definition session (x0 : exec) : Prop :=
  exists md sstart rstart look firm soft base,
    session_exec md sstart rstart look firm soft base = inl x0.

(** ** T1 exec_once_in_order *)
Definition Qexec (x0 : exec) (e : event) (earlier : list event) : Prop :=
  match e with
  | EvExec p h _ =>
      match last_exec earlier with
      | Some (h', m') => p = m_hash m' /\ h = h' + 1
      | None => p = m_hash (head_meta x0) /\ start_height x0 = Some h
      end
  | _ => True
  end.

Definition stmt_exec_once_in_order : Prop :=
  forall x0 s, session x0 -> xreach x0 s -> every (Qexec x0) (xt s).

(** ** T2 commit_monotone *)
Definition Qmono (x0 : exec) (e : event) (earlier : list event) : Prop :=
  match e with
  | EvUpdate f s _ =>
      m_num (fst (last_commit x0 earlier)) <= m_num f /\
      m_num (snd (last_commit x0 earlier)) <= m_num s
  | _ => True
  end.

Definition stmt_commit_monotone_full : Prop :=
  forall x0 s, session x0 -> xreach x0 s -> every (Qmono x0) (xt s).

(** the input class for which the full statement fails: FirmOnly, soft ahead of firm at start *)
Definition firm_only_soft_lead (x0 : exec) : Prop :=
  x_mode x0 = FirmOnly /\ m_num (x_firm x0) < m_num (x_soft x0).

Definition stmt_commit_monotone : Prop :=
  forall x0 s, session x0 -> ~ firm_only_soft_lead x0 -> xreach x0 s -> every (Qmono x0) (xt s).

Definition stmt_commit_monotone_refuted : Prop :=
  exists x0 s, session x0 /\ firm_only_soft_lead x0 /\ xreach x0 s /\ ~ every (Qmono x0) (xt s).

(** ** T3 firm_le_soft *)
Definition Qle (e : event) (earlier : list event) : Prop :=
  match e with EvUpdate f s _ => m_num f <= m_num s | _ => True end.

Definition stmt_firm_le_soft : Prop :=
  forall x0 s, session x0 -> xreach x0 s ->
    every Qle (xt s) /\ xd s <> Some EFirmGtSoft /\ xd s <> Some EContractWrong.

(** ** T4 firm_names_executed_height *)
Definition Qnames (x0 : exec) (e : event) (earlier : list event) : Prop :=
  match e with
  | EvUpdate f _ _ =>
      f = fst (last_commit x0 earlier) \/
      exists h c, last_took earlier = Some (DFirm h c) /\
        ((exists p, In (EvExec p h (Some f)) earlier) \/
         (m_num f <= m_num (x_soft x0) /\ m_hash f = HGen (m_num f) /\
          s2r (x_sstart x0) (x_rstart x0) h = Some (m_num f)))
  | _ => True
  end.

Definition stmt_firm_names_executed_height : Prop :=
  forall x0 s, session x0 -> xreach x0 s -> every (Qnames x0) (xt s).

(** ** T5 stale_dropped: a soft block below the expected height causes no RPC and no state change *)
Definition stmt_stale_dropped : Prop :=
  forall s h es, xd s = None -> nexts (xe s) = Some es -> h < es ->
    deliver s (DSoft h) = tick s (EvTookSoft h).

(** ** T6 never_greater: in the honest composed system (readers feed arbitrary heights into their
    caches, channels are FIFO, every interleaving of the components) the executor never receives a
    soft block above the expected height nor a firm block at an unexpected height, and the two
    commitment checks never fail. *)
Definition sreach (x0 : exec) (s : sys) : Prop := exists ls, hsteps (sys_of x0) ls = Some s.

Definition stmt_never_greater : Prop :=
  forall x0 s, session x0 -> sreach x0 s ->
    xd (s_x s) <> Some EOutOfOrder /\ xd (s_x s) <> Some EFirmHeight /\
    xd (s_x s) <> Some EFirmGtSoft /\ xd (s_x s) <> Some EContractWrong.

(** the executor component of the composed system only ever moves by admitted deliveries, so
    T1-T4 hold for every interleaving of the composed system *)
Definition stmt_system_refines : Prop :=
  forall x0 s, session x0 -> sreach x0 s -> xreach x0 (s_x s).

(** the harness' `run` (biased select) is one of the interleavings *)
Definition stmt_run_is_interleaving : Prop :=
  forall s, exists ls, hsteps s ls = Some (fst (do_run s)) /\
    Forall (fun l => l = LXf \/ l = LXs \/ l = LXp) ls.
