(** C10 — model of the conductor's block pipeline
    (crates/astria-conductor/src/{block_cache.rs, state.rs, executor/mod.rs} and the cache/channel
    glue of sequencer/mod.rs and celestia/mod.rs).

    Layers: [cache] = BlockCache; [exec]/[rollup]/[xs] = the executor's tracked state, the
    execution API (a machine that numbers a block parent+1 and echoes commitment states) and
    the RPC trace; [sys] = executor + two reader caches + two bounded FIFO channels (+ the
    "enqueued block" slot of each reader).  [sys_step] interprets the harness' script ops;
    [hstep] is the step relation of the honest composed system used in the theorems.
    Proof-free: this file is what gets extracted and run against the code. *)
From Astria Require Export Base.Bounded.

Definition I64_MAX : N := 9223372036854775807.

Inductive mode := SoftOnly | FirmOnly | SoftAndFirm.
Definition with_firm (m : mode) : bool := match m with SoftOnly => false | _ => true end.
Definition with_soft (m : mode) : bool := match m with FirmOnly => false | _ => true end.

(** Rollup block hashes.  [HGen n]: the block with number [n] that existed before the session
    (one per number: the rollup's pre-session chain).  [HExec num height serial]: the block
    returned by the [serial]-th ExecuteBlock of this session. *)
Inductive bhash := HGen (n : N) | HExec (num height serial : N).

Definition bhash_eqb (a b : bhash) : bool :=
  match a, b with
  | HGen n, HGen m => n =? m
  | HExec a1 a2 a3, HExec b1 b2 b3 => (a1 =? b1) && (a2 =? b2) && (a3 =? b3)
  | _, _ => false
  end.

Record meta := { m_num : N; m_hash : bhash }.

(* ------------------------------------------------------------------------------------- *)
(** * BlockCache (block_cache.rs) *)

Section Cache.
  Context {A : Type}.

  (** [inner : BTreeMap<u64, T>] as an association list with unique keys; [next_height] *)
  Record cache := { c_items : list (N * A); c_next : N }.

  Fixpoint c_find (k : N) (l : list (N * A)) : option A :=
    match l with
    | [] => None
    | (k', a) :: r => if k' =? k then Some a else c_find k r
    end.

  Fixpoint c_remove (k : N) (l : list (N * A)) : list (N * A) :=
    match l with
    | [] => []
    | (k', a) :: r => if k' =? k then c_remove k r else (k', a) :: c_remove k r
    end.

  (** [with_next_height] *)
  Definition c_new (next : N) : option cache :=
    if next =? 0 then None else Some {| c_items := []; c_next := next |}.

  Inductive ins_res := InsOk | InsOld | InsOccupied.

  (** [insert] *)
  Definition c_insert (c : cache) (h : N) (a : A) : cache * ins_res :=
    if h <? c_next c then (c, InsOld)
    else match c_find h (c_items c) with
         | Some _ => (c, InsOccupied)
         | None => ({| c_items := (h, a) :: c_items c; c_next := c_next c |}, InsOk)
         end.

  Inductive pop_res := PopNone | PopSome (a : A) | PopPanic.

  (** [pop]: remove first, then [checked_add(1).expect] *)
  Definition c_pop (c : cache) : cache * pop_res :=
    match c_find (c_next c) (c_items c) with
    | None => (c, PopNone)
    | Some a =>
        let items := c_remove (c_next c) (c_items c) in
        match checked_add U64_MAX (c_next c) 1 with
        | None => ({| c_items := items; c_next := c_next c |}, PopPanic)
        | Some n => ({| c_items := items; c_next := n |}, PopSome a)
        end
    end.

  (** [drop_obsolete] *)
  Definition c_drop (c : cache) (latest : N) : cache :=
    {| c_items := filter (fun kv => latest <=? fst kv) (c_items c);
       c_next := N.max (c_next c) latest |}.
End Cache.
Arguments cache : clear implicits.

(* ------------------------------------------------------------------------------------- *)
(** * Height/number maps (state.rs) *)

(** [map_rollup_number_to_sequencer_height]; [None] = any of its errors *)
Definition map_r2s (sstart rstart num : N) : option N :=
  match checked_add U64_MAX num 1 with
  | None => None
  | Some n1 =>
      if n1 <? rstart then None
      else match checked_add U64_MAX sstart num with
           | None => None
           | Some t =>
               match checked_sub t rstart with
               | None => None
               | Some h => if h <=? I64_MAX then Some h else None
               end
           end
  end.

(** [next_expected_{firm,soft}_sequencer_height]: the map, [expect]ed, then [Height::increment]
    (which panics at [i64::MAX]); [None] = panic *)
Definition next_of (sstart rstart num : N) : option N :=
  match map_r2s sstart rstart num with
  | Some h => if h <? I64_MAX then Some (h + 1) else None
  | None => None
  end.

(** [try_map_sequencer_height_to_rollup_height] *)
Definition s2r (sstart rstart h : N) : option N :=
  match checked_sub h sstart with
  | None => None
  | Some d => checked_add U64_MAX d rstart
  end.

(** [should_execute_firm_block] *)
Definition should_execute_firm (nf ns : N) (m : mode) : bool :=
  match m with
  | SoftAndFirm => nf =? ns
  | SoftOnly => false
  | FirmOnly => true
  end.

(* ------------------------------------------------------------------------------------- *)
(** * The execution API as seen through the RPCs *)

Record rollup := {
  r_presoft : N;          (* pre-session blocks: exactly the numbers <= r_presoft, hash HGen n *)
  r_exec : list meta;     (* executed in this session, newest first *)
  r_serial : N;
  r_fault : option N      (* one-shot fault of the harness: next ExecuteBlock answers number+d *)
}.

Definition r_find_hash (r : rollup) (h : bhash) : option N :=
  match find (fun m => bhash_eqb (m_hash m) h) (r_exec r) with
  | Some m => Some (m_num m)
  | None => match h with
            | HGen n => if n <=? r_presoft r then Some n else None
            | HExec _ _ _ => None
            end
  end.

Definition r_find_num (r : rollup) (n : N) : option bhash :=
  match find (fun m => m_num m =? n) (r_exec r) with
  | Some m => Some (m_hash m)
  | None => if n <=? r_presoft r then Some (HGen n) else None
  end.

Definition opt_bind {A B} (o : option A) (f : A -> option B) : option B :=
  match o with Some a => f a | None => None end.

(** ExecuteBlock(parent, block of sequencer height [height]) *)
Definition rollup_exec (r : rollup) (parent : bhash) (height : N) : rollup * option meta :=
  let d := match r_fault r with Some d => d | None => 0 end in
  match opt_bind (opt_bind (r_find_hash r parent) (fun n => checked_add U64_MAX n 1))
                 (fun n => checked_add U64_MAX n d) with
  | None => ({| r_presoft := r_presoft r; r_exec := r_exec r; r_serial := r_serial r;
                r_fault := None |}, None)
  | Some n =>
      let m := {| m_num := n; m_hash := HExec n height (r_serial r) |} in
      ({| r_presoft := r_presoft r; r_exec := m :: r_exec r; r_serial := r_serial r + 1;
          r_fault := None |}, Some m)
  end.

(* ------------------------------------------------------------------------------------- *)
(** * Executor (executor/mod.rs) *)

Record exec := {
  x_mode : mode;
  x_sstart : N;           (* sequencer_start_block_height *)
  x_rstart : N;           (* rollup_start_block_number *)
  x_look : N;             (* celestia_search_height_max_look_ahead *)
  x_firm : meta;
  x_soft : meta;
  x_base : N;             (* lowest_celestia_search_height *)
  x_pend : list (N * meta)  (* blocks_pending_finalization *)
}.

Inductive xerr :=
| EOutOfOrder | EFirmHeight | EMap | EContractWrong | EContractMax | EFirmGtSoft
| EInvalidState | ERpc | EPanic.

Inductive event :=
| EvTookSoft (h : N)                                  (* executor received a soft block *)
| EvTookFirm (h c : N)                                (* executor received a firm block *)
| EvExec (parent : bhash) (height : N) (res : option meta)
| EvGet (n : N) (res : option bhash)
| EvUpdate (firm soft : meta) (base : N).

(** executor + execution API + RPC trace (newest first) + the error the loop ended with *)
Record xs := { xe : exec; xr : rollup; xt : list event; xd : option xerr }.

Definition set_commit (x : exec) (firm soft : meta) (base : N) : exec :=
  {| x_mode := x_mode x; x_sstart := x_sstart x; x_rstart := x_rstart x; x_look := x_look x;
     x_firm := firm; x_soft := soft; x_base := base; x_pend := x_pend x |}.

Definition set_pend (x : exec) (p : list (N * meta)) : exec :=
  {| x_mode := x_mode x; x_sstart := x_sstart x; x_rstart := x_rstart x; x_look := x_look x;
     x_firm := x_firm x; x_soft := x_soft x; x_base := x_base x; x_pend := p |}.

Definition die (s : xs) (e : xerr) : xs :=
  {| xe := xe s; xr := xr s; xt := xt s; xd := Some e |}.

Definition nextf (x : exec) : option N := next_of (x_sstart x) (x_rstart x) (m_num (x_firm x)).
Definition nexts (x : exec) : option N := next_of (x_sstart x) (x_rstart x) (m_num (x_soft x)).

Definition is_some {A} (o : option A) : bool := match o with Some _ => true | None => false end.

(** [update_commitment_state]: builder check, RPC (echo), [try_update_commitment_state] with
    the level of the update *)
Definition update_commitment (s : xs) (firm soft : meta) (base : N) (lvl : mode) : xs :=
  if m_num soft <? m_num firm then die s EFirmGtSoft
  else
    let x := xe s in
    let tr := EvUpdate firm soft base :: xt s in
    let okf := if with_firm lvl then is_some (map_r2s (x_sstart x) (x_rstart x) (m_num firm)) else true in
    let oks := if with_soft lvl then is_some (map_r2s (x_sstart x) (x_rstart x) (m_num soft)) else true in
    if okf && oks
    then {| xe := set_commit x firm soft base; xr := xr s; xt := tr; xd := None |}
    else {| xe := x; xr := xr s; xt := tr; xd := Some EInvalidState |}.

(** ExecuteBlock on [parent] + [does_block_response_fulfill_contract] against [current] *)
Definition exec_and_check (s : xs) (parent : bhash) (current h : N) : xs * option meta :=
  let '(r', res) := rollup_exec (xr s) parent h in
  let s' := {| xe := xe s; xr := r'; xt := EvExec parent h res :: xt s; xd := None |} in
  match res with
  | None => (die s' ERpc, None)
  | Some m =>
      match checked_add U64_MAX current 1 with
      | None => (die s' EContractMax, None)
      | Some e => if m_num m =? e then (s', Some m) else (die s' EContractWrong, None)
      end
  end.

(** [execute_soft] *)
Definition execute_soft (s : xs) (h : N) : xs :=
  let x := xe s in
  match nexts x with
  | None => die s EPanic
  | Some es =>
      if h <? es then s
      else if es <? h then die s EOutOfOrder
      else match s2r (x_sstart x) (x_rstart x) h with
           | None => die s EMap
           | Some bn =>
               match exec_and_check s (m_hash (x_soft x)) (m_num (x_soft x)) h with
               | (s1, None) => s1
               | (s1, Some m) =>
                   let s2 := update_commitment s1 (x_firm x) m (x_base x) SoftOnly in
                   match xd s2 with
                   | Some _ => s2
                   | None =>
                       {| xe := set_pend (xe s2) ((bn, m) :: c_remove bn (x_pend (xe s2)));
                          xr := xr s2; xt := xt s2; xd := None |}
                   end
               end
           end
  end.

(** [execute_firm] *)
Definition execute_firm (s : xs) (h c : N) : xs :=
  let x := xe s in
  match nextf x with
  | None => die s EPanic
  | Some ef =>
      if negb (h =? ef) then die s EFirmHeight
      else match s2r (x_sstart x) (x_rstart x) h with
           | None => die s EMap
           | Some bn =>
               match nexts x with
               | None => die s EPanic
               | Some es =>
                   if should_execute_firm ef es (x_mode x)
                   then match exec_and_check s (m_hash (x_firm x)) (m_num (x_firm x)) h with
                        | (s1, None) => s1
                        | (s1, Some m) => update_commitment s1 m m c SoftAndFirm
                        end
                   else match c_find bn (x_pend x) with
                        | Some b =>
                            let s1 := {| xe := set_pend x (c_remove bn (x_pend x)); xr := xr s;
                                         xt := xt s; xd := None |} in
                            update_commitment s1 b (x_soft x) c FirmOnly
                        | None =>
                            let res := r_find_num (xr s) bn in
                            let s1 := {| xe := x; xr := xr s; xt := EvGet bn res :: xt s;
                                         xd := None |} in
                            match res with
                            | None => die s1 ERpc
                            | Some hsh =>
                                update_commitment s1 {| m_num := bn; m_hash := hsh |} (x_soft x) c FirmOnly
                            end
                        end
               end
           end
  end.

(** [is_spread_too_large]; [None] = panic *)
Definition spread_too_large (x : exec) : option bool :=
  if negb (with_firm (x_mode x)) then Some false
  else match nextf x, nexts x with
       | Some nf, Some ns => Some (x_look x <=? ns - nf)
       | _, _ => None
       end.

(** a delivery to the executor (what the event loop does with a received block) *)
Inductive delivery := DSoft (h : N) | DFirm (h c : N).

Definition tick (s : xs) (e : event) : xs :=
  {| xe := xe s; xr := xr s; xt := e :: xt s; xd := xd s |}.

Definition deliver (s : xs) (d : delivery) : xs :=
  match xd s with
  | Some _ => s
  | None =>
      match d with
      | DSoft h => execute_soft (tick s (EvTookSoft h)) h
      | DFirm h c => execute_firm (tick s (EvTookFirm h c)) h c
      end
  end.

Definition deliver_all (s : xs) (ds : list delivery) : xs := fold_left deliver ds s.

(* ------------------------------------------------------------------------------------- *)
(** * Session start *)

Inductive init_err := IESession | IEInvalidState | IEChannels.

Definition session_exec (md : mode) (sstart rstart look firm soft base : N) : exec + init_err :=
  (* ExecutionSession::try_from_raw: the start height is a tendermint Height; builder firm<=soft *)
  if (I64_MAX <? sstart) || (soft <? firm) then inr IESession
  else
    (* State::try_from_execution_session *)
    let okf := if with_firm md then is_some (map_r2s sstart rstart firm) else true in
    let oks := if with_soft md then is_some (map_r2s sstart rstart soft) else true in
    if negb (okf && oks) then inr IEInvalidState
    else
      (* create_block_channels *)
      if (match md with SoftAndFirm => look =? 0 | _ => false end) then inr IEChannels
      else inl {| x_mode := md; x_sstart := sstart; x_rstart := rstart; x_look := look;
                  x_firm := {| m_num := firm; m_hash := HGen firm |};
                  x_soft := {| m_num := soft; m_hash := HGen soft |};
                  x_base := base; x_pend := [] |}.

Definition xs_of (x : exec) : xs :=
  {| xe := x;
     xr := {| r_presoft := m_num (x_soft x); r_exec := []; r_serial := 0; r_fault := None |};
     xt := []; xd := None |}.

(* ------------------------------------------------------------------------------------- *)
(** * The composed system *)

Record sys := {
  s_x : xs;
  s_sc : option (cache unit);     (* soft reader's BlockCache (None: no soft reader) *)
  s_fc : option (cache N);        (* firm reader's BlockCache, payload = celestia height *)
  s_sq : list N;                  (* soft channel, front first *)
  s_fq : list (N * N);            (* firm channel *)
  s_senq : option N;              (* soft reader's enqueued block *)
  s_fenq : option (N * N);
  s_scap : N;
  s_fcap : N
}.

Definition soft_cap (x : exec) : N :=
  match x_mode x with
  | SoftOnly => 1024
  | SoftAndFirm => x_look x
  | FirmOnly => if x_look x =? 0 then 1 else x_look x
  end.

Definition sys_of (x : exec) : sys :=
  {| s_x := xs_of x;
     s_sc := if with_soft (x_mode x) then opt_bind (nexts x) c_new else None;
     s_fc := if with_firm (x_mode x) then opt_bind (nextf x) c_new else None;
     s_sq := []; s_fq := []; s_senq := None; s_fenq := None;
     s_scap := soft_cap x; s_fcap := 16 |}.

Definition lenN {A} (l : list A) : N := N.of_nat (length l).

Definition upd (s : sys) (x : xs) sc fc sq fq senq fenq : sys :=
  {| s_x := x; s_sc := sc; s_fc := fc; s_sq := sq; s_fq := fq; s_senq := senq; s_fenq := fenq;
     s_scap := s_scap s; s_fcap := s_fcap s |}.

Definition set_x (s : sys) (x : xs) : sys :=
  upd s x (s_sc s) (s_fc s) (s_sq s) (s_fq s) (s_senq s) (s_fenq s).

Inductive resp :=
| RIns (r : ins_res) | RNoReader | RObs (v next : N) | RPanic | RBlocked | RNone
| RSent (h : N) | REnq (h : N) | RFull (h : N) | RDirect (sent : bool) | RSet | RRun.

(** soft reader: block from the sequencer stream goes into the cache *)
Definition do_sf (s : sys) (h : N) : sys * resp :=
  match s_sc s with
  | None => (s, RNoReader)
  | Some c => let '(c', r) := c_insert c h tt in
              (upd s (s_x s) (Some c') (s_fc s) (s_sq s) (s_fq s) (s_senq s) (s_fenq s), RIns r)
  end.

(** soft reader: [update_next_expected_height] with the value read from the watch channel *)
Definition do_so (s : sys) : sys * resp :=
  match s_sc s with
  | None => (s, RNoReader)
  | Some c =>
      match nexts (xe (s_x s)) with
      | None => (s, RPanic)
      | Some v => let c' := c_drop c v in
                  (upd s (s_x s) (Some c') (s_fc s) (s_sq s) (s_fq s) (s_senq s) (s_fenq s),
                   RObs v (c_next c'))
      end
  end.

(** soft reader: [block_cache.next_block()] -> [send_to_executor] *)
Definition do_sp (s : sys) : sys * resp :=
  match s_sc s with
  | None => (s, RNoReader)
  | Some c =>
      match s_senq s with
      | Some _ => (s, RBlocked)
      | None =>
          match c_pop c with
          | (_, PopNone) => (s, RNone)
          | (c', PopPanic) =>
              (upd s (s_x s) (Some c') (s_fc s) (s_sq s) (s_fq s) (s_senq s) (s_fenq s), RPanic)
          | (c', PopSome _) =>
              let h := c_next c in
              if lenN (s_sq s) <? s_scap s
              then (upd s (s_x s) (Some c') (s_fc s) (s_sq s ++ [h]) (s_fq s) None (s_fenq s), RSent h)
              else (upd s (s_x s) (Some c') (s_fc s) (s_sq s) (s_fq s) (Some h) (s_fenq s), REnq h)
          end
      end
  end.

(** soft reader: the enqueued send completes *)
Definition do_sq (s : sys) : sys * resp :=
  match s_senq s with
  | None => (s, RNone)
  | Some h =>
      if lenN (s_sq s) <? s_scap s
      then (upd s (s_x s) (s_sc s) (s_fc s) (s_sq s ++ [h]) (s_fq s) None (s_fenq s), RSent h)
      else (s, RFull h)
  end.

Definition do_ff (s : sys) (h c : N) : sys * resp :=
  match s_fc s with
  | None => (s, RNoReader)
  | Some fc => let '(fc', r) := c_insert fc h c in
               (upd s (s_x s) (s_sc s) (Some fc') (s_sq s) (s_fq s) (s_senq s) (s_fenq s), RIns r)
  end.

Definition do_fp (s : sys) : sys * resp :=
  match s_fc s with
  | None => (s, RNoReader)
  | Some fc =>
      match s_fenq s with
      | Some _ => (s, RBlocked)
      | None =>
          match c_pop fc with
          | (_, PopNone) => (s, RNone)
          | (fc', PopPanic) =>
              (upd s (s_x s) (s_sc s) (Some fc') (s_sq s) (s_fq s) (s_senq s) (s_fenq s), RPanic)
          | (fc', PopSome c) =>
              let h := c_next fc in
              if lenN (s_fq s) <? s_fcap s
              then (upd s (s_x s) (s_sc s) (Some fc') (s_sq s) (s_fq s ++ [(h, c)]) (s_senq s) None, RSent h)
              else (upd s (s_x s) (s_sc s) (Some fc') (s_sq s) (s_fq s) (s_senq s) (Some (h, c)), REnq h)
          end
      end
  end.

Definition do_fq (s : sys) : sys * resp :=
  match s_fenq s with
  | None => (s, RNone)
  | Some (h, c) =>
      if lenN (s_fq s) <? s_fcap s
      then (upd s (s_x s) (s_sc s) (s_fc s) (s_sq s) (s_fq s ++ [(h, c)]) (s_senq s) None, RSent h)
      else (s, RFull h)
  end.

(** deliveries that bypass the readers' caches (harness only) *)
Definition do_ds (s : sys) (h : N) : sys * resp :=
  if lenN (s_sq s) <? s_scap s
  then (upd s (s_x s) (s_sc s) (s_fc s) (s_sq s ++ [h]) (s_fq s) (s_senq s) (s_fenq s), RDirect true)
  else (s, RDirect false).

Definition do_df (s : sys) (h c : N) : sys * resp :=
  if lenN (s_fq s) <? s_fcap s
  then (upd s (s_x s) (s_sc s) (s_fc s) (s_sq s) (s_fq s ++ [(h, c)]) (s_senq s) (s_fenq s), RDirect true)
  else (s, RDirect false).

Definition do_bad (s : sys) (d : N) : sys * resp :=
  let x := s_x s in
  let r := xr x in
  (set_x s {| xe := xe x;
              xr := {| r_presoft := r_presoft r; r_exec := r_exec r; r_serial := r_serial r;
                       r_fault := Some d |};
              xt := xt x; xd := xd x |}, RSet).

(** One iteration of [run_event_loop]'s biased [select!]: the precondition of the soft arm
    ([is_spread_too_large]) is evaluated first, then the firm channel is polled, then the soft
    one.  [None]: nothing receivable (the loop would block). *)
Definition loop_iter (s : sys) : option sys :=
  match xd (s_x s) with
  | Some _ => None
  | None =>
      match spread_too_large (xe (s_x s)) with
      | None => Some (set_x s (die (s_x s) EPanic))
      | Some too_large =>
          match s_fq s with
          | (h, c) :: rest =>
              Some (upd s (deliver (s_x s) (DFirm h c)) (s_sc s) (s_fc s) (s_sq s) rest (s_senq s) (s_fenq s))
          | [] =>
              match s_sq s with
              | h :: rest =>
                  if too_large then None
                  else Some (upd s (deliver (s_x s) (DSoft h)) (s_sc s) (s_fc s) rest (s_fq s) (s_senq s) (s_fenq s))
              | [] => None
              end
          end
      end
  end.

Fixpoint run_loop (fuel : nat) (s : sys) : sys :=
  match fuel with
  | O => s
  | S f => match loop_iter s with
           | None => s
           | Some s' => run_loop f s'
           end
  end.

Definition do_run (s : sys) : sys * resp :=
  (run_loop (S (length (s_fq s) + length (s_sq s))) s, RRun).

Inductive op :=
| OSf (h : N) | OSo | OSp | OSq | OFf (h c : N) | OFp | OFq
| ODs (h : N) | ODf (h c : N) | OBad (d : N) | ORun.

Definition sys_step (s : sys) (o : op) : sys * resp :=
  match o with
  | OSf h => do_sf s h | OSo => do_so s | OSp => do_sp s | OSq => do_sq s
  | OFf h c => do_ff s h c | OFp => do_fp s | OFq => do_fq s
  | ODs h => do_ds s h | ODf h c => do_df s h c | OBad d => do_bad s d | ORun => do_run s
  end.

Fixpoint sys_run (s : sys) (ops : list op) : sys :=
  match ops with
  | [] => s
  | o :: r => sys_run (fst (sys_step s o)) r
  end.

(* ------------------------------------------------------------------------------------- *)
(** * The honest composed system: one nondeterministic step relation.
    Readers put arbitrary (duplicated, out-of-order, stale) heights into their caches; every
    component moves whenever it is enabled; the executor may take either channel whenever the
    real [select!] could (a superset of the biased order). *)

Inductive label :=
| LSf (h : N) | LSo | LSp | LSq | LFf (h c : N) | LFp | LFq
| LXf                    (* executor receives the head of the firm channel *)
| LXs                    (* executor receives the head of the soft channel *)
| LXp.                   (* executor panics evaluating the select precondition *)

Definition hstep (s : sys) (l : label) : option sys :=
  match l with
  | LSf h => match s_sc s with Some _ => Some (fst (do_sf s h)) | None => None end
  | LSo => match do_so s with (s', RObs _ _) => Some s' | _ => None end
  | LSp => match do_sp s with
           | (s', RSent _) | (s', REnq _) => Some s'
           | _ => None
           end
  | LSq => match do_sq s with (s', RSent _) => Some s' | _ => None end
  | LFf h c => match s_fc s with Some _ => Some (fst (do_ff s h c)) | None => None end
  | LFp => match do_fp s with
           | (s', RSent _) | (s', REnq _) => Some s'
           | _ => None
           end
  | LFq => match do_fq s with (s', RSent _) => Some s' | _ => None end
  | LXf =>
      match xd (s_x s), s_fq s with
      | None, (h, c) :: rest =>
          match spread_too_large (xe (s_x s)) with
          | None => None
          | Some _ =>
              Some (upd s (deliver (s_x s) (DFirm h c)) (s_sc s) (s_fc s) (s_sq s) rest (s_senq s) (s_fenq s))
          end
      | _, _ => None
      end
  | LXs =>
      match xd (s_x s), s_sq s with
      | None, h :: rest =>
          match spread_too_large (xe (s_x s)) with
          | None | Some true => None
          | Some false =>
              Some (upd s (deliver (s_x s) (DSoft h)) (s_sc s) (s_fc s) rest (s_fq s) (s_senq s) (s_fenq s))
          end
      | _, _ => None
      end
  | LXp =>
      match xd (s_x s), spread_too_large (xe (s_x s)) with
      | None, None => Some (set_x s (die (s_x s) EPanic))
      | _, _ => None
      end
  end.

(** [hsteps s ls = Some s']: the label sequence is executable from [s] and ends in [s'] *)
Fixpoint hsteps (s : sys) (ls : list label) : option sys :=
  match ls with
  | [] => Some s
  | l :: r => match hstep s l with Some s' => hsteps s' r | None => None end
  end.
