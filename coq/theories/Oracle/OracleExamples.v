(** C15 — non-vacuity: concrete runs of the model (ideal signature scheme) exercising the
    hypotheses and conclusions of the theorems of Properties/C15.v. *)
From Astria Require Import Oracle.OracleModel Oracle.OracleSpec.

Local Notation vote := (vote isig).
Local Notation ecommit := (ecommit isig).
Local Notation state := (state N).
Local Notation vve := (validate_vote_extensions N isig ideal_sig_ok).
Local Notation vprop := (validate_proposal N isig ideal_sig_ok).
Local Notation prep := (prepare_or_empty N isig ideal_sig_ok).

Definition chain : N := 15.
Definition st3 : state :=
  {| st_chain := chain; st_vals := [(1, 1); (2, 2); (3, 3)]; st_maxpairs := 2;
     st_pairs := [(0, (100, 6)); (1, (101, 8))] |}.

Definition ext_a : ext := XPrices [(0, PInt 20); (1, PInt (-3))].
Definition ext_b : ext := XPrices [(0, PInt 10); (1, PInt (-3))].

(** height 5, round 2: validator k signs extension e *)
Definition commit_vote (k p : N) (e : ext) : vote :=
  {| v_addr := k; v_power := p; v_flag := FCommit; v_ext := e;
     v_sig := Some (ISigned k e 4 2 chain) |}.
Definition nil_vote (k p : N) : vote :=
  {| v_addr := k; v_power := p; v_flag := FNil; v_ext := XPrices []; v_sig := None |}.

Definition ec_of (vs : list vote) : ecommit := {| ec_round := 2; ec_votes := vs |}.
Definition lc_of (vs : list vote) : lcommit := project isig (ec_of vs).
Definition mp01 : list (N * pinfo) := [(1, (101, 8)); (0, (100, 6))].

(** 7 of 10 listed power: accepted (21 > 20) *)
Definition good : list vote := [commit_vote 1 5 ext_a; nil_vote 2 3; commit_vote 3 2 ext_b].
Example ex_accept : vprop st3 5 (lc_of good) (ec_of good) mp01 = Ok tt.
Proof. vm_compute. reflexivity. Qed.
Example ex_accept_vve : vve st3 5 (ec_of good) = Ok tt.
Proof. vm_compute. reflexivity. Qed.

(** exactly 2/3 (6 of 9) is refused, one more unit of power is accepted *)
Example ex_boundary_refused :
  vve st3 5 (ec_of [commit_vote 1 4 ext_a; nil_vote 2 3; commit_vote 3 2 ext_b])
  = Err EInsufficient.
Proof. vm_compute. reflexivity. Qed.
Example ex_boundary_accepted :
  vve st3 5 (ec_of [commit_vote 1 5 ext_a; nil_vote 2 3; commit_vote 3 2 ext_b]) = Ok tt.
Proof. vm_compute. reflexivity. Qed.

(** forged: validator 1's vote carries a signature made by key 3 *)
Definition forged : vote :=
  {| v_addr := 1; v_power := 5; v_flag := FCommit; v_ext := ext_a;
     v_sig := Some (ISigned 3 ext_a 4 2 chain) |}.
Example ex_forged : vve st3 5 (ec_of [forged; nil_vote 2 3; commit_vote 3 2 ext_b]) = Err EBadSig.
Proof. vm_compute. reflexivity. Qed.

(** a signature over another round / height / extension does not count *)
Example ex_wrong_round :
  vve st3 5 {| ec_round := 3; ec_votes := good |} = Err EBadSig.
Proof. vm_compute. reflexivity. Qed.
Example ex_wrong_height : vve st3 6 (ec_of good) = Err EBadSig.
Proof. vm_compute. reflexivity. Qed.

(** duplicated voter, unknown validator, extension on a nil vote *)
Example ex_dup : vve st3 5 (ec_of [commit_vote 1 5 ext_a; commit_vote 1 5 ext_a]) = Err EDup.
Proof. vm_compute. reflexivity. Qed.
Example ex_unknown : vve st3 5 (ec_of [commit_vote 9 5 ext_a]) = Err ENoKey.
Proof. vm_compute. reflexivity. Qed.
Example ex_nil_with_ext :
  vve st3 5 (ec_of [commit_vote 1 5 ext_a;
                    {| v_addr := 2; v_power := 1; v_flag := FNil; v_ext := ext_a; v_sig := None |}])
  = Err ENcExt.
Proof. vm_compute. reflexivity. Qed.

(** the overflow errors are reachable with tendermint powers (<= i64::MAX) *)
Definition pmax : N := 9223372036854775807.
Example ex_mul_overflow :
  vve st3 5 (ec_of [commit_vote 1 pmax ext_a; commit_vote 2 pmax ext_a]) = Err EMulOverflow.
Proof. vm_compute. reflexivity. Qed.
Example ex_total_overflow :
  vve st3 5 (ec_of [commit_vote 1 pmax ext_a; commit_vote 2 pmax ext_a; commit_vote 3 pmax ext_a])
  = Err ETotalOverflow.
Proof. vm_compute. reflexivity. Qed.

(** the extended commit must match the last commit *)
Example ex_lc_power :
  vprop st3 5 (lc_of [commit_vote 1 6 ext_a; nil_vote 2 3; commit_vote 3 2 ext_b]) (ec_of good) mp01
  = Err EPower.
Proof. vm_compute. reflexivity. Qed.
Example ex_lc_round :
  vprop st3 5 {| lc_round := 1; lc_votes := lc_votes (lc_of good) |} (ec_of good) mp01 = Err ERound.
Proof. vm_compute. reflexivity. Qed.
Example ex_lc_flag :
  vprop st3 5 (lc_of [commit_vote 1 5 ext_a; commit_vote 2 3 ext_a; commit_vote 3 2 ext_b])
        (ec_of good) mp01 = Err EFlag.
Proof. vm_compute. reflexivity. Qed.

(** empty extended commit: acceptable; only the round is looked at *)
Example ex_empty : vprop st3 5 (lc_of good) (ec_of []) [] = Ok tt.
Proof. vm_compute. reflexivity. Qed.
Example ex_empty_round : vprop st3 5 (lc_of good) {| ec_round := 7; ec_votes := [] |} [] = Err ERound.
Proof. vm_compute. reflexivity. Qed.

(** proposer side: an undecodable (but signed) extension is pruned, the rest still has > 2/3 *)
Definition local : list vote := [commit_vote 1 5 ext_a; commit_vote 2 1 XGarbage; commit_vote 3 4 ext_b].
Example ex_prepare :
  match prep st3 5 (ec_of local) with
  | Some (ec', mp) =>
      map (v_flag isig) (ec_votes isig ec') = [FCommit; FAbsent; FCommit] /\
      vprop st3 5 (lc_of local) ec' mp = Ok tt
  | None => False
  end.
Proof. vm_compute. split; reflexivity. Qed.
(** ... and when too little is left, the empty commit is proposed and accepted *)
Definition local2 : list vote := [commit_vote 1 5 XGarbage; commit_vote 3 4 ext_b].
Example ex_prepare_fallback :
  match prep st3 5 (ec_of local2) with
  | Some (ec', mp) => ec_votes isig ec' = [] /\ vprop st3 5 (lc_of local2) ec' mp = Ok tt
  | None => False
  end.
Proof. vm_compute. split; reflexivity. Qed.

(** prices *)
Open Scope Z_scope.
Example ex_median_two : median [20; 10] = Ok (Some 15).
Proof. vm_compute. reflexivity. Qed.
Example ex_median_round_down : median [10; 15; 20; 25] = Ok (Some 17).
Proof. vm_compute. reflexivity. Qed.
Example ex_median_max : median [I128_MAX; I128_MAX; I128_MAX - 1; I128_MAX - 1] = Ok (Some (I128_MAX - 1)).
Proof. vm_compute. reflexivity. Qed.
Example ex_median_min : median [I128_MIN; I128_MIN] = Ok (Some I128_MIN).
Proof. vm_compute. reflexivity. Qed.
Example ex_median_tie : median [-3; -3] = Ok (Some (-2)).
Proof. vm_compute. reflexivity. Qed.
Example ex_tie_class : neg_odd_tie [-3; -3].
Proof. exists 0%nat, (-3). vm_compute. repeat split; congruence. Qed.
Example ex_not_tie_class : ~ neg_odd_tie [10; 20].
Proof. intros (lower & x & Hlen & E1 & E2 & Hneg & _). cbn in Hlen.
  assert (lower = 0%nat) by lia. subst. cbn in E1. inversion E1; subst. lia. Qed.

(** aggregation: pair 100 gets the median of 20 and 10; pair 101 (reports -3, -3) gets -2;
    id 7 is not in the mapping and publishes nothing *)
Example ex_calculate :
  calculate_prices [ext_a; XPrices []; XPrices [(0%N, PInt 10); (1%N, PInt (-3)); (7%N, PInt 5)]] mp01
  = Ok [((100, 6)%N, 15); ((101, 8)%N, -2)].
Proof. vm_compute. reflexivity. Qed.
(** a 15-byte price passes [verify_ve] but fails the aggregation *)
Example ex_short_price :
  verify_ve (XPrices [(0%N, PLen 15)]) 2 = Ok [0%N] /\
  calculate_prices [XPrices [(0%N, PLen 15)]] mp01 = Err EPrice.
Proof. vm_compute. split; reflexivity. Qed.
