(** C15 — the statements proved in OracleProofs.v (kept apart so that the proof file and
    Properties/C15.v talk about the same text). *)
From Astria Require Export Oracle.OracleModel.

Section Spec.
  Variable Key : Type.
  Variable Sig : Type.
  Variable sig_ok : Key -> ext -> N -> N -> N -> Sig -> bool.

  Local Notation vote := (vote Sig).
  Local Notation ecommit := (ecommit Sig).
  Local Notation state := (state Key).
  Local Notation validate_vote_extensions := (validate_vote_extensions Key Sig sig_ok).
  Local Notation validate_against_last_commit := (validate_against_last_commit Sig).
  Local Notation validate_proposal := (validate_proposal Key Sig sig_ok).
  Local Notation prepare_proposal := (prepare_proposal Key Sig sig_ok).
  Local Notation prepare_or_empty := (prepare_or_empty Key Sig sig_ok).
  Local Notation v_addr := (v_addr Sig).
  Local Notation v_power := (v_power Sig).
  Local Notation v_flag := (v_flag Sig).
  Local Notation v_ext := (v_ext Sig).
  Local Notation v_sig := (v_sig Sig).
  Local Notation ec_round := (ec_round Sig).
  Local Notation ec_votes := (ec_votes Sig).
  Local Notation pruned := (pruned Sig).
  Local Notation all_ve_ids := (all_ve_ids Sig).

  (** ---------------------------------------------------------------- vocabulary *)

  Definition is_commit (v : vote) : bool := flag_eqb (v_flag v) FCommit.

  (** voting power listed in the extended commit / power of the votes that carry an extension *)
  Definition total_power (vs : list vote) : N := sumN (map v_power vs).
  Definition submitted_power (vs : list vote) : N := sumN (map v_power (filter is_commit vs)).

  (** the vote's extension is validly signed by the key the state stores for the validator the
      vote is attributed to, over (extension, height-1, round of the commit, chain id) *)
  Definition signed_by_attributed (st : state) (h round : N) (v : vote) : Prop :=
    exists k sg hm,
      lookupN (v_addr v) (st_vals Key st) = Some k /\ v_sig v = Some sg /\
      height_msg h = Some hm /\
      sig_ok k (v_ext v) hm round (st_chain Key st) sg = true.

  (** a counted vote is signed; an uncounted one carries neither extension nor signature *)
  Definition vote_wf (st : state) (h round : N) (v : vote) : Prop :=
    if is_commit v then signed_by_attributed st h round v
    else ext_is_empty (v_ext v) = true /\ v_sig v = None.

  Definition votes_wf (st : state) (h : N) (ec : ecommit) : Prop :=
    NoDup (map v_addr (ec_votes ec)) /\ Forall (vote_wf st h (ec_round ec)) (ec_votes ec).

  (** a vote of the extended commit matches the vote of the last commit at the same position *)
  Definition vote_matches (l : lcvote) (v : vote) : Prop :=
    l_addr l = v_addr v /\ l_power l = v_power v /\ (pruned v = true \/ v_flag v = l_flag l).

  Definition matches_last_commit (lc : lcommit) (ec : ecommit) : Prop :=
    lc_round lc = ec_round ec /\ Forall2 vote_matches (lc_votes lc) (ec_votes ec).

  (** ---------------------------------------------------------------- threshold *)

  (** [validate_vote_extensions] accepts exactly the well-formed commits whose extensions come
      from strictly more than 2/3 of the listed power — unless [2 * total] overflows u64 *)
  Definition stmt_threshold_exact : Prop :=
    forall st h ec,
      validate_vote_extensions st h ec = Ok tt <->
      (votes_wf st h ec /\ 2 * total_power (ec_votes ec) <= U64_MAX /\
       2 * total_power (ec_votes ec) < 3 * submitted_power (ec_votes ec)).

  (** the only way a well-formed commit with enough (or not enough) power is refused for a reason
      other than the threshold is one of the two overflow errors *)
  Definition stmt_threshold_overflow : Prop :=
    forall st h ec,
      votes_wf st h ec -> U64_MAX < 2 * total_power (ec_votes ec) ->
      validate_vote_extensions st h ec = Err ETotalOverflow \/
      validate_vote_extensions st h ec = Err EMulOverflow.

  (** the two remaining checked operations can never fail *)
  Definition stmt_no_spurious_overflow : Prop :=
    forall st h ec,
      validate_vote_extensions st h ec <> Err ESubOverflow /\
      validate_vote_extensions st h ec <> Err EAddOverflow.

  (** every counted extension is validly signed by the validator it is attributed to, and no
      validator is counted twice *)
  Definition stmt_counted_signed : Prop :=
    forall st h ec,
      validate_vote_extensions st h ec = Ok tt ->
      NoDup (map v_addr (ec_votes ec)) /\
      forall v, In v (ec_votes ec) -> is_commit v = true ->
                signed_by_attributed st h (ec_round ec) v.

  (** ---------------------------------------------------------------- last commit *)

  Definition stmt_matches_last_commit : Prop :=
    forall lc ec,
      validate_against_last_commit lc ec = Ok tt <-> matches_last_commit lc ec.

  (** ---------------------------------------------------------------- validate_proposal *)

  (** exact characterisation of acceptance of a non-empty extended commit above height 1 *)
  Definition stmt_validate_proposal_exact : Prop :=
    forall st h lc ec mp,
      h <> 1 -> ec_votes ec <> [] ->
      (validate_proposal st h lc ec mp = Ok tt <->
       (matches_last_commit lc ec /\
        (votes_wf st h ec /\ 2 * total_power (ec_votes ec) <= U64_MAX /\
         2 * total_power (ec_votes ec) < 3 * submitted_power (ec_votes ec)) /\
        exists ids, all_ve_ids (ec_votes ec) (st_maxpairs Key st) = Ok ids /\
                    mapping_eqb (expected_mapping Key st ids) mp = true)).

  (** the property's "only if": anything else is rejected *)
  Definition stmt_accept_only_if : Prop :=
    forall st h lc ec mp,
      h <> 1 -> ec_votes ec <> [] ->
      validate_proposal st h lc ec mp = Ok tt ->
      matches_last_commit lc ec /\
      NoDup (map v_addr (ec_votes ec)) /\
      (forall v, In v (ec_votes ec) -> is_commit v = true ->
                 signed_by_attributed st h (ec_round ec) v) /\
      2 * total_power (ec_votes ec) < 3 * submitted_power (ec_votes ec).

  (** an empty extended commit (with the last commit's round) is always acceptable *)
  Definition stmt_empty_ok : Prop :=
    forall st h lc ec mp,
      ec_votes ec = [] -> lc_round lc = ec_round ec ->
      validate_proposal st h lc ec mp = Ok tt.

  (** ... the round is the only thing checked on it *)
  Definition stmt_empty_round : Prop :=
    forall st h lc ec mp,
      ec_votes ec = [] -> h <> 1 -> lc_round lc <> ec_round ec ->
      validate_proposal st h lc ec mp = Err ERound.

  (** vote extensions are only enabled strictly above a non-zero height, so the height-1 shortcut
      of the two handlers is never taken on a block that carries an extended commit *)
  Definition stmt_enabled_above_one : Prop :=
    forall eh h, vote_extensions_enabled eh h = true -> h <> 1 /\ h <> 0.

  (** the last commit CometBFT hands to process_proposal for the block built on a local
      extended commit *)
  Definition project (ec : ecommit) : lcommit :=
    {| lc_round := ec_round ec;
       lc_votes := map (fun v => {| l_addr := v_addr v; l_power := v_power v;
                                    l_flag := v_flag v |}) (ec_votes ec) |}.

  (** liveness: whatever the local extended commit looks like, what the proposer puts into the
      block (the pruned commit, or the empty one on any error) passes [validate_proposal] *)
  Definition stmt_honest_proposal_accepted : Prop :=
    forall st h ec p,
      prepare_or_empty st h ec = Some p ->
      validate_proposal st h (project ec) (fst p) (snd p) = Ok tt.

End Spec.

(** -------------------------------------------------------------------- prices *)

Open Scope Z_scope.

Definition in_i128 (z : Z) : Prop := I128_MIN <= z <= I128_MAX.

(** [median] never panics on i128 inputs and is defined exactly on non-empty lists *)
Definition stmt_median_total : Prop :=
  forall l, Forall in_i128 l ->
    exists o, median l = Ok o /\ (o = None <-> l = []).

(** the full statement of the property: the median lies between two reported prices *)
Definition stmt_median_in_range_full : Prop :=
  forall l, Forall in_i128 l -> l <> [] ->
    exists m a b, median l = Ok (Some m) /\ In a l /\ In b l /\ a <= m <= b.

(** it is FALSE of the code: two reports of -3 give -2 *)
Definition stmt_median_in_range_refuted : Prop :=
  exists l, Forall in_i128 l /\ l <> [] /\
    exists m, median l = Ok (Some m) /\ forall b, In b l -> b < m.

(** the input class on which it fails: an even number of reports whose two middle values are the
    same negative odd number *)
Definition neg_odd_tie (l : list Z) : Prop :=
  exists lower x,
    length l = (2 * S lower)%nat /\
    nth_error (sortZ l) lower = Some x /\ nth_error (sortZ l) (S lower) = Some x /\
    x < 0 /\ Z.rem x 2 <> 0.

(** outside that class the statement holds ... *)
Definition stmt_median_in_range : Prop :=
  forall l, Forall in_i128 l -> l <> [] -> ~ neg_odd_tie l ->
    exists m a b, median l = Ok (Some m) /\ In a l /\ In b l /\ a <= m <= b.

(** ... in particular for prices that are not negative *)
Definition stmt_median_in_range_nonneg : Prop :=
  forall l, Forall (fun z => 0 <= z <= I128_MAX) l -> l <> [] ->
    exists m a b, median l = Ok (Some m) /\ In a l /\ In b l /\ a <= m <= b.

(** ... and inside the class the result is exactly one above the tie (and never further off) *)
Definition stmt_median_tie_off_by_one : Prop :=
  forall l, Forall in_i128 l -> neg_odd_tie l ->
    exists x, In x l /\ x < 0 /\ median l = Ok (Some (x + 1)).

Definition stmt_median_within_one : Prop :=
  forall l, Forall in_i128 l -> l <> [] ->
    exists m a b, median l = Ok (Some m) /\ In a l /\ In b l /\ a <= m <= b + 1.

Close Scope Z_scope.

(** price [z] was reported for pair [p] in this block: some vote lists it under an id that the
    block's mapping sends to [p] *)
Definition reported (mp : list (N * pinfo)) (votes : list (list (N * Z))) (p : pinfo) (z : Z)
  : Prop :=
  exists v i, In v votes /\ In (i, z) v /\ lookupN i mp = Some p.

(** every published price is the median of a non-empty list of prices reported for that pair in
    that block (so nothing is published for a pair nobody reported) *)
Definition stmt_aggregate_sound : Prop :=
  forall mp votes out p m,
    aggregate mp votes = Ok out -> In (p, m) out ->
    exists zs, zs <> [] /\ median zs = Ok (Some m) /\
               forall z, In z zs -> reported mp votes p z.

(** the prices that reach the state are exactly the aggregated ones *)
Definition stmt_apply_publishes_aggregate : Prop :=
  forall known exts mp out,
    apply_prices known exts mp = Ok out -> calculate_prices exts mp = Ok out.

(** end to end, for the prices of one block: a published price lies between two prices reported
    for that pair in that block, unless the reports for the pair are in the tie class *)
Definition stmt_published_in_range : Prop :=
  forall exts mp votes out p m,
    decode_all exts = Ok votes ->
    Forall (Forall (fun iz => in_i128 (snd iz))) votes ->
    calculate_prices exts mp = Ok out -> In (p, m) out ->
    exists zs, zs <> [] /\ median zs = Ok (Some m) /\
               (forall z, In z zs -> reported mp votes p z) /\
               (~ neg_odd_tie zs ->
                exists a b, reported mp votes p a /\ reported mp votes p b /\ (a <= m <= b)%Z).
