(** C15 — model of the oracle vote-extension handling of the sequencer
    (crates/astria-sequencer/src/app/vote_extension.rs: [validate_vote_extensions],
    [validate_extended_commit_against_last_commit], [verify_vote_extension],
    [ProposalHandler::{prepare_proposal,validate_proposal}], [apply_prices_from_vote_extensions])
    and of the price aggregation of astria-core
    (crates/astria-core/src/oracles/price_feed/utils.rs: [calculate_prices_from_vote_extensions],
    [aggregate_oracle_votes], [median]).

    Integer widths: voting powers and heights are [u64] ([N] with explicit bounds), prices are
    [i128] ([Z] with explicit bounds; Rust's [/] and [%] on signed integers truncate towards
    zero = [Z.quot]/[Z.rem]).  ed25519 is abstract: [sig_ok key ext (h-1) round chain sig].
    The protobuf encoding of an extension is abstract: an extension is either the canonical
    encoding of a map id -> price bytes ([XPrices]; the empty map encodes to zero bytes), bytes
    that do not decode ([XGarbage]) or non-empty bytes that decode to an empty map ([XUnknown]).
    Proof-free: this file is what gets extracted and run against the code. *)
From Astria Require Export Base.Bounded.
From Coq Require Export ZArith.

Definition I64_MAX  : N := 9223372036854775807.
Definition I128_MAX : Z := 170141183460469231731687303715884105727%Z.
Definition I128_MIN : Z := (-170141183460469231731687303715884105728)%Z.
Definition MAXIMUM_PRICE_BYTE_LEN : N := 33.

(** ------------------------------------------------------------------ results *)

Inductive verr :=
| EDup | ETotalOverflow | ESigMissing | ENcExt | ENcSig | ESubOverflow | ENoKey | EBadSig
| EZeroTotal | EMulOverflow | EAddOverflow | EInsufficient                      (* validate_vote_extensions *)
| ERound | ELen | EAddr | EPower | EFlag                          (* ..._against_last_commit *)
| EVeDecode | EVeCount | EVeLen                                   (* verify_vote_extension *)
| EMap                                                            (* id -> pair mapping differs *)
| EDecode | EPrice                                                (* calculate_prices_... *)
| ENoPairState.                                                   (* put_price_for_currency_pair *)

Inductive res (A : Type) :=
| Ok (a : A)
| Err (e : verr)
| Panic.
Arguments Ok {A} a.
Arguments Err {A} e.
Arguments Panic {A}.

Definition rbind {A B} (x : res A) (f : A -> res B) : res B :=
  match x with Ok a => f a | Err e => Err e | Panic => Panic end.
Notation "'dor' x <- a ; b" := (rbind a (fun x => b))
  (at level 200, x name, a at level 100, b at level 200).

(** ------------------------------------------------------------------ data *)

Inductive flag := FAbsent | FCommit | FNil | FLegacy.

Definition flag_eqb (a b : flag) : bool :=
  match a, b with
  | FAbsent, FAbsent | FCommit, FCommit | FNil, FNil | FLegacy, FLegacy => true
  | _, _ => false
  end.

(** the bytes of one price inside a decoded extension: 16 bytes (an i128, big endian) or
    [n <> 16] bytes *)
Inductive pbytes := PInt (z : Z) | PLen (n : N).
Definition pbytes_len (p : pbytes) : N := match p with PInt _ => 16 | PLen n => n end.

Inductive ext :=
| XPrices (l : list (N * pbytes))     (* canonical encoding of the map (ids ascending, distinct) *)
| XGarbage                            (* non-empty bytes, not a protobuf message *)
| XUnknown.                           (* non-empty bytes decoding to a message without prices *)

Definition ext_is_empty (e : ext) : bool :=
  match e with XPrices [] => true | _ => false end.

Definition ext_decode (e : ext) : option (list (N * pbytes)) :=
  match e with XPrices l => Some l | XGarbage => None | XUnknown => Some [] end.

(** currency pair info of the proposal's id -> pair mapping: (pair name, decimals) *)
Definition pinfo : Type := (N * N)%type.
Definition pinfo_eqb (a b : pinfo) : bool := (fst a =? fst b) && (snd a =? snd b).

Fixpoint memN (a : N) (l : list N) : bool :=
  match l with [] => false | x :: r => (x =? a) || memN a r end.

Fixpoint lookupN {A} (k : N) (l : list (N * A)) : option A :=
  match l with
  | [] => None
  | (k', a) :: r => if k' =? k then Some a else lookupN k r
  end.

Fixpoint nodupN (l : list N) (seen : list N) : list N :=
  match l with
  | [] => []
  | x :: r => if memN x seen then nodupN r seen else x :: nodupN r (x :: seen)
  end.

Definition is_some {A} (o : option A) : bool := match o with Some _ => true | None => false end.

Section Oracle.

Variable Key : Type.
Variable Sig : Type.
(** [sig_ok key extension (height-1) round chain_id signature]: ed25519 verification of the
    length-delimited CanonicalVoteExtension *)
Variable sig_ok : Key -> ext -> N -> N -> N -> Sig -> bool.

Record vote := {
  v_addr : N;               (* validator address the vote is attributed to *)
  v_power : N;              (* power stated in the vote itself (tendermint Power <= i64::MAX) *)
  v_flag : flag;
  v_ext : ext;
  v_sig : option Sig        (* tendermint Signature: absent or 64 bytes *)
}.

Record lcvote := { l_addr : N; l_power : N; l_flag : flag }.

Record ecommit := { ec_round : N; ec_votes : list vote }.
Record lcommit := { lc_round : N; lc_votes : list lcvote }.

Record state := {
  st_chain : N;
  st_vals : list (N * Key);                 (* authority component: address -> verification key *)
  st_maxpairs : N;                          (* num_currency_pairs *)
  st_pairs : list (N * pinfo)               (* id -> (pair, decimals from the market map) *)
}.

(** ------------------------------------------------------------------ validate_vote_extensions *)

(** [i64::try_from(height.checked_sub(1).expect(..)).expect(..)] *)
Definition height_msg (h : N) : option N :=
  if h =? 0 then None else if h - 1 <=? I64_MAX then Some (h - 1) else None.

Fixpoint vve_loop (st : state) (h round : N) (vs : list vote) (seen : list N) (total sub : N)
  : res (N * N) :=
  match vs with
  | [] => Ok (total, sub)
  | v :: r =>
      if memN (v_addr v) seen then Err EDup else
      match checked_add U64_MAX total (v_power v) with
      | None => Err ETotalOverflow
      | Some total' =>
          if flag_eqb (v_flag v) FCommit then
            match v_sig v with
            | None => Err ESigMissing
            | Some sg =>
                match checked_add U64_MAX sub (v_power v) with
                | None => Err ESubOverflow
                | Some sub' =>
                    match lookupN (v_addr v) (st_vals st) with
                    | None => Err ENoKey
                    | Some k =>
                        match height_msg h with
                        | None => Panic
                        | Some hm =>
                            if sig_ok k (v_ext v) hm round (st_chain st) sg
                            then vve_loop st h round r (v_addr v :: seen) total' sub'
                            else Err EBadSig
                        end
                    end
                end
            end
          else if negb (ext_is_empty (v_ext v)) then Err ENcExt
          else if is_some (v_sig v) then Err ENcSig
          else vve_loop st h round r (v_addr v :: seen) total' sub
      end
  end.

(** the arithmetic tail: [required = total*2/3 + 1] with the checked operations *)
Definition vve_tail (total sub : N) : res unit :=
  if total =? 0 then Err EZeroTotal else
  match checked_mul U64_MAX total 2 with
  | None => Err EMulOverflow
  | Some t2 =>
      match checked_add U64_MAX (t2 / 3) 1 with
      | None => Err EAddOverflow          (* "failed to add 1": unreachable, see OracleProofs *)
      | Some required => if required <=? sub then Ok tt else Err EInsufficient
      end
  end.

Definition validate_vote_extensions (st : state) (h : N) (ec : ecommit) : res unit :=
  dor ts <- vve_loop st h (ec_round ec) (ec_votes ec) [] 0 0;
  vve_tail (fst ts) (snd ts).

(** ------------------------------------------------------------------ against the last commit *)

Definition pruned (v : vote) : bool :=
  flag_eqb (v_flag v) FAbsent && ext_is_empty (v_ext v) && negb (is_some (v_sig v)).

Fixpoint match_votes (ls : list lcvote) (vs : list vote) : res unit :=
  match ls, vs with
  | l :: ls', v :: vs' =>
      if negb (l_addr l =? v_addr v) then Err EAddr
      else if negb (l_power l =? v_power v) then Err EPower
      else if pruned v then match_votes ls' vs'
      else if negb (flag_eqb (v_flag v) (l_flag l)) then Err EFlag
      else match_votes ls' vs'
  | _, _ => Ok tt
  end.

Definition lenN {A} (l : list A) : N := N.of_nat (length l).

Definition validate_against_last_commit (lc : lcommit) (ec : ecommit) : res unit :=
  if negb (lc_round lc =? ec_round ec) then Err ERound
  else if negb (lenN (lc_votes lc) =? lenN (ec_votes ec)) then Err ELen
  else match_votes (lc_votes lc) (ec_votes ec).

(** ------------------------------------------------------------------ verify_vote_extension *)

Definition verify_ve (e : ext) (maxpairs : N) : res (list N) :=
  match ext_decode e with
  | None => Err EVeDecode
  | Some l =>
      if negb (lenN l <=? maxpairs) then Err EVeCount
      else if forallb (fun ip => pbytes_len (snd ip) <=? MAXIMUM_PRICE_BYTE_LEN) l
           then Ok (map fst l) else Err EVeLen
  end.

(** all ids of all votes, in order ([HashSet] in the code; used as a set only) *)
Fixpoint all_ve_ids (vs : list vote) (maxpairs : N) : res (list N) :=
  match vs with
  | [] => Ok []
  | v :: r =>
      dor ids <- verify_ve (v_ext v) maxpairs;
      dor rest <- all_ve_ids r maxpairs;
      Ok (ids ++ rest)
  end.

(** [get_id_to_currency_pair]: ids unknown to the state are skipped *)
Fixpoint expected_mapping_of (st : state) (ids : list N) : list (N * pinfo) :=
  match ids with
  | [] => []
  | i :: r => match lookupN i (st_pairs st) with
              | Some p => (i, p) :: expected_mapping_of st r
              | None => expected_mapping_of st r
              end
  end.
Definition expected_mapping (st : state) (ids : list N) : list (N * pinfo) :=
  expected_mapping_of st (nodupN ids []).

(** [IndexMap == IndexMap]: same size and every entry of one found in the other
    (keys are distinct on both sides) *)
Definition mapping_eqb (a b : list (N * pinfo)) : bool :=
  (lenN a =? lenN b) &&
  forallb (fun kp => match lookupN (fst kp) b with
                     | Some q => pinfo_eqb (snd kp) q
                     | None => false end) a.

(** ------------------------------------------------------------------ ProposalHandler *)

Definition validate_proposal (st : state) (h : N) (lc : lcommit) (ec : ecommit)
    (mp : list (N * pinfo)) : res unit :=
  if h =? 1 then Ok tt else
  match ec_votes ec with
  | [] => if lc_round lc =? ec_round ec then Ok tt else Err ERound
  | _ =>
      dor _ <- validate_against_last_commit lc ec;
      dor _ <- validate_vote_extensions st h ec;
      dor ids <- all_ve_ids (ec_votes ec) (st_maxpairs st);
      if mapping_eqb (expected_mapping st ids) mp then Ok tt else Err EMap
  end.

Definition prune (v : vote) : vote :=
  {| v_addr := v_addr v; v_power := v_power v; v_flag := FAbsent; v_ext := XPrices [];
     v_sig := None |}.

Definition prune_vote (maxpairs : N) (v : vote) : vote :=
  match verify_ve (v_ext v) maxpairs with Ok _ => v | _ => prune v end.

Definition prepare_proposal (st : state) (h : N) (ec : ecommit)
  : res (ecommit * list (N * pinfo)) :=
  if h =? 1 then Ok (ec, []) else
  let ec' := {| ec_round := ec_round ec;
                ec_votes := map (prune_vote (st_maxpairs st)) (ec_votes ec) |} in
  dor _ <- validate_vote_extensions st h ec';
  match all_ve_ids (ec_votes ec') (st_maxpairs st) with
  | Ok ids => Ok (ec', expected_mapping st ids)
  | Err e => Err e            (* cannot happen: every remaining extension verified *)
  | Panic => Panic
  end.

(** [App::prepare_proposal]: on any error an empty extended commit with the local last commit's
    round is proposed instead *)
Definition prepare_or_empty (st : state) (h : N) (ec : ecommit)
  : option (ecommit * list (N * pinfo)) :=
  match prepare_proposal st h ec with
  | Ok x => Some x
  | Err _ => Some ({| ec_round := ec_round ec; ec_votes := [] |}, [])
  | Panic => None
  end.

(** [App::vote_extensions_enabled] *)
Definition vote_extensions_enabled (enable_height h : N) : bool :=
  negb (enable_height =? 0) && (enable_height <? h).

End Oracle.

(** ------------------------------------------------------------------ prices *)

Open Scope Z_scope.

Definition i128_checked_add (a b : Z) : option Z :=
  let s := a + b in if (I128_MIN <=? s) && (s <=? I128_MAX) then Some s else None.

(** [i128::checked_div(self, 2)] (never [None]: the divisor is neither 0 nor -1) *)
Definition i128_half (a : Z) : Z := Z.quot a 2.

Fixpoint insertZ (x : Z) (l : list Z) : list Z :=
  match l with
  | [] => [x]
  | y :: r => if x <=? y then x :: l else y :: insertZ x r
  end.
Fixpoint sortZ (l : list Z) : list Z :=
  match l with [] => [] | x :: r => insertZ x (sortZ r) end.

Definition is_odd_pos_rem (a : Z) : bool := Z.rem a 2 =? 1.      (* [a % 2 == 1] *)

(** [median]: [Ok None] for the empty list, [Panic] if one of the [expect]s would fire *)
Definition median (l : list Z) : res (option Z) :=
  let s := sortZ l in
  let n := length s in
  let mid := Nat.div n 2 in
  if Nat.eqb (Nat.modulo n 2) 1 then
    match nth_error s mid with Some x => Ok (Some x) | None => Panic end
  else
    match mid with
    | O => Ok None
    | S lower =>
        match nth_error s mid, nth_error s lower with
        | Some hi, Some lo =>
            match i128_checked_add (i128_half hi) (i128_half lo) with
            | None => Panic
            | Some sum =>
                if is_odd_pos_rem hi && is_odd_pos_rem lo then
                  match i128_checked_add sum 1 with
                  | Some m => Ok (Some m)
                  | None => Panic
                  end
                else Ok (Some sum)
            end
        | _, _ => Panic
        end
    end.

Close Scope Z_scope.

(** [OracleVoteExtension::try_from_raw] after [RawOracleVoteExtension::decode] *)
Fixpoint decode_prices (l : list (N * pbytes)) : res (list (N * Z)) :=
  match l with
  | [] => Ok []
  | (i, PInt z) :: r => dor rest <- decode_prices r; Ok ((i, z) :: rest)
  | (_, PLen _) :: _ => Err EPrice
  end.

Definition decode_ext (e : ext) : res (list (N * Z)) :=
  match ext_decode e with
  | None => Err EDecode
  | Some l => decode_prices l
  end.

(** all votes are decoded first ([collect::<Result<Vec<_>,_>>]: the first failing vote decides) *)
Fixpoint decode_all (es : list ext) : res (list (list (N * Z))) :=
  match es with
  | [] => Ok []
  | e :: r => dor d <- decode_ext e; dor rest <- decode_all r; Ok (d :: rest)
  end.

(** insertion-ordered grouping ([IndexMap<CurrencyPairInfo, Vec<Price>>]) *)
Fixpoint group_insert (p : pinfo) (z : Z) (g : list (pinfo * list Z)) : list (pinfo * list Z) :=
  match g with
  | [] => [(p, [z])]
  | (q, zs) :: r => if pinfo_eqb q p then (q, zs ++ [z]) :: r else (q, zs) :: group_insert p z r
  end.

Fixpoint group_vote (mp : list (N * pinfo)) (prices : list (N * Z)) (g : list (pinfo * list Z))
  : list (pinfo * list Z) :=
  match prices with
  | [] => g
  | (i, z) :: r =>
      match lookupN i mp with
      | Some p => group_vote mp r (group_insert p z g)
      | None => group_vote mp r g
      end
  end.

Fixpoint group_votes (mp : list (N * pinfo)) (votes : list (list (N * Z)))
    (g : list (pinfo * list Z)) : list (pinfo * list Z) :=
  match votes with
  | [] => g
  | v :: r => group_votes mp r (group_vote mp v g)
  end.

(** [filter_map] over the groups: a group whose median is [None] is dropped *)
Fixpoint medians (g : list (pinfo * list Z)) : res (list (pinfo * Z)) :=
  match g with
  | [] => Ok []
  | (p, zs) :: r =>
      dor m <- median zs;
      dor rest <- medians r;
      Ok (match m with Some x => (p, x) :: rest | None => rest end)
  end.

Definition aggregate (mp : list (N * pinfo)) (votes : list (list (N * Z)))
  : res (list (pinfo * Z)) :=
  medians (group_votes mp votes []).

(** [calculate_prices_from_vote_extensions] on the extensions of the votes of an extended commit *)
Definition calculate_prices (exts : list ext) (mp : list (N * pinfo)) : res (list (pinfo * Z)) :=
  dor votes <- decode_all exts;
  aggregate mp votes.

(** [apply_prices_from_vote_extensions]: prices are written in order; a pair without a stored
    [CurrencyPairState] fails the whole call.  [known] = pair names with a stored state.
    Returns the prices written (later writes to the same pair win in the store). *)
Fixpoint apply_writes (known : list N) (ps : list (pinfo * Z)) : res (list (pinfo * Z)) :=
  match ps with
  | [] => Ok []
  | (p, z) :: r =>
      if memN (fst p) known then dor rest <- apply_writes known r; Ok ((p, z) :: rest)
      else Err ENoPairState
  end.

Definition apply_prices (known : list N) (exts : list ext) (mp : list (N * pinfo))
  : res (list (pinfo * Z)) :=
  dor ps <- calculate_prices exts mp;
  apply_writes known ps.

(** ------------------------------------------------------------------ an ideal signature scheme
    Used only to RUN the model (extraction driver, Examples): a signature is the pair of the
    signing key and the signed message, or junk.  The theorems quantify over every [sig_ok]. *)

Definition pbytes_eqb (a b : pbytes) : bool :=
  match a, b with
  | PInt x, PInt y => Z.eqb x y
  | PLen x, PLen y => x =? y
  | _, _ => false
  end.

Fixpoint prices_eqb (a b : list (N * pbytes)) : bool :=
  match a, b with
  | [], [] => true
  | (i, p) :: a', (j, q) :: b' => (i =? j) && pbytes_eqb p q && prices_eqb a' b'
  | _, _ => false
  end.

Definition ext_eqb (a b : ext) : bool :=
  match a, b with
  | XPrices x, XPrices y => prices_eqb x y
  | XGarbage, XGarbage => true
  | XUnknown, XUnknown => true
  | _, _ => false
  end.

Inductive isig :=
| ISigned (key : N) (e : ext) (hm round chain : N)
| IJunk.

Definition ideal_sig_ok (k : N) (e : ext) (hm round chain : N) (s : isig) : bool :=
  match s with
  | ISigned k' e' hm' round' chain' =>
      (k' =? k) && ext_eqb e' e && (hm' =? hm) && (round' =? round) && (chain' =? chain)
  | IJunk => false
  end.
