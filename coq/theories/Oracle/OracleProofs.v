(** C15 — proofs about the validation of extended commits
    ([validate_vote_extensions], [validate_against_last_commit], [validate_proposal],
    [prepare_proposal]).  The signature predicate [sig_ok] is arbitrary. *)
From Astria Require Import Oracle.OracleSpec.

Lemma memN_In a l : memN a l = true <-> In a l.
Proof.
  induction l as [|x r IH]; cbn [memN In]; [split; [discriminate|intros []]|].
  rewrite orb_true_iff, N.eqb_eq, IH. reflexivity.
Qed.

Lemma memN_false a l : memN a l = false <-> ~ In a l.
Proof. rewrite <- memN_In. destruct (memN a l); split; congruence. Qed.

Lemma flag_eqb_eq a b : flag_eqb a b = true <-> a = b.
Proof. destruct a, b; cbn; split; congruence. Qed.

Lemma flag_eqb_refl a : flag_eqb a a = true.
Proof. destruct a; reflexivity. Qed.

Lemma lookupN_In {A} k (l : list (N * A)) a : lookupN k l = Some a -> In (k, a) l.
Proof.
  induction l as [|[k' a'] r IH]; cbn [lookupN]; [discriminate|].
  destruct (N.eqb_spec k' k) as [->|Hne]; intros H.
  - inversion H; subst. left; reflexivity.
  - right. apply IH; exact H.
Qed.

Lemma In_lookupN {A} k (l : list (N * A)) a : In (k, a) l -> exists b, lookupN k l = Some b.
Proof.
  induction l as [|[k' a'] r IH]; intros H; [destruct H|]. cbn [lookupN].
  destruct (N.eqb_spec k' k) as [->|Hne]; [eexists; reflexivity|].
  destruct H as [E|H]; [inversion E; subst; contradiction|]. apply IH; exact H.
Qed.

Lemma rbind_ok {A B} (x : res A) (f : A -> res B) b :
  rbind x f = Ok b <-> exists a, x = Ok a /\ f a = Ok b.
Proof.
  destruct x as [a|e|]; cbn [rbind]; split.
  - intros H. exists a. split; [reflexivity|exact H].
  - intros (a' & E & H). inversion E; subst. exact H.
  - discriminate.
  - intros (a' & E & _); discriminate.
  - discriminate.
  - intros (a' & E & _); discriminate.
Qed.

Lemma lenN_eq {A B} (a : list A) (b : list B) : (lenN a =? lenN b) = true <-> length a = length b.
Proof. unfold lenN. rewrite N.eqb_eq. split; [apply Nat2N.inj|congruence]. Qed.

Lemma Forall2_len {A B} (R : A -> B -> Prop) l1 l2 : Forall2 R l1 l2 -> length l1 = length l2.
Proof. induction 1; cbn; congruence. Qed.

Section Proofs.
  Variable Key : Type.
  Variable Sig : Type.
  Variable sig_ok : Key -> ext -> N -> N -> N -> Sig -> bool.

  Local Notation vote := (vote Sig).
  Local Notation ecommit := (ecommit Sig).
  Local Notation state := (state Key).
  Local Notation vve_loop := (vve_loop Key Sig sig_ok).
  Local Notation validate_vote_extensions := (validate_vote_extensions Key Sig sig_ok).
  Local Notation validate_against_last_commit := (validate_against_last_commit Sig).
  Local Notation match_votes := (match_votes Sig).
  Local Notation validate_proposal := (validate_proposal Key Sig sig_ok).
  Local Notation prepare_proposal := (prepare_proposal Key Sig sig_ok).
  Local Notation prepare_or_empty := (prepare_or_empty Key Sig sig_ok).
  Local Notation v_addr := (v_addr Sig).
  Local Notation v_power := (v_power Sig).
  Local Notation v_flag := (v_flag Sig).
  Local Notation v_ext := (v_ext Sig).
  Local Notation v_sig := (v_sig Sig).
  Local Notation ec_round := (ec_round Sig).
  Local Notation ec_votes := (ec_votes Sig).
  Local Notation pruned := (pruned Sig).
  Local Notation prune := (prune Sig).
  Local Notation prune_vote := (prune_vote Sig).
  Local Notation all_ve_ids := (all_ve_ids Sig).
  Local Notation is_commit := (is_commit Sig).
  Local Notation total_power := (total_power Sig).
  Local Notation submitted_power := (submitted_power Sig).
  Local Notation signed_by_attributed := (signed_by_attributed Key Sig sig_ok).
  Local Notation vote_wf := (vote_wf Key Sig sig_ok).
  Local Notation votes_wf := (votes_wf Key Sig sig_ok).
  Local Notation vote_matches := (vote_matches Sig).
  Local Notation matches_last_commit := (matches_last_commit Sig).
  Local Notation project := (project Sig).

  (** ---------------------------------------------------------------- powers *)

  Lemma total_power_cons v r : total_power (v :: r) = v_power v + total_power r.
  Proof. reflexivity. Qed.

  Lemma submitted_power_cons v r :
    submitted_power (v :: r) =
    (if is_commit v then v_power v else 0) + submitted_power r.
  Proof.
    unfold OracleSpec.submitted_power. cbn [filter]. destruct (is_commit v); reflexivity.
  Qed.

  Lemma submitted_le_total vs : submitted_power vs <= total_power vs.
  Proof.
    induction vs as [|v r IH]; [cbn; lia|].
    rewrite submitted_power_cons, total_power_cons. destruct (is_commit v); lia.
  Qed.

  (** ---------------------------------------------------------------- the loop *)

  Definition loop_post (st : state) (h round : N) (vs : list vote) (seen : list N)
      (total sub t s : N) : Prop :=
    NoDup (map v_addr vs) /\ (forall a, In a (map v_addr vs) -> ~ In a seen) /\
    Forall (vote_wf st h round) vs /\
    t = total + total_power vs /\ s = sub + submitted_power vs /\
    total + total_power vs <= U64_MAX /\ sub + submitted_power vs <= U64_MAX.

  Lemma checked_add_spec mx a b :
    (a + b <= mx /\ checked_add mx a b = Some (a + b)) \/
    (mx < a + b /\ checked_add mx a b = None).
  Proof. unfold checked_add. destruct (N.leb_spec (a + b) mx); [left|right]; split; auto. Qed.

  Lemma vve_loop_ok st h round : forall vs seen total sub t s,
    total <= U64_MAX -> sub <= U64_MAX ->
    (vve_loop st h round vs seen total sub = Ok (t, s) <->
     loop_post st h round vs seen total sub t s).
  Proof.
    induction vs as [|v r IH]; intros seen total sub t s Ht Hs.
    - cbn [OracleModel.vve_loop]. unfold loop_post. cbn [map]. unfold OracleSpec.total_power,
        OracleSpec.submitted_power. cbn [map filter sumN]. rewrite !N.add_0_r. split.
      + intros H. inversion H; subst. repeat split; try assumption; try constructor.
        intros a [].
      + intros (_ & _ & _ & -> & -> & _). reflexivity.
    - cbn [OracleModel.vve_loop]. unfold loop_post. cbn [map].
      rewrite total_power_cons, submitted_power_cons.
      fold (is_commit v).
      destruct (memN (v_addr v) seen) eqn:Emem.
      { split; [discriminate|]. intros (_ & Hdis & _). apply memN_In in Emem.
        exfalso. apply (Hdis (v_addr v)); [left; reflexivity|exact Emem]. }
      apply memN_false in Emem.
      destruct (checked_add_spec U64_MAX total (v_power v)) as [[Hle ->]|[Hgt ->]].
      2:{ split; [discriminate|]. intros (_ & _ & _ & _ & _ & Hb & _). lia. }
      unfold OracleSpec.is_commit. fold (is_commit v).
      destruct (is_commit v) eqn:Ec.
      + (* a counted vote *)
        destruct (v_sig v) as [sg|] eqn:Esig.
        2:{ split; [discriminate|]. intros (_ & _ & Hwf & _). apply Forall_inv in Hwf.
            unfold OracleSpec.vote_wf in Hwf. rewrite Ec in Hwf.
            destruct Hwf as (k & sg & hm & _ & E & _). congruence. }
        destruct (checked_add_spec U64_MAX sub (v_power v)) as [[Hles ->]|[Hgts ->]].
        2:{ split; [discriminate|]. intros (_ & _ & _ & _ & _ & _ & Hb). lia. }
        destruct (lookupN (v_addr v) (st_vals Key st)) as [k|] eqn:Ek.
        2:{ split; [discriminate|]. intros (_ & _ & Hwf & _). apply Forall_inv in Hwf.
            unfold OracleSpec.vote_wf in Hwf. rewrite Ec in Hwf.
            destruct Hwf as (k & sg' & hm & E & _). congruence. }
        destruct (height_msg h) as [hm|] eqn:Eh.
        2:{ split; [discriminate|]. intros (_ & _ & Hwf & _). apply Forall_inv in Hwf.
            unfold OracleSpec.vote_wf in Hwf. rewrite Ec in Hwf.
            destruct Hwf as (k' & sg' & hm & _ & _ & E & _). congruence. }
        destruct (sig_ok k (v_ext v) hm round (st_chain Key st) sg) eqn:Eok.
        2:{ split; [discriminate|]. intros (_ & _ & Hwf & _). apply Forall_inv in Hwf.
            unfold OracleSpec.vote_wf in Hwf. rewrite Ec in Hwf.
            destruct Hwf as (k' & sg' & hm' & E1 & E2 & E3 & E4). congruence. }
        rewrite (IH (v_addr v :: seen) (total + v_power v) (sub + v_power v) t s Hle Hles).
        unfold loop_post. split.
        * intros (Hnd & Hdis & Hwf & -> & -> & Hb1 & Hb2). repeat split; try lia.
          -- constructor; [|exact Hnd]. intros Hin. apply (Hdis _ Hin). left; reflexivity.
          -- intros a [<-|Hin]; [exact Emem|]. intros Hs'. apply (Hdis _ Hin). right; exact Hs'.
          -- constructor; [|exact Hwf]. unfold OracleSpec.vote_wf.
             rewrite Ec. exists k, sg, hm. repeat split; assumption.
        * intros (Hnd & Hdis & Hwf & -> & -> & Hb1 & Hb2).
          apply NoDup_cons_iff in Hnd as [Hnin Hnd]. repeat split; try lia.
          -- exact Hnd.
          -- intros a Hin [<-|Hs']; [exact (Hnin Hin)|]. apply (Hdis a); [right; exact Hin|exact Hs'].
          -- eapply Forall_inv_tail; exact Hwf.
      + (* an uncounted vote *)
        destruct (ext_is_empty (v_ext v)) eqn:Eext; cbn [negb].
        2:{ split; [discriminate|]. intros (_ & _ & Hwf & _). apply Forall_inv in Hwf.
            unfold OracleSpec.vote_wf in Hwf. rewrite Ec in Hwf.
            destruct Hwf as [E _]. congruence. }
        destruct (v_sig v) as [sg|] eqn:Esig; cbn [is_some].
        { split; [discriminate|]. intros (_ & _ & Hwf & _). apply Forall_inv in Hwf.
          unfold OracleSpec.vote_wf in Hwf. rewrite Ec in Hwf.
          destruct Hwf as [_ E]. congruence. }
        rewrite (IH (v_addr v :: seen) (total + v_power v) sub t s Hle Hs).
        unfold loop_post. split.
        * intros (Hnd & Hdis & Hwf & -> & -> & Hb1 & Hb2). repeat split; try lia.
          -- constructor; [|exact Hnd]. intros Hin. apply (Hdis _ Hin). left; reflexivity.
          -- intros a [<-|Hin]; [exact Emem|]. intros Hs'. apply (Hdis _ Hin). right; exact Hs'.
          -- constructor; [|exact Hwf]. unfold OracleSpec.vote_wf.
             rewrite Ec. split; assumption.
        * intros (Hnd & Hdis & Hwf & -> & -> & Hb1 & Hb2).
          apply NoDup_cons_iff in Hnd as [Hnin Hnd]. repeat split; try lia.
          -- exact Hnd.
          -- intros a Hin [<-|Hs']; [exact (Hnin Hin)|]. apply (Hdis a); [right; exact Hin|exact Hs'].
          -- eapply Forall_inv_tail; exact Hwf.
  Qed.

  (** ---------------------------------------------------------------- the arithmetic tail *)

  Lemma vve_tail_ok total sub : total <= U64_MAX -> sub <= total ->
    (vve_tail total sub = Ok tt <-> 2 * total <= U64_MAX /\ 2 * total < 3 * sub).
  Proof.
    intros Ht Hs. unfold vve_tail, checked_mul, checked_add.
    destruct (N.eqb_spec total 0) as [->|Hnz].
    { split; [discriminate|]. intros [_ H]. lia. }
    destruct (N.leb_spec (total * 2) U64_MAX) as [Hm|Hm].
    2:{ split; [discriminate|]. intros [H _]. lia. }
    pose proof (N.div_mod (total * 2) 3 ltac:(lia)) as Hdm.
    pose proof (N.mod_upper_bound (total * 2) 3 ltac:(lia)) as Hmb.
    set (q := total * 2 / 3) in *. set (r := (total * 2) mod 3) in *. clearbody q r.
    destruct (N.leb_spec (q + 1) U64_MAX) as [Ha|Ha]; [|exfalso; unfold U64_MAX in *; lia].
    destruct (N.leb_spec (q + 1) sub) as [Hr|Hr].
    - split; [intros _; split; lia|reflexivity].
    - split; [discriminate|]. intros [_ H]. lia.
  Qed.

  Lemma vve_tail_overflow total sub : total <= U64_MAX -> U64_MAX < 2 * total ->
    vve_tail total sub = Err EMulOverflow.
  Proof.
    intros Ht Hm. unfold vve_tail, checked_mul.
    destruct (N.eqb_spec total 0) as [->|Hnz]; [unfold U64_MAX in Hm; lia|].
    destruct (N.leb_spec (total * 2) U64_MAX); [lia|reflexivity].
  Qed.

  Lemma vve_tail_no_add_overflow total sub : total <= U64_MAX ->
    vve_tail total sub <> Err EAddOverflow.
  Proof.
    intros Ht. unfold vve_tail, checked_mul, checked_add.
    destruct (N.eqb_spec total 0); [discriminate|].
    destruct (N.leb_spec (total * 2) U64_MAX) as [Hm|Hm]; [|discriminate].
    pose proof (N.div_mod (total * 2) 3 ltac:(lia)) as Hdm.
    pose proof (N.mod_upper_bound (total * 2) 3 ltac:(lia)) as Hmb.
    set (q := total * 2 / 3) in *. set (r := (total * 2) mod 3) in *. clearbody q r.
    destruct (N.leb_spec (q + 1) U64_MAX) as [Ha|Ha]; [|exfalso; unfold U64_MAX in *; lia].
    destruct (q + 1 <=? sub); discriminate.
  Qed.

  (** ---------------------------------------------------------------- threshold *)

  Theorem threshold_exact : stmt_threshold_exact Key Sig sig_ok.
  Proof.
    intros st h ec. unfold OracleModel.validate_vote_extensions. rewrite rbind_ok. split.
    - intros ([t s] & Hloop & Htail). cbn [fst snd] in Htail.
      apply vve_loop_ok in Hloop; [|unfold U64_MAX; lia|unfold U64_MAX; lia].
      destruct Hloop as (Hnd & _ & Hwf & -> & -> & Hb1 & Hb2). rewrite !N.add_0_l in *.
      apply vve_tail_ok in Htail; [|exact Hb1|apply submitted_le_total].
      split; [split; assumption|exact Htail].
    - intros ([Hnd Hwf] & Hb & Hthr).
      exists (total_power (ec_votes ec), submitted_power (ec_votes ec)). split.
      + apply vve_loop_ok; [unfold U64_MAX; lia|unfold U64_MAX; lia|].
        pose proof (submitted_le_total (ec_votes ec)).
        unfold loop_post. rewrite !N.add_0_l. repeat split; try assumption; try lia.
        intros a _ [].
      + cbn [fst snd]. apply vve_tail_ok; [lia|apply submitted_le_total|]. split; assumption.
  Qed.

  Lemma vve_loop_total_overflow st h round : forall vs seen total sub,
    total <= U64_MAX -> sub <= total ->
    NoDup (map v_addr vs) -> (forall a, In a (map v_addr vs) -> ~ In a seen) ->
    Forall (vote_wf st h round) vs ->
    U64_MAX < total + total_power vs ->
    vve_loop st h round vs seen total sub = Err ETotalOverflow.
  Proof.
    induction vs as [|v r IH]; intros seen total sub Ht Hs Hnd Hdis Hwf Hov.
    - unfold OracleSpec.total_power in Hov. cbn in Hov. lia.
    - cbn [OracleModel.vve_loop]. cbn [map] in Hnd, Hdis. rewrite total_power_cons in Hov.
      apply NoDup_cons_iff in Hnd as [Hnin Hnd].
      destruct (memN (v_addr v) seen) eqn:Emem.
      { apply memN_In in Emem. exfalso. apply (Hdis (v_addr v)); [left; reflexivity|exact Emem]. }
      destruct (checked_add_spec U64_MAX total (v_power v)) as [[Hle ->]|[Hgt ->]];
        [|reflexivity].
      assert (Hdis' : forall a, In a (map v_addr r) -> ~ In a (v_addr v :: seen)).
      { intros a Hin [<-|Hs']; [exact (Hnin Hin)|]. apply (Hdis a); [right; exact Hin|exact Hs']. }
      pose proof (Forall_inv Hwf) as Hv. pose proof (Forall_inv_tail Hwf) as Hr.
      unfold OracleSpec.vote_wf, OracleSpec.is_commit in Hv.
      destruct (flag_eqb (v_flag v) FCommit) eqn:Ec.
      + destruct Hv as (k & sg & hm & -> & -> & -> & ->).
        destruct (checked_add_spec U64_MAX sub (v_power v)) as [[Hles ->]|[Hgts ->]]; [|lia].
        apply IH; try assumption; lia.
      + destruct Hv as [-> ->]. cbn [negb is_some].
        apply IH; try assumption; lia.
  Qed.

  Theorem threshold_overflow : stmt_threshold_overflow Key Sig sig_ok.
  Proof.
    intros st h ec [Hnd Hwf] Hov. unfold OracleModel.validate_vote_extensions.
    destruct (N.leb_spec (total_power (ec_votes ec)) U64_MAX) as [Hfit|Hbig].
    - right.
      assert (Hloop : vve_loop st h (ec_round ec) (ec_votes ec) [] 0 0 =
                      Ok (total_power (ec_votes ec), submitted_power (ec_votes ec))).
      { apply vve_loop_ok; [unfold U64_MAX; lia|unfold U64_MAX; lia|].
        pose proof (submitted_le_total (ec_votes ec)).
        unfold loop_post. rewrite !N.add_0_l. repeat split; try assumption; try lia.
        intros a _ []. }
      rewrite Hloop. cbn [rbind fst snd]. apply vve_tail_overflow; assumption.
    - left. rewrite (vve_loop_total_overflow st h (ec_round ec) (ec_votes ec) [] 0 0);
        try assumption; try (unfold U64_MAX; lia); [reflexivity|intros a _ []].
  Qed.

  Lemma vve_loop_no_sub_overflow st h round : forall vs seen total sub,
    sub <= total -> vve_loop st h round vs seen total sub <> Err ESubOverflow.
  Proof.
    induction vs as [|v r IH]; intros seen total sub Hs; cbn [OracleModel.vve_loop];
      [discriminate|].
    destruct (memN (v_addr v) seen); [discriminate|].
    destruct (checked_add_spec U64_MAX total (v_power v)) as [[Hle ->]|[Hgt ->]];
      [|discriminate].
    destruct (flag_eqb (v_flag v) FCommit).
    - destruct (v_sig v); [|discriminate].
      destruct (checked_add_spec U64_MAX sub (v_power v)) as [[Hles ->]|[Hgts ->]]; [|lia].
      destruct (lookupN (v_addr v) (st_vals Key st)); [|discriminate].
      destruct (height_msg h); [|discriminate].
      destruct (sig_ok _ _ _ _ _ _); [|discriminate]. apply IH. lia.
    - destruct (negb (ext_is_empty (v_ext v))); [discriminate|].
      destruct (is_some (v_sig v)); [discriminate|]. apply IH. lia.
  Qed.

  Lemma vve_loop_no_add_overflow st h round vs seen total sub :
    vve_loop st h round vs seen total sub <> Err EAddOverflow.
  Proof.
    revert seen total sub. induction vs as [|v r IH]; intros seen total sub;
      cbn [OracleModel.vve_loop]; [discriminate|].
    destruct (memN (v_addr v) seen); [discriminate|].
    destruct (checked_add U64_MAX total (v_power v)); [|discriminate].
    destruct (flag_eqb (v_flag v) FCommit).
    - destruct (v_sig v); [|discriminate].
      destruct (checked_add U64_MAX sub (v_power v)); [|discriminate].
      destruct (lookupN (v_addr v) (st_vals Key st)); [|discriminate].
      destruct (height_msg h); [|discriminate].
      destruct (sig_ok _ _ _ _ _ _); [|discriminate]. apply IH.
    - destruct (negb (ext_is_empty (v_ext v))); [discriminate|].
      destruct (is_some (v_sig v)); [discriminate|]. apply IH.
  Qed.

  Theorem no_spurious_overflow : stmt_no_spurious_overflow Key Sig sig_ok.
  Proof.
    intros st h ec. unfold OracleModel.validate_vote_extensions.
    destruct (vve_loop st h (ec_round ec) (ec_votes ec) [] 0 0) as [[t s]|e|] eqn:Eloop;
      cbn [rbind fst snd].
    - apply vve_loop_ok in Eloop; [|unfold U64_MAX; lia|unfold U64_MAX; lia].
      destruct Eloop as (_ & _ & _ & -> & -> & Hb1 & _). rewrite N.add_0_l in Hb1.
      split.
      + unfold vve_tail. destruct (_ =? 0); [discriminate|].
        destruct (checked_mul _ _ _); [|discriminate].
        destruct (checked_add _ _ _); [|discriminate]. destruct (_ <=? _); discriminate.
      + apply vve_tail_no_add_overflow. rewrite N.add_0_l. exact Hb1.
    - split; intros H; inversion H; subst.
      + eapply vve_loop_no_sub_overflow; [|exact Eloop]. lia.
      + eapply vve_loop_no_add_overflow; exact Eloop.
    - split; discriminate.
  Qed.

  Theorem counted_signed : stmt_counted_signed Key Sig sig_ok.
  Proof.
    intros st h ec H. apply threshold_exact in H as ([Hnd Hwf] & _ & _).
    split; [exact Hnd|]. intros v Hin Hc. rewrite Forall_forall in Hwf.
    specialize (Hwf v Hin). unfold OracleSpec.vote_wf in Hwf. rewrite Hc in Hwf. exact Hwf.
  Qed.

  (** ---------------------------------------------------------------- last commit *)

  Lemma match_votes_ok : forall ls vs, length ls = length vs ->
    (match_votes ls vs = Ok tt <-> Forall2 vote_matches ls vs).
  Proof.
    induction ls as [|l ls IH]; intros [|v vs] Hlen; try discriminate.
    - cbn. split; [constructor|reflexivity].
    - cbn [OracleModel.match_votes]. cbn [length] in Hlen. apply eq_add_S in Hlen.
      destruct (N.eqb_spec (l_addr l) (v_addr v)) as [Ea|Ea]; cbn [negb].
      2:{ split; [discriminate|]. intros H. inversion H; subst.
          match goal with Hm : OracleSpec.vote_matches _ _ _ |- _ => destruct Hm as [E _] end.
          contradiction. }
      destruct (N.eqb_spec (l_power l) (v_power v)) as [Ep|Ep]; cbn [negb].
      2:{ split; [discriminate|]. intros H. inversion H; subst.
          match goal with Hm : OracleSpec.vote_matches _ _ _ |- _ => destruct Hm as (_ & E & _) end.
          contradiction. }
      destruct (pruned v) eqn:Epr.
      + rewrite (IH vs Hlen). split.
        * intros H. constructor; [|exact H]. repeat split; try assumption. left; exact Epr.
        * intros H. inversion H; subst. assumption.
      + destruct (flag_eqb (v_flag v) (l_flag l)) eqn:Ef; cbn [negb].
        * apply flag_eqb_eq in Ef. rewrite (IH vs Hlen). split.
          -- intros H. constructor; [|exact H]. repeat split; try assumption. right; exact Ef.
          -- intros H. inversion H; subst. assumption.
        * split; [discriminate|]. intros H. inversion H; subst.
          match goal with Hm : OracleSpec.vote_matches _ _ _ |- _ =>
            destruct Hm as (_ & _ & [E|E]) end.
          -- congruence.
          -- rewrite E, flag_eqb_refl in Ef. discriminate.
  Qed.

  Theorem matches_last_commit_iff : stmt_matches_last_commit Sig.
  Proof.
    intros lc ec. unfold OracleModel.validate_against_last_commit, OracleSpec.matches_last_commit.
    destruct (N.eqb_spec (lc_round lc) (ec_round ec)) as [Er|Er]; cbn [negb].
    2:{ split; [discriminate|]. intros [E _]. contradiction. }
    destruct (lenN (lc_votes lc) =? lenN (ec_votes ec)) eqn:El; cbn [negb].
    - apply lenN_eq in El. rewrite (match_votes_ok _ _ El). split.
      + intros H. split; assumption.
      + intros [_ H]. exact H.
    - split; [discriminate|]. intros [_ H]. apply Forall2_len in H.
      apply lenN_eq in H. congruence.
  Qed.

  (** ---------------------------------------------------------------- validate_proposal *)

  Theorem validate_proposal_exact : stmt_validate_proposal_exact Key Sig sig_ok.
  Proof.
    intros st h lc ec mp Hh Hne. unfold OracleModel.validate_proposal.
    destruct (N.eqb_spec h 1) as [E|_]; [contradiction|].
    destruct (ec_votes ec) as [|v0 r0] eqn:Ev; [contradiction|]. rewrite <- Ev.
    rewrite rbind_ok. split.
    - intros ([] & Hlc & H). apply rbind_ok in H as ([] & Hvve & H).
      apply rbind_ok in H as (ids & Hids & H).
      apply matches_last_commit_iff in Hlc. apply threshold_exact in Hvve.
      split; [exact Hlc|]. split; [exact Hvve|]. exists ids. split; [exact Hids|].
      destruct (mapping_eqb _ mp); [reflexivity|discriminate].
    - intros (Hlc & Hvve & ids & Hids & Hmap).
      exists tt. split; [apply matches_last_commit_iff; exact Hlc|].
      apply rbind_ok. exists tt. split; [apply threshold_exact; exact Hvve|].
      apply rbind_ok. exists ids. split; [exact Hids|]. rewrite Hmap. reflexivity.
  Qed.

  Theorem accept_only_if : stmt_accept_only_if Key Sig sig_ok.
  Proof.
    intros st h lc ec mp Hh Hne H.
    apply (validate_proposal_exact st h lc ec mp Hh Hne) in H
      as (Hlc & ([Hnd Hwf] & _ & Hthr) & _).
    split; [exact Hlc|]. split; [exact Hnd|]. split; [|exact Hthr].
    intros v Hin Hc. rewrite Forall_forall in Hwf.
    specialize (Hwf v Hin). unfold OracleSpec.vote_wf in Hwf. rewrite Hc in Hwf. exact Hwf.
  Qed.

  Theorem empty_ok : stmt_empty_ok Key Sig sig_ok.
  Proof.
    intros st h lc ec mp Hv Hr. unfold OracleModel.validate_proposal.
    destruct (h =? 1); [reflexivity|]. rewrite Hv.
    destruct (N.eqb_spec (lc_round lc) (ec_round ec)); [reflexivity|contradiction].
  Qed.

  Theorem empty_round : stmt_empty_round Key Sig sig_ok.
  Proof.
    intros st h lc ec mp Hv Hh Hr. unfold OracleModel.validate_proposal.
    destruct (N.eqb_spec h 1); [contradiction|]. rewrite Hv.
    destruct (N.eqb_spec (lc_round lc) (ec_round ec)); [contradiction|reflexivity].
  Qed.

  Theorem enabled_above_one : stmt_enabled_above_one.
  Proof.
    intros eh h H. unfold vote_extensions_enabled in H. apply andb_prop in H as [H1 H2].
    apply negb_true_iff in H1. apply N.eqb_neq in H1. apply N.ltb_lt in H2. lia.
  Qed.

  (** ---------------------------------------------------------------- liveness *)

  Lemma verify_ve_empty m : verify_ve (XPrices []) m = Ok [].
  Proof.
    unfold verify_ve. cbn [ext_decode]. unfold lenN. cbn [length N.of_nat].
    destruct (N.leb_spec 0 m); [|lia]. reflexivity.
  Qed.

  Lemma all_ve_ids_pruned m : forall vs, exists ids, all_ve_ids (map (prune_vote m) vs) m = Ok ids.
  Proof.
    induction vs as [|v r [ids IH]]; [exists []; reflexivity|].
    cbn [map OracleModel.all_ve_ids]. unfold OracleModel.prune_vote at 1.
    destruct (verify_ve (v_ext v) m) as [i|e|] eqn:Ev.
    - rewrite Ev. cbn [rbind]. rewrite IH. cbn [rbind]. eexists; reflexivity.
    - cbn [OracleModel.prune OracleModel.v_ext]. rewrite verify_ve_empty. cbn [rbind].
      rewrite IH. cbn [rbind]. eexists; reflexivity.
    - cbn [OracleModel.prune OracleModel.v_ext]. rewrite verify_ve_empty. cbn [rbind].
      rewrite IH. cbn [rbind]. eexists; reflexivity.
  Qed.

  Lemma pruned_prune v : pruned (prune v) = true.
  Proof. reflexivity. Qed.

  Lemma project_matches m : forall vs,
    Forall2 vote_matches
      (map (fun v => {| l_addr := v_addr v; l_power := v_power v; l_flag := v_flag v |}) vs)
      (map (prune_vote m) vs).
  Proof.
    induction vs as [|v r IH]; cbn [map]; constructor; [|exact IH].
    unfold OracleModel.prune_vote. destruct (verify_ve (v_ext v) m).
    - repeat split. right; reflexivity.
    - repeat split. left; reflexivity.
    - repeat split. left; reflexivity.
  Qed.

  Lemma expected_mapping_of_In st : forall ids k p,
    In (k, p) (expected_mapping_of Key st ids) -> lookupN k (st_pairs Key st) = Some p.
  Proof.
    induction ids as [|i r IH]; intros k p H; cbn [expected_mapping_of] in H; [destruct H|].
    destruct (lookupN i (st_pairs Key st)) as [q|] eqn:E.
    - destruct H as [H|H]; [inversion H; subst; exact E|apply IH; exact H].
    - apply IH; exact H.
  Qed.

  Lemma mapping_eqb_expected_refl st ids :
    mapping_eqb (expected_mapping Key st ids) (expected_mapping Key st ids) = true.
  Proof.
    unfold mapping_eqb, expected_mapping. set (E := expected_mapping_of Key st _).
    rewrite N.eqb_refl. cbn [andb]. apply forallb_forall. intros [k p] Hin. cbn [fst snd].
    destruct (In_lookupN k E p Hin) as [q Hq]. rewrite Hq.
    apply lookupN_In in Hq.
    subst E. apply expected_mapping_of_In in Hin. apply expected_mapping_of_In in Hq.
    rewrite Hin in Hq. inversion Hq; subst.
    unfold pinfo_eqb. rewrite !N.eqb_refl. reflexivity.
  Qed.

  Theorem honest_proposal_accepted : stmt_honest_proposal_accepted Key Sig sig_ok.
  Proof.
    intros st h ec p Hp. unfold OracleModel.prepare_or_empty in Hp.
    unfold OracleModel.validate_proposal.
    destruct (N.eqb_spec h 1) as [E1|Hh]; [reflexivity|].
    destruct (prepare_proposal st h ec) as [x|e|] eqn:Eprep; [| |discriminate].
    - inversion Hp; subst x; clear Hp. unfold OracleModel.prepare_proposal in Eprep.
      destruct (N.eqb_spec h 1) as [|_]; [contradiction|].
      set (m := st_maxpairs Key st) in *.
      set (ec' := {| OracleModel.ec_round := ec_round ec;
                     OracleModel.ec_votes := map (prune_vote m) (ec_votes ec) |}) in *.
      destruct (validate_vote_extensions st h ec') as [[]|e|] eqn:Evve; cbn [rbind] in Eprep;
        try discriminate.
      destruct (all_ve_ids (ec_votes ec') m) as [ids|e|] eqn:Eids; try discriminate.
      inversion Eprep; subst p; clear Eprep. cbn [fst snd].
      destruct (ec_votes ec') as [|v0 r0] eqn:Ev.
      + unfold OracleSpec.project. cbn [lc_round]. subst ec'. cbn [OracleModel.ec_round].
        rewrite N.eqb_refl. reflexivity.
      + rewrite <- Ev.
        assert (Hlc : validate_against_last_commit (project ec) ec' = Ok tt).
        { apply matches_last_commit_iff. split; [reflexivity|].
          unfold OracleSpec.project. cbn [lc_votes]. subst ec'. cbn [OracleModel.ec_votes].
          apply project_matches. }
        rewrite Hlc. cbn [rbind]. rewrite Evve. cbn [rbind].
        fold m. rewrite Ev, Eids. cbn [rbind].
        rewrite mapping_eqb_expected_refl. reflexivity.
    - inversion Hp; subst p; clear Hp. cbn [fst snd OracleModel.ec_votes OracleModel.ec_round].
      unfold OracleSpec.project. cbn [lc_round]. rewrite N.eqb_refl. reflexivity.
  Qed.

End Proofs.
