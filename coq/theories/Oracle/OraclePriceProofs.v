(** C15 — proofs about the price aggregation ([median], [aggregate], [calculate_prices]). *)
From Astria Require Import Oracle.OracleSpec.
From Coq Require Import Sorting.Sorted Sorting.Permutation.

Open Scope Z_scope.

(** ------------------------------------------------------------------ sorting *)

Lemma insertZ_perm x l : Permutation (x :: l) (insertZ x l).
Proof.
  induction l as [|y r IH]; cbn [insertZ]; [reflexivity|].
  destruct (x <=? y); [reflexivity|].
  eapply perm_trans; [apply perm_swap|]. constructor. exact IH.
Qed.

Lemma sortZ_perm l : Permutation l (sortZ l).
Proof.
  induction l as [|x r IH]; cbn [sortZ]; [constructor|].
  eapply perm_trans; [constructor; exact IH | apply insertZ_perm].
Qed.

Lemma sortZ_length l : length (sortZ l) = length l.
Proof. symmetry. apply Permutation_length, sortZ_perm. Qed.

Lemma sortZ_In l x : In x (sortZ l) <-> In x l.
Proof.
  split; intros H.
  - eapply Permutation_in; [apply Permutation_sym, sortZ_perm | exact H].
  - eapply Permutation_in; [apply sortZ_perm | exact H].
Qed.

Lemma insertZ_SS x l : StronglySorted Z.le l -> StronglySorted Z.le (insertZ x l).
Proof.
  induction l as [|y r IH]; intros H; cbn [insertZ].
  - constructor; constructor.
  - apply StronglySorted_inv in H as [Hs Hf].
    destruct (Z.leb_spec x y) as [Hxy|Hxy].
    + constructor; [constructor; assumption|].
      constructor; [exact Hxy|]. eapply Forall_impl; [|exact Hf]. cbv beta. intros a Ha. lia.
    + constructor; [apply IH; exact Hs|].
      rewrite Forall_forall. intros z Hz.
      apply (Permutation_in _ (Permutation_sym (insertZ_perm x r))) in Hz.
      destruct Hz as [<-|Hz]; [lia|]. rewrite Forall_forall in Hf. apply Hf; exact Hz.
Qed.

Lemma sortZ_SS l : StronglySorted Z.le (sortZ l).
Proof.
  induction l as [|x r IH]; cbn [sortZ]; [constructor|]. apply insertZ_SS; exact IH.
Qed.

Lemma SS_nth s : StronglySorted Z.le s ->
  forall i j a b, (i <= j)%nat -> nth_error s i = Some a -> nth_error s j = Some b -> a <= b.
Proof.
  induction 1 as [|x r Hs IH Hf]; intros i j a b Hij Hi Hj.
  - destruct i; discriminate.
  - destruct i as [|i], j as [|j]; cbn [nth_error] in Hi, Hj.
    + inversion Hi; inversion Hj; subst; lia.
    + inversion Hi; subst. apply nth_error_In in Hj. rewrite Forall_forall in Hf.
      apply Hf; exact Hj.
    + lia.
    + eapply IH; [|exact Hi|exact Hj]. lia.
Qed.

(** ------------------------------------------------------------------ the arithmetic tail *)

Definition mid_value (hi lo : Z) : Z :=
  if is_odd_pos_rem hi && is_odd_pos_rem lo
  then Z.quot hi 2 + Z.quot lo 2 + 1 else Z.quot hi 2 + Z.quot lo 2.

Definition tie (lo hi : Z) : Prop := lo = hi /\ hi < 0 /\ Z.rem hi 2 <> 0.

Lemma mid_value_range lo hi : lo <= hi -> ~ tie lo hi -> lo <= mid_value hi lo <= hi.
Proof.
  unfold tie, mid_value, is_odd_pos_rem. intros H Hn.
  destruct (Z.eqb_spec (Z.rem hi 2) 1); destruct (Z.eqb_spec (Z.rem lo 2) 1); cbn [andb];
    Z.to_euclidean_division_equations; lia.
Qed.

Lemma mid_value_within_one lo hi : lo <= hi -> lo <= mid_value hi lo <= hi + 1.
Proof.
  unfold mid_value, is_odd_pos_rem. intros H.
  destruct (Z.eqb_spec (Z.rem hi 2) 1); destruct (Z.eqb_spec (Z.rem lo 2) 1); cbn [andb];
    Z.to_euclidean_division_equations; lia.
Qed.

Lemma mid_value_tie x : x < 0 -> Z.rem x 2 <> 0 -> mid_value x x = x + 1.
Proof.
  unfold mid_value, is_odd_pos_rem. intros H Hr.
  destruct (Z.eqb_spec (Z.rem x 2) 1); cbn [andb];
    Z.to_euclidean_division_equations; lia.
Qed.

Lemma even_tail_no_panic lo hi : in_i128 lo -> in_i128 hi ->
  match i128_checked_add (i128_half hi) (i128_half lo) with
  | None => False
  | Some sum =>
      sum = Z.quot hi 2 + Z.quot lo 2 /\
      (is_odd_pos_rem hi && is_odd_pos_rem lo = true ->
       i128_checked_add sum 1 = Some (sum + 1))
  end.
Proof.
  unfold in_i128, i128_checked_add, i128_half, is_odd_pos_rem, I128_MIN, I128_MAX.
  intros Hlo Hhi.
  set (s := Z.quot hi 2 + Z.quot lo 2).
  assert (Hs : -170141183460469231731687303715884105728 <= s
               <= 170141183460469231731687303715884105727)
    by (subst s; Z.to_euclidean_division_equations; lia).
  destruct (Z.leb_spec (-170141183460469231731687303715884105728) s); [|lia].
  destruct (Z.leb_spec s 170141183460469231731687303715884105727); [|lia].
  cbn [andb]. split; [reflexivity|].
  intros Hodd. apply andb_prop in Hodd as [H1 H2].
  apply Z.eqb_eq in H1, H2.
  assert (Hs1 : s + 1 <= 170141183460469231731687303715884105727)
    by (subst s; Z.to_euclidean_division_equations; lia).
  destruct (Z.leb_spec (-170141183460469231731687303715884105728) (s + 1)); [|lia].
  destruct (Z.leb_spec (s + 1) 170141183460469231731687303715884105727); [|lia].
  reflexivity.
Qed.

(** ------------------------------------------------------------------ the shape of [median] *)

Lemma Forall_sortZ (P : Z -> Prop) l : Forall P l -> Forall P (sortZ l).
Proof.
  rewrite !Forall_forall. intros H x Hx. apply H. apply sortZ_In; exact Hx.
Qed.

Lemma median_nil : median [] = Ok None.
Proof. reflexivity. Qed.

Lemma median_odd l : (length l mod 2 = 1)%nat -> exists x, median l = Ok (Some x) /\ In x l.
Proof.
  intros Hodd. unfold median. rewrite sortZ_length, Hodd. cbn [Nat.eqb].
  assert (Hlt : (length l / 2 < length (sortZ l))%nat).
  { rewrite sortZ_length. pose proof (Nat.div_mod_eq (length l) 2). lia. }
  destruct (nth_error (sortZ l) (length l / 2)) as [x|] eqn:E.
  - exists x. split; [reflexivity|]. apply sortZ_In. eapply nth_error_In; exact E.
  - apply nth_error_None in E. lia.
Qed.

Lemma median_even l lower : length l = (2 * S lower)%nat -> Forall in_i128 l ->
  exists lo hi,
    nth_error (sortZ l) lower = Some lo /\ nth_error (sortZ l) (S lower) = Some hi /\
    lo <= hi /\ In lo l /\ In hi l /\ median l = Ok (Some (mid_value hi lo)).
Proof.
  intros Hlen Hb. unfold median. rewrite sortZ_length, Hlen.
  replace (2 * S lower)%nat with (S lower * 2)%nat by lia.
  rewrite Nat.mod_mul by lia. rewrite Nat.div_mul by lia. cbn [Nat.eqb].
  assert (Hl : length (sortZ l) = (2 * S lower)%nat) by (rewrite sortZ_length; exact Hlen).
  destruct (nth_error (sortZ l) (S lower)) as [hi|] eqn:Ehi;
    [|apply nth_error_None in Ehi; lia].
  destruct (nth_error (sortZ l) lower) as [lo|] eqn:Elo;
    [|apply nth_error_None in Elo; lia].
  assert (Hle : lo <= hi).
  { eapply (SS_nth _ (sortZ_SS l) lower (S lower)); [lia|exact Elo|exact Ehi]. }
  assert (Hinlo : In lo l) by (apply sortZ_In; eapply nth_error_In; exact Elo).
  assert (Hinhi : In hi l) by (apply sortZ_In; eapply nth_error_In; exact Ehi).
  rewrite Forall_forall in Hb.
  pose proof (even_tail_no_panic lo hi (Hb _ Hinlo) (Hb _ Hinhi)) as Ht.
  exists lo, hi. repeat split; try assumption.
  destruct (i128_checked_add (i128_half hi) (i128_half lo)) as [sum|]; [|contradiction].
  destruct Ht as [-> Hplus]. unfold mid_value.
  destruct (is_odd_pos_rem hi && is_odd_pos_rem lo) eqn:Eodd.
  - rewrite (Hplus eq_refl). reflexivity.
  - reflexivity.
Qed.

Lemma parity_cases (n : nat) :
  (n mod 2 = 1)%nat \/ n = 0%nat \/ exists lower, n = (2 * S lower)%nat.
Proof.
  pose proof (Nat.div_mod_eq n 2) as H. pose proof (Nat.mod_upper_bound n 2) as Hb.
  destruct (Nat.eq_dec (n mod 2) 1) as [E|E]; [left; exact E|right].
  destruct (Nat.eq_dec n 0) as [E0|E0]; [left; exact E0|right].
  exists (Nat.pred (n / 2)). lia.
Qed.

(** ------------------------------------------------------------------ median theorems *)

Theorem median_total : stmt_median_total.
Proof.
  intros l Hb. destruct (parity_cases (length l)) as [Hodd|[H0|[lower Hev]]].
  - destruct (median_odd l Hodd) as (x & -> & Hin). exists (Some x). split; [reflexivity|].
    split; [discriminate|]. intros ->. cbn in Hodd. discriminate.
  - destruct l; [|discriminate]. exists None. split; [reflexivity|]. split; reflexivity.
  - destruct (median_even l lower Hev Hb) as (lo & hi & _ & _ & _ & _ & _ & ->).
    eexists. split; [reflexivity|]. split; [discriminate|]. intros ->. cbn in Hev. lia.
Qed.

Lemma not_tie_of_not_neg_odd_tie l lower lo hi :
  length l = (2 * S lower)%nat ->
  nth_error (sortZ l) lower = Some lo -> nth_error (sortZ l) (S lower) = Some hi ->
  ~ neg_odd_tie l -> ~ tie lo hi.
Proof.
  intros Hlen Elo Ehi Hn (-> & Hneg & Hodd). apply Hn.
  exists lower, hi. repeat split; assumption.
Qed.

Theorem median_in_range : stmt_median_in_range.
Proof.
  intros l Hb Hne Hnt. destruct (parity_cases (length l)) as [Hodd|[H0|[lower Hev]]].
  - destruct (median_odd l Hodd) as (x & -> & Hin). exists x, x, x. repeat split; try assumption; lia.
  - destruct l; [contradiction|discriminate].
  - destruct (median_even l lower Hev Hb) as (lo & hi & Elo & Ehi & Hle & Hinlo & Hinhi & ->).
    exists (mid_value hi lo), lo, hi. split; [reflexivity|]. split; [exact Hinlo|].
    split; [exact Hinhi|]. apply mid_value_range; [exact Hle|].
    eapply not_tie_of_not_neg_odd_tie; eassumption.
Qed.

Theorem median_in_range_nonneg : stmt_median_in_range_nonneg.
Proof.
  intros l Hb Hne. apply median_in_range; [|exact Hne|].
  - eapply Forall_impl; [|exact Hb]. cbv beta. unfold in_i128, I128_MIN. intros a Ha. lia.
  - intros (lower & x & Hlen & Elo & Ehi & Hneg & _).
    assert (Hin : In x l) by (apply sortZ_In; eapply nth_error_In; exact Elo).
    rewrite Forall_forall in Hb. specialize (Hb _ Hin). lia.
Qed.

Theorem median_tie_off_by_one : stmt_median_tie_off_by_one.
Proof.
  intros l Hb (lower & x & Hlen & Elo & Ehi & Hneg & Hodd).
  destruct (median_even l lower Hlen Hb) as (lo & hi & Elo' & Ehi' & _ & Hinlo & _ & ->).
  rewrite Elo in Elo'. rewrite Ehi in Ehi'. inversion Elo'; inversion Ehi'; subst lo hi.
  exists x. split; [exact Hinlo|]. split; [exact Hneg|].
  rewrite mid_value_tie by assumption. reflexivity.
Qed.

Theorem median_within_one : stmt_median_within_one.
Proof.
  intros l Hb Hne. destruct (parity_cases (length l)) as [Hodd|[H0|[lower Hev]]].
  - destruct (median_odd l Hodd) as (x & -> & Hin). exists x, x, x. repeat split; try assumption; lia.
  - destruct l; [contradiction|discriminate].
  - destruct (median_even l lower Hev Hb) as (lo & hi & _ & _ & Hle & Hinlo & Hinhi & ->).
    exists (mid_value hi lo), lo, hi. split; [reflexivity|]. split; [exact Hinlo|].
    split; [exact Hinhi|]. apply mid_value_within_one; exact Hle.
Qed.

Theorem median_in_range_refuted : stmt_median_in_range_refuted.
Proof.
  exists [-3; -3]. split.
  - repeat constructor; unfold in_i128, I128_MIN, I128_MAX; lia.
  - split; [discriminate|]. exists (-2). split; [vm_compute; reflexivity|].
    intros b [<-|[<-|[]]]; lia.
Qed.

(** ------------------------------------------------------------------ aggregation *)

Close Scope Z_scope.

Lemma pinfo_eqb_eq a b : pinfo_eqb a b = true <-> a = b.
Proof.
  destruct a as [a1 a2], b as [b1 b2]. unfold pinfo_eqb. cbn [fst snd].
  rewrite andb_true_iff, !N.eqb_eq. split.
  - intros [-> ->]; reflexivity.
  - intros E; inversion E; split; reflexivity.
Qed.

Definition groups_ok (R : pinfo -> Z -> Prop) (g : list (pinfo * list Z)) : Prop :=
  forall p zs, In (p, zs) g -> zs <> [] /\ forall z, In z zs -> R p z.

Lemma groups_ok_tail R x g : groups_ok R (x :: g) -> groups_ok R g.
Proof. intros H p zs Hin. apply H. right; exact Hin. Qed.

Lemma group_insert_ok R p z g : groups_ok R g -> R p z -> groups_ok R (group_insert p z g).
Proof.
  induction g as [|[q zs0] r IH]; intros Hok HR; cbn [group_insert].
  - intros p' zs [E|[]]. inversion E; subst. split; [discriminate|].
    intros z' [<-|[]]. exact HR.
  - destruct (pinfo_eqb q p) eqn:Eq.
    + apply pinfo_eqb_eq in Eq. subst q.
      intros p' zs [E|Hin].
      * inversion E; subst. split; [destruct zs0; discriminate|].
        intros z' Hz. apply in_app_or in Hz as [Hz|[<-|[]]]; [|exact HR].
        destruct (Hok p' zs0 (or_introl eq_refl)) as [_ H]. apply H; exact Hz.
      * apply Hok. right; exact Hin.
    + intros p' zs [E|Hin].
      * apply Hok. left; exact E.
      * apply (IH (groups_ok_tail _ _ _ Hok) HR). exact Hin.
Qed.

Lemma group_vote_ok R mp prices : forall g,
  groups_ok R g ->
  (forall i z p, In (i, z) prices -> lookupN i mp = Some p -> R p z) ->
  groups_ok R (group_vote mp prices g).
Proof.
  induction prices as [|[i z] r IH]; intros g Hok HR; cbn [group_vote]; [exact Hok|].
  destruct (lookupN i mp) as [p|] eqn:E.
  - apply IH.
    + apply group_insert_ok; [exact Hok|]. eapply HR; [left; reflexivity|exact E].
    + intros i' z' p' Hin. apply HR. right; exact Hin.
  - apply IH; [exact Hok|]. intros i' z' p' Hin. apply HR. right; exact Hin.
Qed.

Lemma group_votes_ok R mp votes : forall g,
  groups_ok R g ->
  (forall v i z p, In v votes -> In (i, z) v -> lookupN i mp = Some p -> R p z) ->
  groups_ok R (group_votes mp votes g).
Proof.
  induction votes as [|v r IH]; intros g Hok HR; cbn [group_votes]; [exact Hok|].
  apply IH.
  - apply group_vote_ok; [exact Hok|]. intros i z p. apply HR. left; reflexivity.
  - intros v' i z p Hin. apply HR. right; exact Hin.
Qed.

Lemma medians_sound : forall g out,
  medians g = Ok out ->
  forall p m, In (p, m) out -> exists zs, In (p, zs) g /\ median zs = Ok (Some m).
Proof.
  induction g as [|[q zs] r IH]; intros out H p m Hin; cbn [medians] in H.
  - inversion H; subst. destruct Hin.
  - destruct (median zs) as [o|e|] eqn:Em; cbn [rbind] in H; try discriminate.
    destruct (medians r) as [rest|e|] eqn:Er; cbn [rbind] in H; try discriminate.
    inversion H; subst out; clear H.
    destruct o as [x|].
    + destruct Hin as [E|Hin].
      * inversion E; subst. exists zs. split; [left; reflexivity|exact Em].
      * destruct (IH rest eq_refl p m Hin) as (zs' & Hin' & Hm). exists zs'.
        split; [right; exact Hin'|exact Hm].
    + destruct (IH rest eq_refl p m Hin) as (zs' & Hin' & Hm). exists zs'.
      split; [right; exact Hin'|exact Hm].
Qed.

Theorem aggregate_sound : stmt_aggregate_sound.
Proof.
  intros mp votes out p m H Hin. unfold aggregate in H.
  destruct (medians_sound _ _ H p m Hin) as (zs & Hg & Hm).
  assert (Hok : groups_ok (reported mp votes) (group_votes mp votes [])).
  { apply group_votes_ok.
    - intros p' zs' [].
    - intros v i z p' Hv Hiz Hl. exists v, i. repeat split; assumption. }
  destruct (Hok p zs Hg) as [Hne HR]. exists zs. repeat split; assumption.
Qed.

Lemma apply_writes_id known : forall ps out, apply_writes known ps = Ok out -> out = ps.
Proof.
  induction ps as [|[p z] r IH]; intros out H; cbn [apply_writes] in H.
  - inversion H; reflexivity.
  - destruct (memN (fst p) known); [|discriminate].
    destruct (apply_writes known r) as [rest|e|] eqn:Er; cbn [rbind] in H; try discriminate.
    inversion H; subst. rewrite (IH rest eq_refl). reflexivity.
Qed.

Theorem apply_publishes_aggregate : stmt_apply_publishes_aggregate.
Proof.
  intros known exts mp out H. unfold apply_prices in H.
  destruct (calculate_prices exts mp) as [ps|e|] eqn:Ec; cbn [rbind] in H; try discriminate.
  rewrite (apply_writes_id _ _ _ H). reflexivity.
Qed.

Theorem published_in_range : stmt_published_in_range.
Proof.
  intros exts mp votes out p m Hdec Hb Hcalc Hin.
  unfold calculate_prices in Hcalc. rewrite Hdec in Hcalc. cbn [rbind] in Hcalc.
  destruct (aggregate_sound mp votes out p m Hcalc Hin) as (zs & Hne & Hm & HR).
  exists zs. split; [exact Hne|]. split; [exact Hm|]. split; [exact HR|].
  intros Hnt.
  assert (Hbz : Forall in_i128 zs).
  { rewrite Forall_forall. intros z Hz. destruct (HR z Hz) as (v & i & Hv & Hiz & _).
    rewrite Forall_forall in Hb. specialize (Hb v Hv). rewrite Forall_forall in Hb.
    exact (Hb (i, z) Hiz). }
  destruct (median_in_range zs Hbz Hne Hnt) as (m' & a & b & Hm' & Ha & Hbb & Hr).
  rewrite Hm in Hm'. inversion Hm'; subst m'.
  exists a, b. split; [apply HR; exact Ha|]. split; [apply HR; exact Hbb|exact Hr].
Qed.
