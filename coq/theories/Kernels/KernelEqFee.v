(** Hand-written (NOT generated): the fee formula that tools/rs2v.py cuts out of [fee]
    (crates/astria-sequencer/src/checked_actions/utils.rs: the statements
    [let variable_fee = ...] and [let total_fee = ...] -> Kernels/KFee.v) is the fee function of
    Ledger/LedgerModel.v that the C01 theorems use.

    The fragment's free variables are the three accessor calls [fees.base()],
    [fees.multiplier()], [action.variable_component()], read as [u128] values (their declared
    type is an input of the translation, see the table in tools/rs2v.py). *)
From Astria Require Import Base.KernelLib.
From Astria Require Kernels.KFee.
From Astria Require Ledger.LedgerModel.

Module KF := Astria.Kernels.KFee.
Module LM := Astria.Ledger.LedgerModel.

Ltac conv := intros; exact eq_refl.

Lemma keq_total_fee : forall base mult var,
  KF.total_fee base mult var = Some (LM.fee_amount base mult var).
Proof. conv. Qed.

(** what the equation buys: below the saturation point the regenerated formula is exactly
    [base + var * mult], and it never panics *)
Lemma kernel_total_fee_exact : forall base mult var, base + var * mult <= U128_MAX ->
  KF.total_fee base mult var = Some (base + var * mult).
Proof.
  intros base mult var H. rewrite keq_total_fee. unfold LM.fee_amount.
  rewrite saturating_mul_exact by lia. rewrite saturating_add_exact by lia. reflexivity.
Qed.
