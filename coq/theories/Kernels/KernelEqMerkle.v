(** Hand-written (NOT generated): every definition that tools/rs2v.py regenerates from the Rust
    sources into Kernels/KMerkle.v and Kernels/KConductor.v is equal to the hand-written model
    that the big proofs are about.  When the Rust source of a kernel changes its meaning, the
    regenerated definition changes and the corresponding [keq_] lemma stops compiling.

    Conventions: a generated kernel returns [option T] ([None] = panic).  Where the model
    function has the same type the lemma is [K.f args = Model.f args]; where the model function
    is panic-free and returns a plain [T] the lemma is [K.f args = Some (Model.f args)], which
    also says that the Rust function cannot panic.

    The quorum lemma is stated against the FIXED function ([QuorumModel.quorum]); against the
    pre-fix source this file does not compile (the equation against [quorum_prefix] is kept in
    Kernels/KernelEqPrefix.v.notbuilt, which is not part of the build). *)
From Astria Require Import Base.KernelLib.
From Astria Require Kernels.KMerkle.
From Astria Require Merkle.MerkleModel.

Module KM := Astria.Kernels.KMerkle.
Module MM := Astria.Merkle.MerkleModel.

(** [reflexivity] unifies with a strategy that may unfold [N.modulo] before the helper
    definitions; [exact eq_refl] hands the problem to the conversion test as it stands *)
Ltac conv := intros; exact eq_refl.

(** the helpers of KernelLib are the helpers of MerkleModel *)
Lemma keq_lib_lnot x : lnot U64_MAX x = MM.lnot64 x.
Proof. conv. Qed.
Lemma keq_lib_shl x k : shl 64 x k = MM.shl64 x k.
Proof. conv. Qed.
Lemma keq_lib_next_power_of_two x : next_power_of_two U64_MAX x = MM.next_power_of_two x.
Proof. conv. Qed.
Lemma keq_lib_wrapping_add1 x : wrapping_add 64 x 1 = MM.wrapping_add1 x.
Proof. conv. Qed.
Lemma keq_lib_assert b : assert b = MM.assert b.
Proof. conv. Qed.
Lemma keq_lib_bind {A B} (x : option A) (f : A -> option B) : bind x f = MM.bind x f.
Proof. conv. Qed.

(** * crates/astria-merkle/src/lib.rs *)

Lemma keq_leaf_index_to_tree_index : forall j,
  KM.leaf_index_to_tree_index j = MM.leaf_index_to_tree_index j.
Proof. conv. Qed.

Lemma keq_last_set_bit : forall x, KM.last_set_bit x = MM.last_set_bit x.
Proof. conv. Qed.

Lemma keq_last_zero_bit : forall x, KM.last_zero_bit x = MM.last_zero_bit x.
Proof. conv. Qed.

Lemma keq_perfect_parent : forall i, KM.perfect_parent i = MM.perfect_parent i.
Proof. conv. Qed.

Lemma keq_is_branch : forall i, KM.is_branch i = Some (MM.is_branch i).
Proof. conv. Qed.

Lemma keq_perfect_left_child : forall p, KM.perfect_left_child p = MM.perfect_left_child p.
Proof. conv. Qed.

(** the Rust code evaluates [last_zero_bit(p)] twice, the model once *)
Lemma keq_perfect_right_child : forall p, KM.perfect_right_child p = MM.perfect_right_child p.
Proof.
  intro p. unfold KM.perfect_right_child, MM.perfect_right_child.
  rewrite keq_is_branch, keq_last_zero_bit. cbn [bind].
  destruct (MM.is_branch p); cbn [assert MM.assert bind MM.bind]; [|reflexivity].
  destruct (MM.last_zero_bit p); reflexivity.
Qed.

Lemma keq_is_perfect : forall n, KM.is_perfect n = MM.is_perfect n.
Proof. conv. Qed.

Lemma keq_perfect_root : forall n, KM.perfect_root n = MM.perfect_root n.
Proof. conv. Qed.

Lemma keq_complete_root : forall n, KM.complete_root n = MM.complete_root n.
Proof. conv. Qed.

Lemma keq_complete_parent_loop : forall fuel i n,
  KM.complete_parent_loop fuel i n = MM.complete_parent_loop fuel i n.
Proof.
  induction fuel as [|f IH]; intros i n; [reflexivity|].
  cbn [KM.complete_parent_loop MM.complete_parent_loop].
  rewrite keq_perfect_parent.
  destruct (MM.perfect_parent i) as [p|]; [|reflexivity].
  cbn [bind MM.bind]. destruct (p <? n); [reflexivity|apply IH].
Qed.

Lemma keq_complete_parent : forall i n, KM.complete_parent i n = MM.complete_parent i n.
Proof. intros. apply keq_complete_parent_loop. Qed.

Lemma keq_checked_complete_parent_loop : forall fuel i n,
  KM.checked_complete_parent_loop fuel i n = MM.checked_complete_parent_loop fuel i n.
Proof.
  induction fuel as [|f IH]; intros i n; [reflexivity|].
  cbn [KM.checked_complete_parent_loop MM.checked_complete_parent_loop].
  change MM.MAXU with U64_MAX.
  destruct (checked_add U64_MAX i 1) as [i1|]; [|reflexivity].
  rewrite keq_last_set_bit.
  destruct (MM.last_set_bit i1) as [z|]; [|reflexivity].
  cbn [bind].
  change (lnot U64_MAX (shl 64 z 1)) with (MM.lnot64 (MM.shl64 z 1)).
  destruct (N.land (N.lor z i) (MM.lnot64 (MM.shl64 z 1)) <? n); [reflexivity|apply IH].
Qed.

Lemma keq_checked_complete_parent : forall i n,
  KM.checked_complete_parent i n = MM.checked_complete_parent i n.
Proof. intros. apply keq_checked_complete_parent_loop. Qed.

Lemma keq_complete_left_child : forall p, KM.complete_left_child p = MM.complete_left_child p.
Proof. conv. Qed.

Lemma keq_complete_right_child : forall i n,
  KM.complete_right_child i n = MM.complete_right_child i n.
Proof.
  intros i n. unfold KM.complete_right_child, MM.complete_right_child.
  rewrite keq_is_branch, keq_perfect_right_child. cbn [bind].
  destruct (MM.is_branch i); cbn [assert MM.assert bind MM.bind]; [|reflexivity].
  destruct (i <? n); cbn [bind MM.bind]; [|reflexivity].
  destruct (MM.perfect_right_child i) as [r|]; cbn [bind MM.bind]; [|reflexivity].
  destruct (r <? n); [reflexivity|].
  change MM.MAXU with U64_MAX.
  destruct (checked_add U64_MAX i 1) as [i1|]; cbn [bind MM.bind]; [|reflexivity].
  destruct (checked_sub n i1) as [m|]; cbn [bind MM.bind]; [|reflexivity].
  rewrite keq_complete_root. reflexivity.
Qed.

Lemma keq_complete_parent_and_sibling : forall i n,
  KM.complete_parent_and_sibling i n = MM.complete_parent_and_sibling i n.
Proof.
  intros i n. unfold KM.complete_parent_and_sibling, MM.complete_parent_and_sibling.
  rewrite keq_complete_parent.
  destruct (i <? n); cbn [assert MM.assert bind MM.bind]; [|reflexivity].
  destruct (MM.complete_parent i n) as [p|]; cbn [bind MM.bind]; [|reflexivity].
  rewrite keq_complete_right_child, keq_complete_left_child. reflexivity.
Qed.

(** no model function: the Rust function is the comparison itself *)
Lemma keq_is_tree_index_in_tree : forall i n, KM.is_tree_index_in_tree i n = Some (i <? n).
Proof. conv. Qed.

Lemma keq_is_leaf_index_in_tree : forall i n,
  KM.is_leaf_index_in_tree i n = Some (MM.is_leaf_index_in_tree i n).
Proof.
  intros i n. unfold KM.is_leaf_index_in_tree, MM.is_leaf_index_in_tree.
  change MM.MAXU with U64_MAX.
  destruct (checked_mul U64_MAX i 2); reflexivity.
Qed.

(** * crates/astria-conductor/src/celestia/block_verifier.rs *)

