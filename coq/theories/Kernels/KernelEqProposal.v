(** Hand-written (NOT generated): the block-size accounting that tools/rs2v.py regenerates from
    crates/astria-sequencer/src/proposal/block_size_constraints.rs into Kernels/KProposal.v is
    equal to the "BlockSizeConstraints" part of Proposal/ProposalModel.v that the C06 theorems
    use.

    A method of [BlockSizeConstraints] is regenerated as a function of the FIELDS IT READS
    ([self_<field>] parameters); a [&mut self] method additionally returns the new value of every
    field it assigns (here: exactly one), also when it returns [Err] -- so "an error leaves the
    sizes as they were" is part of the equation.  [Result<(), _>] is [result unit]
    ([Some (RErr, _)] = it returned an error; [None] would be a panic).  The model writes the
    same methods as [constraints -> N -> option constraints] ([None] = error, caller keeps the
    old record). *)
From Astria Require Import Base.KernelLib.
From Astria Require Kernels.KProposal.
From Astria Require Proposal.ProposalModel.

Module KP := Astria.Kernels.KProposal.
Module PM := Astria.Proposal.ProposalModel.

Ltac conv := intros; exact eq_refl.

Lemma keq_max_sequence_data_bytes : KP.MAX_SEQUENCE_DATA_BYTES_PER_BLOCK = PM.MAX_SEQ.
Proof. conv. Qed.

Lemma keq_usize_max : U64_MAX = PM.USIZE_MAX.
Proof. conv. Qed.

Lemma keq_sequencer_has_space : forall c n,
  KP.sequencer_has_space (PM.max_seq c) (PM.cur_seq c) n = Some (PM.seq_has_space c n).
Proof. conv. Qed.

Lemma keq_cometbft_has_space : forall c n,
  KP.cometbft_has_space (PM.max_comet c) (PM.cur_comet c) n = Some (PM.comet_has_space c n).
Proof. conv. Qed.

(** [sequencer_checked_add]: result and the value of [current_size_sequencer] afterwards *)
Lemma keq_sequencer_checked_add : forall c n,
  KP.sequencer_checked_add (PM.max_seq c) (PM.cur_seq c) n
  = Some (match PM.seq_checked_add c n with
          | Some c' => (ROk tt, PM.cur_seq c')
          | None => (RErr, PM.cur_seq c)
          end).
Proof.
  intros c n. unfold KP.sequencer_checked_add, PM.seq_checked_add.
  change PM.USIZE_MAX with U64_MAX.
  destruct (checked_add U64_MAX (PM.cur_seq c) n) as [v|]; cbn [ok_or]; [|reflexivity].
  destruct (v <=? PM.max_seq c); reflexivity.
Qed.

Lemma keq_cometbft_checked_add : forall c n,
  KP.cometbft_checked_add (PM.max_comet c) (PM.cur_comet c) n
  = Some (match PM.comet_checked_add c n with
          | Some c' => (ROk tt, PM.cur_comet c')
          | None => (RErr, PM.cur_comet c)
          end).
Proof.
  intros c n. unfold KP.cometbft_checked_add, PM.comet_checked_add.
  change PM.USIZE_MAX with U64_MAX.
  destruct (checked_add U64_MAX (PM.cur_comet c) n) as [v|]; cbn [ok_or]; [|reflexivity].
  destruct (v <=? PM.max_comet c); reflexivity.
Qed.

(** the other direction: the model's function IS the regenerated one, the fields that the Rust
    method does not assign (they are not even among the values the regenerated function
    returns) carried over unchanged *)
Definition put_cur_seq (c : PM.constraints) (r : result unit * N) : option PM.constraints :=
  match r with
  | (ROk _, v) => Some (PM.mkC (PM.max_seq c) (PM.max_comet c) v (PM.cur_comet c))
  | (RErr, _) => None
  end.
Definition put_cur_comet (c : PM.constraints) (r : result unit * N) : option PM.constraints :=
  match r with
  | (ROk _, v) => Some (PM.mkC (PM.max_seq c) (PM.max_comet c) (PM.cur_seq c) v)
  | (RErr, _) => None
  end.

Lemma keq_seq_checked_add_model : forall c n,
  PM.seq_checked_add c n
  = bind (KP.sequencer_checked_add (PM.max_seq c) (PM.cur_seq c) n) (put_cur_seq c).
Proof.
  intros c n. unfold KP.sequencer_checked_add, PM.seq_checked_add.
  change PM.USIZE_MAX with U64_MAX.
  destruct (checked_add U64_MAX (PM.cur_seq c) n) as [v|]; cbn [ok_or bind put_cur_seq]; [|reflexivity].
  destruct (v <=? PM.max_seq c); reflexivity.
Qed.

Lemma keq_comet_checked_add_model : forall c n,
  PM.comet_checked_add c n
  = bind (KP.cometbft_checked_add (PM.max_comet c) (PM.cur_comet c) n) (put_cur_comet c).
Proof.
  intros c n. unfold KP.cometbft_checked_add, PM.comet_checked_add.
  change PM.USIZE_MAX with U64_MAX.
  destruct (checked_add U64_MAX (PM.cur_comet c) n) as [v|]; cbn [ok_or bind put_cur_comet]; [|reflexivity].
  destruct (v <=? PM.max_comet c); reflexivity.
Qed.
