(** Hand-written (NOT generated): the conductor's executor/state kernels that tools/rs2v.py
    regenerates from the Rust sources into Kernels/KConductorExec.v (executor/mod.rs:
    [should_execute_firm_block]) and Kernels/KConductorState.v (state.rs: the two height/number
    maps) are equal to the functions of Conductor/ConductorModel.v that the C10 theorems use
    ([should_execute_firm], [map_r2s], [s2r], [next_of]).

    Conventions: a generated kernel returns [option T] ([None] = panic).  A Rust function that
    returns [Result<T, E>] becomes [option (result T)] ([Some RErr] = it returned an error, which
    is not a panic); the model writes those as [option T] with [None] = error, so the lemma is
    [K.f args = Some (res_of_opt (Model.f args))], which also says that the Rust function cannot
    panic.

    [CommitLevel] is regenerated too: its variants are read from config.rs and emitted as an
    Inductive; [mode_of] maps it to the model's [mode]. *)
From Astria Require Import Base.KernelLib.
From Astria Require Kernels.KConductorExec Kernels.KConductorState.
From Astria Require Conductor.ConductorModel.

Module KE := Astria.Kernels.KConductorExec.
Module KS := Astria.Kernels.KConductorState.
Module CM := Astria.Conductor.ConductorModel.

Ltac conv := intros; exact eq_refl.

(** the regenerated enum and the model's [mode]: a bijection *)
Definition mode_of (l : KE.CommitLevel) : CM.mode :=
  match l with
  | KE.FirmOnly => CM.FirmOnly
  | KE.SoftOnly => CM.SoftOnly
  | KE.SoftAndFirm => CM.SoftAndFirm
  end.
Definition level_of (m : CM.mode) : KE.CommitLevel :=
  match m with
  | CM.FirmOnly => KE.FirmOnly
  | CM.SoftOnly => KE.SoftOnly
  | CM.SoftAndFirm => KE.SoftAndFirm
  end.
Lemma keq_mode_level : forall m, mode_of (level_of m) = m.
Proof. destruct m; reflexivity. Qed.
Lemma keq_level_mode : forall l, level_of (mode_of l) = l.
Proof. destruct l; reflexivity. Qed.

Lemma keq_i64_max : I64_MAX = CM.I64_MAX.
Proof. conv. Qed.

(** * executor/mod.rs *)

Lemma keq_should_execute_firm_block : forall nf ns l,
  KE.should_execute_firm_block nf ns l = Some (CM.should_execute_firm nf ns (mode_of l)).
Proof.
  intros nf ns l. unfold KE.should_execute_firm_block, CM.should_execute_firm.
  destruct l; cbn [mode_of]; [reflexivity|reflexivity|].
  destruct (nf =? ns); reflexivity.
Qed.

Lemma keq_should_execute_firm_block_mode : forall nf ns m,
  KE.should_execute_firm_block nf ns (level_of m) = Some (CM.should_execute_firm nf ns m).
Proof. intros. rewrite keq_should_execute_firm_block, keq_mode_level. reflexivity. Qed.

(** * state.rs *)

Lemma keq_map_rollup_number_to_sequencer_height : forall sstart rstart num,
  KS.map_rollup_number_to_sequencer_height sstart rstart num
  = Some (res_of_opt (CM.map_r2s sstart rstart num)).
Proof.
  intros sstart rstart num.
  unfold KS.map_rollup_number_to_sequencer_height, CM.map_r2s, res_of_opt, try_into_ranged.
  change CM.I64_MAX with I64_MAX.
  destruct (checked_add U64_MAX num 1) as [n1|]; cbn [ok_or]; [|reflexivity].
  destruct (n1 <? rstart); [reflexivity|].
  destruct (checked_add U64_MAX sstart num) as [t|]; cbn [ok_or]; [|reflexivity].
  destruct (checked_sub t rstart) as [h|]; cbn [ok_or]; [|reflexivity].
  destruct (h <=? I64_MAX); reflexivity.
Qed.

Lemma keq_try_map_sequencer_height_to_rollup_height : forall sstart rstart h,
  KS.try_map_sequencer_height_to_rollup_height sstart rstart h
  = Some (res_of_opt (CM.s2r sstart rstart h)).
Proof.
  intros sstart rstart h.
  unfold KS.try_map_sequencer_height_to_rollup_height, CM.s2r, res_of_opt.
  destruct (checked_sub h sstart) as [d|]; cbn [ok_or]; reflexivity.
Qed.

(** [next_expected_{firm,soft}_sequencer_height] = the map, [expect]ed by the caller, then
    [Height::increment]: the model's [next_of] is the regenerated map followed by the
    (hand-transcribed, tendermint) increment; [None] = one of the two panics *)
Lemma keq_next_of : forall sstart rstart num,
  CM.next_of sstart rstart num
  = (do r <- KS.map_rollup_number_to_sequencer_height sstart rstart num;
     do h <- unwrap_res r;
     height_increment h).
Proof.
  intros sstart rstart num. rewrite keq_map_rollup_number_to_sequencer_height.
  unfold CM.next_of. cbn [bind].
  destruct (CM.map_r2s sstart rstart num) as [h|] eqn:E; cbn [res_of_opt ok_or unwrap_res bind];
    [|reflexivity].
  unfold height_increment, checked_add, try_into_ranged.
  change CM.I64_MAX with I64_MAX.
  assert (Hh : h <= I64_MAX).
  { unfold CM.map_r2s in E.
    destruct (checked_add U64_MAX num 1); [|discriminate].
    destruct (_ <? rstart); [discriminate|].
    destruct (checked_add U64_MAX sstart num); [|discriminate].
    destruct (checked_sub _ rstart); [|discriminate].
    change CM.I64_MAX with I64_MAX in E.
    destruct (N.leb_spec n1 I64_MAX); [|discriminate].
    inversion E; subst; assumption. }
  assert (Hb : h + 1 <=? U64_MAX = true).
  { apply N.leb_le. unfold I64_MAX, U64_MAX in *. lia. }
  rewrite Hb. cbn [bind].
  destruct (N.ltb_spec h I64_MAX) as [Hlt|Hge].
  - assert (Hc : h + 1 <=? I64_MAX = true) by (apply N.leb_le; lia).
    rewrite Hc. reflexivity.
  - assert (Hc : h + 1 <=? I64_MAX = false) by (apply N.leb_gt; lia).
    rewrite Hc. reflexivity.
Qed.
