(** Hand-written (NOT generated): the FRAGMENTS that tools/rs2v.py cuts out of
    [validate_vote_extensions] (crates/astria-sequencer/src/app/vote_extension.rs: the
    zero-total test, the required-voting-power arithmetic and the final comparison ->
    Kernels/KOracleVote.v) and out of [median] (crates/astria-core/src/oracles/price_feed/utils.rs:
    the half/half/+1 computation on [Price(i128)] -> Kernels/KOracleMedian.v) are equal to the
    corresponding parts of Oracle/OracleModel.v that the C15 theorems use ([vve_tail], and the
    even-length branch of [median], which the model writes inline).

    A fragment = the statements found by anchored patterns (each must occur exactly once in the
    enclosing function), wrapped into a synthetic function whose parameters are the fragment's
    free variables.  [Result<T, _>] is [result T]; the model's [res] has error classes, which the
    regenerated code does not have ([res_to_kernel] forgets them). *)
From Astria Require Import Base.KernelLib.
From Astria Require Kernels.KOracleVote Kernels.KOracleMedian.
From Astria Require Oracle.OracleModel.

Module KV := Astria.Kernels.KOracleVote.
Module KMed := Astria.Kernels.KOracleMedian.
Module OM := Astria.Oracle.OracleModel.

Ltac conv := intros; exact eq_refl.

Definition res_to_kernel {A} (r : OM.res A) : option (result A) :=
  match r with
  | OM.Ok a => Some (ROk a)
  | OM.Err _ => Some RErr
  | OM.Panic => None
  end.

(** * validate_vote_extensions: zero test, required power, comparison *)

Lemma keq_voting_power_check : forall total sub,
  KV.voting_power_check total sub = res_to_kernel (OM.vve_tail total sub).
Proof.
  intros total sub. unfold KV.voting_power_check, OM.vve_tail.
  destruct (total =? 0); [reflexivity|].
  destruct (checked_mul U64_MAX total 2) as [t2|]; cbn [ok_or]; [|reflexivity].
  change (checked_div t2 3) with (Some (t2 / 3)). cbn [ok_or].
  destruct (checked_add U64_MAX (t2 / 3) 1) as [r|]; cbn [ok_or]; [|reflexivity].
  destruct (r <=? sub); reflexivity.
Qed.

(** the [let required_voting_power = ...] statement alone: [total * 2 / 3 + 1], an error exactly
    when the doubling overflows; the division and the increment cannot fail *)
Lemma keq_required_voting_power : forall total,
  KV.required_voting_power total
  = Some (if total * 2 <=? U64_MAX then ROk (total * 2 / 3 + 1) else RErr).
Proof.
  intros total. unfold KV.required_voting_power, checked_mul.
  destruct (N.leb_spec (total * 2) U64_MAX) as [Hle|Hgt]; cbn [ok_or]; [|reflexivity].
  change (checked_div (total * 2) 3) with (Some (total * 2 / 3)). cbn [ok_or].
  unfold checked_add.
  assert (Hb : total * 2 / 3 + 1 <=? U64_MAX = true).
  { apply N.leb_le. destruct (N.eq_dec (total * 2) 0) as [Hz|Hnz].
    - rewrite Hz. vm_compute. discriminate.
    - assert (Hlt : total * 2 / 3 < total * 2) by (apply N.div_lt; lia).
      unfold U64_MAX in *. lia. }
  rewrite Hb. reflexivity.
Qed.

(** the check is the zero test, the required power, and [required <= submitted] *)
Lemma keq_voting_power_check_required : forall total sub,
  KV.voting_power_check total sub
  = if total =? 0 then Some RErr
    else do r <- KV.required_voting_power total;
         Some (match r with
               | ROk required => if required <=? sub then ROk tt else RErr
               | RErr => RErr
               end).
Proof.
  intros total sub. unfold KV.voting_power_check, KV.required_voting_power.
  destruct (total =? 0); [reflexivity|].
  destruct (checked_mul U64_MAX total 2) as [t2|]; cbn [ok_or bind]; [|reflexivity].
  change (checked_div t2 3) with (Some (t2 / 3)). cbn [ok_or].
  destruct (checked_add U64_MAX (t2 / 3) 1) as [r|]; cbn [ok_or bind]; [|reflexivity].
  destruct (r <=? sub); reflexivity.
Qed.

(** * median: the arithmetic tail *)

(** what Oracle/OracleModel.v writes inline in the even-length branch of [median];
    [None] = one of the [expect]s fires *)
Definition median_tail_model (hi lo : Z) : option Z :=
  match OM.i128_checked_add (OM.i128_half hi) (OM.i128_half lo) with
  | None => None
  | Some sum =>
      if OM.is_odd_pos_rem hi && OM.is_odd_pos_rem lo then OM.i128_checked_add sum 1%Z
      else Some sum
  end.

Lemma keq_i128_checked_add : forall a b, i_checked_add I128_MIN I128_MAX a b = OM.i128_checked_add a b.
Proof. conv. Qed.

Lemma keq_i128_half : forall a, i_checked_div I128_MIN a 2%Z = Some (OM.i128_half a).
Proof. conv. Qed.

Lemma keq_median_tail : forall hi lo, KMed.median_tail hi lo = median_tail_model hi lo.
Proof.
  intros hi lo. unfold KMed.median_tail, median_tail_model.
  rewrite !keq_i128_half. cbn [bind]. rewrite !keq_i128_checked_add.
  destruct (OM.i128_checked_add (OM.i128_half hi) (OM.i128_half lo)) as [sum|]; cbn [bind]; [|reflexivity].
  change (andb (Z.rem hi 2 =? 1)%Z (Z.rem lo 2 =? 1)%Z) with (OM.is_odd_pos_rem hi && OM.is_odd_pos_rem lo).
  destruct (OM.is_odd_pos_rem hi && OM.is_odd_pos_rem lo); cbn [bind].
  - rewrite keq_i128_checked_add. destruct (OM.i128_checked_add sum 1%Z); reflexivity.
  - reflexivity.
Qed.

(** the model's [median], on a list of even length >= 2, IS the regenerated tail applied to the
    two middle elements of the sorted list *)
Lemma keq_median_even : forall l lower hi lo,
  Nat.eqb (Nat.modulo (length (OM.sortZ l)) 2) 1 = false ->
  Nat.div (length (OM.sortZ l)) 2 = S lower ->
  nth_error (OM.sortZ l) (S lower) = Some hi ->
  nth_error (OM.sortZ l) lower = Some lo ->
  OM.median l = match KMed.median_tail hi lo with
                | Some m => OM.Ok (Some m)
                | None => OM.Panic
                end.
Proof.
  intros l lower hi lo Hodd Hmid Hhi Hlo.
  unfold OM.median. cbv zeta. rewrite Hodd, Hmid, Hhi, Hlo.
  rewrite keq_median_tail. unfold median_tail_model.
  destruct (OM.i128_checked_add (OM.i128_half hi) (OM.i128_half lo)) as [sum|]; [|reflexivity].
  destruct (OM.is_odd_pos_rem hi && OM.is_odd_pos_rem lo); [|reflexivity].
  destruct (OM.i128_checked_add sum 1%Z); reflexivity.
Qed.
