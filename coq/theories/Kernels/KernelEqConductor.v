(** Hand-written (NOT generated): every definition that tools/rs2v.py regenerates from the Rust
    sources into Kernels/KMerkle.v and Kernels/KConductor.v is equal to the hand-written model
    that the big proofs are about.  When the Rust source of a kernel changes its meaning, the
    regenerated definition changes and the corresponding [keq_] lemma stops compiling.

    Conventions: a generated kernel returns [option T] ([None] = panic).  Where the model
    function has the same type the lemma is [K.f args = Model.f args]; where the model function
    is panic-free and returns a plain [T] the lemma is [K.f args = Some (Model.f args)], which
    also says that the Rust function cannot panic.

    The quorum lemma is stated against the FIXED function ([QuorumModel.quorum]); against the
    pre-fix source this file does not compile (the equation against [quorum_prefix] is kept in
    Kernels/KernelEqPrefix.v.notbuilt, which is not part of the build). *)
From Astria Require Import Base.KernelLib.
From Astria Require Kernels.KConductor.
From Astria Require Quorum.QuorumModel.

Module KC := Astria.Kernels.KConductor.
Module QM := Astria.Quorum.QuorumModel.

(** [reflexivity] unifies with a strategy that may unfold [N.modulo] before the helper
    definitions; [exact eq_refl] hands the problem to the conversion test as it stands *)
Ltac conv := intros; exact eq_refl.

Lemma keq_quorum_all : forall c t,
  KC.does_commit_voting_power_have_quorum c t = Some (QM.quorum c t).
Proof. conv. Qed.

Lemma keq_quorum : forall c t, c <= U64_MAX -> t <= U64_MAX ->
  KC.does_commit_voting_power_have_quorum c t = Some (QM.quorum c t).
Proof. intros c t _ _. apply keq_quorum_all. Qed.

(** what the equation buys: the regenerated function decides 3c > 2t exactly *)
Lemma kernel_quorum_exact : forall c t, c <= U64_MAX -> t <= U64_MAX ->
  KC.does_commit_voting_power_have_quorum c t = Some (2 * t <? 3 * c).
Proof.
  intros c t Hc Ht. rewrite keq_quorum_all. unfold QM.quorum.
  rewrite !saturating_mul_exact by (unfold U64_MAX, U128_MAX in *; lia).
  f_equal. f_equal; lia.
Qed.

