(** C14 — proofs. *)
From Astria Require Import Base.Bounded Validators.ValidatorsModel Validators.ValidatorsSpec.

(** * Sorted association lists *)

Section MapFacts.
  Context {V : Type}.
  Implicit Types m : list (N * V).

  Fixpoint sorted m : Prop :=
    match m with
    | [] => True
    | kv :: r => Forall (fun kv' => fst kv < fst kv') r /\ sorted r
    end.

  Lemma lookup_ins k k' v m :
    lookup k' (ins k v m) = if k' =? k then Some v else lookup k' m.
  Proof.
    induction m as [|[k0 v0] r IH]; cbn [ins lookup].
    - reflexivity.
    - destruct (N.ltb_spec k k0).
      + cbn [lookup]. reflexivity.
      + destruct (N.eqb_spec k k0) as [->|Hne].
        * cbn [lookup]. destruct (N.eqb_spec k' k0); reflexivity.
        * cbn [lookup]. rewrite IH.
          destruct (N.eqb_spec k' k0) as [->|]; [|reflexivity].
          destruct (N.eqb_spec k0 k); [congruence|reflexivity].
  Qed.

  Lemma lookup_del k k' m :
    lookup k' (del k m) = if k' =? k then None else lookup k' m.
  Proof.
    unfold del. induction m as [|[k0 v0] r IH]; cbn [filter lookup fst].
    - destruct (k' =? k); reflexivity.
    - destruct (N.eqb_spec k0 k) as [->|Hne]; cbn [negb].
      + rewrite IH. destruct (N.eqb_spec k' k); reflexivity.
      + cbn [lookup]. rewrite IH.
        destruct (N.eqb_spec k' k0) as [->|]; [|reflexivity].
        destruct (N.eqb_spec k0 k); [congruence|reflexivity].
  Qed.

  Lemma Forall_ins (P : N * V -> Prop) k v m :
    Forall P m -> P (k, v) -> Forall P (ins k v m).
  Proof.
    induction m as [|[k0 v0] r IH]; cbn [ins]; intros Hm Hp.
    - constructor; [assumption|constructor].
    - inversion Hm; subst.
      destruct (k <? k0); [constructor; assumption|].
      destruct (k =? k0); constructor; auto.
  Qed.

  Lemma sorted_ins k v m : sorted m -> sorted (ins k v m).
  Proof.
    induction m as [|[k0 v0] r IH]; cbn [ins]; intros Hs.
    - cbn. split; constructor.
    - destruct Hs as [Hf Hs].
      destruct (N.ltb_spec k k0) as [Hlt|Hge].
      + cbn [sorted fst]. split; [|split; assumption].
        constructor; [exact Hlt|].
        eapply Forall_impl; [|exact Hf]. cbn. intros a Ha. lia.
      + destruct (N.eqb_spec k k0) as [->|Hne].
        * cbn [sorted fst]. split; assumption.
        * cbn [sorted fst]. split; [|apply IH; assumption].
          apply Forall_ins; [assumption|]. cbn. lia.
  Qed.

  Lemma Forall_del (P : N * V -> Prop) k m : Forall P m -> Forall P (del k m).
  Proof.
    unfold del. induction m as [|kv r IH]; cbn [filter]; intros Hm.
    - constructor.
    - inversion Hm; subst. destruct (negb (fst kv =? k)); [constructor|]; auto.
  Qed.

  Lemma sorted_del k m : sorted m -> sorted (del k m).
  Proof.
    induction m as [|kv r IH]; intros Hs.
    - exact I.
    - destruct Hs as [Hf Hs]. unfold del. cbn [filter].
      destruct (negb (fst kv =? k)).
      + cbn [sorted]. split; [apply (Forall_del _ k); assumption|apply IH; assumption].
      + apply IH; assumption.
  Qed.

  Lemma lookup_above k m : Forall (fun kv => k < fst kv) m -> lookup k m = None.
  Proof.
    induction m as [|[k0 v0] r IH]; intros Hf; cbn [lookup].
    - reflexivity.
    - inversion Hf; subst. cbn in H1.
      destruct (N.eqb_spec k k0); [lia|]. apply IH; assumption.
  Qed.

  Lemma sorted_ext m1 : forall m2,
    sorted m1 -> sorted m2 -> (forall k, lookup k m1 = lookup k m2) -> m1 = m2.
  Proof.
    induction m1 as [|[k1 v1] r1 IH]; intros [|[k2 v2] r2] H1 H2 He.
    - reflexivity.
    - specialize (He k2). cbn in He. rewrite N.eqb_refl in He. discriminate.
    - specialize (He k1). cbn in He. rewrite N.eqb_refl in He. discriminate.
    - destruct H1 as [F1 S1], H2 as [F2 S2]. cbn [fst] in F1, F2.
      assert (k1 = k2) as ->.
      { destruct (N.lt_trichotomy k1 k2) as [Hlt|[Heq|Hgt]]; [|assumption|].
        - pose proof (He k1) as E. cbn [lookup] in E. rewrite N.eqb_refl in E.
          destruct (N.eqb_spec k1 k2); [lia|].
          rewrite lookup_above in E; [discriminate|].
          eapply Forall_impl; [|exact F2]. cbn. intros a Ha. lia.
        - pose proof (He k2) as E. cbn [lookup] in E. rewrite N.eqb_refl in E.
          destruct (N.eqb_spec k2 k1); [lia|].
          rewrite lookup_above in E; [discriminate|].
          eapply Forall_impl; [|exact F1]. cbn. intros a Ha. lia. }
      pose proof (He k2) as E. cbn [lookup] in E. rewrite N.eqb_refl in E.
      injection E as ->. f_equal.
      apply IH; try assumption.
      intros k. pose proof (He k) as E. cbn [lookup] in E.
      destruct (N.eqb_spec k k2) as [Hk|]; [|exact E].
      rewrite Hk. rewrite !lookup_above; auto.
  Qed.

  Lemma del_id k m : lookup k m = None -> del k m = m.
  Proof.
    unfold del. induction m as [|[k0 v0] r IH]; cbn [filter lookup fst]; intros H.
    - reflexivity.
    - destruct (N.eqb_spec k k0) as [->|Hne]; [discriminate|].
      destruct (N.eqb_spec k0 k); [congruence|]. cbn [negb]. f_equal. apply IH; exact H.
  Qed.

  Lemma length_ins_le k v m : (length (ins k v m) <= S (length m))%nat.
  Proof.
    induction m as [|[k0 v0] r IH]; cbn [ins length].
    - lia.
    - destruct (k <? k0); [cbn [length]; lia|].
      destruct (k =? k0); cbn [length]; lia.
  Qed.

  Lemma length_del_le k m : (length (del k m) <= length m)%nat.
  Proof.
    unfold del. induction m as [|kv r IH]; cbn [filter length]; [lia|].
    destruct (negb (fst kv =? k)); cbn [length]; lia.
  Qed.

  Lemma length_ins k v m :
    sorted m ->
    length (ins k v m) = if is_some (lookup k m) then length m else S (length m).
  Proof.
    induction m as [|[k0 v0] r IH]; cbn [ins lookup]; intros Hs.
    - reflexivity.
    - destruct Hs as [Hf Hs]. cbn [fst] in Hf.
      destruct (N.ltb_spec k k0) as [Hlt|Hge].
      + destruct (N.eqb_spec k k0); [lia|].
        rewrite lookup_above; [reflexivity|].
        eapply Forall_impl; [|exact Hf]. cbn. intros a Ha. lia.
      + destruct (N.eqb_spec k k0) as [->|Hne]; [reflexivity|].
        cbn [length]. rewrite IH by assumption.
        destruct (is_some (lookup k r)); reflexivity.
  Qed.

  Lemma length_del k m :
    sorted m ->
    length (del k m) = if is_some (lookup k m) then pred (length m) else length m.
  Proof.
    induction m as [|[k0 v0] r IH]; intros Hs.
    - reflexivity.
    - destruct Hs as [Hf Hs]. cbn [fst] in Hf. unfold del. cbn [filter fst lookup].
      destruct (N.eqb_spec k k0) as [->|Hne].
      + rewrite N.eqb_refl. cbn [negb is_some length pred].
        fold (del k0 r). rewrite del_id; [reflexivity|apply lookup_above; assumption].
      + destruct (N.eqb_spec k0 k); [congruence|]. cbn [negb length].
        fold (del k r). rewrite IH by assumption.
        destruct (lookup k r) eqn:E; cbn [is_some]; [|reflexivity].
        destruct r; [discriminate|reflexivity].
  Qed.

  Lemma lookup_some_nonempty k m v : lookup k m = Some v -> m <> [].
  Proof. destruct m; [discriminate|discriminate]. Qed.

  Lemma ins_nonempty k v m : ins k v m <> [].
  Proof.
    destruct m as [|[k0 v0] r]; cbn [ins]; [discriminate|].
    destruct (k <? k0); [discriminate|]. destruct (k =? k0); discriminate.
  Qed.
End MapFacts.

(** Maps which keep the keys. *)
Lemma lookup_mapv {V W : Type} (f : V -> W) k (m : list (N * V)) :
  lookup k (map (fun kv => (fst kv, f (snd kv))) m) = option_map f (lookup k m).
Proof.
  induction m as [|[k0 v0] r IH]; cbn [map lookup fst snd].
  - reflexivity.
  - destruct (k =? k0); [reflexivity|exact IH].
Qed.

Lemma sorted_mapv {V W : Type} (f : V -> W) (m : list (N * V)) :
  sorted m -> sorted (map (fun kv => (fst kv, f (snd kv))) m).
Proof.
  induction m as [|kv r IH]; cbn [map sorted]; intros Hs.
  - exact I.
  - destruct Hs as [Hf Hs]. split; [|apply IH; assumption].
    rewrite Forall_map. eapply Forall_impl; [|exact Hf]. cbn. auto.
Qed.

Lemma mapv_del {V W : Type} (f : V -> W) k (m : list (N * V)) :
  map (fun kv => (fst kv, f (snd kv))) (del k m) = del k (map (fun kv => (fst kv, f (snd kv))) m).
Proof.
  unfold del. induction m as [|kv r IH]; cbn [map filter fst].
  - reflexivity.
  - destruct (negb (fst kv =? k)); cbn [map]; rewrite IH; reflexivity.
Qed.

Lemma mapv_ins {V W : Type} (f : V -> W) k v (m : list (N * V)) :
  map (fun kv => (fst kv, f (snd kv))) (ins k v m) = ins k (f v) (map (fun kv => (fst kv, f (snd kv))) m).
Proof.
  induction m as [|[k0 v0] r IH]; cbn [map ins fst snd].
  - reflexivity.
  - destruct (k <? k0); [reflexivity|].
    destruct (k =? k0); cbn [map fst snd]; [reflexivity|]. rewrite IH. reflexivity.
Qed.

Lemma proj_as_mapv m : proj m = map (fun kv => (fst kv, fst (snd kv))) m.
Proof. reflexivity. Qed.

Lemma lookup_proj k m : lookup k (proj m) = option_map fst (lookup k m).
Proof. apply (lookup_mapv fst). Qed.

Lemma sorted_proj m : sorted m -> sorted (proj m).
Proof. apply (sorted_mapv fst). Qed.

Lemma proj_del k m : proj (del k m) = del k (proj m).
Proof. apply (mapv_del fst). Qed.

Lemma proj_ins k p n m : proj (ins k (p, n) m) = ins k p (proj m).
Proof. apply (mapv_ins fst). Qed.

Lemma proj_nil_iff m : proj m = [] <-> m = [].
Proof. destruct m; cbn; split; intros H; try reflexivity; discriminate. Qed.

(** * Batches *)

Definition ov (p : N) : option N := if p =? 0 then None else Some p.
Definition overlay (u x : option N) : option N :=
  match u with Some p => ov p | None => x end.

Lemma lookup_apply_one k c kp :
  lookup k (apply_one c kp) = if k =? fst kp then ov (snd kp) else lookup k c.
Proof.
  unfold apply_one, ov. destruct (snd kp =? 0).
  - apply lookup_del.
  - apply lookup_ins.
Qed.

Lemma sorted_apply_one c kp : sorted c -> sorted (apply_one c kp).
Proof.
  unfold apply_one. destruct (snd kp =? 0); [apply sorted_del|apply sorted_ins].
Qed.

Lemma sorted_apply_lenient b : forall c, sorted c -> sorted (apply_lenient c b).
Proof.
  unfold apply_lenient. induction b as [|kp r IH]; intros c Hc; cbn [fold_left].
  - exact Hc.
  - apply IH. apply sorted_apply_one. exact Hc.
Qed.

Lemma lookup_apply_lenient k b : forall c,
  sorted b ->
  lookup k (apply_lenient c b) = overlay (lookup k b) (lookup k c).
Proof.
  unfold apply_lenient. induction b as [|[k1 p1] r IH]; intros c Hb; cbn [fold_left lookup].
  - reflexivity.
  - destruct Hb as [Hf Hs]. cbn [fst] in Hf.
    rewrite IH by exact Hs. rewrite lookup_apply_one. cbn [fst snd].
    destruct (N.eqb_spec k k1) as [->|Hne].
    + rewrite lookup_above by exact Hf. reflexivity.
    + reflexivity.
Qed.

Lemma proj_apply_named b : forall m, proj (apply_named m b) = apply_lenient (proj m) b.
Proof.
  unfold apply_named, apply_lenient. induction b as [|[k p] r IH]; intros m; cbn [fold_left fst snd].
  - reflexivity.
  - rewrite IH. f_equal. unfold apply_one. cbn [fst snd].
    destruct (p =? 0); [apply proj_del|apply proj_ins].
Qed.

Lemma sorted_apply_named b : forall m, sorted m -> sorted (apply_named m b).
Proof.
  unfold apply_named. induction b as [|[k p] r IH]; intros m Hm; cbn [fold_left fst snd].
  - exact Hm.
  - apply IH. destruct (p =? 0); [apply sorted_del|apply sorted_ins]; exact Hm.
Qed.

Lemma length_apply_named_le b : forall m,
  (length (apply_named m b) <= length m + length b)%nat.
Proof.
  unfold apply_named. induction b as [|[k p] r IH]; intros m; cbn [fold_left fst snd length].
  - lia.
  - etransitivity; [apply IH|].
    destruct (p =? 0).
    + pose proof (length_del_le k m). lia.
    + pose proof (length_ins_le k (p, 0) m). lia.
Qed.

Lemma sorted_nodup_keys {V : Type} (m : list (N * V)) : sorted m -> has_dup (map fst m) = false.
Proof.
  induction m as [|[k v] r IH]; cbn [map has_dup fst]; intros Hs.
  - reflexivity.
  - destruct Hs as [Hf Hs]. cbn [fst] in Hf. rewrite IH by exact Hs. rewrite orb_false_r.
    clear IH Hs. induction r as [|[k' v'] r IH]; cbn [map existsb fst].
    + reflexivity.
    + inversion Hf; subst. cbn [fst] in H1.
      destruct (N.eqb_spec k k'); [lia|]. cbn [orb]. apply IH; assumption.
Qed.

(** * Last power of a key in a list of actions *)

Lemma last_power_app k l1 l2 :
  last_power k (l1 ++ l2) =
  match last_power k l2 with Some p => Some p | None => last_power k l1 end.
Proof.
  induction l1 as [|a r IH]; cbn [app last_power].
  - destruct (last_power k l2); reflexivity.
  - rewrite IH. destruct (last_power k l2); [reflexivity|]. reflexivity.
Qed.

Lemma last_power_In k l p :
  last_power k l = Some p -> exists a, In a l /\ a_key a = k /\ a_power a = p.
Proof.
  induction l as [|a r IH]; cbn [last_power]; intros H.
  - discriminate.
  - destruct (last_power k r) as [q|] eqn:E.
    + injection H as <-. destruct (IH eq_refl) as [a' [Hin Ha']].
      exists a'. split; [right; exact Hin|exact Ha'].
    + destruct (N.eqb_spec (a_key a) k) as [Hk|]; [|discriminate].
      injection H as <-. exists a. split; [left; reflexivity|split; [exact Hk|reflexivity]].
Qed.

Lemma last_power_of_In k l a :
  In a l -> a_key a = k -> exists p, last_power k l = Some p.
Proof.
  induction l as [|a0 r IH]; cbn [last_power]; intros Hin Hk.
  - destruct Hin.
  - destruct (last_power k r) as [q|] eqn:E; [exists q; reflexivity|].
    destruct Hin as [->|Hin].
    + rewrite Hk, N.eqb_refl. eexists; reflexivity.
    + destruct (IH Hin Hk) as [p Hp]. discriminate.
Qed.

(** * Execution inside one block *)

(** [s0] is the stored set when the block's transactions start to execute. *)
Definition mid (s0 : list (N * (N * N))) (st : vstate) : Prop :=
  sorted (st_upds st) /\
  if st_aspen st then
    sorted (st_vals st) /\ st_count st = Some (vlen (st_vals st)) /\
    (forall k, option_map fst (lookup k (st_vals st)) =
               overlay (lookup k (st_upds st)) (option_map fst (lookup k s0)))
  else st_vals st = s0.

(** Bound on the size the stored set can have at the end of the block. *)
Definition psi (st : vstate) : nat :=
  (length (st_vals st) + (if st_aspen st then 0 else length (st_upds st)))%nat.

Definition same_cfg (st st' : vstate) : Prop :=
  st_aspen st' = st_aspen st /\ st_sudo st' = st_sudo st /\
  st_height st' = st_height st /\ st_aspen_h st' = st_aspen_h st.

Lemma same_cfg_refl st : same_cfg st st.
Proof. repeat split. Qed.

Lemma same_cfg_trans a b c : same_cfg a b -> same_cfg b c -> same_cfg a c.
Proof. unfold same_cfg. intros (?&?&?&?) (?&?&?&?). repeat split; congruence. Qed.

Definition rem_in (s0 : list (N * (N * N))) (a : action) : Prop :=
  a_power a = 0 -> is_some (lookup (a_key a) s0) = true.

Lemma vlen_pred {A} (l : list A) : N.of_nat (pred (length l)) = vlen l - 1.
Proof. unfold vlen. lia. Qed.

Lemma exec_action_ok s0 st sg a st' :
  mid s0 st -> N.of_nat (psi st) < U64_MAX ->
  exec_action st sg a = Ok st' ->
  mid s0 st' /\ (psi st' <= S (psi st))%nat /\ same_cfg st st' /\
  st_nonces st' = st_nonces st /\
  (forall k, lookup k (st_upds st') =
             if k =? a_key a then Some (a_power a) else lookup k (st_upds st)) /\
  (a_power a = 0 -> is_some (lookup (a_key a) (st_vals st)) = true) /\
  (st_aspen st = true -> st_vals st <> [] -> st_vals st' <> []).
Proof.
  intros [Hsu Hm] Hb. unfold exec_action, check, psi in *.
  destruct (negb (sg =? st_sudo st)); [discriminate|].
  destruct (st_aspen st) eqn:Ea; cbn [negb] in *.
  - (* post-Aspen *)
    destruct Hm as (Hsv & Hc & Hrel). rewrite Hc.
    assert (Hlen : vlen (st_vals st) < U64_MAX) by (unfold vlen; lia).
    destruct (N.eqb_spec (a_power a) 0) as [Hp|Hp].
    + (* removal *)
      destruct (N.ltb_spec 1 (vlen (st_vals st))) as [H1|]; cbn [negb]; [|discriminate].
      destruct (lookup (a_key a) (st_vals st)) as [v|] eqn:El; cbn [is_some negb]; [|discriminate].
      intros H; injection H as <-. unfold mid, same_cfg. cbn.
      rewrite Ea. repeat split; cbn; try reflexivity.
      * apply sorted_ins; exact Hsu.
      * apply sorted_del; exact Hsv.
      * unfold saturating_sub. f_equal. unfold vlen at 2.
        rewrite length_del by exact Hsv. rewrite El. cbn [is_some]. rewrite vlen_pred. reflexivity.
      * intros k. rewrite lookup_del, lookup_ins.
        destruct (k =? a_key a); [rewrite Hp; reflexivity|apply Hrel].
      * pose proof (length_del_le (a_key a) (st_vals st)). lia.
      * intros k. apply lookup_ins.
      * intros _ _ Hnil.
        pose proof (length_del (a_key a) (st_vals st) Hsv) as Hl. rewrite El in Hl. cbn [is_some] in Hl.
        rewrite Hnil in Hl. cbn [length] in Hl. unfold vlen in H1. lia.
    + (* addition or change *)
      destruct (lookup (a_key a) (st_vals st)) as [v|] eqn:El; cbn [is_some].
      * intros H; injection H as <-. unfold mid, same_cfg. cbn.
        rewrite Ea. repeat split; cbn; try reflexivity.
        -- apply sorted_ins; exact Hsu.
        -- apply sorted_ins; exact Hsv.
        -- rewrite Hc. f_equal. unfold vlen. rewrite length_ins by exact Hsv. rewrite El. reflexivity.
        -- intros k. rewrite !lookup_ins.
           destruct (k =? a_key a); [|apply Hrel].
           cbn. unfold ov. destruct (N.eqb_spec (a_power a) 0); [contradiction|reflexivity].
        -- pose proof (length_ins_le (a_key a) (a_power a, a_name a) (st_vals st)). lia.
        -- intros k. apply lookup_ins.
        -- intros _ _. apply ins_nonempty.
      * intros H; injection H as <-. unfold mid, same_cfg. cbn.
        rewrite Ea. repeat split; cbn; try reflexivity.
        -- apply sorted_ins; exact Hsu.
        -- apply sorted_ins; exact Hsv.
        -- f_equal. unfold saturating_add, vlen. rewrite length_ins by exact Hsv. rewrite El.
           cbn [is_some]. unfold vlen in Hlen. lia.
        -- intros k. rewrite !lookup_ins.
           destruct (k =? a_key a); [|apply Hrel].
           cbn. unfold ov. destruct (N.eqb_spec (a_power a) 0); [contradiction|reflexivity].
        -- pose proof (length_ins_le (a_key a) (a_power a, a_name a) (st_vals st)). lia.
        -- intros k. apply lookup_ins.
        -- intros Hz. contradiction.
        -- intros _ _. apply ins_nonempty.
  - (* pre-Aspen *)
    assert (Hgoal : forall stx, stx = set_upds st (ins (a_key a) (a_power a) (st_upds st)) ->
      (a_power a = 0 -> is_some (lookup (a_key a) (st_vals st)) = true) ->
      mid s0 stx /\ (psi stx <= S (psi st))%nat /\ same_cfg st stx /\
      st_nonces stx = st_nonces st /\
      (forall k, lookup k (st_upds stx) =
                 if k =? a_key a then Some (a_power a) else lookup k (st_upds st)) /\
      (a_power a = 0 -> is_some (lookup (a_key a) (st_vals st)) = true) /\
      (false = true -> st_vals st <> [] -> st_vals stx <> [])).
    { intros stx -> Hrem. unfold mid, psi, same_cfg. cbn. rewrite Ea. repeat split; try reflexivity.
      - apply sorted_ins; exact Hsu.
      - exact Hm.
      - pose proof (length_ins_le (a_key a) (a_power a) (st_upds st)). lia.
      - intros k. apply lookup_ins.
      - exact Hrem.
      - discriminate. }
    unfold psi in Hgoal. rewrite Ea in Hgoal.
    destruct (N.eqb_spec (a_power a) 0) as [Hp|Hp].
    + destruct (lookup (a_key a) (st_vals st)) as [v|] eqn:El; [|discriminate].
      destruct (vlen (st_vals st) =? 1); [discriminate|].
      intros H; injection H as <-. apply Hgoal; [reflexivity|]. intros _. reflexivity.
    + intros H; injection H as <-. apply Hgoal; [reflexivity|]. intros Hz; contradiction.
Qed.

Definition track (k : N) (l : list action) (old : option N) : option N :=
  match last_power k l with Some p => Some p | None => old end.

Lemma exec_actions_ok s0 sg l : forall st st',
  mid s0 st -> N.of_nat (psi st + length l) < U64_MAX ->
  exec_actions st sg l = Ok st' ->
  mid s0 st' /\ (psi st' <= psi st + length l)%nat /\ same_cfg st st' /\
  st_nonces st' = st_nonces st /\
  (forall k, lookup k (st_upds st') = track k l (lookup k (st_upds st))) /\
  (st_aspen st = false -> Forall (rem_in s0) l) /\
  (st_aspen st = true -> st_vals st <> [] -> st_vals st' <> []).
Proof.
  induction l as [|a r IH]; intros st st' Hm Hb; cbn [exec_actions].
  - intros H; injection H as <-. unfold track. cbn [last_power length].
    split; [exact Hm|]. split; [lia|]. split; [apply same_cfg_refl|].
    split; [reflexivity|]. split; [reflexivity|]. split; [intros _; constructor|auto].
  - destruct (exec_action st sg a) as [st1|e] eqn:E1; [|discriminate].
    cbn [length] in Hb.
    destruct (exec_action_ok s0 st sg a st1 Hm ltac:(lia) E1)
      as (Hm1 & Hp1 & Hc1 & Hn1 & Hu1 & Hr1 & He1).
    intros E2.
    destruct (IH st1 st' Hm1 ltac:(lia) E2) as (Hm2 & Hp2 & Hc2 & Hn2 & Hu2 & Hr2 & He2).
    assert (Ha1 : st_aspen st1 = st_aspen st) by apply Hc1.
    split; [exact Hm2|]. split; [cbn [length]; lia|].
    split; [eapply same_cfg_trans; eassumption|].
    split; [congruence|].
    split; [|split].
    + intros k. rewrite Hu2, Hu1. unfold track. cbn [last_power].
      destruct (last_power k r); [reflexivity|].
      rewrite (N.eqb_sym (a_key a) k). destruct (k =? a_key a); reflexivity.
    + intros Ea. constructor.
      * intros Hz. destruct Hm as [_ Hm]. rewrite Ea in Hm. rewrite <- Hm. apply Hr1; exact Hz.
      * apply Hr2. congruence.
    + intros Ea Hne. apply He2; [congruence|]. apply He1; assumption.
Qed.

Lemma mid_set_nonces s0 st n : mid s0 st -> mid s0 (set_nonces st n).
Proof. unfold mid. cbn. auto. Qed.

Lemma exec_tx_ok s0 st t st' :
  mid s0 st -> N.of_nat (psi st + length (t_acts t)) < U64_MAX ->
  exec_tx st t = Ok st' ->
  mid s0 st' /\ (psi st' <= psi st + length (t_acts t))%nat /\ same_cfg st st' /\
  (forall k, lookup k (st_upds st') = track k (t_acts t) (lookup k (st_upds st))) /\
  (st_aspen st = false -> Forall (rem_in s0) (t_acts t)) /\
  (st_aspen st = true -> st_vals st <> [] -> st_vals st' <> []).
Proof.
  intros Hm Hb. unfold exec_tx.
  destruct (negb (nonce_of st (t_signer t) =? t_nonce t)); [discriminate|].
  destruct (checked_add U32_MAX (nonce_of st (t_signer t)) 1) as [n'|]; [|discriminate].
  intros E.
  pose proof (exec_actions_ok s0 (t_signer t) (t_acts t)
                (set_nonces st (ins (t_signer t) n' (st_nonces st))) st'
                (mid_set_nonces _ _ _ Hm) Hb E) as (H1 & H2 & H3 & _ & H5 & H6 & H7).
  split; [exact H1|]. split; [exact H2|]. split; [exact H3|].
  split; [exact H5|]. split; [exact H6|exact H7].
Qed.

Fixpoint acts_of (txs : list tx) : nat :=
  match txs with [] => 0%nat | t :: r => (length (t_acts t) + acts_of r)%nat end.

Lemma track_app k l1 l2 old : track k (l1 ++ l2) old = track k l2 (track k l1 old).
Proof.
  unfold track. rewrite last_power_app.
  destruct (last_power k l2); [reflexivity|]. reflexivity.
Qed.

Lemma run_txs_ok s0 md st0 txs : forall st st' rs,
  mid s0 st -> N.of_nat (psi st + acts_of txs) < U64_MAX ->
  run_txs md st0 st txs = (st', rs) ->
  mid s0 st' /\ (psi st' <= psi st + acts_of txs)%nat /\ same_cfg st st' /\
  (forall k, lookup k (st_upds st') = track k (succ_acts txs rs) (lookup k (st_upds st))) /\
  (st_aspen st = false -> Forall (rem_in s0) (succ_acts txs rs)) /\
  (st_aspen st = true -> st_vals st <> [] -> st_vals st' <> []).
Proof.
  induction txs as [|t r IH]; intros st st' rs Hm Hb; cbn [run_txs acts_of] in *.
  - intros H; injection H as <- <-. unfold track. cbn [succ_acts last_power].
    split; [exact Hm|]. split; [lia|]. split; [apply same_cfg_refl|].
    split; [reflexivity|]. split; [intros _; constructor|auto].
  - destruct (match md with Finalize => negb (constructible st0 t) | Propose => false end).
    + destruct (run_txs md st0 st r) as [st2 rs2] eqn:E2.
      intros H; injection H as <- <-.
      destruct (IH st st2 rs2 Hm ltac:(lia) E2) as (H1 & H2 & H3 & H4 & H5 & H6).
      cbn [succ_acts]. split; [exact H1|]. split; [lia|]. split; [exact H3|].
      split; [exact H4|]. split; [exact H5|exact H6].
    + destruct (exec_tx st t) as [st1|e] eqn:E1.
      * destruct (run_txs md st0 st1 r) as [st2 rs2] eqn:E2.
        intros H; injection H as <- <-.
        destruct (exec_tx_ok s0 st t st1 Hm ltac:(lia) E1) as (A1 & A2 & A3 & A4 & A5 & A6).
        destruct (IH st1 st2 rs2 A1 ltac:(lia) E2) as (H1 & H2 & H3 & H4 & H5 & H6).
        assert (Ha1 : st_aspen st1 = st_aspen st) by apply A3.
        cbn [succ_acts]. split; [exact H1|]. split; [lia|].
        split; [eapply same_cfg_trans; eassumption|].
        split; [|split].
        -- intros k. rewrite H4, A4. symmetry. apply track_app.
        -- intros Ea. apply Forall_app. split; [apply A5; exact Ea|apply H5; congruence].
        -- intros Ea Hne. apply H6; [congruence|]. apply A6; assumption.
      * destruct (run_txs md st0 st r) as [st2 rs2] eqn:E2.
        intros H; injection H as <- <-.
        destruct (IH st st2 rs2 Hm ltac:(lia) E2) as (H1 & H2 & H3 & H4 & H5 & H6).
        cbn [succ_acts]. split; [exact H1|]. split; [lia|]. split; [exact H3|].
        split; [exact H4|]. split; [exact H5|exact H6].
Qed.

(** * One block *)

(** Invariant between blocks; [c] is CometBFT's set. *)
Definition binv (st : vstate) (c : cset) : Prop :=
  sorted (st_vals st) /\ proj (st_vals st) = c /\ st_upds st = [] /\
  (st_aspen st = true -> st_count st = Some (vlen (st_vals st))).

Lemma In_lookup_sorted {V : Type} (m : list (N * V)) k v :
  sorted m -> In (k, v) m -> lookup k m = Some v.
Proof.
  induction m as [|[k0 v0] r IH]; intros Hs Hin.
  - destruct Hin.
  - destruct Hs as [Hf Hs]. cbn [fst] in Hf. cbn [lookup].
    destruct Hin as [E|Hin].
    + injection E as -> ->. rewrite N.eqb_refl. reflexivity.
    + rewrite Forall_forall in Hf. specialize (Hf _ Hin). cbn in Hf.
      destruct (N.eqb_spec k k0); [lia|]. apply IH; assumption.
Qed.

Lemma migrate_keys st k :
  is_some (lookup k (st_vals (migrate st))) = is_some (lookup k (st_vals st)).
Proof.
  unfold migrate. cbn.
  rewrite (lookup_mapv (fun pn : N * N => (fst pn, 0))).
  destruct (lookup k (st_vals st)); reflexivity.
Qed.

Lemma pre_exec_keys st h k :
  is_some (lookup k (st_vals (pre_exec st h))) = is_some (lookup k (st_vals st)).
Proof. unfold pre_exec. destruct (st_aspen_h st =? h); [apply migrate_keys|reflexivity]. Qed.

Lemma proj_migrate st : proj (st_vals (migrate st)) = proj (st_vals st).
Proof.
  unfold migrate, proj. cbn. rewrite map_map. apply map_ext. intros [k [p n]]. reflexivity.
Qed.

Lemma mid_start st c h :
  binv st c ->
  let st1 := pre_exec st h in
  mid (st_vals st1) st1 /\ proj (st_vals st1) = c /\ sorted (st_vals st1) /\
  psi st1 = length (st_vals st) /\ st_upds st1 = [] /\
  (st_aspen st = true -> st_aspen st1 = true) /\
  (st_vals st <> [] -> st_vals st1 <> []) /\
  st_aspen_h st1 = st_aspen_h st /\ st_height st1 = st_height st.
Proof.
  intros (Hs & Hp & Hu & Hc). unfold pre_exec.
  destruct (st_aspen_h st =? h).
  - cbn zeta. unfold mid, psi. cbn. rewrite Hu. cbn.
    assert (Hs' : sorted (map (fun kv : N * (N * N) => (fst kv, (fst (snd kv), 0))) (st_vals st)))
      by (apply (sorted_mapv (fun pn : N * N => (fst pn, 0))); exact Hs).
    repeat split; try assumption; try reflexivity.
    + unfold vlen. rewrite map_length. reflexivity.
    + rewrite <- Hp. apply (proj_migrate st).
    + rewrite map_length. lia.
    + intros Hne Hnil. apply map_eq_nil in Hnil. contradiction.
  - cbn zeta. unfold mid, psi. rewrite Hu. cbn [length].
    split.
    + split; [exact I|].
      destruct (st_aspen st) eqn:Ea; [|reflexivity].
      split; [exact Hs|]. split; [apply Hc; reflexivity|]. intros k. reflexivity.
    + repeat split; try assumption; try reflexivity; auto;
        try (destruct (st_aspen st); lia).
Qed.

Lemma existsb_false {A} (f : A -> bool) l :
  (forall x, In x l -> f x = false) -> existsb f l = false.
Proof.
  intros H. apply not_true_is_false. intros E. apply existsb_exists in E.
  destruct E as [x [Hin Hx]]. rewrite H in Hx by exact Hin. discriminate.
Qed.

Lemma forallb_false {A} (f : A -> bool) l :
  forallb f l = false -> exists x, In x l /\ f x = false.
Proof.
  induction l as [|x r IH]; cbn [forallb]; intros H.
  - discriminate.
  - destruct (f x) eqn:E.
    + destruct (IH H) as [y [Hin Hy]]. exists y. split; [right; exact Hin|exact Hy].
    + exists x. split; [left; reflexivity|exact E].
Qed.

Lemma run_block_ok st c b st' batch rs :
  binv st c -> N.of_nat (length (st_vals st) + acts_of (b_txs b)) < U64_MAX ->
  run_block st b = (st', batch, rs) ->
  binv st' (apply_lenient c batch) /\
  (length (st_vals st') <= length (st_vals st) + acts_of (b_txs b))%nat /\
  (st_aspen st = true -> st_aspen st' = true) /\
  st_aspen_h st' = st_aspen_h st /\ st_height st' = st_height st + 1 /\
  (st_vals st <> [] -> block_known st b = false ->
   apply_updates c batch = Some (apply_lenient c batch) /\ st_vals st' <> []).
Proof.
  intros Hb Hsz Hrun.
  assert (Hknown : block_known st b =
            let st1 := pre_exec st (st_height st + 1) in
            known_a st1 (succ_acts (b_txs b) rs) || known_b st1 (succ_acts (b_txs b) rs)).
  { unfold block_known, block_class. rewrite Hrun. reflexivity. }
  unfold run_block in Hrun.
  pose proof (mid_start st c (st_height st + 1) Hb) as Hstart. cbn zeta in Hstart, Hknown.
  set (st1 := pre_exec st (st_height st + 1)) in *.
  destruct Hstart as (Hm1 & Hp1 & Hs1 & Hpsi1 & Hu1 & Hasp1 & Hne1 & Hah1 & Hh1).
  destruct (run_txs (b_mode b) st st1 (b_txs b)) as [st2 rs2] eqn:Etx.
  unfold end_block in Hrun. injection Hrun as <- <- <-.
  destruct (run_txs_ok (st_vals st1) (b_mode b) st (b_txs b) st1 st2 rs2 Hm1 ltac:(lia) Etx)
    as (Hm2 & Hpsi2 & Hcfg & Htr & Hrem & Hne2).
  destruct Hcfg as (Ha2 & _ & Hh2 & Hah2).
  set (acts := succ_acts (b_txs b) rs2) in *.
  assert (Hlk : forall k, lookup k (st_upds st2) = last_power k acts).
  { intros k. rewrite Htr, Hu1. unfold track. cbn [lookup]. destruct (last_power k acts); reflexivity. }
  destruct Hm2 as [Hsu2 Hm2].
  assert (Hsc : sorted c) by (rewrite <- Hp1; apply sorted_proj; exact Hs1).
  (* the stored set after the block mirrors the lenient application *)
  assert (Hmirror : proj (if st_aspen st2 then st_vals st2 else apply_named (st_vals st2) (st_upds st2))
                    = apply_lenient c (st_upds st2)).
  { destruct (st_aspen st2) eqn:Ea.
    - destruct Hm2 as (Hsv2 & Hc2 & Hrel).
      apply sorted_ext; [apply sorted_proj; exact Hsv2|apply sorted_apply_lenient; exact Hsc|].
      intros k. rewrite lookup_proj, Hrel, lookup_apply_lenient by exact Hsu2.
      rewrite <- Hp1, lookup_proj. reflexivity.
    - rewrite Hm2, proj_apply_named, Hp1. reflexivity. }
  split; [|split; [|split; [|split; [|split]]]].
  - (* binv *)
    unfold binv. cbn. split; [|split; [exact Hmirror|split; [reflexivity|]]].
    + destruct (st_aspen st2) eqn:Ea.
      * apply Hm2.
      * apply sorted_apply_named. rewrite Hm2. exact Hs1.
    + intros Ea. rewrite Ea in *. apply Hm2.
  - cbn. rewrite Hpsi1 in Hpsi2. unfold psi in Hpsi2. destruct (st_aspen st2).
    + lia.
    + pose proof (length_apply_named_le (st_upds st2) (st_vals st2)). lia.
  - cbn. intros Ea. rewrite Ha2. apply Hasp1. exact Ea.
  - cbn. congruence.
  - cbn. reflexivity.
  - intros Hne Hkn. rewrite Hknown in Hkn. apply orb_false_iff in Hkn. destruct Hkn as [Hka Hkb].
    assert (Hne_res : apply_lenient c (st_upds st2) <> []).
    { destruct (st_aspen st2) eqn:Ea.
      - rewrite <- Hmirror. intros Hnil. apply proj_nil_iff in Hnil. revert Hnil.
        apply Hne2; [congruence|]. apply Hne1. exact Hne.
      - unfold known_b in Hkb. rewrite <- Ha2 in Hkb. cbn [negb andb] in Hkb.
        destruct (st_vals st1) as [|kv0 r0] eqn:Ev1; [exfalso; apply (Hne1 Hne); reflexivity|].
        cbn [negb andb] in Hkb. rewrite <- Ev1 in *.
        apply andb_false_iff in Hkb. destruct Hkb as [Hf|Hf]; apply forallb_false in Hf.
        + destruct Hf as [[k [p n]] [Hin Hx]]. cbn [fst] in Hx.
          assert (Hl0 : lookup k c = Some p).
          { rewrite <- Hp1, lookup_proj, (In_lookup_sorted _ _ _ Hs1 Hin). reflexivity. }
          apply (lookup_some_nonempty k _ (match last_power k acts with Some q => q | None => p end)).
          rewrite lookup_apply_lenient by exact Hsu2. rewrite Hlk, Hl0.
          destruct (last_power k acts) as [q|]; cbn [overlay]; [|reflexivity].
          unfold ov. destruct (N.eqb_spec q 0) as [->|]; [discriminate|reflexivity].
        + destruct Hf as [a [Hin Hx]].
          destruct (last_power_of_In (a_key a) acts a Hin eq_refl) as [q Hq]. rewrite Hq in Hx.
          apply (lookup_some_nonempty (a_key a) _ q).
          rewrite lookup_apply_lenient by exact Hsu2. rewrite Hlk, Hq. cbn [overlay].
          unfold ov. destruct (N.eqb_spec q 0) as [->|]; [discriminate|reflexivity]. }
    split.
    + unfold apply_updates.
      rewrite (sorted_nodup_keys _ Hsu2).
      rewrite existsb_false.
      * destruct (apply_lenient c (st_upds st2)); [contradiction|reflexivity].
      * intros [k p] Hin. cbn [fst snd].
        destruct (N.eqb_spec p 0) as [->|]; [|reflexivity]. cbn [andb].
        pose proof (In_lookup_sorted _ _ _ Hsu2 Hin) as Hl. rewrite Hlk in Hl.
        destruct (last_power_In _ _ _ Hl) as [a [Ha [Hk Hpw]]].
        assert (is_some (lookup k (st_vals st1)) = true) as Hex.
        { destruct (st_aspen st2) eqn:Ea.
          - unfold known_a in Hka. rewrite <- Ha2 in Hka. cbn [andb] in Hka.
            destruct (is_some (lookup k (st_vals st1))) eqn:Ex; [reflexivity|].
            exfalso.
            assert (existsb (fun a0 : action =>
               negb (is_some (lookup (a_key a0) (st_vals st1))) &&
               match last_power (a_key a0) acts with Some 0 => true | _ => false end) acts = true) as Hc.
            { apply existsb_exists. exists a. split; [exact Ha|]. rewrite Hk, Ex, Hl. reflexivity. }
            rewrite Hc in Hka. discriminate.
          - rewrite <- Hk. apply (proj1 (Forall_forall _ _) (Hrem ltac:(congruence)) a Ha). exact Hpw. }
        rewrite <- Hp1, lookup_proj. destruct (lookup k (st_vals st1)); [reflexivity|discriminate].
    + cbn. intros Hnil. apply Hne_res. rewrite <- Hmirror. rewrite Hnil. reflexivity.
Qed.

(** * Histories *)

Lemma acts_of_fold txs :
  fold_right (fun t m => (length (t_acts t) + m)%nat) 0%nat txs = acts_of txs.
Proof. induction txs as [|t r IH]; cbn; [reflexivity|rewrite IH; reflexivity]. Qed.

Lemma total_actions_cons b r :
  total_actions (b :: r) = (acts_of (b_txs b) + total_actions r)%nat.
Proof. unfold total_actions. cbn [fold_right]. rewrite acts_of_fold. reflexivity. Qed.

Lemma run_blocks_ok bs : forall st c st' batches,
  binv st c -> N.of_nat (length (st_vals st) + total_actions bs) < U64_MAX ->
  run_blocks st bs = (st', batches) ->
  binv st' (fold_lenient c batches) /\
  (st_vals st <> [] -> hist_any block_known st bs = false ->
   fold_strict c batches = Some (fold_lenient c batches) /\ st_vals st' <> []).
Proof.
  induction bs as [|b r IH]; intros st c st' batches Hb Hsz; cbn [run_blocks hist_any].
  - intros H; injection H as <- <-. cbn. split; [exact Hb|]. intros Hne _. split; [reflexivity|exact Hne].
  - rewrite total_actions_cons in Hsz.
    destruct (run_block st b) as [[st1 batch] rs] eqn:Eb.
    destruct (run_blocks st1 r) as [st2 batches2] eqn:Er.
    intros H; injection H as <- <-.
    destruct (run_block_ok st c b st1 batch rs Hb ltac:(lia) Eb) as (Hb1 & Hl1 & _ & _ & _ & Hstrict).
    destruct (IH st1 (apply_lenient c batch) st2 batches2 Hb1 ltac:(lia) Er) as (Hb2 & Hstrict2).
    cbn [fold_lenient fold_strict fst]. split; [exact Hb2|].
    intros Hne Hk. apply orb_false_iff in Hk. destruct Hk as [Hk1 Hk2].
    destruct (Hstrict Hne Hk1) as [Happ Hne1]. rewrite Happ.
    apply Hstrict2; assumption.
Qed.

(** * Genesis *)

Lemma sorted_fold_ins {V W : Type} (f : W -> N * V) (l : list W) : forall acc,
  sorted acc -> sorted (fold_left (fun m x => ins (fst (f x)) (snd (f x)) m) l acc).
Proof.
  induction l as [|x r IH]; intros acc Hs; cbn [fold_left]; [exact Hs|].
  apply IH. apply sorted_ins. exact Hs.
Qed.

Lemma genesis_vals_sorted c : sorted (st_vals (genesis c)).
Proof.
  cbn. apply (sorted_fold_ins (fun kp : N * N => (fst kp, (snd kp, 0)))). exact I.
Qed.

Lemma genesis_proj c : proj (st_vals (genesis c)) = cgenesis c.
Proof.
  unfold cgenesis. cbn.
  assert (H : forall l (a1 : list (N * (N * N))) (a2 : cset), proj a1 = a2 ->
    proj (fold_left (fun m kp => ins (fst kp) (snd kp, 0) m) l a1) =
    fold_left (fun m kp => ins (fst kp) (snd kp) m) l a2).
  { induction l as [|[k p] r IH]; intros a1 a2 Ha; cbn [fold_left fst snd]; [exact Ha|].
    apply IH. rewrite proj_ins, Ha. reflexivity. }
  apply H. reflexivity.
Qed.

Lemma genesis_length c : (length (st_vals (genesis c)) <= length (g_vals c))%nat.
Proof.
  cbn.
  assert (H : forall l (a : list (N * (N * N))),
    (length (fold_left (fun m kp => ins (fst kp) (snd kp, 0%N) m) l a) <= length a + length l)%nat).
  { induction l as [|[k p] r IH]; intros a; cbn [fold_left fst snd length]; [lia|].
    etransitivity; [apply IH|]. pose proof (length_ins_le k (p, 0) a). lia. }
  specialize (H (g_vals c) []). cbn [length] in H. lia.
Qed.

Lemma genesis_nonempty c : g_vals c <> [] -> st_vals (genesis c) <> [].
Proof.
  cbn. intros Hne.
  assert (H : forall l (a : list (N * (N * N))), (a <> [] \/ l <> []) ->
    fold_left (fun m kp => ins (fst kp) (snd kp, 0) m) l a <> []).
  { induction l as [|[k p] r IH]; intros a Ho; cbn [fold_left fst snd].
    - destruct Ho as [Ha|Hl]; [exact Ha|contradiction].
    - apply IH. left. apply ins_nonempty. }
  apply H. right. exact Hne.
Qed.

Lemma genesis_binv c : binv (genesis c) (cgenesis c).
Proof.
  unfold binv. split; [apply genesis_vals_sorted|]. split; [apply genesis_proj|].
  split; [reflexivity|]. cbn. discriminate.
Qed.

(** * The theorems *)

Lemma size_ok_genesis c bs :
  size_ok c bs -> N.of_nat (length (st_vals (genesis c)) + total_actions bs) < U64_MAX.
Proof. unfold size_ok. pose proof (genesis_length c). lia. Qed.

Theorem mirror : stmt_mirror.
Proof.
  intros c bs Hsz. destruct (run_blocks (genesis c) bs) as [st batches] eqn:E.
  destruct (run_blocks_ok bs _ _ _ _ (genesis_binv c) (size_ok_genesis c bs Hsz) E)
    as [(Hs & Hp & Hu & Hc) _].
  split; [symmetry; exact Hp|]. split; [exact Hc|exact Hu].
Qed.

Theorem applicable_outside_known : stmt_applicable_outside_known.
Proof.
  intros c bs Hne Hsz Hk. destruct (run_blocks (genesis c) bs) as [st batches] eqn:E.
  destruct (run_blocks_ok bs _ _ _ _ (genesis_binv c) (size_ok_genesis c bs Hsz) E)
    as [(Hs & Hp & Hu & Hc) Hstrict].
  destruct (Hstrict (genesis_nonempty c Hne) Hk) as [H1 H2].
  split; [rewrite H1, Hp; reflexivity|exact H2].
Qed.

Theorem witness_a_refutes : refutes witness_a_config witness_a_blocks.
Proof.
  unfold refutes. split; [discriminate|]. split; [vm_compute; reflexivity|].
  split; vm_compute; reflexivity.
Qed.

Theorem witness_b_refutes : refutes witness_b_config witness_b_blocks.
Proof.
  unfold refutes. split; [discriminate|]. split; [vm_compute; reflexivity|].
  split; vm_compute; reflexivity.
Qed.

Theorem updates_applicable_refuted : ~ stmt_updates_applicable.
Proof.
  intros H. specialize (H witness_b_config witness_b_blocks).
  destruct witness_b_refutes as (Hne & Hsz & _ & Hnone).
  specialize (H Hne Hsz).
  destruct (run_blocks (genesis witness_b_config) witness_b_blocks) as [st batches].
  cbn [snd] in Hnone. contradiction.
Qed.

(** * Class A needs the proposer's path *)

Definition check_ok (st : vstate) (sg : N) (a : action) : bool :=
  match check st sg a with Ok _ => true | Err _ => false end.

Lemma flat_map_nil {A B} (f : A -> list B) l :
  flat_map f l = [] -> forall x, In x l -> f x = [].
Proof.
  induction l as [|y r IH]; cbn [flat_map]; intros H x Hin.
  - destruct Hin.
  - apply app_eq_nil in H. destruct H as [H1 H2].
    destruct Hin as [->|Hin]; [exact H1|apply IH; assumption].
Qed.

Lemma constructible_spec st t :
  constructible st t =
  negb (t_nonce t <? nonce_of st (t_signer t)) && forallb (check_ok st (t_signer t)) (t_acts t).
Proof.
  unfold constructible, construct_errs.
  destruct (t_nonce t <? nonce_of st (t_signer t)); [reflexivity|]. cbn [negb andb].
  induction (t_acts t) as [|a r IH]; cbn [flat_map forallb]; [reflexivity|].
  unfold check_ok at 1. destruct (check st (t_signer t) a); cbn [app andb]; [exact IH|reflexivity].
Qed.

Lemma check_ok_removal st sg a :
  check_ok st sg a = true -> a_power a = 0 -> is_some (lookup (a_key a) (st_vals st)) = true.
Proof.
  unfold check_ok, check. intros H Hp. rewrite Hp in H. cbn [N.eqb] in H.
  destruct (negb (sg =? st_sudo st)); [discriminate|].
  destruct (negb (st_aspen st)).
  - destruct (lookup (a_key a) (st_vals st)); [reflexivity|discriminate].
  - destruct (st_count st); [|discriminate].
    destruct (negb (1 <? n)); [discriminate|].
    destruct (is_some (lookup (a_key a) (st_vals st))); [reflexivity|discriminate].
Qed.

Lemma succ_acts_constructible st0 txs : forall st st' rs a,
  run_txs Finalize st0 st txs = (st', rs) -> In a (succ_acts txs rs) ->
  exists t, In t txs /\ In a (t_acts t) /\ constructible st0 t = true.
Proof.
  induction txs as [|t r IH]; intros st st' rs a; cbn [run_txs].
  - intros H; injection H as <- <-. intros [].
  - destruct (constructible st0 t) eqn:Ec; cbn [negb].
    + destruct (exec_tx st t) as [st1|e].
      * destruct (run_txs Finalize st0 st1 r) as [st2 rs2] eqn:E2.
        intros H; injection H as <- <-. cbn [succ_acts]. intros Hin.
        apply in_app_or in Hin. destruct Hin as [Hin|Hin].
        -- exists t. split; [left; reflexivity|split; assumption].
        -- destruct (IH _ _ _ _ E2 Hin) as [t' [H1 H2]]. exists t'. split; [right; exact H1|exact H2].
      * destruct (run_txs Finalize st0 st r) as [st2 rs2] eqn:E2.
        intros H; injection H as <- <-. cbn [succ_acts]. intros Hin.
        destruct (IH _ _ _ _ E2 Hin) as [t' [H1 H2]]. exists t'. split; [right; exact H1|exact H2].
    + destruct (run_txs Finalize st0 st r) as [st2 rs2] eqn:E2.
      intros H; injection H as <- <-. cbn [succ_acts]. intros Hin.
      destruct (IH _ _ _ _ E2 Hin) as [t' [H1 H2]]. exists t'. split; [right; exact H1|exact H2].
Qed.

Lemma finalize_block_not_class_a st b :
  b_mode b = Finalize -> block_class known_a st b = false.
Proof.
  intros Hmode. unfold block_class.
  destruct (run_block st b) as [[st' batch] rs] eqn:Eb.
  unfold run_block in Eb. rewrite Hmode in Eb.
  set (st1 := pre_exec st (st_height st + 1)) in *.
  destruct (run_txs Finalize st st1 (b_txs b)) as [st2 rs2] eqn:Etx.
  unfold end_block in Eb. injection Eb as _ _ <-.
  unfold known_a. destruct (st_aspen st1); [cbn [andb]|reflexivity].
  apply existsb_false. intros a Hin.
  destruct (is_some (lookup (a_key a) (st_vals st1))) eqn:Ex; [reflexivity|]. cbn [negb andb].
  destruct (last_power (a_key a) (succ_acts (b_txs b) rs2)) as [p|] eqn:El; [|reflexivity].
  destruct (N.eqb_spec p 0) as [->|Hp]; [|destruct p; [contradiction|reflexivity]].
  exfalso.
  destruct (last_power_In _ _ _ El) as [a' [Hin' [Hk Hpw]]].
  destruct (succ_acts_constructible _ _ _ _ _ _ Etx Hin') as [t [Ht [Hat Hc]]].
  rewrite constructible_spec in Hc. apply andb_prop in Hc. destruct Hc as [_ Hc].
  rewrite forallb_forall in Hc. specialize (Hc a' Hat).
  pose proof (check_ok_removal _ _ _ Hc Hpw) as Hex.
  unfold st1 in Ex. rewrite pre_exec_keys in Ex. rewrite Hk in Hex. congruence.
Qed.

Theorem finalize_never_class_a : stmt_finalize_never_class_a.
Proof.
  intros c bs. generalize (genesis c). induction bs as [|b r IH]; intros st Hall; cbn [hist_any].
  - reflexivity.
  - inversion Hall; subst. rewrite finalize_block_not_class_a by assumption. cbn [orb].
    apply IH. assumption.
Qed.

(** The era flag, the activation height and the height are not touched by execution (no
    invariant needed). *)
Definition keeps (st st' : vstate) : Prop :=
  st_aspen st' = st_aspen st /\ st_aspen_h st' = st_aspen_h st /\ st_height st' = st_height st.

Lemma keeps_refl st : keeps st st.
Proof. repeat split. Qed.

Lemma keeps_trans a b c : keeps a b -> keeps b c -> keeps a c.
Proof. unfold keeps. intros (?&?&?) (?&?&?). repeat split; congruence. Qed.

Lemma exec_action_keeps st sg a st' : exec_action st sg a = Ok st' -> keeps st st'.
Proof.
  unfold exec_action. destruct (check st sg a) as [[[c ex]|]|e]; [| |discriminate].
  - intros H; injection H as <-.
    destruct (a_power a =? 0); [repeat split|]. destruct ex; repeat split.
  - intros H; injection H as <-. repeat split.
Qed.

Lemma exec_actions_keeps sg l : forall st st',
  exec_actions st sg l = Ok st' -> keeps st st'.
Proof.
  induction l as [|a r IH]; intros st st'; cbn [exec_actions].
  - intros H; injection H as <-. apply keeps_refl.
  - destruct (exec_action st sg a) as [st1|e] eqn:E; [|discriminate].
    intros H. eapply keeps_trans; [apply (exec_action_keeps _ _ _ _ E)|apply (IH _ _ H)].
Qed.

Lemma exec_tx_keeps st t st' : exec_tx st t = Ok st' -> keeps st st'.
Proof.
  unfold exec_tx. destruct (negb (nonce_of st (t_signer t) =? t_nonce t)); [discriminate|].
  destruct (checked_add U32_MAX (nonce_of st (t_signer t)) 1) as [n'|]; [|discriminate].
  intros H. apply exec_actions_keeps in H. exact H.
Qed.

Lemma run_txs_keeps md st0 txs : forall st st' rs,
  run_txs md st0 st txs = (st', rs) -> keeps st st'.
Proof.
  induction txs as [|t r IH]; intros st st' rs; cbn [run_txs].
  - intros H; injection H as <- <-. apply keeps_refl.
  - destruct (match md with Finalize => negb (constructible st0 t) | Propose => false end).
    + destruct (run_txs md st0 st r) as [st2 rs2] eqn:E2. intros H; injection H as <- <-.
      apply (IH _ _ _ E2).
    + destruct (exec_tx st t) as [st1|e] eqn:E1.
      * destruct (run_txs md st0 st1 r) as [st2 rs2] eqn:E2. intros H; injection H as <- <-.
        eapply keeps_trans; [apply (exec_tx_keeps _ _ _ E1)|apply (IH _ _ _ E2)].
      * destruct (run_txs md st0 st r) as [st2 rs2] eqn:E2. intros H; injection H as <- <-.
        apply (IH _ _ _ E2).
Qed.

Lemma pre_exec_cfg st h :
  st_aspen_h (pre_exec st h) = st_aspen_h st /\ st_height (pre_exec st h) = st_height st /\
  (st_aspen st = true \/ st_aspen_h st = h -> st_aspen (pre_exec st h) = true).
Proof.
  unfold pre_exec. destruct (N.eqb_spec (st_aspen_h st) h) as [E|E].
  - repeat split.
  - repeat split. intros [H|H]; [exact H|contradiction].
Qed.

Lemma run_block_cfg st b :
  let st' := fst (fst (run_block st b)) in
  st_aspen st' = st_aspen (pre_exec st (st_height st + 1)) /\
  st_aspen_h st' = st_aspen_h st /\ st_height st' = st_height st + 1.
Proof.
  unfold run_block.
  destruct (run_txs (b_mode b) st (pre_exec st (st_height st + 1)) (b_txs b)) as [st2 rs2] eqn:E.
  cbn. destruct (run_txs_keeps _ _ _ _ _ _ E) as (H1 & H2 & H3).
  destruct (pre_exec_cfg st (st_height st + 1)) as (H4 & H5 & _).
  repeat split; congruence.
Qed.

(** A chain on which Aspen activates at the next block, or has activated, has no class B block. *)
Lemma no_class_b bs : forall st,
  (st_aspen st = true \/ st_aspen_h st = st_height st + 1) ->
  hist_any (block_class known_b) st bs = false.
Proof.
  induction bs as [|b r IH]; intros st Ho; cbn [hist_any]; [reflexivity|].
  destruct (pre_exec_cfg st (st_height st + 1)) as (_ & _ & Hasp). specialize (Hasp Ho).
  destruct (run_block_cfg st b) as (H1 & H2 & H3). cbn zeta in H1, H2, H3.
  rewrite IH by (left; congruence). rewrite orb_false_r.
  unfold block_class. destruct (run_block st b) as [[st' batch] rs].
  unfold known_b. rewrite Hasp. reflexivity.
Qed.

Lemma hist_known_split bs : forall st,
  hist_any block_known st bs =
  hist_any (block_class known_a) st bs || hist_any (block_class known_b) st bs.
Proof.
  induction bs as [|b r IH]; intros st; cbn [hist_any]; [reflexivity|].
  rewrite IH.
  assert (E : block_known st b = block_class known_a st b || block_class known_b st b).
  { unfold block_known, block_class. destruct (run_block st b) as [[st' batch] rs]. reflexivity. }
  rewrite E.
  destruct (block_class known_a st b), (block_class known_b st b),
    (hist_any (block_class known_a) (fst (fst (run_block st b))) r),
    (hist_any (block_class known_b) (fst (fst (run_block st b))) r); reflexivity.
Qed.

Theorem applicable_post_aspen_finalize : stmt_applicable_post_aspen_finalize.
Proof.
  intros c bs Hne Hsz Hh Hall. apply applicable_outside_known; try assumption.
  rewrite hist_known_split.
  rewrite (finalize_never_class_a c bs Hall). cbn [orb].
  apply no_class_b. right. cbn. rewrite Hh. reflexivity.
Qed.

(** * Construction at the activation height *)

Lemma check_ok_migrate st sg a :
  st_aspen st = false -> check_ok (migrate st) sg a = check_ok st sg a.
Proof.
  intros Ea. unfold check_ok, check. cbn. rewrite Ea. cbn [negb].
  destruct (negb (sg =? st_sudo st)); [reflexivity|].
  rewrite (lookup_mapv (fun pn : N * N => (fst pn, 0))).
  destruct (a_power a =? 0); [|reflexivity].
  destruct (lookup (a_key a) (st_vals st)) as [v|] eqn:El; cbn [option_map is_some negb].
  - assert (Hl : 1 <= vlen (st_vals st)).
    { unfold vlen. destruct (st_vals st); [discriminate|cbn [length]; lia]. }
    destruct (N.eqb_spec (vlen (st_vals st)) 1) as [E1|E1].
    + rewrite E1. reflexivity.
    + destruct (N.ltb_spec 1 (vlen (st_vals st))); [reflexivity|lia].
  - destruct (negb (1 <? vlen (st_vals st))); reflexivity.
Qed.

Theorem construct_at_migration : stmt_construct_at_migration.
Proof.
  intros st t Ea. rewrite !constructible_spec.
  f_equal. induction (t_acts t) as [|a r IH]; cbn [forallb]; [reflexivity|].
  rewrite IH. rewrite (check_ok_migrate st (t_signer t) a Ea). reflexivity.
Qed.

(** * Non-vacuity *)

(** A history across the migration (Aspen at height 3): additions, a removal, a change of
    power, a transaction of a signer who is not sudo (rejected), a remove-then-add of one key in a
    proposer's block together with a transaction whose nonce is not the current one, an
    add-then-remove on the finalize path (the removal cannot be constructed). *)
Definition ex_cfg : config := mkConfig [(0, 10); (1, 10); (2, 10)] 0 3.
Definition ex_blocks : list block :=
  [ mkBlock Finalize [mkTx 0 0 [mkAction 5 7 1]];
    mkBlock Finalize [mkTx 0 1 [mkAction 1 0 0; mkAction 0 20 0]; mkTx 3 0 [mkAction 9 9 0]];
    mkBlock Finalize [mkTx 0 2 [mkAction 6 3 4]];
    mkBlock Propose  [mkTx 0 3 [mkAction 5 0 0]; mkTx 0 4 [mkAction 5 9 2]; mkTx 0 9 [mkAction 2 0 0]];
    mkBlock Finalize [mkTx 0 5 [mkAction 7 1 0]; mkTx 0 6 [mkAction 7 0 0]] ].

Example ex_hypotheses :
  g_vals ex_cfg <> [] /\ size_ok ex_cfg ex_blocks /\
  hist_any block_known (genesis ex_cfg) ex_blocks = false.
Proof. split; [discriminate|]. split; vm_compute; reflexivity. Qed.

Example ex_run :
  snd (run_blocks (genesis ex_cfg) ex_blocks) =
    [[(5, 7)]; [(0, 20); (1, 0)]; [(6, 3)]; [(5, 9)]; [(7, 1)]] /\
  st_vals (fst (run_blocks (genesis ex_cfg) ex_blocks)) =
    [(0, (20, 0)); (2, (10, 0)); (5, (9, 2)); (6, (3, 4)); (7, (1, 0))] /\
  st_count (fst (run_blocks (genesis ex_cfg) ex_blocks)) = Some 5 /\
  fold_strict (cgenesis ex_cfg) (snd (run_blocks (genesis ex_cfg) ex_blocks)) =
    Some [(0, 20); (2, 10); (5, 9); (6, 3); (7, 1)].
Proof. repeat split; vm_compute; reflexivity. Qed.

(** Post-Aspen from block 1, finalize path only: the removal of a key added in the same block
    cannot be constructed. *)
Definition ex2_cfg : config := mkConfig [(0, 10); (1, 10)] 0 1.
Definition ex2_blocks : list block :=
  [ mkBlock Finalize [];
    mkBlock Finalize [mkTx 0 0 [mkAction 7 5 0]; mkTx 0 1 [mkAction 7 0 0]];
    mkBlock Finalize [mkTx 0 1 [mkAction 7 0 0; mkAction 1 0 0]; mkTx 0 2 [mkAction 0 0 0]] ].

Example ex2_hypotheses :
  g_vals ex2_cfg <> [] /\ size_ok ex2_cfg ex2_blocks /\ g_aspen_h ex2_cfg = 1 /\ all_finalize ex2_blocks.
Proof.
  split; [discriminate|]. split; [vm_compute; reflexivity|]. split; [reflexivity|].
  repeat constructor.
Qed.

Example ex2_run :
  snd (run_block (fst (fst (run_block (genesis ex2_cfg) (mkBlock Finalize []))))
                 (mkBlock Finalize [mkTx 0 0 [mkAction 7 5 0]; mkTx 0 1 [mkAction 7 0 0]])) =
    [ROk; RConstructErr [EMissing]] /\
  snd (run_blocks (genesis ex2_cfg) ex2_blocks) = [[]; [(7, 5)]; [(1, 0); (7, 0)]] /\
  st_vals (fst (run_blocks (genesis ex2_cfg) ex2_blocks)) = [(0, (10, 0))] /\
  fold_strict (cgenesis ex2_cfg) (snd (run_blocks (genesis ex2_cfg) ex2_blocks)) = Some [(0, 10)].
Proof. repeat split; vm_compute; reflexivity. Qed.

(** At the activation height the two construction rules agree although they report different
    errors: removing an unknown key from a one-validator set. *)
Example ex_construct_at_migration :
  let st := genesis (mkConfig [(0, 10)] 0 1) in
  let t := mkTx 0 0 [mkAction 4 0 0] in
  st_aspen st = false /\
  construct_errs st t = [EMissing] /\ construct_errs (migrate st) t = [EOnly] /\
  constructible (migrate st) t = constructible st t.
Proof. repeat split; vm_compute; reflexivity. Qed.
