(** C14 — validator set mirror.  Executable, proof-free model of

    - crates/astria-sequencer/src/checked_actions/validator_update.rs
        ([do_run_mutable_checks], [execute], both eras),
    - crates/astria-sequencer/src/authority/component.rs
        ([init_chain], [handle_aspen_upgrade], [end_block]; [begin_block] only handles
        misbehaviour evidence, which the property excludes),
    - crates/astria-sequencer/src/authority/mod.rs ([ValidatorSet]: a [BTreeMap] keyed by the
        validator address; [apply_updates]),
    - crates/astria-sequencer/src/app/mod.rs ([finalize_block]: all transactions are constructed
        against the state at the start of the block, then executed one by one, a failing
        transaction is rolled back as a whole; [prepare_proposal]: transactions come from the
        mempool already constructed, and are only executed; [end_block] returns the block's
        update set and clears it),
    - crates/astria-sequencer/src/checked_transaction/mod.rs (nonce checks of construction and
        execution).

    Keys (validator addresses), signers and names are small integers (the harness' tables).
    Name 0 is the empty name.  Powers are [u32] values supplied by the script; no arithmetic is
    done on them.  The validator count is a [u64] with saturating +1 / -1.

    Abstracted (see REPORT): fees (the signer always has funds), the mempool (its builder queue is
    an input of a [Propose] block), cnidarium's state delta (a failing transaction returns the
    state it started from), everything in the state that is not the authority component. *)
From Astria Require Import Base.Bounded.

(** * Finite maps over [N] as strictly sorted association lists (the order of a [BTreeMap]) *)

Section SortedMap.
  Context {V : Type}.

  Fixpoint lookup (k : N) (m : list (N * V)) : option V :=
    match m with
    | [] => None
    | (k', v) :: r => if k =? k' then Some v else lookup k r
    end.

  Fixpoint ins (k : N) (v : V) (m : list (N * V)) : list (N * V) :=
    match m with
    | [] => [(k, v)]
    | (k', v') :: r =>
        if k <? k' then (k, v) :: m
        else if k =? k' then (k, v) :: r
        else (k', v') :: ins k v r
    end.

  Definition del (k : N) (m : list (N * V)) : list (N * V) :=
    filter (fun kv => negb (fst kv =? k)) m.
End SortedMap.

Definition vlen {A : Type} (l : list A) : N := N.of_nat (length l).

Definition is_some {A : Type} (o : option A) : bool :=
  match o with Some _ => true | None => false end.

(** * State *)

(** The part of the application state the authority component owns, plus account nonces. *)
Record vstate := mkState {
  st_aspen   : bool;                  (* upgrade change info of Aspen's ValidatorUpdateActionChange stored *)
  st_vals    : list (N * (N * N));    (* stored validator set: key -> (power, name) *)
  st_count   : option N;              (* stored validator count; absent before Aspen *)
  st_upds    : list (N * N);          (* the current block's validator updates: key -> power *)
  st_sudo    : N;
  st_nonces  : list (N * N);
  st_height  : N;
  st_aspen_h : N                      (* activation height of Aspen; 0 = not scheduled *)
}.

Definition set_vals (st : vstate) (v : list (N * (N * N))) : vstate :=
  mkState (st_aspen st) v (st_count st) (st_upds st) (st_sudo st) (st_nonces st) (st_height st) (st_aspen_h st).
Definition set_count (st : vstate) (c : option N) : vstate :=
  mkState (st_aspen st) (st_vals st) c (st_upds st) (st_sudo st) (st_nonces st) (st_height st) (st_aspen_h st).
Definition set_upds (st : vstate) (u : list (N * N)) : vstate :=
  mkState (st_aspen st) (st_vals st) (st_count st) u (st_sudo st) (st_nonces st) (st_height st) (st_aspen_h st).
Definition set_nonces (st : vstate) (n : list (N * N)) : vstate :=
  mkState (st_aspen st) (st_vals st) (st_count st) (st_upds st) (st_sudo st) n (st_height st) (st_aspen_h st).
Definition set_height (st : vstate) (h : N) : vstate :=
  mkState (st_aspen st) (st_vals st) (st_count st) (st_upds st) (st_sudo st) (st_nonces st) h (st_aspen_h st).
Definition set_aspen (st : vstate) (b : bool) : vstate :=
  mkState b (st_vals st) (st_count st) (st_upds st) (st_sudo st) (st_nonces st) (st_height st) (st_aspen_h st).

Definition nonce_of (st : vstate) (a : N) : N :=
  match lookup a (st_nonces st) with Some n => n | None => 0 end.

(** * Actions and transactions *)

Record action := mkAction { a_key : N; a_power : N; a_name : N }.
Record tx := mkTx { t_signer : N; t_nonce : N; t_acts : list action }.

Inductive err := ENonce | EAuth | EMissing | EOnly | ECount | EOverflow.

Inductive res (A : Type) := Ok (a : A) | Err (e : err).
Arguments Ok {A} a.
Arguments Err {A} e.

(** [CheckedValidatorUpdate::do_run_mutable_checks].  [Ok None] is the pre-Aspen result (no
    metadata), [Ok (Some (count, exists))] the post-Aspen one.  Pre-Aspen the existence check
    comes before the last-validator check; post-Aspen the count check comes first. *)
Definition check (st : vstate) (signer : N) (a : action) : res (option (N * bool)) :=
  if negb (signer =? st_sudo st) then Err EAuth
  else if negb (st_aspen st) then
    if a_power a =? 0 then
      match lookup (a_key a) (st_vals st) with
      | None => Err EMissing
      | Some _ => if vlen (st_vals st) =? 1 then Err EOnly else Ok None
      end
    else Ok None
  else
    match st_count st with
    | None => Err ECount
    | Some c =>
        let ex := is_some (lookup (a_key a) (st_vals st)) in
        if a_power a =? 0 then
          if negb (1 <? c) then Err EOnly
          else if negb ex then Err EMissing
          else Ok (Some (c, ex))
        else Ok (Some (c, ex))
    end.

(** [CheckedValidatorUpdate::execute].  The block's update set has the storage format of the
    pre-Aspen validator set, which does not keep names. *)
Definition exec_action (st : vstate) (signer : N) (a : action) : res vstate :=
  match check st signer a with
  | Err e => Err e
  | Ok meta =>
      let st1 :=
        match meta with
        | None => st
        | Some (c, ex) =>
            if a_power a =? 0 then
              set_count (set_vals st (del (a_key a) (st_vals st))) (Some (saturating_sub c 1))
            else
              let st' := if ex then st else set_count st (Some (saturating_add U64_MAX c 1)) in
              set_vals st' (ins (a_key a) (a_power a, a_name a) (st_vals st'))
        end in
      Ok (set_upds st1 (ins (a_key a) (a_power a) (st_upds st1)))
  end.

Fixpoint exec_actions (st : vstate) (signer : N) (l : list action) : res vstate :=
  match l with
  | [] => Ok st
  | a :: r =>
      match exec_action st signer a with
      | Err e => Err e
      | Ok st' => exec_actions st' signer r
      end
  end.

(** [CheckedTransaction::execute]: the nonce must be the current one; it is incremented; the
    actions run in order.  On [Err] the caller keeps the state it had (state delta dropped). *)
Definition exec_tx (st : vstate) (t : tx) : res vstate :=
  let cur := nonce_of st (t_signer t) in
  if negb (cur =? t_nonce t) then Err ENonce
  else match checked_add U32_MAX cur 1 with
       | None => Err EOverflow
       | Some n' => exec_actions (set_nonces st (ins (t_signer t) n' (st_nonces st))) (t_signer t) (t_acts t)
       end.

(** [CheckedTransaction::new]: the errors construction can report: a nonce below the current
    one, else the failing checks of the actions (all actions are checked against the same
    state; which of several failures is reported first depends on the scheduling of the state
    reads, so the model reports all of them). *)
Definition construct_errs (st : vstate) (t : tx) : list err :=
  if t_nonce t <? nonce_of st (t_signer t) then [ENonce]
  else flat_map (fun a => match check st (t_signer t) a with Err e => [e] | Ok _ => [] end) (t_acts t).

Definition constructible (st : vstate) (t : tx) : bool :=
  match construct_errs st t with [] => true | _ => false end.

(** * Block boundaries *)

(** [AuthorityComponent::handle_aspen_upgrade]: the stored set (which has no names) moves to
    per-validator entries, the count is created. *)
Definition migrate (st : vstate) : vstate :=
  set_aspen
    (set_count
       (set_vals st (map (fun kv => (fst kv, (fst (snd kv), 0))) (st_vals st)))
       (Some (vlen (st_vals st))))
    true.

(** [pre_execute_transactions] at height [h]: the upgrade, if it activates at [h]. *)
Definition pre_exec (st : vstate) (h : N) : vstate :=
  if st_aspen_h st =? h then migrate st else st.

(** [ValidatorSet::apply_updates] on the stored (named) set. *)
Definition apply_named (m : list (N * (N * N))) (b : list (N * N)) : list (N * (N * N)) :=
  fold_left (fun m kp => if snd kp =? 0 then del (fst kp) m else ins (fst kp) (snd kp, 0) m) b m.

(** [AuthorityComponent::end_block] followed by [App::end_block]: before Aspen the block's
    updates are applied to the stored set; in both eras they are returned and cleared. *)
Definition end_block (st : vstate) (h : N) : vstate * list (N * N) :=
  let batch := st_upds st in
  let vals' := if st_aspen st then st_vals st else apply_named (st_vals st) batch in
  (set_height (set_upds (set_vals st vals') []) h, batch).

(** * Blocks *)

(** [Finalize]: the path of [finalize_block] (and of [process_proposal] on a validator which is
    not the proposer): transactions are constructed against the state at the start of the
    block; the harness leaves a transaction that cannot be constructed out of the block (a real
    block containing one is rejected as a whole).
    [Propose]: the proposer's path: the transactions are the mempool's builder queue, constructed
    when they entered the mempool; [prepare_proposal] only executes them and includes those which
    succeed; [process_proposal] and [finalize_block] reuse that execution. *)
Inductive mode := Finalize | Propose.
Record block := mkBlock { b_mode : mode; b_txs : list tx }.

Inductive txres := RConstructErr (es : list err) | ROk | RFail (e : err).

Fixpoint run_txs (md : mode) (st0 st : vstate) (txs : list tx) : vstate * list txres :=
  match txs with
  | [] => (st, [])
  | t :: r =>
      let skip := match md with Finalize => negb (constructible st0 t) | Propose => false end in
      if skip then
        let '(st', rs) := run_txs md st0 st r in (st', RConstructErr (construct_errs st0 t) :: rs)
      else
        match exec_tx st t with
        | Ok st1 => let '(st', rs) := run_txs md st0 st1 r in (st', ROk :: rs)
        | Err e => let '(st', rs) := run_txs md st0 st r in (st', RFail e :: rs)
        end
  end.

(** One block: returns the state after commit, the validator updates returned to CometBFT and
    the per-transaction results.  Construction is evaluated on the committed state [st] (what
    the harness does); at the activation height [finalize_block] itself constructs after the
    migration, which accepts exactly the same transactions ([construct_migrate] in the proofs). *)
Definition run_block (st : vstate) (b : block) : vstate * list (N * N) * list txres :=
  let h := st_height st + 1 in
  let st1 := pre_exec st h in
  let '(st2, rs) := run_txs (b_mode b) st st1 (b_txs b) in
  let '(st3, batch) := end_block st2 h in
  (st3, batch, rs).

Fixpoint run_blocks (st : vstate) (bs : list block) : vstate * list (list (N * N)) :=
  match bs with
  | [] => (st, [])
  | b :: r =>
      let '(st1, batch, _) := run_block st b in
      let '(st', batches) := run_blocks st1 r in
      (st', batch :: batches)
  end.

(** * Genesis *)

Record config := mkConfig { g_vals : list (N * N); g_sudo : N; g_aspen_h : N }.

(** [AuthorityComponent::init_chain]: [ValidatorSet::new_from_updates] collects into a map. *)
Definition genesis (c : config) : vstate :=
  mkState false
    (fold_left (fun m kp => ins (fst kp) (snd kp, 0) m) (g_vals c) [])
    None [] (g_sudo c) [] 0 (g_aspen_h c).

(** * The CometBFT side *)

(** CometBFT's validator set as the application can know it: key -> voting power. *)
Definition cset := list (N * N).

Definition cgenesis (c : config) : cset :=
  fold_left (fun m kp => ins (fst kp) (snd kp) m) (g_vals c) [].

Definition apply_one (c : cset) (kp : N * N) : cset :=
  if snd kp =? 0 then del (fst kp) c else ins (fst kp) (snd kp) c.

(** Application of a batch without any validation. *)
Definition apply_lenient (c : cset) (b : list (N * N)) : cset := fold_left apply_one b c.

Fixpoint has_dup (l : list N) : bool :=
  match l with
  | [] => false
  | k :: r => existsb (N.eqb k) r || has_dup r
  end.

(** The rule of CometBFT's [ValidatorSet.UpdateWithChangeSet] (types/validator_set.go, and
    spec/abci "validator updates"): a batch with two entries for one key is an error; removing
    (power 0) a key which is not in the set is an error; a batch whose application leaves the set
    empty is an error; otherwise all entries are applied.  This rule is taken from CometBFT's
    documentation; CometBFT is not part of the repository.  (Its cap on the total voting power,
    2^60, is out of reach of [u32] powers and is not modelled.) *)
Definition apply_updates (c : cset) (b : list (N * N)) : option cset :=
  if has_dup (map fst b) then None
  else if existsb (fun kp => (snd kp =? 0) && negb (is_some (lookup (fst kp) c))) b then None
  else match apply_lenient c b with
       | [] => match b with [] => Some c | _ => None end
       | c' => Some c'
       end.

Fixpoint fold_lenient (c : cset) (bs : list (list (N * N))) : cset :=
  match bs with [] => c | b :: r => fold_lenient (apply_lenient c b) r end.

Fixpoint fold_strict (c : cset) (bs : list (list (N * N))) : option cset :=
  match bs with
  | [] => Some c
  | b :: r => match apply_updates c b with None => None | Some c' => fold_strict c' r end
  end.

(** The stored set as a CometBFT set: names forgotten. *)
Definition proj (m : list (N * (N * N))) : cset := map (fun kv => (fst kv, fst (snd kv))) m.

(** * The two known input classes (finding F6) *)

(** The actions of the block's successfully executed transactions, in order. *)
Fixpoint succ_acts (txs : list tx) (rs : list txres) : list action :=
  match txs, rs with
  | t :: txs', ROk :: rs' => t_acts t ++ succ_acts txs' rs'
  | _ :: txs', _ :: rs' => succ_acts txs' rs'
  | _, _ => []
  end.

(** Power of the last action on key [k]. *)
Fixpoint last_power (k : N) (l : list action) : option N :=
  match l with
  | [] => None
  | a :: r => match last_power k r with
              | Some p => Some p
              | None => if a_key a =? k then Some (a_power a) else None
              end
  end.

(** Class A: a post-Aspen block in which the successfully executed actions on some key that is
    NOT in the stored set at the start of the block end with a removal (so the key was added
    and removed again inside the block). *)
Definition known_a (st1 : vstate) (acts : list action) : bool :=
  st_aspen st1 &&
  existsb (fun a => negb (is_some (lookup (a_key a) (st_vals st1))) &&
                    match last_power (a_key a) acts with Some 0 => true | _ => false end) acts.

(** Class B: a pre-Aspen block which removes every validator of the (non-empty) stored set and
    leaves no key with a non-zero power. *)
Definition known_b (st1 : vstate) (acts : list action) : bool :=
  negb (st_aspen st1) &&
  negb (match st_vals st1 with [] => true | _ => false end) &&
  forallb (fun kv => match last_power (fst kv) acts with Some 0 => true | _ => false end) (st_vals st1) &&
  forallb (fun a => match last_power (a_key a) acts with Some 0 => true | _ => false end) acts.

(** A class evaluated on a block: [f] receives the state in which the block's transactions start
    to execute and the actions of its successfully executed transactions. *)
Definition block_class (f : vstate -> list action -> bool) (st : vstate) (b : block) : bool :=
  let st1 := pre_exec st (st_height st + 1) in
  let '(_, _, rs) := run_block st b in
  f st1 (succ_acts (b_txs b) rs).

Definition block_known : vstate -> block -> bool :=
  block_class (fun st1 acts => known_a st1 acts || known_b st1 acts).

(** Some block of the history is in the class. *)
Fixpoint hist_any (f : vstate -> block -> bool) (st : vstate) (bs : list block) : bool :=
  match bs with
  | [] => false
  | b :: r => f st b || hist_any f (fst (fst (run_block st b))) r
  end.

Definition total_actions (bs : list block) : nat :=
  fold_right (fun b n => (fold_right (fun t m => length (t_acts t) + m) 0 (b_txs b) + n)%nat) 0%nat bs.
