(** C14 — statements.  See ValidatorsModel.v for the model and for the provenance of the
    CometBFT rule [apply_updates] (CometBFT's documentation of
    [ValidatorSet.UpdateWithChangeSet]; CometBFT is not in the repository). *)
From Astria Require Import Base.Bounded Validators.ValidatorsModel.

(** The validator count is a [u64] maintained with saturating arithmetic; it can only leave the
    size of the set when 2^64 - 1 validators exist.  The set never has more entries than the
    genesis set plus the number of validator update actions of the history. *)
Definition size_ok (c : config) (bs : list block) : Prop :=
  N.of_nat (length (g_vals c) + total_actions bs) < U64_MAX.

Definition all_finalize (bs : list block) : Prop := Forall (fun b => b_mode b = Finalize) bs.

(** Mirror: for every history of blocks (both eras, across the migration, both block paths, any
    mix of succeeding and failing transactions), folding all returned batches over the genesis
    set gives exactly the stored set; after Aspen the stored count is its size; the block's
    update set is cleared. *)
Definition stmt_mirror : Prop := forall c bs,
  size_ok c bs ->
  let '(st, batches) := run_blocks (genesis c) bs in
  fold_lenient (cgenesis c) batches = proj (st_vals st) /\
  (st_aspen st = true -> st_count st = Some (vlen (st_vals st))) /\
  st_upds st = [].

(** Every returned batch can be applied by CometBFT — FALSE of the code as it is (F6). *)
Definition stmt_updates_applicable : Prop := forall c bs,
  g_vals c <> [] -> size_ok c bs ->
  let '(_, batches) := run_blocks (genesis c) bs in
  fold_strict (cgenesis c) batches <> None.

(** ... but true of every history none of whose blocks is in one of the two known classes; and
    then CometBFT's set is the stored one and is never empty. *)
Definition stmt_applicable_outside_known : Prop := forall c bs,
  g_vals c <> [] -> size_ok c bs ->
  hist_any block_known (genesis c) bs = false ->
  let '(st, batches) := run_blocks (genesis c) bs in
  fold_strict (cgenesis c) batches = Some (proj (st_vals st)) /\ st_vals st <> [].

(** Class A needs the proposer's path: a block whose transactions are constructed against the
    state at the start of the block is never in class A. *)
Definition stmt_finalize_never_class_a : Prop := forall c bs,
  all_finalize bs -> hist_any (block_class known_a) (genesis c) bs = false.

(** Hence on a chain which is post-Aspen from its first block, blocks on the [finalize_block]
    path satisfy the property at full strength. *)
Definition stmt_applicable_post_aspen_finalize : Prop := forall c bs,
  g_vals c <> [] -> size_ok c bs -> g_aspen_h c = 1 -> all_finalize bs ->
  let '(st, batches) := run_blocks (genesis c) bs in
  fold_strict (cgenesis c) batches = Some (proj (st_vals st)) /\ st_vals st <> [].

(** The harness constructs the transactions of a block against the committed state, the real
    [finalize_block] after the upgrade of that height ran; both accept the same transactions. *)
Definition stmt_construct_at_migration : Prop := forall st t,
  st_aspen st = false ->
  constructible (migrate st) t = constructible st t.

(** Witnesses of F6. *)

(** Class A: validator 0 alone, post-Aspen from block 1.  Block 1 adds validator 7.  The mempool
    then holds (constructed while 7 exists) "remove 7" with nonce 1 and, parked, "remove 7" with
    nonce 3.  Block 2 (proposer's path) removes 7; "add 7" with nonce 2 arrives; block 3
    (proposer's path) executes "add 7", "remove 7" and returns [7 -> 0] to CometBFT, which does
    not have 7. *)
Definition witness_a_config : config := mkConfig [(0, 10)] 0 1.
Definition witness_a_blocks : list block :=
  [ mkBlock Finalize [mkTx 0 0 [mkAction 7 5 1]];
    mkBlock Propose  [mkTx 0 1 [mkAction 7 0 0]];
    mkBlock Propose  [mkTx 0 2 [mkAction 7 6 2]; mkTx 0 3 [mkAction 7 0 0]] ].

(** Class B: validators 0 and 1, pre-Aspen.  One block removes both: each removal is checked
    against the stored set, which is only updated at the end of the block. *)
Definition witness_b_config : config := mkConfig [(0, 10); (1, 10)] 0 5.
Definition witness_b_blocks : list block :=
  [ mkBlock Finalize [mkTx 0 0 [mkAction 0 0 0]; mkTx 0 1 [mkAction 1 0 0]] ].

Definition refutes (c : config) (bs : list block) : Prop :=
  g_vals c <> [] /\ size_ok c bs /\
  hist_any block_known (genesis c) bs = true /\
  fold_strict (cgenesis c) (snd (run_blocks (genesis c) bs)) = None.
