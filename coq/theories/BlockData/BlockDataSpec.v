(** C07 -- the statements (as [Prop] definitions) proved in the BlockData proof files and pinned in
    Properties/C07.v.  All are universally quantified over the byte string type, its equality
    test, the order of rollup ids, the hash functions and the protobuf encoders of one rollup
    data item. *)
From Astria Require Export BlockData.BlockDataModel Merkle.MerkleSpec.
From Coq Require Export Sorting.Sorted Sorting.Permutation.

Section Spec.
  Variable B : Type.
  Variable beq ltb : B -> B -> bool.
  Variable blen : B -> N.
  Variable cat : B -> B -> B.
  Variable sha leafH : B -> B.
  Variable nodeH : B -> B -> B.
  Variable emptyH zeroD : B.
  Variable Dp : Type.
  Variable encS : B -> B.
  Variable encD : Dp -> B.

  Local Notation im_get := (im_get B beq).
  Local Notation mem := (mem B beq).
  Local Notation build_group := (build_group B beq ltb Dp encS encD).
  Local Notation commit_group := (commit_group B beq ltb Dp encS encD).
  Local Notation finalize := (finalize B beq ltb cat sha leafH nodeH emptyH zeroD Dp encS encD).
  Local Notation stored_block := (stored_block B beq).
  Local Notation serve_filtered := (serve_filtered B beq ltb).
  Local Notation to_filtered := (to_filtered B beq).
  Local Notation split := (split_celestia B).
  Local Notation collect := (collect B beq).
  Local Notation entry_data := (entry_data B).
  Local Notation rollup_leaf := (rollup_leaf B cat leafH nodeH emptyH).
  Local Notation pverifies := (pverifies B beq nodeH).
  Local Notation recv_full := (recv_full B beq blen cat sha leafH nodeH emptyH).
  Local Notation recv_filtered := (recv_filtered B beq blen cat sha leafH nodeH emptyH).
  Local Notation recv_meta := (recv_meta B beq blen sha leafH nodeH emptyH).
  Local Notation blob_ok := (blob_ok B blen).
  Local Notation audit_blob := (audit_blob B beq cat leafH nodeH emptyH).
  Local Notation reconstruct := (reconstruct B beq cat leafH nodeH emptyH).
  Local Notation take_header := (take_header B beq cat leafH nodeH emptyH).
  Local Notation tamper_f := (tamper_f B).
  Local Notation tamper_full := (tamper_full B).
  Local Notation tamper_cel := (tamper_cel B).
  Local Notation block_ids := (block_ids B).

  (** * assumed laws of the parameters (hypotheses of the theorems that need them) *)
  Definition BeqSpec : Prop := forall a b : B, beq a b = true <-> a = b.
  (** a strict total order *)
  Definition LtbSpec : Prop :=
    (forall a, ltb a a = false) /\
    (forall a b c, ltb a b = true -> ltb b c = true -> ltb a c = true) /\
    (forall a b, ltb a b = false -> ltb b a = false -> a = b).
  (** concatenation after a prefix of known length is injective *)
  Definition CatInj : Prop :=
    forall a b c d, blen a = blen c -> cat a b = cat c d -> a = c /\ b = d.
  (** digests are 32 bytes long *)
  Definition HashLen : Prop :=
    (forall x, blen (leafH x) = 32) /\ (forall a b, blen (nodeH a b) = 32) /\ blen emptyH = 32.
  Definition CatLen : Prop := forall a b, blen (cat a b) = blen a + blen b.

  (** an explicit SHA-256 collision: two different inputs of the node hash, of the leaf hash or of
      the plain hash with the same digest, or a digest shared between the leaf domain (0x00
      prefix), the node domain (0x01 prefix) and the empty string *)
  Definition Coll : Prop :=
    Collision B nodeH \/
    (exists x y, x <> y /\ leafH x = leafH y) \/
    (exists x y, x <> y /\ sha x = sha y) \/
    (exists x a b, leafH x = nodeH a b) \/
    (exists x, leafH x = emptyH) \/
    (exists a b, nodeH a b = emptyH).

  (** * what the block must contain, computed from the block's transactions alone *)
  (** payloads of rollup [r]'s submissions in block order *)
  Definition seq_of (r : B) (subs : list (B * B)) : list B :=
    map (fun s => encS (snd s)) (filter (fun s => beq (fst s) r) subs).
  (** deposits of rollup [r] in the order they were emitted *)
  Definition dep_of (r : B) (deps : list (B * list Dp)) : list B :=
    flat_map (fun d => if beq (fst d) r then map encD (snd d) else []) deps.
  Definition expected (r : B) (subs : list (B * B)) (deps : list (B * list Dp)) : list B :=
    seq_of r subs ++ dep_of r deps.
  Definition touched (r : B) (subs : list (B * B)) (deps : list (B * list Dp)) : bool :=
    mem r (map fst subs) || mem r (map fst deps).

  Definition sorted_ids (l : list B) : Prop := StronglySorted (fun a b => ltb a b = true) l.

  (** * C07.1 data_exact *)

  (** the grouped rollup data: ids strictly ascending (hence unique), exactly the rollups that
      occur; each list = sequenced payloads in block order followed by the deposits; the
      proposer's grouping and the builder's grouping agree *)
  Definition stmt_group_exact : Prop :=
    BeqSpec -> LtbSpec -> forall subs deps,
      let m := build_group subs deps in
      sorted_ids (map fst m) /\
      (forall r, In r (map fst m) <-> touched r subs deps = true) /\
      (forall r, im_get m r = if touched r subs deps then Some (expected r subs deps) else None) /\
      commit_group subs deps = m.

  (** "the list of rollup ids is exactly the set of rollups with data" (the deposits map never
      holds an empty list: [cache_deposit_event] only ever pushes) *)
  Definition stmt_ids_with_data : Prop :=
    BeqSpec -> forall subs deps, (forall d, In d deps -> snd d <> []) ->
      forall r, touched r subs deps = true <-> expected r subs deps <> [].

  (** the iteration order of the deposits [HashMap] does not matter *)
  Definition stmt_group_dep_order : Prop :=
    BeqSpec -> LtbSpec -> forall subs deps deps',
      Permutation deps deps' -> NoDup (map fst deps) ->
      build_group subs deps = build_group subs deps'.

  (** the built block, the stored block, every filtered form and the Celestia split carry
      exactly the grouped data *)
  Definition stmt_served_exact : Prop :=
    BeqSpec -> LtbSpec -> forall bh rest subs deps b,
      finalize bh rest subs deps = BuildOk b ->
      let d := build_group subs deps in
      b_hash b = bh /\
      map entry_data (b_entries b) = d /\
      stored_block b = b /\
      (forall req,
         f_all (serve_filtered b req) = map fst d /\
         map entry_data (f_entries (serve_filtered b req))
         = filter_opt (fun r => option_map (fun l => (r, l)) (im_get d r)) req) /\
      (forall req,
         f_all (to_filtered b req) = map fst d /\
         NoDup (map e_id (f_entries (to_filtered b req))) /\
         (forall e, In e (f_entries (to_filtered b req)) <->
                    In e (b_entries b) /\ mem (e_id e) req = true)) /\
      m_ids (fst (split b)) = map fst d /\
      map (fun bl => (bl_id bl, bl_txs bl)) (snd (split b)) = d /\
      (forall bl, In bl (snd (split b)) -> bl_hash bl = bh).

  (** * C07.2 served_verifies *)

  (** the 64-bit index arithmetic of the flat tree is exact up to 2^62 leaves (C08) *)
  Definition size_ok (subs : list (B * B)) (deps : list (B * list Dp)) (rest : list (item_kind * B)) : Prop :=
    (length subs + length (concat (map snd deps)) + length deps + length rest + 2
     <= N.to_nat (2 ^ 62))%nat.
  Definition ids32 (subs : list (B * B)) (deps : list (B * list Dp)) : Prop :=
    (forall s, In s subs -> blen (fst s) = 32) /\ (forall d, In d deps -> blen (fst d) = 32).

  (** an honest proposal is always built: no error, no panic *)
  Definition stmt_finalize_ok : Prop :=
    BeqSpec -> LtbSpec -> forall bh rest subs deps,
      size_ok subs deps rest -> exists b, finalize bh rest subs deps = BuildOk b.

  (** every proof that accompanies the full block, any filtered block and the Celestia split
      verifies against the commitments of the block; the conductor of every rollup, given ALL
      published blobs of the block, reconstructs exactly its own data (or an empty block) *)
  Definition stmt_served_verifies : Prop :=
    BeqSpec -> LtbSpec -> HashLen -> forall bh rest subs deps b,
      size_ok subs deps rest -> ids32 subs deps -> blen bh = 32 ->
      finalize bh rest subs deps = BuildOk b ->
      recv_full b = true /\
      recv_full (stored_block b) = true /\
      (forall req, recv_filtered (serve_filtered b req) = true) /\
      (forall req, recv_filtered (to_filtered b req) = true) /\
      recv_meta (fst (split b)) = true /\
      (forall bl, In bl (snd (split b)) ->
                  blob_ok bl = true /\ audit_blob (fst (split b)) bl = true) /\
      (forall r, reconstruct [fst (split b)] (snd (split b)) r
                 = [(bh, if touched r subs deps then expected r subs deps else [])]).

  (** * C07.3 tamper_detected *)

  (** one proof binds one (rollup id, data list) to a rollup transactions root *)
  Definition stmt_entry_binding : Prop :=
    BeqSpec -> CatInj -> forall p rtr id txs id' txs',
      blen id = 32 -> blen id' = 32 ->
      pverifies p (rollup_leaf id txs) rtr = true ->
      pverifies p (rollup_leaf id' txs') rtr = true ->
      (id = id' /\ txs = txs') \/ Coll.

  Definition unique_ids (es : list (entry B)) : Prop := NoDup (map e_id es).

  (** every single tampering of an accepted full block that is accepted again leaves the decoded
      rollup data, the rollup transactions root and the data hash as they were *)
  Definition stmt_full_tamper : Prop :=
    BeqSpec -> CatInj -> forall b t,
      recv_full b = true -> unique_ids (b_entries b) ->
      recv_full (tamper_full t b) = true ->
      (map entry_data (collect (b_entries (tamper_full t b))) = map entry_data (b_entries b) /\
       b_rtr (tamper_full t b) = b_rtr b /\ b_dh (tamper_full t b) = b_dh b) \/ Coll.

  (** the same for a filtered block: every rollup entry that survives decoding is one of the
      served ones, and the list of all rollup ids is unchanged *)
  Definition stmt_filtered_tamper : Prop :=
    BeqSpec -> CatInj -> forall f t,
      recv_filtered f = true -> unique_ids (f_entries f) ->
      recv_filtered (tamper_f t f) = true ->
      ((forall e, In e (collect (f_entries (tamper_f t f))) ->
                  In (entry_data e) (map entry_data (f_entries f))) /\
       f_all (tamper_f t f) = f_all f /\
       f_rtr (tamper_f t f) = f_rtr f /\ f_dh (tamper_f t f) = f_dh f) \/ Coll.

  (** the same for the Celestia pair: if the tampered metadata is accepted its id list and
      roots are unchanged, and every tampered rollup blob that passes the conductor's audit
      against it carries the id and the data of a published blob *)
  Definition stmt_celestia_tamper : Prop :=
    BeqSpec -> CatInj -> forall m bs bh t,
      recv_meta m = true ->
      (forall bl, In bl bs -> blob_ok bl = true /\ audit_blob m bl = true) ->
      let m' := fst (tamper_cel t bh (m, bs)) in
      let bs' := snd (tamper_cel t bh (m, bs)) in
      recv_meta m' = true ->
      (m_ids m' = m_ids m /\ m_rtr m' = m_rtr m /\ m_dh m' = m_dh m /\
       forall bl', In bl' bs' -> blob_ok bl' = true -> audit_blob m' bl' = true ->
                   In (bl_id bl', bl_txs bl') (map (fun bl => (bl_id bl, bl_txs bl)) bs)) \/ Coll.

  (** the named single-element tamperings of one rollup's list are rejected (filtered block;
      [y] is the element that is there) *)
  Definition stmt_filtered_named : Prop :=
    BeqSpec -> CatInj -> forall f j e,
      recv_filtered f = true -> unique_ids (f_entries f) -> nth_error (f_entries f) j = Some e ->
      (* altered *)
      (forall k x y, nth_error (e_txs e) k = Some y -> x <> y ->
                     recv_filtered (tamper_f (TAlter j k x) f) = false \/ Coll) /\
      (* reordered *)
      (forall k y z, nth_error (e_txs e) k = Some y -> nth_error (e_txs e) (S k) = Some z -> y <> z ->
                     recv_filtered (tamper_f (TSwap j k) f) = false \/ Coll) /\
      (* truncated *)
      (forall k, (k < length (e_txs e))%nat ->
                 recv_filtered (tamper_f (TDrop j k) f) = false \/ Coll) /\
      (* extended *)
      (forall k, (k < length (e_txs e))%nat ->
                 recv_filtered (tamper_f (TDup j k) f) = false \/ Coll) /\
      (forall x, recv_filtered (tamper_f (TApp j x) f) = false \/ Coll) /\
      (* attributed to another rollup ([id] must not be the id of a LATER entry: the IndexMap the
         receiver collects into would then keep that later entry and silently lose this one,
         which is the omission of [stmt_filtered_omission]) *)
      (forall id, id <> e_id e -> ~ In id (map e_id (skipn (S j) (f_entries f))) ->
                  recv_filtered (tamper_f (TReid j id) f) = false \/ Coll) /\
      (* carrying another rollup's proof *)
      (forall j2 e2, nth_error (f_entries f) j2 = Some e2 -> j2 <> j ->
                     recv_filtered (tamper_f (TSwapProof j j2) f) = false \/ Coll).

  (** * C07.4 what is NOT detectable by these receivers *)

  (** attribution to another block: the block hash is bound to nothing these types carry.  An
      accepted full block, filtered block or Celestia pair relabelled with ANY other 32-byte
      block hash is accepted again with the same data (only the CometBFT header, which none of
      these types contains, binds block hash and data hash). *)
  Definition stmt_block_hash_unbound : Prop :=
    BeqSpec -> forall x, blen x = 32 ->
      (forall b, recv_full b = true -> recv_full (tamper_full (TBh x) b) = true) /\
      (forall f, recv_filtered f = true -> recv_filtered (tamper_f (TBh x) f) = true) /\
      (forall m bl, recv_meta m = true -> audit_blob m bl = true ->
         let m' := fst (tamper_cel (TBh x) x (m, [bl])) in
         let bs' := snd (tamper_cel (TBh x) x (m, [bl])) in
         recv_meta m' = true /\ reconstruct [m'] bs' (bl_id bl) = [(x, bl_txs bl)]).

  (** a filtered block from which a whole rollup entry was removed is accepted; the omission is
      visible only by comparing with the (verified) list of all rollup ids *)
  Definition stmt_filtered_omission : Prop :=
    BeqSpec -> forall f j,
      recv_filtered f = true -> unique_ids (f_entries f) ->
      recv_filtered (tamper_f (TRmEntry j) f) = true /\
      f_all (tamper_f (TRmEntry j) f) = f_all f.

  (** * the conductor and blobs of other rollups (finding F16, repaired) *)

  (** [reconstruct_blocks_from_verified_blobs] as it was BEFORE the repair of finding F16: the
      same loop without the comparison of the blob's rollup id with the conductor's own.  Kept
      only to record what was wrong; it is not the model of the current code (and not extracted). *)
  Fixpoint recon_blobs_before_F16_fix (hs : list (meta B)) (bs : list (blob B))
    : list (B * list B) * list (meta B) :=
    match bs with
    | [] => ([], hs)
    | b :: r =>
        match take_header hs b with
        | Some (h, hs') =>
            let '(out, hs2) := recon_blobs_before_F16_fix hs' r in ((m_hash h, bl_txs b) :: out, hs2)
        | None => recon_blobs_before_F16_fix hs r
        end
    end.
  Definition reconstruct_before_F16_fix (hs : list (meta B)) (bs : list (blob B)) (rollup : B)
    : list (B * list B) :=
    let '(out, hs2) := recon_blobs_before_F16_fix hs bs in
    out ++ flat_map (fun h => if mem rollup (m_ids h) then [] else [(m_hash h, [])]) hs2.

  (** the repaired conductor ignores every blob that carries another rollup's id: it behaves
      like the old loop on the blobs of its own rollup only; in particular a lone foreign blob
      -- however genuine -- never contributes data *)
  Definition stmt_conductor_skips_foreign : Prop :=
    BeqSpec ->
    (forall hs bs r,
       reconstruct hs bs r
       = reconstruct_before_F16_fix hs (filter (fun b => beq (bl_id b) r) bs) r) /\
    (forall m bl r, bl_id bl <> r ->
       reconstruct [m] [bl] r = if mem r (m_ids m) then [] else [(m_hash m, [])]).

  (** what finding F16 was: the pre-fix loop reconstructed a blob that passes the audit for
      EVERY rollup [r] *)
  Definition stmt_conductor_before_F16_fix_ignored_blob_id : Prop :=
    forall m bl r,
      beq (m_hash m) (bl_hash bl) = true -> audit_blob m bl = true ->
      reconstruct_before_F16_fix [m] [bl] r = [(m_hash m, bl_txs bl)].
End Spec.
