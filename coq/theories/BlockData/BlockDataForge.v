(** C07.5 -- forged served data.  The adversary may replace EVERYTHING in the served form of a
    block (rollup data, rollup ids, the two roots and ALL Merkle proofs); the receiver is only
    assumed to know the data hash of the honest block.  Whatever the receivers accept is then the
    honest data, or exhibits an explicit SHA-256 collision, or is "leaf confusion": the forged
    root is the preimage of the leaf of ANOTHER data item of the block (the extended commit info
    or a user transaction), which cannot be excluded because the receivers do not check the
    POSITION of the two commitments in the data tree. *)
From Coq Require Import Lia NArith List.
From Astria Require Import BlockData.BlockDataMerkle BlockData.BlockDataSpec Merkle.MerkleSound
  BlockData.BlockDataServe BlockData.BlockDataTamper.
From Astria Require BlockData.BlockDataGroup.
Import ListNotations.

Section Forge.
  Variable B : Type.
  Variable beq ltb : B -> B -> bool.
  Variable blen : B -> N.
  Variable cat : B -> B -> B.
  Variable sha leafH : B -> B.
  Variable nodeH : B -> B -> B.
  Variable emptyH zeroD : B.
  Variable Dp : Type.
  Variable encS : B -> B.
  Variable encD : Dp -> B.

  Local Notation Coll := (Coll B sha leafH nodeH emptyH).
  Local Notation BeqSpec := (BeqSpec B beq).
  Local Notation LtbSpec := (LtbSpec B ltb).
  Local Notation CatInj := (CatInj B blen cat).
  Local Notation CatLen := (CatLen B blen cat).
  Local Notation HashLen := (HashLen B blen leafH nodeH emptyH).
  Local Notation size_ok := (size_ok B Dp).
  Local Notation ids32 := (ids32 B blen Dp).
  Local Notation build_group := (build_group B beq ltb Dp encS encD).
  Local Notation finalize := (finalize B beq ltb cat sha leafH nodeH emptyH zeroD Dp encS encD).
  Local Notation mroot := (mroot B nodeH emptyH).
  Local Notation txs_root := (txs_root B leafH nodeH emptyH).
  Local Notation rollup_leaf := (rollup_leaf B cat leafH nodeH emptyH).
  Local Notation data_root := (data_root B cat leafH nodeH emptyH).
  Local Notation ids_root := (ids_root B leafH nodeH emptyH).
  Local Notation data_leaves := (data_leaves B sha).
  Local Notation pverifies := (pverifies B beq nodeH).
  Local Notation collect := (collect B beq).
  Local Notation entry_data := (entry_data B).
  Local Notation len32 := (len32 B blen).
  Local Notation entry_wf := (entry_wf B blen).
  Local Notation entry_verifies := (entry_verifies B beq cat leafH nodeH emptyH).
  Local Notation recv_full := (recv_full B beq blen cat sha leafH nodeH emptyH).
  Local Notation recv_filtered := (recv_filtered B beq blen cat sha leafH nodeH emptyH).
  Local Notation recv_meta := (recv_meta B beq blen sha leafH nodeH emptyH).
  Local Notation blob_ok := (blob_ok B blen).
  Local Notation audit_blob := (audit_blob B beq cat leafH nodeH emptyH).
  Local Notation mem := (mem B beq).
  Local Notation im_get := (im_get B beq).
  Local Notation touched := (touched B beq Dp).
  Local Notation expected := (expected B beq Dp encS encD).
  Local Notation take_header := (take_header B beq cat leafH nodeH emptyH).
  Local Notation recon_blobs := (recon_blobs B beq cat leafH nodeH emptyH).
  Local Notation reconstruct := (reconstruct B beq cat leafH nodeH emptyH).

  Local Notation pverifies_inv := (pverifies_inv B beq nodeH).
  Local Notation leafH_inj := (leafH_inj B beq sha leafH nodeH emptyH).
  Local Notation sha_inj := (sha_inj B beq sha leafH nodeH emptyH).
  Local Notation leaf_lists_inj := (leaf_lists_inj B beq sha leafH nodeH emptyH).
  Local Notation pair_leaf_inj := (pair_leaf_inj B beq blen cat sha leafH nodeH emptyH).
  Local Notation data_root_inj := (data_root_inj B beq blen cat sha leafH nodeH emptyH).
  Local Notation hdr_rtr := (hdr_rtr B beq sha leafH nodeH emptyH).
  Local Notation collect_in := (collect_in B beq).
  Local Notation entry_wf_len := (entry_wf_len B blen).
  Local Notation blob_ok_len := (blob_ok_len B blen).
  Local Notation recv_full_inv := (recv_full_inv B beq blen cat sha leafH nodeH emptyH).
  Local Notation Coll1 := (Coll1 B sha leafH nodeH emptyH).
  Local Notation Coll4 := (Coll4 B sha leafH nodeH emptyH).
  Local Notation Coll5 := (Coll5 B sha leafH nodeH emptyH).
  Local Notation Coll6 := (Coll6 B sha leafH nodeH emptyH).

  (** * the statements *)

  (** [x] is the preimage of the leaf of another data item of the block (the extended commit
      info or a user transaction) *)
  Definition LeafConf (rest : list (item_kind * B)) (x : B) : Prop :=
    In (sha x) (map snd (filter (keep_item B) rest)).

  (** an honestly built block [b] over the transactions [subs], [deps], [rest] *)
  Definition Honest (bh : B) (rest : list (item_kind * B)) (subs : list (B * B))
      (deps : list (B * list Dp)) (b : block B) : Prop :=
    BeqSpec /\ LtbSpec /\ CatInj /\ CatLen /\ HashLen /\
    size_ok subs deps rest /\ ids32 subs deps /\ blen bh = 32 /\
    finalize bh rest subs deps = BuildOk b.

  (** anything that verifies as a [sha]-leaf of the honest data hash is one of the two
      commitments, or another data item *)
  Definition stmt_root_anchor : Prop :=
    forall bh rest subs deps b, Honest bh rest subs deps b ->
    forall p x, pverifies p (leafH (sha x)) (b_dh b) = true ->
      x = b_rtr b \/ x = ids_root (map fst (build_group subs deps)) \/ LeafConf rest x \/ Coll.

  (** any (id, data) that verifies against the honest rollup transactions root is in the block *)
  Definition stmt_entry_member : Prop :=
    forall bh rest subs deps b, Honest bh rest subs deps b ->
    forall p id txs, blen id = 32 -> pverifies p (rollup_leaf id txs) (b_rtr b) = true ->
      In (id, txs) (build_group subs deps) \/ Coll.

  (** any list of 32-byte ids whose root verifies against the honest data hash is the id list *)
  Definition stmt_ids_anchor : Prop :=
    forall bh rest subs deps b, Honest bh rest subs deps b ->
    forall p ids', forallb len32 ids' = true ->
      pverifies p (leafH (sha (ids_root ids'))) (b_dh b) = true ->
      ids' = map fst (build_group subs deps) \/ LeafConf rest (ids_root ids') \/ Coll.

  Definition stmt_full_forged : Prop :=
    forall bh rest subs deps b, Honest bh rest subs deps b ->
    forall b', b_dh b' = b_dh b -> recv_full b' = true ->
      map entry_data (collect (b_entries b')) = build_group subs deps \/
      LeafConf rest (b_rtr b') \/ Coll.

  Definition stmt_filtered_forged : Prop :=
    forall bh rest subs deps b, Honest bh rest subs deps b ->
    forall f', f_dh f' = b_dh b -> recv_filtered f' = true ->
      ((forall e, In e (collect (f_entries f')) -> In (entry_data e) (build_group subs deps)) /\
       f_all f' = map fst (build_group subs deps)) \/
      LeafConf rest (f_rtr f') \/ LeafConf rest (ids_root (f_all f')) \/ Coll.

  Definition stmt_celestia_forged : Prop :=
    forall bh rest subs deps b, Honest bh rest subs deps b ->
    forall m' bl', m_dh m' = b_dh b -> recv_meta m' = true ->
      blob_ok bl' = true -> audit_blob m' bl' = true ->
      (m_ids m' = map fst (build_group subs deps) /\
       In (bl_id bl', bl_txs bl') (build_group subs deps)) \/
      LeafConf rest (m_rtr m') \/ LeafConf rest (ids_root (m_ids m')) \/ Coll.

  (** the conductor of rollup [r]: whatever metadata with the honest data hash and whatever
      rollup blobs are published, every block it reconstructs carries exactly the data of [r] in
      the honest block, or nothing when [r] has no data there *)
  Definition stmt_conductor_forged : Prop :=
    forall bh rest subs deps b, Honest bh rest subs deps b ->
    forall m' bs' r h txs, m_dh m' = b_dh b -> recv_meta m' = true ->
      (forall bl, In bl bs' -> blob_ok bl = true) ->
      In (h, txs) (reconstruct [m'] bs' r) ->
      txs = (if touched r subs deps then expected r subs deps else []) \/
      LeafConf rest (m_rtr m') \/ LeafConf rest (ids_root (m_ids m')) \/ Coll.

  (** * a verified leaf of a tree of leaf hashes is one of its leaves *)
  Lemma pv_member (Hb : BeqSpec) p y L :
    pverifies p (leafH y) (mroot (map leafH L)) = true -> In y L \/ Coll.
  Proof.
    intros V. apply pverifies_inv in V. apply (verify_true_inv B nodeH beq Hb) in V.
    unfold BlockDataModel.mroot in V.
    destruct (reconstruct_member B nodeH emptyH beq Hb _ _ _ V)
      as [H|[H|[[a [c H]]|[[x [Hx [a [c H]]]]|[[H1 H2]|[a [c H]]]]]]].
    - apply in_map_iff in H. destruct H as [z [Ez Hz]].
      destruct (leafH_inj Hb _ _ Ez) as [E|C]; [left; rewrite <- E; exact Hz|right; exact C].
    - right. apply Coll1. exact H.
    - right. exact (Coll4 _ _ _ H).
    - right. apply in_map_iff in Hx. destruct Hx as [z [Ez _]]. rewrite <- Ez in H.
      exact (Coll4 _ _ _ H).
    - right. exact (Coll5 _ H2).
    - right. symmetry in H. exact (Coll6 _ _ H).
  Qed.

  (** the bytes of a rollup leaf *)
  Definition rbytes (kv : B * list B) : B := cat (fst kv) (txs_root (snd kv)).

  Lemma data_root_leaves d : data_root d = mroot (map leafH (map rbytes d)).
  Proof.
    unfold BlockDataModel.data_root, BlockDataModel.rollup_leaf. rewrite map_map. reflexivity.
  Qed.

  Lemma rbytes_len (Hcl : CatLen) (Hh : HashLen) kv : blen (rbytes kv) = blen (fst kv) + 32.
  Proof.
    unfold rbytes. rewrite Hcl. f_equal. unfold BlockDataModel.txs_root.
    apply (mroot_len B leafH nodeH emptyH blen Hh). apply Forall_map_all.
    intros a. destruct Hh as (HL & _). apply HL.
  Qed.

  Lemma core_root (Hb : BeqSpec) rtr rir rest p x :
    pverifies p (leafH (sha x)) (mroot (map leafH (data_leaves rtr rir rest))) = true ->
    x = rtr \/ x = rir \/ LeafConf rest x \/ Coll.
  Proof.
    intros V. destruct (pv_member Hb _ _ _ V) as [H|C]; [|right; right; right; exact C].
    unfold BlockDataModel.data_leaves in H. destruct H as [H|[H|H]].
    - destruct (sha_inj Hb _ _ H) as [E|C]; [left; symmetry; exact E|right; right; right; exact C].
    - destruct (sha_inj Hb _ _ H) as [E|C]; [right; left; symmetry; exact E|right; right; right; exact C].
    - right. right. left. exact H.
  Qed.

  Lemma core_entry (Hb : BeqSpec) (Hc : CatInj) (d : list (B * list B)) p id txs :
    (forall kv, In kv d -> blen (fst kv) = 32) -> blen id = 32 ->
    pverifies p (rollup_leaf id txs) (data_root d) = true -> In (id, txs) d \/ Coll.
  Proof.
    intros L32 Li V. rewrite data_root_leaves in V. unfold BlockDataModel.rollup_leaf in V.
    destruct (pv_member Hb _ _ _ V) as [H|C]; [|right; exact C].
    apply in_map_iff in H. destruct H as [[k v] [E Hk]]. unfold rbytes in E. cbn [fst snd] in E.
    destruct (pair_leaf_inj Hb Hc k v id txs (L32 _ Hk) Li E) as [[E1 E2]|C]; [left|right; exact C].
    rewrite <- E1, <- E2. exact Hk.
  Qed.

  (** no rollup leaf verifies against a root of 32-byte ids: 64 bytes against 32 *)
  Lemma core_entry_ids (Hb : BeqSpec) (Hcl : CatLen) (Hh : HashLen) (ids : list B) p id txs :
    (forall i, In i ids -> blen i = 32) -> blen id = 32 ->
    pverifies p (rollup_leaf id txs) (ids_root ids) = true -> Coll.
  Proof.
    intros L32 Li V. unfold BlockDataModel.rollup_leaf, BlockDataModel.ids_root in V.
    destruct (pv_member Hb _ _ _ V) as [H|C]; [|exact C].
    exfalso. apply L32 in H. change (cat id (txs_root txs)) with (rbytes (id, txs)) in H.
    rewrite (rbytes_len Hcl Hh) in H. cbn [fst] in H. rewrite Li in H. lia.
  Qed.

  (** a rollup transactions root is a rollup ids root only when both are empty *)
  Lemma root_clash (Hb : BeqSpec) (Hcl : CatLen) (Hh : HashLen) (d : list (B * list B)) ids :
    (forall kv, In kv d -> blen (fst kv) = 32) -> (forall i, In i ids -> blen i = 32) ->
    data_root d = ids_root ids -> (d = [] /\ ids = []) \/ Coll.
  Proof.
    intros Ld Li E. rewrite data_root_leaves in E. unfold BlockDataModel.ids_root in E.
    destruct (leaf_lists_inj Hb _ _ E) as [E1|C]; [left|right; exact C].
    destruct d as [|kv d].
    - cbn [map] in E1. split; [reflexivity|symmetry; exact E1].
    - exfalso. assert (Hin : In (rbytes kv) ids) by (rewrite <- E1; left; reflexivity).
      apply Li in Hin. rewrite (rbytes_len Hcl Hh) in Hin.
      rewrite (Ld kv (or_introl eq_refl)) in Hin. lia.
  Qed.

  Lemma len32_all l : forallb len32 l = true -> forall i, In i l -> blen i = 32.
  Proof.
    intros H i Hi. rewrite forallb_forall in H. apply N.eqb_eq. exact (H i Hi).
  Qed.

  Lemma core_ids (Hb : BeqSpec) (Hcl : CatLen) (Hh : HashLen) (d : list (B * list B)) rest p ids' :
    (forall kv, In kv d -> blen (fst kv) = 32) -> forallb len32 ids' = true ->
    pverifies p (leafH (sha (ids_root ids')))
      (mroot (map leafH (data_leaves (data_root d) (ids_root (map fst d)) rest))) = true ->
    ids' = map fst d \/ LeafConf rest (ids_root ids') \/ Coll.
  Proof.
    intros Ld Li V. pose proof (len32_all _ Li) as Li'.
    destruct (core_root Hb _ _ _ _ _ V) as [E|[E|[E|C]]].
    - destruct (root_clash Hb Hcl Hh d ids' Ld Li' (eq_sym E)) as [[E1 E2]|C];
        [left|right; right; exact C].
      rewrite E1, E2. reflexivity.
    - unfold BlockDataModel.ids_root in E.
      destruct (leaf_lists_inj Hb _ _ E) as [E1|C]; [left; exact E1|right; right; exact C].
    - right. left. exact E.
    - right. right. exact C.
  Qed.

  (** * what an honest block is *)
  Lemma honest_char bh rest subs deps b : Honest bh rest subs deps b ->
    b_rtr b = data_root (build_group subs deps) /\
    b_dh b = mroot (map leafH (data_leaves (data_root (build_group subs deps))
                                           (ids_root (map fst (build_group subs deps))) rest)) /\
    (forall kv, In kv (build_group subs deps) -> blen (fst kv) = 32).
  Proof.
    intros (Hb & Hl & _ & _ & _ & Hs & Hi & _ & Hf).
    destruct (finalize_char B beq ltb cat sha leafH nodeH emptyH zeroD Dp encS encD Hb Hl
                bh rest subs deps Hs) as (es & dh & rtp & rip & Hf' & Edh & _).
    rewrite Hf' in Hf. injection Hf as Hf. subst b. cbn [b_rtr b_dh].
    split; [reflexivity|]. split; [exact Edh|].
    intros kv Hk. apply (ids_len32 B beq ltb Dp encS encD Hb Hl blen subs deps Hi).
    apply in_map. exact Hk.
  Qed.

  Lemma ids_of_len (d : list (B * list B)) :
    (forall kv, In kv d -> blen (fst kv) = 32) -> forall i, In i (map fst d) -> blen i = 32.
  Proof.
    intros Ld i Hi. apply in_map_iff in Hi. destruct Hi as [kv [E Hk]]. rewrite <- E.
    apply Ld. exact Hk.
  Qed.

  Lemma recv_filtered_inv2 f : recv_filtered f = true ->
    forallb entry_wf (f_entries f) = true /\ forallb len32 (f_all f) = true /\
    pverifies (f_rtp f) (leafH (sha (f_rtr f))) (f_dh f) = true /\
    forallb (entry_verifies (f_rtr f)) (collect (f_entries f)) = true /\
    pverifies (f_rip f) (leafH (sha (ids_root (f_all f)))) (f_dh f) = true.
  Proof.
    unfold BlockDataModel.recv_filtered. cbv zeta. rewrite !andb_true_iff. tauto.
  Qed.

  Lemma recv_meta_inv2 m : recv_meta m = true ->
    forallb len32 (m_ids m) = true /\
    pverifies (m_rtp m) (leafH (sha (m_rtr m))) (m_dh m) = true /\
    pverifies (m_rip m) (leafH (sha (ids_root (m_ids m)))) (m_dh m) = true.
  Proof.
    unfold BlockDataModel.recv_meta. rewrite !andb_true_iff. tauto.
  Qed.

  (** * the theorems *)
  Lemma root_anchor : stmt_root_anchor.
  Proof.
    intros bh rest subs deps b H p x V. pose proof H as (Hb & _).
    destruct (honest_char _ _ _ _ _ H) as (Er & Ed & _). rewrite Ed in V. rewrite Er.
    exact (core_root Hb _ _ _ _ _ V).
  Qed.

  Lemma entry_member : stmt_entry_member.
  Proof.
    intros bh rest subs deps b H p id txs Li V. pose proof H as (Hb & _ & Hc & _).
    destruct (honest_char _ _ _ _ _ H) as (Er & _ & Ld). rewrite Er in V.
    exact (core_entry Hb Hc _ _ _ _ Ld Li V).
  Qed.

  Lemma ids_anchor : stmt_ids_anchor.
  Proof.
    intros bh rest subs deps b H p ids' Li V. pose proof H as (Hb & _ & _ & Hcl & Hh & _).
    destruct (honest_char _ _ _ _ _ H) as (_ & Ed & Ld). rewrite Ed in V.
    exact (core_ids Hb Hcl Hh _ _ _ _ Ld Li V).
  Qed.

  Lemma full_forged : stmt_full_forged.
  Proof.
    intros bh rest subs deps b H b' Edh R. pose proof H as (Hb & _ & Hc & Hcl & Hh & _).
    destruct (honest_char _ _ _ _ _ H) as (Er & Ed & Ld).
    apply recv_full_inv in R. destruct R as (W & V1 & V2). rewrite Edh, Ed in V1, V2.
    rewrite forallb_forall in W.
    set (m' := map entry_data (collect (b_entries b'))) in *.
    set (d := build_group subs deps) in *.
    assert (Lm : forall kv, In kv m' -> blen (fst kv) = 32).
    { intros kv Hk. apply in_map_iff in Hk. destruct Hk as [e [Ee He]]. rewrite <- Ee.
      cbn [BlockDataModel.entry_data fst]. apply entry_wf_len. apply W. apply collect_in.
      exact He. }
    destruct (hdr_rtr Hb _ _ _ _ V1 V2) as [E|C]; [|right; right; exact C].
    destruct (core_root Hb _ _ _ _ _ V1) as [E1|[E1|[E1|C]]].
    - destruct (data_root_inj Hb Hc m' d Lm Ld) as [E2|C];
        [rewrite E, E1; reflexivity|left; exact E2|right; right; exact C].
    - destruct (root_clash Hb Hcl Hh m' (map fst d) Lm (ids_of_len d Ld)) as [[Em Ei]|C];
        [rewrite E, E1; reflexivity|left|right; right; exact C].
      rewrite Em. symmetry. apply (map_eq_nil fst). exact Ei.
    - right. left. exact E1.
    - right. right. exact C.
  Qed.

  Lemma filtered_forged : stmt_filtered_forged.
  Proof.
    intros bh rest subs deps b H f' Edh R. pose proof H as (Hb & _ & Hc & Hcl & Hh & _).
    destruct (honest_char _ _ _ _ _ H) as (Er & Ed & Ld).
    apply recv_filtered_inv2 in R. destruct R as (W & La & V1 & Ve & V2).
    rewrite Edh, Ed in V1, V2. rewrite forallb_forall in W, Ve.
    set (d := build_group subs deps) in *.
    assert (PE : (forall e, In e (collect (f_entries f')) -> In (entry_data e) d) \/
                 LeafConf rest (f_rtr f') \/ Coll).
    { destruct (core_root Hb _ _ _ _ _ V1) as [E1|[E1|[E1|C]]].
      - destruct (forall_in_or (fun e => In (entry_data e) d) Coll (collect (f_entries f')))
          as [P|C]; [|left; exact P|right; right; exact C].
        intros e He. apply (core_entry Hb Hc d (e_proof e) (e_id e) (e_txs e) Ld).
        + apply entry_wf_len. apply W. apply collect_in. exact He.
        + rewrite <- E1. exact (Ve e He).
      - destruct (forall_in_or (fun e => In (entry_data e) d) Coll (collect (f_entries f')))
          as [P|C]; [|left; exact P|right; right; exact C].
        intros e He. right.
        apply (core_entry_ids Hb Hcl Hh (map fst d) (e_proof e) (e_id e) (e_txs e)
                 (ids_of_len d Ld)).
        + apply entry_wf_len. apply W. apply collect_in. exact He.
        + rewrite <- E1. exact (Ve e He).
      - right. left. exact E1.
      - right. right. exact C. }
    destruct PE as [P|[L|C]]; [|right; left; exact L|right; right; right; exact C].
    destruct (core_ids Hb Hcl Hh d rest _ _ Ld La V2) as [E|[L|C]].
    - left. split; assumption.
    - right. right. left. exact L.
    - right. right. right. exact C.
  Qed.

  Lemma celestia_forged : stmt_celestia_forged.
  Proof.
    intros bh rest subs deps b H m' bl' Edh R Ok Au. pose proof H as (Hb & _ & Hc & Hcl & Hh & _).
    destruct (honest_char _ _ _ _ _ H) as (Er & Ed & Ld).
    apply recv_meta_inv2 in R. destruct R as (La & V1 & V2). rewrite Edh, Ed in V1, V2.
    unfold BlockDataModel.audit_blob in Au. pose proof (blob_ok_len _ Ok) as Lb.
    set (d := build_group subs deps) in *.
    assert (PE : In (bl_id bl', bl_txs bl') d \/ LeafConf rest (m_rtr m') \/ Coll).
    { destruct (core_root Hb _ _ _ _ _ V1) as [E1|[E1|[E1|C]]].
      - rewrite E1 in Au.
        destruct (core_entry Hb Hc d _ _ _ Ld Lb Au) as [P|C]; [left; exact P|right; right; exact C].
      - rewrite E1 in Au. right. right.
        exact (core_entry_ids Hb Hcl Hh (map fst d) _ _ _ (ids_of_len d Ld) Lb Au).
      - right. left. exact E1.
      - right. right. exact C. }
    destruct PE as [P|[L|C]]; [|right; left; exact L|right; right; right; exact C].
    destruct (core_ids Hb Hcl Hh d rest _ _ Ld La V2) as [E|[L|C]].
    - left. split; assumption.
    - right. right. left. exact L.
    - right. right. right. exact C.
  Qed.

  (** * the conductor *)
  Lemma take_header_inv hs bl h hs' : take_header hs bl = Some (h, hs') ->
    In h hs /\ incl hs' hs /\ audit_blob h bl = true.
  Proof.
    revert h hs'. induction hs as [|h0 hs IH]; intros h hs' T; cbn [BlockDataModel.take_header] in T;
      [discriminate|].
    destruct (beq (m_hash h0) (bl_hash bl)).
    - destruct (audit_blob h0 bl) eqn:A; [|discriminate]. injection T as <- <-.
      split; [left; reflexivity|]. split; [apply incl_tl, incl_refl|exact A].
    - destruct (take_header hs bl) as [[h1 r1]|]; [|discriminate]. injection T as <- <-.
      destruct (IH _ _ eq_refl) as (I1 & I2 & I3).
      split; [right; exact I1|]. split; [|exact I3].
      intros x [Hx|Hx]; [left; exact Hx|right; apply I2; exact Hx].
  Qed.

  (** every block that comes out of the loop is an audited blob of the own rollup *)
  Lemma recon_blobs_inv r bs : forall hs out hs2, recon_blobs r hs bs = (out, hs2) ->
    incl hs2 hs /\
    forall h txs, In (h, txs) out ->
      exists bl m, In bl bs /\ In m hs /\ beq (bl_id bl) r = true /\ audit_blob m bl = true /\
                   txs = bl_txs bl.
  Proof.
    induction bs as [|bl bs IH]; intros hs out hs2 R; cbn [BlockDataModel.recon_blobs] in R.
    - injection R as <- <-. split; [apply incl_refl|]. intros h txs [].
    - destruct (beq (bl_id bl) r) eqn:Eid; cbn [negb] in R.
      + destruct (take_header hs bl) as [[h1 hs1]|] eqn:T.
        * destruct (recon_blobs r hs1 bs) as [out1 hs3] eqn:R1. injection R as <- <-.
          destruct (take_header_inv _ _ _ _ T) as (T1 & T2 & T3).
          destruct (IH _ _ _ R1) as (I1 & I2).
          split; [intros x Hx; apply T2, I1; exact Hx|].
          intros h txs [Hx|Hx].
          -- injection Hx as _ <-. exists bl, h1. repeat split; try assumption. left; reflexivity.
          -- destruct (I2 _ _ Hx) as (bl0 & m0 & J1 & J2 & J3 & J4 & J5).
             exists bl0, m0. repeat split; try assumption; [right; exact J1|apply T2; exact J2].
        * destruct (IH _ _ _ R) as (I1 & I2). split; [exact I1|].
          intros h txs Hx. destruct (I2 _ _ Hx) as (bl0 & m0 & J1 & J2 & J3 & J4 & J5).
          exists bl0, m0. repeat split; try assumption. right; exact J1.
      + destruct (IH _ _ _ R) as (I1 & I2). split; [exact I1|].
        intros h txs Hx. destruct (I2 _ _ Hx) as (bl0 & m0 & J1 & J2 & J3 & J4 & J5).
        exists bl0, m0. repeat split; try assumption. right; exact J1.
  Qed.

  Lemma reconstruct_one_inv m bs r h txs : In (h, txs) (reconstruct [m] bs r) ->
    (exists bl, In bl bs /\ beq (bl_id bl) r = true /\ audit_blob m bl = true /\ txs = bl_txs bl) \/
    (mem r (m_ids m) = false /\ txs = []).
  Proof.
    unfold BlockDataModel.reconstruct. destruct (recon_blobs r [m] bs) as [out hs2] eqn:R.
    destruct (recon_blobs_inv _ _ _ _ _ R) as (I1 & I2). intros Hx. apply in_app_or in Hx.
    destruct Hx as [Hx|Hx].
    - left. destruct (I2 _ _ Hx) as (bl & m0 & J1 & [<-|[]] & J3 & J4 & J5).
      exists bl. repeat split; assumption.
    - right. apply in_flat_map in Hx. destruct Hx as (m0 & Hm & Hx).
      apply I1 in Hm. destruct Hm as [<-|[]].
      destruct (mem r (m_ids m)); [destruct Hx|]. destruct Hx as [Hx|[]].
      injection Hx as _ <-. split; reflexivity.
  Qed.

  Lemma conductor_forged : stmt_conductor_forged.
  Proof.
    intros bh rest subs deps b H m' bs' r h txs Edh R Ok Hin.
    pose proof H as (Hb & Hl & _).
    destruct (BlockDataGroup.group_exact B beq ltb Dp encS encD Hb Hl subs deps) as (S & Hk & Hg & _).
    pose proof (BlockDataGroup.sorted_ids_nodup B ltb Hl _ S) as ND.
    destruct (reconstruct_one_inv _ _ _ _ _ Hin) as [(bl & Hbl & Eid & Au & ->)|[Hm ->]].
    - destruct (celestia_forged bh rest subs deps b H m' bl Edh R (Ok bl Hbl) Au) as [[_ P]|Bad];
        [left|right; exact Bad].
      apply (BlockDataGroup.bq_true B beq Hb) in Eid. rewrite Eid in P.
      apply (BlockDataGroup.In_im_get B beq Hb _ _ _ _ ND) in P. rewrite Hg in P.
      destruct (touched r subs deps); [injection P as <-; reflexivity|discriminate].
    - destruct (recv_meta_inv2 _ R) as (La & _ & V2). rewrite Edh in V2.
      destruct (ids_anchor bh rest subs deps b H _ _ La V2) as [E|Bad]; [left|right; right; exact Bad].
      rewrite E in Hm. apply (BlockDataGroup.mem_false B beq Hb) in Hm.
      destruct (touched r subs deps) eqn:T; [|reflexivity].
      exfalso. apply Hm. apply Hk. exact T.
  Qed.
End Forge.

Check (root_anchor : forall B beq ltb blen cat sha leafH nodeH emptyH zeroD Dp encS encD,
  stmt_root_anchor B beq ltb blen cat sha leafH nodeH emptyH zeroD Dp encS encD).
Check (entry_member : forall B beq ltb blen cat sha leafH nodeH emptyH zeroD Dp encS encD,
  stmt_entry_member B beq ltb blen cat sha leafH nodeH emptyH zeroD Dp encS encD).
Check (ids_anchor : forall B beq ltb blen cat sha leafH nodeH emptyH zeroD Dp encS encD,
  stmt_ids_anchor B beq ltb blen cat sha leafH nodeH emptyH zeroD Dp encS encD).
Check (full_forged : forall B beq ltb blen cat sha leafH nodeH emptyH zeroD Dp encS encD,
  stmt_full_forged B beq ltb blen cat sha leafH nodeH emptyH zeroD Dp encS encD).
Check (filtered_forged : forall B beq ltb blen cat sha leafH nodeH emptyH zeroD Dp encS encD,
  stmt_filtered_forged B beq ltb blen cat sha leafH nodeH emptyH zeroD Dp encS encD).
Check (celestia_forged : forall B beq ltb blen cat sha leafH nodeH emptyH zeroD Dp encS encD,
  stmt_celestia_forged B beq ltb blen cat sha leafH nodeH emptyH zeroD Dp encS encD).
Check (conductor_forged : forall B beq ltb blen cat sha leafH nodeH emptyH zeroD Dp encS encD,
  stmt_conductor_forged B beq ltb blen cat sha leafH nodeH emptyH zeroD Dp encS encD).
Print Assumptions root_anchor.
Print Assumptions entry_member.
Print Assumptions ids_anchor.
Print Assumptions full_forged.
Print Assumptions filtered_forged.
Print Assumptions celestia_forged.
Print Assumptions conductor_forged.
