(** C07 -- generic facts about the RFC 6962 tree hash [mth] of the Merkle model: the split of a
    list of two or more leaves, and injectivity of [mth] up to explicit collisions. *)
From Astria Require Import Merkle.MerkleModel Merkle.MerkleSpec Merkle.MerkleSound.

Section BDMerkle.
  Variable D : Type.
  Variable nodeH : D -> D -> D.
  Variable emptyH : D.

  Local Notation mth_d := (mth_d D nodeH emptyH).
  Local Notation mth := (mth D nodeH emptyH).
  Local Notation Collision := (Collision D nodeH).

  Definition IsNode (d : D) : Prop := exists a b, d = nodeH a b.

  Lemma bdm_pow_pos d : (0 < Nat.pow 2 d)%nat.
  Proof. induction d as [|d IH]; cbn [Nat.pow]; lia. Qed.

  Lemma bdm_pow_mono d e : (d <= e)%nat -> (Nat.pow 2 d <= Nat.pow 2 e)%nat.
  Proof. intros H. apply Nat.pow_le_mono_r; lia. Qed.

  Lemma mth_d_skip d l : (length l <= Nat.pow 2 d)%nat -> mth_d (S d) l = mth_d d l.
  Proof.
    intros H. cbn [MerkleModel.mth_d]. apply Nat.leb_le in H. rewrite H. reflexivity.
  Qed.

  Lemma mth_d_node d l : (Nat.pow 2 d < length l)%nat ->
    mth_d (S d) l =
    nodeH (mth_d d (firstn (Nat.pow 2 d) l)) (mth_d d (skipn (Nat.pow 2 d) l)).
  Proof.
    intros H. cbn [MerkleModel.mth_d]. apply Nat.leb_gt in H. rewrite H. reflexivity.
  Qed.

  Lemma mth_d_plus d k : forall l, (length l <= Nat.pow 2 d)%nat ->
    mth_d (k + d) l = mth_d d l.
  Proof.
    induction k as [|k IH]; intros l Hl; [reflexivity|].
    cbn [plus]. rewrite mth_d_skip; [apply IH; exact Hl|].
    pose proof (bdm_pow_mono d (k + d)). lia.
  Qed.

  Lemma mth_d_irrel d d' l :
    (length l <= Nat.pow 2 d)%nat -> (length l <= Nat.pow 2 d')%nat ->
    mth_d d l = mth_d d' l.
  Proof.
    intros H H'. destruct (Nat.le_ge_cases d d') as [Hle|Hge].
    - replace d' with ((d' - d) + d)%nat by lia. symmetry. apply mth_d_plus. exact H.
    - replace d with ((d - d') + d')%nat by lia. apply mth_d_plus. exact H'.
  Qed.

  Lemma bdm_le_pow_log2_up n : (n <= Nat.pow 2 (Nat.log2_up n))%nat.
  Proof.
    destruct n as [|[|n]].
    - cbn. lia.
    - cbn. lia.
    - assert (H1 : (1 < S (S n))%nat) by lia.
      pose proof (Nat.log2_up_spec _ H1) as [_ Hhi]. exact Hhi.
  Qed.

  Lemma mth_d_mth d l : (length l <= Nat.pow 2 d)%nat -> mth_d d l = mth l.
  Proof.
    intros H. unfold MerkleModel.mth. apply mth_d_irrel; [exact H|].
    apply bdm_le_pow_log2_up.
  Qed.

  Lemma mth_nil : mth [] = emptyH.
  Proof. reflexivity. Qed.

  Lemma mth_one x : mth [x] = x.
  Proof. reflexivity. Qed.

  Lemma mth_split : forall l, (2 <= length l)%nat ->
    exists k, (0 < k < length l)%nat /\ mth l = nodeH (mth (firstn k l)) (mth (skipn k l)).
  Proof.
    intros l Hl.
    assert (H1 : (1 < length l)%nat) by lia.
    pose proof (Nat.log2_up_spec _ H1) as [Hlo Hhi].
    pose proof (Nat.log2_up_pos _ H1) as Hpos.
    unfold MerkleModel.mth at 1.
    destruct (Nat.log2_up (length l)) as [|e]; [lia|].
    cbn [Nat.pred] in Hlo.
    exists (Nat.pow 2 e). split.
    - pose proof (bdm_pow_pos e). lia.
    - rewrite mth_d_node by exact Hlo.
      rewrite (mth_d_mth e (firstn _ l)).
      + rewrite (mth_d_mth e (skipn _ l)); [reflexivity|].
        rewrite skipn_length. cbn [Nat.pow] in Hhi. lia.
      + rewrite firstn_length. lia.
  Qed.

  (** * injectivity of the tree hash up to explicit collisions *)
  Variable eqD : D -> D -> bool.
  Hypothesis Heq : EqDSpec D eqD.

  Definition Bad (l : list D) : Prop :=
    Collision \/ (exists x, In x l /\ IsNode x) \/ In emptyH l \/ IsNode emptyH.

  Lemma Bad_incl l m : (forall x, In x l -> In x m) -> Bad l -> Bad m.
  Proof.
    intros Hi [H|[[x [Hx Hn]]|[H|H]]].
    - left. exact H.
    - right. left. exists x. split; [apply Hi; exact Hx|exact Hn].
    - right. right. left. apply Hi. exact H.
    - right. right. right. exact H.
  Qed.

  Lemma bdm_in_firstn {A} k (l : list A) x : In x (firstn k l) -> In x l.
  Proof. intros H. rewrite <- (firstn_skipn k l). apply in_or_app. left. exact H. Qed.

  Lemma bdm_in_skipn {A} k (l : list A) x : In x (skipn k l) -> In x l.
  Proof. intros H. rewrite <- (firstn_skipn k l). apply in_or_app. right. exact H. Qed.

  Lemma mth_inj_aux : forall n l l', (length l <= n)%nat ->
    mth l = mth l' -> l = l' \/ Bad (l ++ l').
  Proof.
    induction n as [|n IH]; intros l l' Hn Hm.
    - destruct l as [|x l]; [|cbn in Hn; lia].
      destruct l' as [|y [|z l']].
      + left. reflexivity.
      + right. rewrite mth_nil, mth_one in Hm. right. right. left. left. symmetry. exact Hm.
      + right. destruct (mth_split (y :: z :: l')) as [k [_ Hk]]; [cbn; lia|].
        rewrite mth_nil, Hk in Hm. right. right. right. eexists. eexists. exact Hm.
    - destruct l as [|x [|x2 l]].
      + destruct l' as [|y [|z l']].
        * left. reflexivity.
        * right. rewrite mth_nil, mth_one in Hm. right. right. left. left. symmetry. exact Hm.
        * right. destruct (mth_split (y :: z :: l')) as [k [_ Hk]]; [cbn; lia|].
          rewrite mth_nil, Hk in Hm. right. right. right. eexists. eexists. exact Hm.
      + destruct l' as [|y [|z l']].
        * right. rewrite mth_nil, mth_one in Hm. right. right. left. left. exact Hm.
        * rewrite !mth_one in Hm. left. rewrite Hm. reflexivity.
        * right. destruct (mth_split (y :: z :: l')) as [k [_ Hk]]; [cbn; lia|].
          rewrite mth_one, Hk in Hm. right. left. exists x. split; [left; reflexivity|].
          eexists. eexists. exact Hm.
      + destruct (mth_split (x :: x2 :: l)) as [k [Hkr Hk]]; [cbn; lia|].
        remember (x :: x2 :: l) as L eqn:HL.
        destruct l' as [|y [|z l']].
        * right. rewrite mth_nil, Hk in Hm. right. right. right. eexists. eexists.
          symmetry. exact Hm.
        * right. rewrite mth_one, Hk in Hm. right. left. exists y. split.
          { apply in_or_app. right. left. reflexivity. }
          eexists. eexists. symmetry. exact Hm.
        * destruct (mth_split (y :: z :: l')) as [k' [Hkr' Hk']]; [cbn; lia|].
          remember (y :: z :: l') as L' eqn:HL'.
          rewrite Hk, Hk' in Hm.
          destruct (nodeH_inj_or_collision D nodeH eqD Heq _ _ _ _ Hm) as [[Ha Hb]|Hc];
            [|right; left; exact Hc].
          assert (HlenL : (length L <= S n)%nat) by exact Hn.
          assert (Hf : (length (firstn k L) <= n)%nat) by (rewrite firstn_length; lia).
          assert (Hs : (length (skipn k L) <= n)%nat) by (rewrite skipn_length; lia).
          destruct (IH _ _ Hf Ha) as [E1|B1].
          2:{ right. revert B1. apply Bad_incl. intros u Hu.
              apply in_app_or in Hu. apply in_or_app.
              destruct Hu as [Hu|Hu]; [left|right]; eapply bdm_in_firstn; exact Hu. }
          destruct (IH _ _ Hs Hb) as [E2|B2].
          2:{ right. revert B2. apply Bad_incl. intros u Hu.
              apply in_app_or in Hu. apply in_or_app.
              destruct Hu as [Hu|Hu]; [left|right]; eapply bdm_in_skipn; exact Hu. }
          left. rewrite <- (firstn_skipn k L), <- (firstn_skipn k' L'), E1, E2. reflexivity.
  Qed.

  Lemma mth_inj l l' :
    mth l = mth l' ->
    l = l' \/ Collision \/ (exists x, In x (l ++ l') /\ IsNode x) \/ In emptyH (l ++ l')
    \/ IsNode emptyH.
  Proof. intros H. exact (mth_inj_aux (length l) l l' (le_n _) H). Qed.
  (** * membership: a proof that reconstructs the tree hash of [L] is a proof for a leaf of [L] *)
  Local Notation reconstruct_loop := (reconstruct_loop D nodeH).
  Local Notation reconstruct_root := (reconstruct_root D nodeH).

  Lemma reconstruct_loop_snoc n s : forall path i acc r,
    reconstruct_loop (path ++ [s]) i n acc = Some r ->
    exists acc', reconstruct_loop path i n acc = Some acc' /\
                 (r = nodeH acc' s \/ r = nodeH s acc').
  Proof.
    induction path as [|a path IH]; intros i acc r H.
    - cbn [app MerkleModel.reconstruct_loop] in H |- *. exists acc. split; [reflexivity|].
      destruct (checked_complete_parent i n) as [[p|]|]; [| |discriminate H].
      + destruct (i <? p); injection H as H; [left|right]; symmetry; exact H.
      + injection H as H. left. symmetry. exact H.
    - cbn [app MerkleModel.reconstruct_loop] in H |- *.
      destruct (checked_complete_parent i n) as [[p|]|]; [| |discriminate H].
      + apply IH. exact H.
      + apply IH. exact H.
  Qed.

  Definition MemberAlt (lh : D) (L : list D) : Prop :=
    In lh L \/ Collision \/ IsNode lh \/ (exists x, In x L /\ IsNode x) \/
    (L = [] /\ lh = emptyH) \/ IsNode emptyH.

  Lemma MemberAlt_part lh L1 L : (forall x, In x L1 -> In x L) -> L1 <> [] ->
    MemberAlt lh L1 -> MemberAlt lh L.
  Proof.
    intros Hi Hne [H|[H|[H|[[x [Hx Hn]]|[[H _]|H]]]]].
    - left. apply Hi. exact H.
    - right. left. exact H.
    - right. right. left. exact H.
    - right. right. right. left. exists x. split; [apply Hi; exact Hx|exact Hn].
    - contradiction.
    - right. right. right. right. right. exact H.
  Qed.

  Lemma reconstruct_loop_member n : forall path i acc L,
    reconstruct_loop path i n acc = Some (mth L) -> MemberAlt acc L.
  Proof.
    induction path as [|s path IH] using rev_ind; intros i acc L H.
    - cbn [MerkleModel.reconstruct_loop] in H. injection H as H.
      destruct L as [|x [|x2 L]].
      + right. right. right. right. left. split; [reflexivity|exact H].
      + left. left. symmetry. exact H.
      + destruct (mth_split (x :: x2 :: L)) as [k [_ Hk]]; [cbn; lia|].
        right. right. left. rewrite H, Hk. eexists. eexists. reflexivity.
    - apply reconstruct_loop_snoc in H. destruct H as [acc' [H Hr]].
      destruct L as [|x [|x2 L]].
      + right. right. right. right. right. rewrite mth_nil in Hr.
        destruct Hr as [Hr|Hr]; eexists; eexists; exact Hr.
      + right. right. right. left. exists x. split; [left; reflexivity|].
        rewrite mth_one in Hr. destruct Hr as [Hr|Hr]; eexists; eexists; exact Hr.
      + destruct (mth_split (x :: x2 :: L)) as [k [Hkr Hk]]; [cbn; lia|].
        remember (x :: x2 :: L) as L0 eqn:HL0.
        assert (N1 : firstn k L0 <> []).
        { intros E. apply (f_equal (@length D)) in E. rewrite firstn_length in E.
          cbn [length] in E. lia. }
        assert (N2 : skipn k L0 <> []).
        { intros E. apply (f_equal (@length D)) in E. rewrite skipn_length in E.
          cbn [length] in E. lia. }
        rewrite Hk in Hr. destruct Hr as [Hr|Hr].
        * destruct (nodeH_inj_or_collision D nodeH eqD Heq _ _ _ _ Hr) as [[Ha _]|Hc];
            [|right; left; exact Hc].
          rewrite <- Ha in H. apply IH in H. revert H.
          apply MemberAlt_part; [intros u; apply bdm_in_firstn|exact N1].
        * destruct (nodeH_inj_or_collision D nodeH eqD Heq _ _ _ _ Hr) as [[_ Hb]|Hc];
            [|right; left; exact Hc].
          rewrite <- Hb in H. apply IH in H. revert H.
          apply MemberAlt_part; [intros u; apply bdm_in_skipn|exact N2].
  Qed.

  Lemma reconstruct_member p lh L :
    reconstruct_root p lh = Some (mth L) ->
    In lh L \/ Collision \/ IsNode lh \/ (exists x, In x L /\ IsNode x) \/
    (L = [] /\ lh = emptyH) \/ IsNode emptyH.
  Proof.
    intros H. apply (reconstruct_root_inv D nodeH) in H. destruct H as [i H].
    exact (reconstruct_loop_member _ _ _ _ _ H).
  Qed.
End BDMerkle.

Print Assumptions mth_split.
Print Assumptions mth_inj.
Print Assumptions reconstruct_member.
