(** C07 -- model of the path "block transactions -> commitments -> stored sequencer block ->
    served (full / filtered) and published (Celestia) forms -> receivers", on top of the Merkle
    model of C08, over abstract byte strings and hashes.

    Code modelled (in the order the code does things):
    - [astria_core::protocol::group_rollup_data_submissions_by_rollup_id] and
      [proposal/commitment.rs: generate_rollup_datas_commitment]           -> [commit_group], [commitments]
    - [ExpandedBlockData::new_from_{typed,untyped}_data] (the data tree)   -> [expand]
    - [SequencerBlockBuilder::try_build]                                   -> [try_build]
    - [app/mod.rs post_execute_transactions] (proposer commitments + build) -> [finalize]
    - [grpc/state_ext.rs put_sequencer_block / get_sequencer_block_by_hash] -> [stored_block]
    - [grpc/sequencer.rs get_filtered_sequencer_block]                     -> [serve_filtered]
    - [SequencerBlock::to_filtered_block]                                  -> [to_filtered]
    - [SequencerBlock::split_for_celestia]                                 -> [split]
    - [SequencerBlock::try_from_raw], [FilteredSequencerBlock::try_from_raw],
      [SubmittedMetadata::try_from_raw], [SubmittedRollupData::try_from_raw] (Merkle checks and
      the length checks of ids / hashes only)                              -> [recv_full], [recv_filtered], [recv_meta], [blob_ok]
    - conductor [verify_rollup_blob_against_sequencer_blob],
      [reconstruct_blocks_from_verified_blobs] (with the repair of finding F16)                             -> [audit_blob], [reconstruct]
    - the single-element tamperings applied by the harness to served data  -> [tamper], [tamper_f]

    [IndexMap] = association list in insertion order; [HashMap] of deposits = association list in
    an arbitrary order (the theorems show the result does not depend on it).  [option] results:
    [None] = the Rust code would panic (only the 64-bit index arithmetic of the flat tree can, for
    more than 2^62 leaves).  Receivers use the RFC 6962 tree hash [mth] for
    [Tree::from_leaves(..).root()] (justified by C08_root_is_mth), builders use the flat tree.
    Proof-free: this file is what gets extracted and run against the code. *)
From Astria Require Export Merkle.MerkleModel.

(** kind of a data item after the two commitments (its sha256 digest is what the model sees) *)
Inductive item_kind := KUpgrade | KEci | KTx.

(** the single-element tamperings of served data; [x] = explicit new bytes, [j] = position of a
    rollup entry (or Celestia rollup blob) in the served list, [k] = position inside a list *)
Inductive tamper (B : Type) :=
| TAlter (j k : nat) (x : B)      (* element k of entry j replaced by x *)
| TSwap (j k : nat)               (* elements k and k+1 of entry j exchanged *)
| TDrop (j k : nat)               (* element k of entry j removed *)
| TDup (j k : nat)                (* element k of entry j repeated *)
| TApp (j : nat) (x : B)          (* x appended to the list of entry j *)
| TReid (j : nat) (id : B)        (* entry j attributed to rollup id *)
| TMvData (j j2 : nat)            (* entry j carries the list of entry j2 *)
| TSwapProof (j j2 : nat)         (* proofs of entries j and j2 exchanged *)
| TPIdx (j : nat) (v : N) | TPSize (j : nat) (v : N)
| TPPath (j k : nat) (x : B) | TPPathDrop (j : nat)
| TRmEntry (j : nat) | TDupEntry (j : nat) | TSwapEntry (j j2 : nat)
| TRtr (x : B) | TDh (x : B) | TBh (x : B)
| TIdsDrop (k : nat) | TIdsAdd (x : B) | TIdsSwap (k : nat)
| TRtpIdx (v : N) | TRtpSize (v : N) | TRipIdx (v : N) | TRipSize (v : N)
| TSwapRtpRip.
Arguments TAlter {B}. Arguments TSwap {B}. Arguments TDrop {B}. Arguments TDup {B}.
Arguments TApp {B}. Arguments TReid {B}. Arguments TMvData {B}. Arguments TSwapProof {B}.
Arguments TPIdx {B}. Arguments TPSize {B}. Arguments TPPath {B}. Arguments TPPathDrop {B}.
Arguments TRmEntry {B}. Arguments TDupEntry {B}. Arguments TSwapEntry {B}.
Arguments TRtr {B}. Arguments TDh {B}. Arguments TBh {B}.
Arguments TIdsDrop {B}. Arguments TIdsAdd {B}. Arguments TIdsSwap {B}.
Arguments TRtpIdx {B}. Arguments TRtpSize {B}. Arguments TRipIdx {B}. Arguments TRipSize {B}.
Arguments TSwapRtpRip {B}.

(** * list helpers (positions are [nat]) *)
Section ListOps.
  Context {A : Type}.
  Fixpoint upd_nth (k : nat) (f : A -> A) (l : list A) : list A :=
    match l, k with
    | [], _ => []
    | x :: r, O => f x :: r
    | x :: r, S k' => x :: upd_nth k' f r
    end.
  Fixpoint remove_nth (k : nat) (l : list A) : list A :=
    match l, k with
    | [], _ => []
    | _ :: r, O => r
    | x :: r, S k' => x :: remove_nth k' r
    end.
  (** repeat element k right after itself *)
  Fixpoint dup_nth (k : nat) (l : list A) : list A :=
    match l, k with
    | [], _ => []
    | x :: r, O => x :: x :: r
    | x :: r, S k' => x :: dup_nth k' r
    end.
  (** exchange elements k and k+1 *)
  Fixpoint swap_adj (k : nat) (l : list A) : list A :=
    match l, k with
    | x :: y :: r, O => y :: x :: r
    | x :: r, S k' => x :: swap_adj k' r
    | l', _ => l'
    end.
  (** exchange elements i and j (no change when one of them does not exist) *)
  Definition swap_ij (i j : nat) (l : list A) : list A :=
    match nth_error l i, nth_error l j with
    | Some a, Some b => upd_nth j (fun _ => a) (upd_nth i (fun _ => b) l)
    | _, _ => l
    end.
  Fixpoint filter_opt {C} (f : A -> option C) (l : list A) : list C :=
    match l with
    | [] => []
    | x :: r => match f x with Some y => y :: filter_opt f r | None => filter_opt f r end
    end.
End ListOps.

Section BlockData.
  Variable B : Type.                  (* byte strings *)
  Variable beq : B -> B -> bool.      (* == *)
  Variable ltb : B -> B -> bool.      (* Ord of RollupId = lexicographic order of [u8; 32] *)
  Variable blen : B -> N.
  Variable cat : B -> B -> B.
  Variable sha : B -> B.              (* Sha256::digest *)
  Variable leafH : B -> B.            (* sha256(0x00 || x): merkle leaf hash *)
  Variable nodeH : B -> B -> B.       (* sha256(0x01 || l || r) *)
  Variable emptyH : B.                (* sha256(""): root of the empty tree *)
  Variable zeroD : B.                 (* placeholder written by Tree::push *)
  Variable Dp : Type.                 (* a bridge deposit *)
  Variable encS : B -> B.             (* RollupData::SequencedData(bytes) protobuf encoded *)
  Variable encD : Dp -> B.            (* RollupData::Deposit(deposit) protobuf encoded *)

  Definition mproof := proof B.

  (** * IndexMap<RollupId, _> *)

  (** [map.entry(k).or_default().extend(xs)] ([push(x)] = extend by [x]) *)
  Fixpoint im_extend (m : list (B * list B)) (k : B) (xs : list B) : list (B * list B) :=
    match m with
    | [] => [(k, xs)]
    | (k', v) :: r => if beq k' k then (k', v ++ xs) :: r else (k', v) :: im_extend r k xs
    end.

  (** [map.insert(k, v)]: a repeated key keeps its position and takes the new value *)
  Fixpoint im_insert {V} (m : list (B * V)) (k : B) (v : V) : list (B * V) :=
    match m with
    | [] => [(k, v)]
    | (k', v') :: r => if beq k' k then (k', v) :: r else (k', v') :: im_insert r k v
    end.
  Definition im_collect {V} (l : list (B * V)) : list (B * V) :=
    fold_left (fun m kv => im_insert m (fst kv) (snd kv)) l [].

  Fixpoint im_get {V} (m : list (B * V)) (k : B) : option V :=
    match m with
    | [] => None
    | (k', v) :: r => if beq k' k then Some v else im_get r k
    end.

  Definition mem (k : B) (l : list B) : bool := existsb (beq k) l.

  (** [sort_unstable_keys] (keys are unique, so every sorting algorithm gives this result) *)
  Fixpoint ins_key {V} (kv : B * V) (m : list (B * V)) : list (B * V) :=
    match m with
    | [] => [kv]
    | kv' :: r => if ltb (fst kv') (fst kv) then kv' :: ins_key kv r else kv :: kv' :: r
    end.
  Definition sort_keys {V} (m : list (B * V)) : list (B * V) := fold_right ins_key [] m.
  (** [Vec<RollupId>::sort_unstable] *)
  Definition sort_ids (l : list B) : list B := map fst (sort_keys (map (fun i => (i, tt)) l)).

  (** * grouping by rollup id *)

  (** the loop over the block's rollup data submissions (block order) *)
  Definition push_subs (subs : list (B * B)) : list (B * list B) :=
    fold_left (fun m s => im_extend m (fst s) [encS (snd s)]) subs [].
  (** the loop over the deposits map (some iteration order) *)
  Definition add_deposits (m : list (B * list B)) (deps : list (B * list Dp)) : list (B * list B) :=
    fold_left (fun m d => im_extend m (fst d) (map encD (snd d))) deps m.

  (** [generate_rollup_datas_commitment]: group (sorted), add deposits, sort *)
  Definition commit_group (subs : list (B * B)) (deps : list (B * list Dp)) : list (B * list B) :=
    sort_keys (add_deposits (sort_keys (push_subs subs)) deps).
  (** [try_build]: group, add deposits, sort *)
  Definition build_group (subs : list (B * B)) (deps : list (B * list Dp)) : list (B * list B) :=
    sort_keys (add_deposits (push_subs subs) deps).

  (** * trees (builder side: the flat tree of C08; [None] = panic) *)
  Definition tree_of (leaf_hashes : list B) : option (tree B) := from_leaves B nodeH zeroD leaf_hashes.
  Definition troot (t : tree B) : option B := root B emptyH t.
  (** [Tree::from_leaves(leaves).root()] *)
  Definition root_of_leaves (leaves : list B) : option B :=
    do t <- tree_of (map leafH leaves); troot t.
  (** the leaf of one rollup: id || root of its data *)
  Definition rollup_leaf_bytes (id : B) (txs : list B) : option B :=
    do r <- root_of_leaves txs; Some (cat id r).
  Fixpoint rollup_leaves (m : list (B * list B)) : option (list B) :=
    match m with
    | [] => Some []
    | (id, txs) :: r => do l <- rollup_leaf_bytes id txs; do ls <- rollup_leaves r; Some (l :: ls)
    end.
  (** [derive_merkle_tree_from_rollup_txs] *)
  Definition rollup_tree (m : list (B * list B)) : option (tree B) :=
    do ls <- rollup_leaves m; tree_of (map leafH ls).
  (** [tree.construct_proof(i).expect(..)] *)
  Definition get_proof (t : tree B) (i : nat) : option mproof :=
    match construct_proof B t (N.of_nat i) with Some (Some p) => Some p | _ => None end.

  (** the two commitments of the proposer: (rollup transactions root, rollup ids root) *)
  Definition commitments (subs : list (B * B)) (deps : list (B * list Dp)) : option (B * B) :=
    let m := commit_group subs deps in
    do rir <- root_of_leaves (map fst m);
    do t <- rollup_tree m;
    do rtr <- troot t;
    Some (rtr, rir).

  (** * the data tree ([ExpandedBlockData]) *)
  Definition keep_item (kb : item_kind * B) : bool :=
    match fst kb with KUpgrade => false | _ => true end.
  (** leaves: sha(rollup txs root), sha(rollup ids root), then the digests of the extended commit
      info (if any) and of the user transactions; the upgrade change hashes item is NOT a leaf *)
  Definition data_leaves (rtr rir : B) (rest : list (item_kind * B)) : list B :=
    sha rtr :: sha rir :: map snd (filter keep_item rest).
  Record expanded := { x_dh : B; x_rtr : B; x_rtp : mproof; x_rir : B; x_rip : mproof }.
  Definition expand (rtr rir : B) (rest : list (item_kind * B)) : option expanded :=
    do t <- tree_of (map leafH (data_leaves rtr rir rest));
    do dh <- troot t;
    do rtp <- get_proof t 0;
    do rip <- get_proof t 1;
    Some {| x_dh := dh; x_rtr := rtr; x_rtp := rtp; x_rir := rir; x_rip := rip |}.

  (** * the sequencer block *)
  Record entry := { e_id : B; e_txs : list B; e_proof : mproof }.
  Record block := { b_hash : B; b_rtr : B; b_dh : B; b_entries : list entry;
                    b_rtp : mproof; b_rip : mproof }.
  Inductive build_res := BuildOk (b : block) | BuildErrIds | BuildErrTxs | BuildPanic.

  Definition keyed (es : list entry) : list (B * entry) := map (fun e => (e_id e, e)) es.
  Definition entry_data (e : entry) : B * list B := (e_id e, e_txs e).

  Fixpoint attach_proofs (t : tree B) (i : nat) (m : list (B * list B)) : option (list entry) :=
    match m with
    | [] => Some []
    | (id, txs) :: r =>
        do p <- get_proof t i;
        do es <- attach_proofs t (S i) r;
        Some ({| e_id := id; e_txs := txs; e_proof := p |} :: es)
    end.

  (** [SequencerBlockBuilder::try_build] *)
  Definition try_build (bh : B) (x : expanded) (subs : list (B * B)) (deps : list (B * list Dp))
    : build_res :=
    let m := build_group subs deps in
    match root_of_leaves (map fst m) with
    | None => BuildPanic
    | Some ir =>
        if negb (beq (x_rir x) ir) then BuildErrIds
        else match rollup_tree m with
             | None => BuildPanic
             | Some t =>
                 match troot t with
                 | None => BuildPanic
                 | Some tr =>
                     if negb (beq (x_rtr x) tr) then BuildErrTxs
                     else match attach_proofs t 0 m with
                          | None => BuildPanic
                          | Some es =>
                              BuildOk {| b_hash := bh; b_rtr := x_rtr x; b_dh := x_dh x;
                                         b_entries := map snd (sort_keys (keyed es));
                                         b_rtp := x_rtp x; b_rip := x_rip x |}
                          end
                 end
             end
    end.

  (** an honest proposer's commitments over the block, then the build in [finalize_block] *)
  Definition finalize (bh : B) (rest : list (item_kind * B)) (subs : list (B * B))
      (deps : list (B * list Dp)) : build_res :=
    match commitments subs deps with
    | None => BuildPanic
    | Some (rtr, rir) =>
        match expand rtr rir rest with
        | None => BuildPanic
        | Some x => try_build bh x subs deps
        end
    end.

  (** * storage and serving *)
  Definition block_ids (b : block) : list B := map e_id (b_entries b).
  Definition find_entry (es : list entry) (id : B) : option entry := im_get (keyed es) id.

  (** [put_sequencer_block] writes the id list and one value per id; [get_sequencer_block_by_hash]
      reads the id list and inserts the values into an IndexMap in that order *)
  Definition stored_block (b : block) : block :=
    {| b_hash := b_hash b; b_rtr := b_rtr b; b_dh := b_dh b;
       b_entries := map snd (im_collect (keyed (filter_opt (find_entry (b_entries b)) (block_ids b))));
       b_rtp := b_rtp b; b_rip := b_rip b |}.

  Record filtered := { f_hash : B; f_rtr : B; f_dh : B; f_entries : list entry;
                       f_rtp : mproof; f_all : list B; f_rip : mproof }.

  (** [get_filtered_sequencer_block]: requested ids that are in the (sorted) id list, in request
      order, repetitions kept *)
  Definition serve_filtered (b : block) (req : list B) : filtered :=
    let all := sort_ids (block_ids b) in
    let want := filter (fun id => mem id all) req in
    {| f_hash := b_hash b; f_rtr := b_rtr b; f_dh := b_dh b;
       f_entries := filter_opt (find_entry (b_entries b)) want;
       f_rtp := b_rtp b; f_all := all; f_rip := b_rip b |}.

  (** [SequencerBlock::to_filtered_block] *)
  Definition to_filtered (b : block) (req : list B) : filtered :=
    {| f_hash := b_hash b; f_rtr := b_rtr b; f_dh := b_dh b;
       f_entries := map snd (im_collect (keyed (filter_opt (find_entry (b_entries b)) req)));
       f_rtp := b_rtp b; f_all := block_ids b; f_rip := b_rip b |}.

  Record meta := { m_hash : B; m_rtr : B; m_dh : B; m_ids : list B; m_rtp : mproof; m_rip : mproof }.
  Record blob := { bl_hash : B; bl_id : B; bl_txs : list B; bl_proof : mproof }.

  (** [split_for_celestia] *)
  Definition split_celestia (b : block) : meta * list blob :=
    ({| m_hash := b_hash b; m_rtr := b_rtr b; m_dh := b_dh b; m_ids := block_ids b;
        m_rtp := b_rtp b; m_rip := b_rip b |},
     map (fun e => {| bl_hash := b_hash b; bl_id := e_id e; bl_txs := e_txs e;
                      bl_proof := e_proof e |}) (b_entries b)).

  (** * receivers *)
  Definition mroot (leaf_hashes : list B) : B := mth B nodeH emptyH leaf_hashes.
  Definition txs_root (txs : list B) : B := mroot (map leafH txs).
  Definition rollup_leaf (id : B) (txs : list B) : B := leafH (cat id (txs_root txs)).
  Definition data_root (d : list (B * list B)) : B :=
    mroot (map (fun kv => rollup_leaf (fst kv) (snd kv)) d).
  Definition ids_root (ids : list B) : B := mroot (map leafH ids).

  (** [merkle::Proof::try_from_raw] on whole 32-byte segments *)
  Definition proof_wf (p : mproof) : bool :=
    negb (tree_size p =? 0) && is_leaf_index_in_tree (leaf_index p) (tree_size p).
  (** [proof.verify(leaf, root)] given the leaf hash *)
  Definition pverifies (p : mproof) (leaf_hash root : B) : bool :=
    proof_wf p &&
    match verify B nodeH beq p leaf_hash root with Some true => true | _ => false end.

  Definition len32 (x : B) : bool := blen x =? 32.
  Definition hdr_ok (bh rtr dh : B) : bool := len32 bh && len32 rtr && len32 dh.
  (** [RollupTransactions::try_from_raw] *)
  Definition entry_wf (e : entry) : bool := len32 (e_id e) && proof_wf (e_proof e).
  (** [do_rollup_transactions_match_root] *)
  Definition entry_verifies (rtr : B) (e : entry) : bool :=
    pverifies (e_proof e) (rollup_leaf (e_id e) (e_txs e)) rtr.
  (** [.collect::<IndexMap<_, _>>()] *)
  Definition collect (es : list entry) : list entry := map snd (im_collect (keyed es)).

  (** [SequencerBlock::try_from_raw] *)
  Definition recv_full (b : block) : bool :=
    let m := collect (b_entries b) in
    hdr_ok (b_hash b) (b_rtr b) (b_dh b) &&
    proof_wf (b_rtp b) && proof_wf (b_rip b) &&
    forallb entry_wf (b_entries b) &&
    pverifies (b_rtp b) (leafH (sha (b_rtr b))) (b_dh b) &&
    pverifies (b_rtp b) (leafH (sha (data_root (map entry_data m)))) (b_dh b) &&
    pverifies (b_rip b) (leafH (sha (ids_root (map e_id m)))) (b_dh b) &&
    forallb (entry_verifies (b_rtr b)) m.

  (** [FilteredSequencerBlock::try_from_raw] *)
  Definition recv_filtered (f : filtered) : bool :=
    let m := collect (f_entries f) in
    hdr_ok (f_hash f) (f_rtr f) (f_dh f) &&
    proof_wf (f_rtp f) && proof_wf (f_rip f) &&
    forallb entry_wf (f_entries f) &&
    forallb len32 (f_all f) &&
    pverifies (f_rtp f) (leafH (sha (f_rtr f))) (f_dh f) &&
    forallb (entry_verifies (f_rtr f)) m &&
    pverifies (f_rip f) (leafH (sha (ids_root (f_all f)))) (f_dh f).

  (** [SubmittedMetadata::try_from_raw] *)
  Definition recv_meta (m : meta) : bool :=
    hdr_ok (m_hash m) (m_rtr m) (m_dh m) &&
    forallb len32 (m_ids m) &&
    proof_wf (m_rtp m) && proof_wf (m_rip m) &&
    pverifies (m_rtp m) (leafH (sha (m_rtr m))) (m_dh m) &&
    pverifies (m_rip m) (leafH (sha (ids_root (m_ids m)))) (m_dh m).

  (** [SubmittedRollupData::try_from_raw] *)
  Definition blob_ok (b : blob) : bool :=
    len32 (bl_id b) && len32 (bl_hash b) && proof_wf (bl_proof b).

  (** conductor [verify_rollup_blob_against_sequencer_blob] *)
  Definition audit_blob (m : meta) (b : blob) : bool :=
    pverifies (bl_proof b) (rollup_leaf (bl_id b) (bl_txs b)) (m_rtr m).

  (** [remove_header_blob_matching_rollup_blob]: the header with the blob's block hash (hashes of
      verified headers are unique), removed when the audit succeeds *)
  Fixpoint take_header (hs : list meta) (b : blob) : option (meta * list meta) :=
    match hs with
    | [] => None
    | h :: r =>
        if beq (m_hash h) (bl_hash b)
        then (if audit_blob h b then Some (h, r) else None)
        else match take_header r b with
             | Some (h', r') => Some (h', h :: r')
             | None => None
             end
    end.

  (** the loop over the rollup blobs found in the rollup's namespace: a blob that carries the id
      of another rollup is dropped first (repair of finding F16), then
      [remove_header_blob_matching_rollup_blob] *)
  Fixpoint recon_blobs (rollup : B) (hs : list meta) (bs : list blob)
    : list (B * list B) * list meta :=
    match bs with
    | [] => ([], hs)
    | b :: r =>
        if negb (beq (bl_id b) rollup) then recon_blobs rollup hs r
        else match take_header hs b with
             | Some (h, hs') =>
                 let '(out, hs2) := recon_blobs rollup hs' r in ((m_hash h, bl_txs b) :: out, hs2)
             | None => recon_blobs rollup hs r
             end
    end.

  (** [reconstruct_blocks_from_verified_blobs] for the conductor of [rollup]: (block hash,
      transactions) of every reconstructed block; a header left without a blob gives an empty
      block unless it lists [rollup] *)
  Definition reconstruct (hs : list meta) (bs : list blob) (rollup : B) : list (B * list B) :=
    let '(out, hs2) := recon_blobs rollup hs bs in
    out ++ flat_map (fun h => if mem rollup (m_ids h) then [] else [(m_hash h, [])]) hs2.

  (** * what a client holds after decoding *)
  Definition decoded_full (b : block) : option (list (B * list B)) :=
    if recv_full b then Some (map entry_data (collect (b_entries b))) else None.
  Definition decoded_filtered (f : filtered) : option (list B * list (B * list B)) :=
    if recv_filtered f then Some (f_all f, map entry_data (collect (f_entries f))) else None.

  (** * tamperings of served data *)
  Definition set_path (p : mproof) (path : list B) : mproof :=
    {| audit_path := path; leaf_index := leaf_index p; tree_size := tree_size p |}.
  Definition set_idx (p : mproof) (v : N) : mproof :=
    {| audit_path := audit_path p; leaf_index := v; tree_size := tree_size p |}.
  Definition set_size (p : mproof) (v : N) : mproof :=
    {| audit_path := audit_path p; leaf_index := leaf_index p; tree_size := v |}.
  Definition set_txs (e : entry) (txs : list B) : entry :=
    {| e_id := e_id e; e_txs := txs; e_proof := e_proof e |}.
  Definition set_id (e : entry) (id : B) : entry :=
    {| e_id := id; e_txs := e_txs e; e_proof := e_proof e |}.
  Definition set_proof (e : entry) (p : mproof) : entry :=
    {| e_id := e_id e; e_txs := e_txs e; e_proof := p |}.

  Definition tamper_entries (t : tamper B) (es : list entry) : list entry :=
    match t with
    | TAlter j k x => upd_nth j (fun e => set_txs e (upd_nth k (fun _ => x) (e_txs e))) es
    | TSwap j k => upd_nth j (fun e => set_txs e (swap_adj k (e_txs e))) es
    | TDrop j k => upd_nth j (fun e => set_txs e (remove_nth k (e_txs e))) es
    | TDup j k => upd_nth j (fun e => set_txs e (dup_nth k (e_txs e))) es
    | TApp j x => upd_nth j (fun e => set_txs e (e_txs e ++ [x])) es
    | TReid j id => upd_nth j (fun e => set_id e id) es
    | TMvData j j2 =>
        match nth_error es j2 with
        | Some e2 => upd_nth j (fun e => set_txs e (e_txs e2)) es
        | None => es
        end
    | TSwapProof j j2 =>
        match nth_error es j, nth_error es j2 with
        | Some e1, Some e2 =>
            upd_nth j2 (fun e => set_proof e (e_proof e1)) (upd_nth j (fun e => set_proof e (e_proof e2)) es)
        | _, _ => es
        end
    | TPIdx j v => upd_nth j (fun e => set_proof e (set_idx (e_proof e) v)) es
    | TPSize j v => upd_nth j (fun e => set_proof e (set_size (e_proof e) v)) es
    | TPPath j k x =>
        upd_nth j (fun e => set_proof e (set_path (e_proof e) (upd_nth k (fun _ => x) (audit_path (e_proof e))))) es
    | TPPathDrop j =>
        upd_nth j (fun e => set_proof e (set_path (e_proof e) (removelast (audit_path (e_proof e))))) es
    | TRmEntry j => remove_nth j es
    | TDupEntry j => match nth_error es j with Some e => es ++ [e] | None => es end
    | TSwapEntry j j2 => swap_ij j j2 es
    | _ => es
    end.

  Definition tamper_ids (t : tamper B) (ids : list B) : list B :=
    match t with
    | TIdsDrop k => remove_nth k ids
    | TIdsAdd x => ids ++ [x]
    | TIdsSwap k => swap_adj k ids
    | _ => ids
    end.

  (** the filtered form has every field; the full form and the Celestia pair are tampered
      through it *)
  Definition tamper_f (t : tamper B) (f : filtered) : filtered :=
    let rtp := match t with
               | TRtpIdx v => set_idx (f_rtp f) v | TRtpSize v => set_size (f_rtp f) v
               | TSwapRtpRip => f_rip f | _ => f_rtp f end in
    let rip := match t with
               | TRipIdx v => set_idx (f_rip f) v | TRipSize v => set_size (f_rip f) v
               | TSwapRtpRip => f_rtp f | _ => f_rip f end in
    {| f_hash := match t with TBh x => x | _ => f_hash f end;
       f_rtr := match t with TRtr x => x | _ => f_rtr f end;
       f_dh := match t with TDh x => x | _ => f_dh f end;
       f_entries := tamper_entries t (f_entries f);
       f_rtp := rtp;
       f_all := tamper_ids t (f_all f);
       f_rip := rip |}.

  Definition full_as_f (b : block) : filtered :=
    {| f_hash := b_hash b; f_rtr := b_rtr b; f_dh := b_dh b; f_entries := b_entries b;
       f_rtp := b_rtp b; f_all := []; f_rip := b_rip b |}.
  Definition f_as_full (f : filtered) : block :=
    {| b_hash := f_hash f; b_rtr := f_rtr f; b_dh := f_dh f; b_entries := f_entries f;
       b_rtp := f_rtp f; b_rip := f_rip f |}.
  Definition tamper_full (t : tamper B) (b : block) : block := f_as_full (tamper_f t (full_as_f b)).

  (** Celestia pair: the blobs are the entries (each keeps its own block hash field; [TBh]
      changes the metadata's block hash only) *)
  Definition cel_as_f (mb : meta * list blob) : filtered :=
    let '(m, bs) := mb in
    {| f_hash := m_hash m; f_rtr := m_rtr m; f_dh := m_dh m;
       f_entries := map (fun b => {| e_id := bl_id b; e_txs := bl_txs b; e_proof := bl_proof b |}) bs;
       f_rtp := m_rtp m; f_all := m_ids m; f_rip := m_rip m |}.
  Definition f_as_cel (bh : B) (f : filtered) : meta * list blob :=
    ({| m_hash := f_hash f; m_rtr := f_rtr f; m_dh := f_dh f; m_ids := f_all f;
        m_rtp := f_rtp f; m_rip := f_rip f |},
     map (fun e => {| bl_hash := bh; bl_id := e_id e; bl_txs := e_txs e; bl_proof := e_proof e |})
         (f_entries f)).
  (** [bh] = the block hash the blobs were published with *)
  Definition tamper_cel (t : tamper B) (bh : B) (mb : meta * list blob) : meta * list blob :=
    f_as_cel bh (tamper_f t (cel_as_f mb)).
End BlockData.

Arguments e_id {B}. Arguments e_txs {B}. Arguments e_proof {B}.
Arguments b_hash {B}. Arguments b_rtr {B}. Arguments b_dh {B}. Arguments b_entries {B}.
Arguments b_rtp {B}. Arguments b_rip {B}.
Arguments f_hash {B}. Arguments f_rtr {B}. Arguments f_dh {B}. Arguments f_entries {B}.
Arguments f_rtp {B}. Arguments f_all {B}. Arguments f_rip {B}.
Arguments m_hash {B}. Arguments m_rtr {B}. Arguments m_dh {B}. Arguments m_ids {B}.
Arguments m_rtp {B}. Arguments m_rip {B}.
Arguments bl_hash {B}. Arguments bl_id {B}. Arguments bl_txs {B}. Arguments bl_proof {B}.
Arguments x_dh {B}. Arguments x_rtr {B}. Arguments x_rtp {B}. Arguments x_rir {B}. Arguments x_rip {B}.
Arguments BuildOk {B}. Arguments BuildErrIds {B}. Arguments BuildErrTxs {B}. Arguments BuildPanic {B}.
