(** C07 / C17 bridge -- whatever the faithful decoders of Decode/DecodeModel.v (C17) accept, the
    boolean receivers of BlockData/BlockDataModel.v (C07) accept on the abstracted value (the value
    with everything dropped that the C07 records do not keep: chain id, height, time, proposer
    address, upgrade change hashes, extended commit info).  Hence every C07 theorem about a value
    accepted by [recv_full] / [recv_filtered] / [recv_meta] / [blob_ok] holds for a value accepted
    by [seq_block_from_raw] / [filtered_from_raw] / [meta_from_raw] / [rollup_data_from_raw]; the
    corollaries at the end transfer the binding of a rollup entry to its proof. *)
From Astria Require Import Decode.DecodeSpec Decode.DecodeProofs.
From Astria Require Import BlockData.BlockDataModel BlockData.BlockDataSpec BlockData.BlockDataTamper.

Section Bridge.
  Variable B : Type.
  Variable blen : B -> N.
  Variable beq : B -> B -> bool.
  Variable cat : B -> B -> B.
  Variable sha leafH : B -> B.
  Variable nodeH : B -> B -> B.
  Variable emptyH : B.
  Variable cid_ok : B -> bool.
  Variable eci_parse : B -> eci_res.

  Local Notation seq_block_from_raw :=
    (seq_block_from_raw B blen beq cat sha leafH nodeH emptyH cid_ok eci_parse).
  Local Notation filtered_from_raw :=
    (filtered_from_raw B blen beq cat sha leafH nodeH emptyH cid_ok eci_parse).
  Local Notation meta_from_raw := (meta_from_raw B blen beq sha leafH nodeH emptyH cid_ok eci_parse).
  Local Notation rollup_data_from_raw := (rollup_data_from_raw B blen).
  Local Notation recv_full := (recv_full B beq blen cat sha leafH nodeH emptyH).
  Local Notation recv_filtered := (recv_filtered B beq blen cat sha leafH nodeH emptyH).
  Local Notation recv_meta := (recv_meta B beq blen sha leafH nodeH emptyH).
  Local Notation blob_ok := (blob_ok B blen).
  Local Notation audit_blob := (audit_blob B beq cat leafH nodeH emptyH).
  Local Notation pverifies := (pverifies B beq nodeH).
  Local Notation verifies := (verifies B beq nodeH).
  Local Notation entry_wf := (entry_wf B blen).
  Local Notation entry_verifies := (entry_verifies B beq cat leafH nodeH emptyH).
  Local Notation collect := (collect B beq).
  Local Notation rollup_leaf := (BlockDataModel.rollup_leaf B cat leafH nodeH emptyH).
  Local Notation Coll := (Coll B sha leafH nodeH emptyH).
  Local Notation CatInj := (CatInj B blen cat).
  Local Notation BeqSpec := (BlockDataSpec.BeqSpec B beq).

  (** * the abstraction: C17 checked values -> C07 records *)
  Definition abs_entry (rt : RollupTxs B) : entry B :=
    {| BlockDataModel.e_id := r_id B rt;
       BlockDataModel.e_txs := r_txs B rt;
       BlockDataModel.e_proof := r_proof B rt |}.

  Definition abs_entries (m : list (B * RollupTxs B)) : list (entry B) :=
    map (fun kv => abs_entry (snd kv)) m.

  Definition abs_full (v : SeqBlock B) : block B :=
    {| b_hash := s_bh B v; b_rtr := h_rtr B (s_hdr B v); b_dh := h_dh B (s_hdr B v);
       b_entries := map (fun kv => abs_entry (snd kv)) (s_rts B v);
       b_rtp := s_rtp B v; b_rip := s_rip B v |}.

  Definition abs_filtered (v : Filtered B) : filtered B :=
    {| f_hash := f_bh B v; f_rtr := h_rtr B (f_hdr B v); f_dh := h_dh B (f_hdr B v);
       f_entries := map (fun kv => abs_entry (snd kv)) (f_rts B v);
       BlockDataModel.f_rtp := DecodeModel.f_rtp B v;
       BlockDataModel.f_all := DecodeModel.f_all B v;
       BlockDataModel.f_rip := DecodeModel.f_rip B v |}.

  Definition abs_meta (v : Meta B) : meta B :=
    {| m_hash := m_bh B v; m_rtr := h_rtr B (m_hdr B v); m_dh := h_dh B (m_hdr B v);
       BlockDataModel.m_ids := DecodeModel.m_ids B v;
       BlockDataModel.m_rtp := DecodeModel.m_rtp B v;
       BlockDataModel.m_rip := DecodeModel.m_rip B v |}.

  Definition abs_blob (v : RollupData B) : blob B :=
    {| bl_hash := d_bh B v; bl_id := d_id B v; bl_txs := d_txs B v; bl_proof := d_proof B v |}.

  (** * the two developments use the same terms *)
  Lemma proof_wf_same (p : proof B) : BlockDataModel.proof_wf B p = DecodeModel.proof_wf B p.
  Proof. reflexivity. Qed.

  Lemma rollup_leaf_same id txs :
    rollup_leaf id txs = DecodeModel.rollup_leaf B cat leafH nodeH emptyH id txs.
  Proof. reflexivity. Qed.

  Lemma ids_root_same ids :
    BlockDataModel.ids_root B leafH nodeH emptyH ids = DecodeModel.ids_root B leafH nodeH emptyH ids.
  Proof. reflexivity. Qed.

  Lemma pverifies_split (p : proof B) lh root :
    pverifies p lh root = DecodeModel.proof_wf B p && verifies p lh root.
  Proof. reflexivity. Qed.

  Lemma pverifies_of (p : proof B) lh root :
    DecodeModel.proof_wf B p = true -> verifies p lh root = true -> pverifies p lh root = true.
  Proof. intros H1 H2. rewrite pverifies_split, H1, H2. reflexivity. Qed.

  Lemma entry_wf_abs rt : entry_wf (abs_entry rt) = rt_wf B blen rt.
  Proof. reflexivity. Qed.

  Lemma entry_verifies_abs rtr rt :
    entry_verifies rtr (abs_entry rt) =
    DecodeModel.proof_wf B (r_proof B rt) &&
    verifies (r_proof B rt) (DecodeModel.rollup_leaf B cat leafH nodeH emptyH (r_id B rt) (r_txs B rt)) rtr.
  Proof. reflexivity. Qed.

  (** * facts about the abstracted entries of a collected map *)
  Lemma abs_entries_ids (m : list (B * RollupTxs B)) :
    Forall (fun kv => fst kv = r_id B (snd kv)) m ->
    map BlockDataModel.e_id (abs_entries m) = map fst m.
  Proof.
    unfold abs_entries. induction 1 as [|kv r Hk _ IH]; cbn [map]; [reflexivity|].
    rewrite IH. cbn [abs_entry BlockDataModel.e_id]. rewrite <- Hk. reflexivity.
  Qed.

  Lemma abs_entries_data_root (m : list (B * RollupTxs B)) :
    Forall (fun kv => fst kv = r_id B (snd kv)) m ->
    data_root B cat leafH nodeH emptyH (map (entry_data B) (abs_entries m)) =
    rollup_txs_root B cat leafH nodeH emptyH m.
  Proof.
    intros H. unfold data_root, rollup_txs_root, mroot, tree_root. f_equal.
    unfold abs_entries. induction H as [|kv r Hk _ IH]; cbn [map]; [reflexivity|].
    rewrite IH. f_equal. unfold entry_data, abs_entry.
    cbn [fst snd BlockDataModel.e_id BlockDataModel.e_txs]. rewrite <- Hk. reflexivity.
  Qed.

  Lemma abs_entries_collect (Hb : BeqSpec) (m : list (B * RollupTxs B)) :
    imap_inv B m -> collect (abs_entries m) = abs_entries m.
  Proof.
    intros [Hids Hnd]. apply (collect_unique B beq Hb). unfold unique_ids.
    rewrite abs_entries_ids by exact Hids. exact Hnd.
  Qed.

  Lemma abs_entries_wf (m : list (B * RollupTxs B)) :
    vals_ok B (fun rt => rt_wf B blen rt = true) m -> forallb entry_wf (abs_entries m) = true.
  Proof.
    unfold vals_ok, abs_entries. induction 1 as [|kv r Hk _ IH]; cbn [map forallb]; [reflexivity|].
    rewrite IH, entry_wf_abs, Hk. reflexivity.
  Qed.

  Lemma abs_entries_verify rtr (m : list (B * RollupTxs B)) :
    vals_ok B (fun rt => rt_wf B blen rt = true) m ->
    rollup_proofs_verify B beq cat leafH nodeH emptyH rtr m = true ->
    forallb (entry_verifies rtr) (abs_entries m) = true.
  Proof.
    unfold vals_ok, abs_entries, rollup_proofs_verify.
    induction 1 as [|kv r Hk _ IH]; cbn [map forallb]; intros Hv; [reflexivity|].
    apply andb_prop in Hv. destruct Hv as [Hv Hr].
    unfold rt_wf in Hk. apply andb_prop in Hk. destruct Hk as [_ Hwf].
    rewrite (IH Hr), entry_verifies_abs, Hwf, Hv. reflexivity.
  Qed.

  Lemma header_lens h : header_checks B blen cid_ok h = true ->
    (blen (h_rtr B h) =? 32) = true /\ (blen (h_dh B h) =? 32) = true.
  Proof.
    unfold header_checks. intros H.
    repeat (apply andb_prop in H; let C := fresh "C" in destruct H as [H C]).
    split; assumption.
  Qed.

  Lemma ids_len32 t l : ids_from_raw B blen t l = ROk l -> forallb (len32 B blen) l = true.
  Proof.
    unfold ids_from_raw. intros H. destruct (rmap_check_id _ _ _ _ H) as [_ Hall]. exact Hall.
  Qed.

  (** the three primitives of DecodeProofs.v that the [_ok] lemmas are generalised over but do not
      use (transaction decoding) *)
  Local Notation seq_block_ok :=
    (seq_block_ok B blen beq cat sha leafH nodeH emptyH cid_ok eci_parse
                  (fun _ => true) (fun _ _ _ => true) (fun _ => BodyOk)).
  Local Notation filtered_ok :=
    (filtered_ok B blen beq cat sha leafH nodeH emptyH cid_ok eci_parse
                 (fun _ => true) (fun _ _ _ => true) (fun _ => BodyOk)).
  Local Notation meta_ok :=
    (meta_ok B blen beq cat sha leafH nodeH emptyH cid_ok eci_parse
             (fun _ => true) (fun _ _ _ => true) (fun _ => BodyOk)).

  (** * the bridge theorems *)

  (** [SequencerBlock::try_from_raw] *)
  Theorem bridge_full_sec (Hb : BeqSpec) r v :
    seq_block_from_raw r = ROk v -> recv_full (abs_full v) = true.
  Proof.
    intros H. apply seq_block_ok in H.
    destruct H as [Hc Hrtp Hrip Hvals [rts Hcol] _ _].
    unfold seq_block_checks in Hc. cbv zeta in Hc.
    repeat (apply andb_prop in Hc; let C := fresh "C" in destruct Hc as [Hc C]).
    destruct (header_lens _ C4) as [L1 L2].
    assert (Hinv : imap_inv B (s_rts B v)) by (rewrite Hcol; apply (collect_inv B beq Hb)).
    unfold BlockDataModel.recv_full. cbv zeta.
    cbn [abs_full b_hash b_rtr b_dh b_entries b_rtp b_rip].
    fold (abs_entries (s_rts B v)).
    rewrite (abs_entries_collect Hb _ Hinv).
    destruct Hinv as [Hids Hnd].
    rewrite (abs_entries_data_root _ Hids), (abs_entries_ids _ Hids).
    unfold hdr_ok, len32. rewrite Hc, L1, L2.
    rewrite (proof_wf_same (s_rtp B v)), (proof_wf_same (s_rip B v)), Hrtp, Hrip.
    rewrite (abs_entries_wf _ Hvals).
    rewrite (pverifies_of _ _ _ Hrtp C3), (pverifies_of _ _ _ Hrtp C2).
    rewrite ids_root_same, (pverifies_of _ _ _ Hrip C1).
    rewrite (abs_entries_verify _ _ Hvals C0). reflexivity.
  Qed.

  (** [FilteredSequencerBlock::try_from_raw] *)
  Theorem bridge_filtered_sec (Hb : BeqSpec) r v :
    filtered_from_raw r = ROk v -> recv_filtered (abs_filtered v) = true.
  Proof.
    intros H. apply filtered_ok in H.
    destruct H as [Hc Hrtp Hrip Hvals [rts Hcol] Hall _ _].
    unfold filtered_checks in Hc. cbv zeta in Hc.
    repeat (apply andb_prop in Hc; let C := fresh "C" in destruct Hc as [Hc C]).
    destruct (header_lens _ C3) as [L1 L2].
    assert (Hinv : imap_inv B (f_rts B v)) by (rewrite Hcol; apply (collect_inv B beq Hb)).
    unfold BlockDataModel.recv_filtered. cbv zeta.
    cbn [abs_filtered f_hash f_rtr f_dh f_entries BlockDataModel.f_rtp BlockDataModel.f_all
         BlockDataModel.f_rip].
    fold (abs_entries (f_rts B v)).
    rewrite (abs_entries_collect Hb _ Hinv).
    unfold hdr_ok, len32. rewrite Hc, L1, L2.
    rewrite (proof_wf_same (DecodeModel.f_rtp B v)), (proof_wf_same (DecodeModel.f_rip B v)), Hrtp, Hrip.
    rewrite (abs_entries_wf _ Hvals).
    fold (len32 B blen). rewrite (ids_len32 _ _ Hall).
    rewrite (pverifies_of _ _ _ Hrtp C2).
    rewrite (abs_entries_verify _ _ Hvals C1).
    rewrite ids_root_same, (pverifies_of _ _ _ Hrip C0). reflexivity.
  Qed.

  (** [SubmittedMetadata::try_from_raw] *)
  Theorem bridge_meta_sec r v : meta_from_raw r = ROk v -> recv_meta (abs_meta v) = true.
  Proof.
    intros H. apply meta_ok in H.
    destruct H as [Hc Hrtp Hrip Hids _ _].
    unfold meta_checks in Hc. cbv zeta in Hc.
    repeat (apply andb_prop in Hc; let C := fresh "C" in destruct Hc as [Hc C]).
    destruct (header_lens _ C2) as [L1 L2].
    unfold BlockDataModel.recv_meta.
    cbn [abs_meta m_hash m_rtr m_dh BlockDataModel.m_ids BlockDataModel.m_rtp BlockDataModel.m_rip].
    unfold hdr_ok, len32. rewrite Hc, L1, L2.
    fold (len32 B blen). rewrite (ids_len32 _ _ Hids).
    rewrite (proof_wf_same (DecodeModel.m_rtp B v)), (proof_wf_same (DecodeModel.m_rip B v)), Hrtp, Hrip.
    rewrite (pverifies_of _ _ _ Hrtp C1).
    rewrite ids_root_same, (pverifies_of _ _ _ Hrip C0). reflexivity.
  Qed.

  (** [SubmittedRollupData::try_from_raw] *)
  Theorem bridge_blob_sec r v : rollup_data_from_raw r = ROk v -> blob_ok (abs_blob v) = true.
  Proof.
    intros H. apply rollup_data_ok in H. unfold rollup_data_checks in H.
    apply andb_prop in H. destruct H as [H Hp]. apply andb_prop in H. destruct H as [Hbh Hid].
    unfold BlockDataModel.blob_ok, len32. cbn [abs_blob bl_hash bl_id bl_proof].
    rewrite Hid, Hbh, proof_wf_same, Hp. reflexivity.
  Qed.

  (** * using the bridge: C07 theorems transferred to the decoders *)

  (** the rollup ids of an accepted block are pairwise distinct (the decoders collect into an
      [IndexMap]); this is the side condition [unique_ids] of the C07 tamper theorems *)
  Lemma abs_full_unique_sec (Hb : BeqSpec) r v :
    seq_block_from_raw r = ROk v -> unique_ids B (b_entries (abs_full v)).
  Proof.
    intros H. apply seq_block_ok in H. destruct H as [_ _ _ _ [rts Hcol] _ _].
    cbn [abs_full b_entries]. fold (abs_entries (s_rts B v)). unfold unique_ids.
    destruct (collect_inv B beq Hb rts) as [Hids Hnd]. rewrite <- Hcol in Hids, Hnd.
    rewrite (abs_entries_ids _ Hids). exact Hnd.
  Qed.

  Lemma abs_filtered_unique_sec (Hb : BeqSpec) r v :
    filtered_from_raw r = ROk v -> unique_ids B (f_entries (abs_filtered v)).
  Proof.
    intros H. apply filtered_ok in H. destruct H as [_ _ _ _ [rts Hcol] _ _ _].
    cbn [abs_filtered f_entries]. fold (abs_entries (f_rts B v)). unfold unique_ids.
    destruct (collect_inv B beq Hb rts) as [Hids Hnd]. rewrite <- Hcol in Hids, Hnd.
    rewrite (abs_entries_ids _ Hids). exact Hnd.
  Qed.

  (** C07 side: every entry of an accepted block with distinct ids is well-formed and verifies *)
  Lemma recv_filtered_entry (Hb : BeqSpec) f e :
    recv_filtered f = true -> unique_ids B (f_entries f) -> In e (f_entries f) ->
    entry_wf e = true /\ entry_verifies (f_rtr f) e = true.
  Proof.
    intros H U Hin. unfold BlockDataModel.recv_filtered in H. cbv zeta in H.
    rewrite (collect_unique B beq Hb _ U) in H.
    repeat (apply andb_prop in H; let C := fresh "C" in destruct H as [H C]).
    rewrite forallb_forall in C3, C0. split; [apply C3|apply C0]; exact Hin.
  Qed.

  Lemma recv_full_entry (Hb : BeqSpec) b e :
    recv_full b = true -> unique_ids B (b_entries b) -> In e (b_entries b) ->
    entry_wf e = true /\ entry_verifies (b_rtr b) e = true.
  Proof.
    intros H U Hin. unfold BlockDataModel.recv_full in H. cbv zeta in H.
    rewrite (collect_unique B beq Hb _ U) in H.
    repeat (apply andb_prop in H; let C := fresh "C" in destruct H as [H C]).
    rewrite forallb_forall in C3, C. split; [apply C3|apply C]; exact Hin.
  Qed.

  Lemma entry_wf_len e : entry_wf e = true -> blen (BlockDataModel.e_id e) = 32.
  Proof.
    unfold BlockDataModel.entry_wf, len32. intros H. apply andb_prop in H. destruct H as [L _].
    apply N.eqb_eq. exact L.
  Qed.

  (** an inclusion proof carried by an accepted filtered block binds exactly the rollup id and the
      data list of its entry: it verifies for no other (id, data) against the accepted rollup
      transactions root, short of an explicit hash collision *)
  Theorem decoder_entry_binding_sec (Hb : BeqSpec) (Hc : CatInj) r v e :
    filtered_from_raw r = ROk v -> In e (f_entries (abs_filtered v)) ->
    forall id' txs', blen id' = 32 ->
      pverifies (BlockDataModel.e_proof e) (rollup_leaf id' txs') (f_rtr (abs_filtered v)) = true ->
      (BlockDataModel.e_id e = id' /\ BlockDataModel.e_txs e = txs') \/ Coll.
  Proof.
    intros H Hin id' txs' L' V'.
    destruct (recv_filtered_entry Hb _ _ (bridge_filtered_sec Hb _ _ H)
                (abs_filtered_unique_sec Hb _ _ H) Hin) as [Hwf Hv].
    apply entry_wf_len in Hwf.
    exact (entry_binding B beq blen cat sha leafH nodeH emptyH Hb Hc _ _ _ _ _ _ Hwf L' Hv V').
  Qed.

  (** the same for the full sequencer block (possible since the F11 repair: the decoder audits the
      per-rollup proofs) *)
  Theorem decoder_full_entry_binding_sec (Hb : BeqSpec) (Hc : CatInj) r v e :
    seq_block_from_raw r = ROk v -> In e (b_entries (abs_full v)) ->
    forall id' txs', blen id' = 32 ->
      pverifies (BlockDataModel.e_proof e) (rollup_leaf id' txs') (b_rtr (abs_full v)) = true ->
      (BlockDataModel.e_id e = id' /\ BlockDataModel.e_txs e = txs') \/ Coll.
  Proof.
    intros H Hin id' txs' L' V'.
    destruct (recv_full_entry Hb _ _ (bridge_full_sec Hb _ _ H)
                (abs_full_unique_sec Hb _ _ H) Hin) as [Hwf Hv].
    apply entry_wf_len in Hwf.
    exact (entry_binding B beq blen cat sha leafH nodeH emptyH Hb Hc _ _ _ _ _ _ Hwf L' Hv V').
  Qed.

  (** Celestia: a decoded rollup blob that passes the conductor's audit against decoded metadata is
      bound to its rollup id and data *)
  Theorem decoder_blob_binding_sec (Hb : BeqSpec) (Hc : CatInj) rm m rd d :
    meta_from_raw rm = ROk m -> rollup_data_from_raw rd = ROk d ->
    audit_blob (abs_meta m) (abs_blob d) = true ->
    forall id' txs', blen id' = 32 ->
      pverifies (d_proof B d) (rollup_leaf id' txs') (h_rtr B (m_hdr B m)) = true ->
      (d_id B d = id' /\ d_txs B d = txs') \/ Coll.
  Proof.
    intros _ Hd A id' txs' L' V'. apply bridge_blob_sec in Hd.
    unfold BlockDataModel.blob_ok, len32 in Hd. cbn [abs_blob bl_hash bl_id bl_proof] in Hd.
    apply andb_prop in Hd. destruct Hd as [Hd _]. apply andb_prop in Hd. destruct Hd as [L _].
    apply N.eqb_eq in L.
    exact (entry_binding B beq blen cat sha leafH nodeH emptyH Hb Hc _ _ _ _ _ _ L L' A V').
  Qed.

  (** every single tampering of a decoded filtered block that the C07 receiver accepts again
      leaves the served rollup data, the id list and the roots as they were *)
  Theorem decoder_filtered_tamper_sec (Hb : BeqSpec) (Hc : CatInj) r v t :
    filtered_from_raw r = ROk v ->
    recv_filtered (tamper_f B t (abs_filtered v)) = true ->
    ((forall e, In e (collect (f_entries (tamper_f B t (abs_filtered v)))) ->
                In (entry_data B e) (map (entry_data B) (f_entries (abs_filtered v)))) /\
     BlockDataModel.f_all (tamper_f B t (abs_filtered v)) = BlockDataModel.f_all (abs_filtered v) /\
     f_rtr (tamper_f B t (abs_filtered v)) = f_rtr (abs_filtered v) /\
     f_dh (tamper_f B t (abs_filtered v)) = f_dh (abs_filtered v)) \/ Coll.
  Proof.
    intros H T.
    exact (filtered_tamper B beq blen cat sha leafH nodeH emptyH Hb Hc _ t
             (bridge_filtered_sec Hb _ _ H) (abs_filtered_unique_sec Hb _ _ H) T).
  Qed.

  Theorem decoder_full_tamper_sec (Hb : BeqSpec) (Hc : CatInj) r v t :
    seq_block_from_raw r = ROk v ->
    recv_full (tamper_full B t (abs_full v)) = true ->
    (map (entry_data B) (collect (b_entries (tamper_full B t (abs_full v))))
       = map (entry_data B) (b_entries (abs_full v)) /\
     b_rtr (tamper_full B t (abs_full v)) = b_rtr (abs_full v) /\
     b_dh (tamper_full B t (abs_full v)) = b_dh (abs_full v)) \/ Coll.
  Proof.
    intros H T.
    exact (full_tamper B beq blen cat sha leafH nodeH emptyH Hb Hc _ t
             (bridge_full_sec Hb _ _ H) (abs_full_unique_sec Hb _ _ H) T).
  Qed.
End Bridge.

(** * the closed statements *)

Theorem bridge_full : forall B blen beq cat sha leafH nodeH emptyH cid_ok eci_parse,
  BlockDataSpec.BeqSpec B beq ->
  forall r v,
    seq_block_from_raw B blen beq cat sha leafH nodeH emptyH cid_ok eci_parse r = ROk v ->
    recv_full B beq blen cat sha leafH nodeH emptyH (abs_full B v) = true.
Proof. exact bridge_full_sec. Qed.

Theorem bridge_filtered : forall B blen beq cat sha leafH nodeH emptyH cid_ok eci_parse,
  BlockDataSpec.BeqSpec B beq ->
  forall r v,
    filtered_from_raw B blen beq cat sha leafH nodeH emptyH cid_ok eci_parse r = ROk v ->
    recv_filtered B beq blen cat sha leafH nodeH emptyH (abs_filtered B v) = true.
Proof. exact bridge_filtered_sec. Qed.

Theorem bridge_meta : forall B blen beq sha leafH nodeH emptyH cid_ok eci_parse,
  forall r v,
    meta_from_raw B blen beq sha leafH nodeH emptyH cid_ok eci_parse r = ROk v ->
    recv_meta B beq blen sha leafH nodeH emptyH (abs_meta B v) = true.
Proof.
  intros B blen beq sha leafH nodeH emptyH cid_ok eci_parse r v H.
  exact (bridge_meta_sec B blen beq (fun a _ => a) sha leafH nodeH emptyH cid_ok eci_parse r v H).
Qed.

Theorem bridge_blob : forall B blen,
  forall r v, rollup_data_from_raw B blen r = ROk v -> blob_ok B blen (abs_blob B v) = true.
Proof. exact bridge_blob_sec. Qed.

Theorem abs_full_unique : forall B blen beq cat sha leafH nodeH emptyH cid_ok eci_parse,
  BlockDataSpec.BeqSpec B beq ->
  forall r v,
    seq_block_from_raw B blen beq cat sha leafH nodeH emptyH cid_ok eci_parse r = ROk v ->
    unique_ids B (b_entries (abs_full B v)).
Proof. exact abs_full_unique_sec. Qed.

Theorem abs_filtered_unique : forall B blen beq cat sha leafH nodeH emptyH cid_ok eci_parse,
  BlockDataSpec.BeqSpec B beq ->
  forall r v,
    filtered_from_raw B blen beq cat sha leafH nodeH emptyH cid_ok eci_parse r = ROk v ->
    unique_ids B (f_entries (abs_filtered B v)).
Proof. exact abs_filtered_unique_sec. Qed.

Theorem decoder_entry_binding : forall B blen beq cat sha leafH nodeH emptyH cid_ok eci_parse,
  BlockDataSpec.BeqSpec B beq -> CatInj B blen cat ->
  forall r v e,
    filtered_from_raw B blen beq cat sha leafH nodeH emptyH cid_ok eci_parse r = ROk v ->
    In e (f_entries (abs_filtered B v)) ->
    forall id' txs', blen id' = 32 ->
      pverifies B beq nodeH (BlockDataModel.e_proof e)
        (BlockDataModel.rollup_leaf B cat leafH nodeH emptyH id' txs')
        (f_rtr (abs_filtered B v)) = true ->
      (BlockDataModel.e_id e = id' /\ BlockDataModel.e_txs e = txs') \/
      Coll B sha leafH nodeH emptyH.
Proof. exact decoder_entry_binding_sec. Qed.

Theorem decoder_full_entry_binding : forall B blen beq cat sha leafH nodeH emptyH cid_ok eci_parse,
  BlockDataSpec.BeqSpec B beq -> CatInj B blen cat ->
  forall r v e,
    seq_block_from_raw B blen beq cat sha leafH nodeH emptyH cid_ok eci_parse r = ROk v ->
    In e (b_entries (abs_full B v)) ->
    forall id' txs', blen id' = 32 ->
      pverifies B beq nodeH (BlockDataModel.e_proof e)
        (BlockDataModel.rollup_leaf B cat leafH nodeH emptyH id' txs')
        (b_rtr (abs_full B v)) = true ->
      (BlockDataModel.e_id e = id' /\ BlockDataModel.e_txs e = txs') \/
      Coll B sha leafH nodeH emptyH.
Proof. exact decoder_full_entry_binding_sec. Qed.

Theorem decoder_blob_binding : forall B blen beq cat sha leafH nodeH emptyH cid_ok eci_parse,
  BlockDataSpec.BeqSpec B beq -> CatInj B blen cat ->
  forall rm m rd d,
    meta_from_raw B blen beq sha leafH nodeH emptyH cid_ok eci_parse rm = ROk m ->
    rollup_data_from_raw B blen rd = ROk d ->
    audit_blob B beq cat leafH nodeH emptyH (abs_meta B m) (abs_blob B d) = true ->
    forall id' txs', blen id' = 32 ->
      pverifies B beq nodeH (d_proof B d)
        (BlockDataModel.rollup_leaf B cat leafH nodeH emptyH id' txs') (h_rtr B (m_hdr B m)) = true ->
      (d_id B d = id' /\ d_txs B d = txs') \/ Coll B sha leafH nodeH emptyH.
Proof. exact decoder_blob_binding_sec. Qed.

Theorem decoder_filtered_tamper : forall B blen beq cat sha leafH nodeH emptyH cid_ok eci_parse,
  BlockDataSpec.BeqSpec B beq -> CatInj B blen cat ->
  forall r v t,
    filtered_from_raw B blen beq cat sha leafH nodeH emptyH cid_ok eci_parse r = ROk v ->
    recv_filtered B beq blen cat sha leafH nodeH emptyH (tamper_f B t (abs_filtered B v)) = true ->
    ((forall e, In e (collect B beq (f_entries (tamper_f B t (abs_filtered B v)))) ->
                In (entry_data B e) (map (entry_data B) (f_entries (abs_filtered B v)))) /\
     BlockDataModel.f_all (tamper_f B t (abs_filtered B v)) = BlockDataModel.f_all (abs_filtered B v) /\
     f_rtr (tamper_f B t (abs_filtered B v)) = f_rtr (abs_filtered B v) /\
     f_dh (tamper_f B t (abs_filtered B v)) = f_dh (abs_filtered B v)) \/
    Coll B sha leafH nodeH emptyH.
Proof. exact decoder_filtered_tamper_sec. Qed.

Theorem decoder_full_tamper : forall B blen beq cat sha leafH nodeH emptyH cid_ok eci_parse,
  BlockDataSpec.BeqSpec B beq -> CatInj B blen cat ->
  forall r v t,
    seq_block_from_raw B blen beq cat sha leafH nodeH emptyH cid_ok eci_parse r = ROk v ->
    recv_full B beq blen cat sha leafH nodeH emptyH (tamper_full B t (abs_full B v)) = true ->
    (map (entry_data B) (collect B beq (b_entries (tamper_full B t (abs_full B v))))
       = map (entry_data B) (b_entries (abs_full B v)) /\
     b_rtr (tamper_full B t (abs_full B v)) = b_rtr (abs_full B v) /\
     b_dh (tamper_full B t (abs_full B v)) = b_dh (abs_full B v)) \/
    Coll B sha leafH nodeH emptyH.
Proof. exact decoder_full_tamper_sec. Qed.

(** non-vacuity: on the toy instantiation of DecodeProofs.v the decoders accept a block, and the
    C07 receivers accept its abstraction (computed, independently of the theorems above) *)
Example bridge_toy_full :
  match Toy.seq_block_from_raw (Toy.block Toy.good_rollup_proof) with
  | ROk v => recv_full Toy.B Toy.beq Toy.blen Toy.cat Toy.sha Toy.leafH Toy.nodeH Toy.emptyH
               (abs_full Toy.B v) && negb (length (b_entries (abs_full Toy.B v)) =? 0)%nat
  | _ => false
  end = true.
Proof. vm_compute. reflexivity. Qed.

Example bridge_toy_filtered :
  match Toy.filtered_from_raw (Toy.filtered Toy.good_rollup_proof) with
  | ROk v => recv_filtered Toy.B Toy.beq Toy.blen Toy.cat Toy.sha Toy.leafH Toy.nodeH Toy.emptyH
               (abs_filtered Toy.B v) && negb (length (f_entries (abs_filtered Toy.B v)) =? 0)%nat
  | _ => false
  end = true.
Proof. vm_compute. reflexivity. Qed.

Example bridge_toy_meta :
  match Toy.meta_from_raw Toy.meta with
  | ROk v => recv_meta Toy.B Toy.beq Toy.blen Toy.sha Toy.leafH Toy.nodeH Toy.emptyH (abs_meta Toy.B v)
  | _ => false
  end = true.
Proof. vm_compute. reflexivity. Qed.

Print Assumptions bridge_full.
Print Assumptions bridge_filtered.
Print Assumptions bridge_meta.
Print Assumptions bridge_blob.
Print Assumptions decoder_entry_binding.
Print Assumptions decoder_full_entry_binding.
Print Assumptions decoder_blob_binding.
Print Assumptions decoder_filtered_tamper.
Print Assumptions decoder_full_tamper.
