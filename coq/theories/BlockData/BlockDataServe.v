(** C07 -- the built block, its stored / filtered / Celestia forms and their receivers:
    proofs of [stmt_served_exact], [stmt_finalize_ok], [stmt_served_verifies]. *)
From Astria Require Import BlockData.BlockDataModel BlockData.BlockDataSpec BlockData.BlockDataGroup.
From Astria Require Import Merkle.MerkleSpec.
From Astria Require Merkle.MerkleRootFull.

Section Serve.
  Variable B : Type.
  Variable beq ltb : B -> B -> bool.
  Variable cat : B -> B -> B.
  Variable sha leafH : B -> B.
  Variable nodeH : B -> B -> B.
  Variable emptyH zeroD : B.
  Variable Dp : Type.
  Variable encS : B -> B.
  Variable encD : Dp -> B.

  Local Notation im_get := (im_get B beq).
  Local Notation im_insert := (im_insert B beq).
  Local Notation im_collect := (im_collect B beq).
  Local Notation mem := (mem B beq).
  Local Notation sort_keys := (sort_keys B ltb).
  Local Notation sort_ids := (sort_ids B ltb).
  Local Notation sorted_ids := (sorted_ids B ltb).
  Local Notation build_group := (build_group B beq ltb Dp encS encD).
  Local Notation commit_group := (commit_group B beq ltb Dp encS encD).
  Local Notation finalize := (finalize B beq ltb cat sha leafH nodeH emptyH zeroD Dp encS encD).
  Local Notation tree_of := (tree_of B nodeH zeroD).
  Local Notation troot := (troot B emptyH).
  Local Notation root_of_leaves := (root_of_leaves B leafH nodeH emptyH zeroD).
  Local Notation rollup_leaves := (rollup_leaves B cat leafH nodeH emptyH zeroD).
  Local Notation rollup_tree := (rollup_tree B cat leafH nodeH emptyH zeroD).
  Local Notation get_proof := (get_proof B).
  Local Notation commitments := (commitments B beq ltb cat leafH nodeH emptyH zeroD Dp encS encD).
  Local Notation data_leaves := (data_leaves B sha).
  Local Notation expand := (expand B sha leafH nodeH emptyH zeroD).
  Local Notation try_build := (try_build B beq ltb cat leafH nodeH emptyH zeroD Dp encS encD).
  Local Notation mroot := (mroot B nodeH emptyH).
  Local Notation txs_root := (txs_root B leafH nodeH emptyH).
  Local Notation rollup_leaf := (rollup_leaf B cat leafH nodeH emptyH).
  Local Notation data_root := (data_root B cat leafH nodeH emptyH).
  Local Notation ids_root := (ids_root B leafH nodeH emptyH).
  Local Notation proof_wf := (proof_wf B).
  Local Notation pverifies := (pverifies B beq nodeH).
  Local Notation entry_verifies := (entry_verifies B beq cat leafH nodeH emptyH).
  Local Notation attach_proofs := (attach_proofs B).
  Local Notation keyed := (keyed B).
  Local Notation entry_data := (entry_data B).
  Local Notation find_entry := (find_entry B beq).
  Local Notation collect := (collect B beq).
  Local Notation block_ids := (block_ids B).
  Local Notation stored_block := (stored_block B beq).
  Local Notation serve_filtered := (serve_filtered B beq ltb).
  Local Notation to_filtered := (to_filtered B beq).
  Local Notation split := (split_celestia B).
  Local Notation touched := (touched B beq Dp).
  Local Notation expected := (expected B beq Dp encS encD).
  Local Notation size_ok := (size_ok B Dp).
  Local Notation BOUND := (N.to_nat (2 ^ 62)).

  Hypothesis Hbeq : BeqSpec B beq.
  Hypothesis Hltb : LtbSpec B ltb.

  (** * the flat tree within the size bound (C08) *)
  Lemma construct_proof_wf t li p : construct_proof B t li = Some (Some p) -> proof_wf p = true.
  Proof.
    unfold construct_proof. cbv zeta.
    destruct (tlen B t =? 0) eqn:E0; [discriminate|].
    destruct (is_leaf_index_in_tree li (tlen B t)) eqn:E1; cbn [negb]; [|discriminate].
    unfold bind. destruct (leaf_index_to_tree_index li); [|discriminate].
    destruct (complete_root (tlen B t)); [|discriminate].
    destruct (proof_loop _ _ _ _ _ _ _); [|discriminate].
    intros H. inversion H; subst p. unfold BlockDataModel.proof_wf.
    cbn [leaf_index tree_size]. rewrite E0, E1. reflexivity.
  Qed.

  Lemma tree_root_ok lhs : (length lhs <= BOUND)%nat ->
    exists t, tree_of lhs = Some t /\ troot t = Some (mroot lhs).
  Proof. exact (MerkleRootFull.root_is_mth B nodeH emptyH zeroD lhs). Qed.

  Lemma root_of_leaves_ok leaves : (length leaves <= BOUND)%nat ->
    root_of_leaves leaves = Some (mroot (map leafH leaves)).
  Proof.
    intros H. unfold BlockDataModel.root_of_leaves.
    destruct (tree_root_ok (map leafH leaves)) as (t & E1 & E2); [rewrite map_length; exact H|].
    rewrite E1. cbn [bind]. exact E2.
  Qed.

  Lemma tree_proof_ok lhs t i d : (length lhs <= BOUND)%nat -> tree_of lhs = Some t ->
    nth_error lhs i = Some d ->
    exists p, get_proof t i = Some p /\ pverifies p d (mroot lhs) = true.
  Proof.
    intros Hl Ht Hn.
    destruct (MerkleRootFull.proof_complete B nodeH emptyH zeroD lhs t i d Hl Ht Hn)
      as (p & Hc & _ & Hli & Hts & Hr).
    exists p. split.
    - unfold BlockDataModel.get_proof. rewrite Hc. reflexivity.
    - unfold BlockDataModel.pverifies. rewrite (construct_proof_wf _ _ _ Hc). cbn [andb].
      unfold verify. rewrite Hr. cbn [bind]. unfold BlockDataModel.mroot.
      rewrite (bq_refl _ _ Hbeq). reflexivity.
  Qed.

  Lemma pverifies_wf p l r : pverifies p l r = true -> proof_wf p = true.
  Proof. unfold BlockDataModel.pverifies. intros H. apply andb_prop in H. apply H. Qed.

  (** * sizes *)
  Lemma filter_len {A} (f : A -> bool) l : (length (filter f l) <= length l)%nat.
  Proof. induction l as [|a l IH]; cbn; [lia|]. destruct (f a); cbn; lia. Qed.

  Lemma seq_of_len r subs : (length (seq_of B beq encS r subs) <= length subs)%nat.
  Proof. unfold seq_of. rewrite map_length. apply filter_len. Qed.

  Lemma dep_of_len r deps :
    (length (dep_of B beq Dp encD r deps) <= length (concat (map snd deps)))%nat.
  Proof.
    unfold dep_of. induction deps as [|d deps IH]; cbn; [lia|]. rewrite !app_length.
    destruct (beq (fst d) r); cbn; rewrite ?map_length; lia.
  Qed.

  Lemma group_len subs deps : (length (build_group subs deps) <= length subs + length deps)%nat.
  Proof.
    rewrite <- (map_length fst (build_group subs deps)).
    replace (length subs + length deps)%nat with (length (map fst subs ++ map fst deps))
      by (rewrite app_length, !map_length; reflexivity).
    apply NoDup_incl_length; [apply build_group_nodup; assumption|].
    intros r Hr. destruct (group_exact B beq ltb Dp encS encD Hbeq Hltb subs deps) as (_ & Hin & _).
    apply Hin in Hr. unfold BlockDataSpec.touched in Hr. apply orb_true_iff in Hr.
    apply in_or_app. destruct Hr as [Hr|Hr]; [left|right]; apply (mem_In _ _ Hbeq); exact Hr.
  Qed.

  Lemma group_txs_len subs deps id txs : In (id, txs) (build_group subs deps) ->
    (length txs <= length subs + length (concat (map snd deps)))%nat.
  Proof.
    intros H. apply (In_im_get B beq Hbeq) in H; [|apply build_group_nodup; assumption].
    rewrite (build_group_get B beq Hbeq ltb Hltb) in H.
    destruct (touched id subs deps); [|discriminate]. injection H as <-.
    unfold BlockDataSpec.expected. rewrite app_length.
    pose proof (seq_of_len id subs). pose proof (dep_of_len id deps). lia.
  Qed.

  (** * the rollup tree *)
  Definition rleaf_bytes (kv : B * list B) : B := cat (fst kv) (txs_root (snd kv)).
  Definition rl (m : list (B * list B)) : list B := map (fun kv => rollup_leaf (fst kv) (snd kv)) m.

  Lemma rl_eq m : map leafH (map rleaf_bytes m) = rl m.
  Proof. unfold rl. rewrite map_map. reflexivity. Qed.

  Lemma rollup_leaves_ok m : (forall id txs, In (id, txs) m -> (length txs <= BOUND)%nat) ->
    rollup_leaves m = Some (map rleaf_bytes m).
  Proof.
    induction m as [|[id txs] m IH]; intros H; [reflexivity|].
    cbn [BlockDataModel.rollup_leaves]. unfold BlockDataModel.rollup_leaf_bytes.
    rewrite root_of_leaves_ok by (apply (H id txs); left; reflexivity). cbn [bind].
    rewrite IH by (intros id0 txs0 H0; apply (H id0 txs0); right; exact H0). reflexivity.
  Qed.

  Lemma rollup_tree_ok m : (forall id txs, In (id, txs) m -> (length txs <= BOUND)%nat) ->
    (length m <= BOUND)%nat ->
    exists t, rollup_tree m = Some t /\ troot t = Some (data_root m) /\ tree_of (rl m) = Some t.
  Proof.
    intros H1 H2. destruct (tree_root_ok (rl m)) as (t & E1 & E2).
    { unfold rl. rewrite map_length. exact H2. }
    exists t. split; [|split; [exact E2|exact E1]].
    unfold BlockDataModel.rollup_tree. rewrite (rollup_leaves_ok m H1). cbn [bind].
    rewrite rl_eq. exact E1.
  Qed.

  Lemma attach_ok t root : forall m i,
    (forall j kv, nth_error m j = Some kv ->
       exists p, get_proof t (i + j)%nat = Some p /\
                 pverifies p (rollup_leaf (fst kv) (snd kv)) root = true) ->
    exists es, attach_proofs t i m = Some es /\ Forall (fun e => entry_verifies root e = true) es.
  Proof.
    induction m as [|[id txs] m IH]; intros i H.
    - exists []. split; [reflexivity|constructor].
    - destruct (H 0%nat (id, txs) eq_refl) as (p & Hp & Hv). rewrite Nat.add_0_r in Hp.
      destruct (IH (S i)) as (es & He & Hf).
      { intros j kv Hj. destruct (H (S j) kv Hj) as (q & Hq & Hv'). exists q.
        rewrite Nat.add_succ_r in Hq. split; assumption. }
      exists ({| e_id := id; e_txs := txs; e_proof := p |} :: es). split.
      + cbn [BlockDataModel.attach_proofs]. rewrite Hp. cbn [bind]. rewrite He. reflexivity.
      + constructor; [exact Hv|exact Hf].
  Qed.

  Lemma attach_data t : forall m i es, attach_proofs t i m = Some es -> map entry_data es = m.
  Proof.
    induction m as [|[id txs] m IH]; intros i es H; cbn [BlockDataModel.attach_proofs] in H.
    - injection H as <-. reflexivity.
    - destruct (get_proof t i); [|discriminate]. cbn [bind] in H.
      destruct (attach_proofs t (S i) m) eqn:E; [|discriminate]. cbn [bind] in H.
      injection H as <-. cbn. f_equal. eapply IH; eassumption.
  Qed.

  (** * entries and keys *)
  Lemma keyed_fst es : map fst (keyed es) = map e_id es.
  Proof. unfold BlockDataModel.keyed. rewrite map_map. reflexivity. Qed.
  Lemma keyed_snd es : map snd (keyed es) = es.
  Proof. unfold BlockDataModel.keyed. rewrite map_map. cbn. apply map_id. Qed.
  Lemma data_fst es : map fst (map entry_data es) = map e_id es.
  Proof. rewrite map_map. reflexivity. Qed.
  Lemma sorted_entries es : sorted_ids (map e_id es) -> map snd (sort_keys (keyed es)) = es.
  Proof.
    intros S. rewrite (sort_keys_sorted_id B beq Hbeq ltb Hltb); [apply keyed_snd|].
    rewrite keyed_fst. exact S.
  Qed.

  (** * [try_build] and [finalize] *)
  Lemma try_build_eq bh x subs deps t es :
    root_of_leaves (map fst (build_group subs deps)) = Some (x_rir x) ->
    rollup_tree (build_group subs deps) = Some t -> troot t = Some (x_rtr x) ->
    attach_proofs t 0 (build_group subs deps) = Some es ->
    try_build bh x subs deps
    = BuildOk {| b_hash := bh; b_rtr := x_rtr x; b_dh := x_dh x; b_entries := es;
                 b_rtp := x_rtp x; b_rip := x_rip x |}.
  Proof.
    intros H1 H2 H3 H4. unfold BlockDataModel.try_build. cbv zeta.
    rewrite H1. cbv beta iota. rewrite (bq_refl _ _ Hbeq). cbn [negb].
    rewrite H2, H3. cbv beta iota. rewrite (bq_refl _ _ Hbeq). cbn [negb]. rewrite H4.
    rewrite sorted_entries; [reflexivity|].
    rewrite <- data_fst, (attach_data _ _ _ _ H4). apply build_group_sorted; assumption.
  Qed.

  Lemma try_build_inv bh x subs deps b : try_build bh x subs deps = BuildOk b ->
    b_hash b = bh /\ map entry_data (b_entries b) = build_group subs deps.
  Proof.
    unfold BlockDataModel.try_build. cbv zeta.
    destruct (root_of_leaves _); [|discriminate]. destruct (negb _); [discriminate|].
    destruct (rollup_tree _) as [t|]; [|discriminate]. destruct (troot t); [|discriminate].
    destruct (negb _); [discriminate|].
    destruct (attach_proofs t 0 _) as [es|] eqn:E; [|discriminate].
    intros H. injection H as <-. cbn [b_hash b_entries]. split; [reflexivity|].
    pose proof (attach_data _ _ _ _ E) as D.
    rewrite sorted_entries; [exact D|].
    rewrite <- data_fst, D. apply build_group_sorted; assumption.
  Qed.

  Lemma finalize_inv bh rest subs deps b : finalize bh rest subs deps = BuildOk b ->
    b_hash b = bh /\ map entry_data (b_entries b) = build_group subs deps.
  Proof.
    unfold BlockDataModel.finalize. destruct (commitments subs deps) as [[rtr rir]|]; [|discriminate].
    destruct (expand rtr rir rest); [|discriminate]. apply try_build_inv.
  Qed.

  (** * an honest proposal is built *)
  Lemma sizes subs deps rest : size_ok subs deps rest ->
    (length (map fst (build_group subs deps)) <= BOUND)%nat /\
    (forall id txs, In (id, txs) (build_group subs deps) -> (length txs <= BOUND)%nat) /\
    (length (build_group subs deps) <= BOUND)%nat /\
    (forall rtr rir, (length (map leafH (data_leaves rtr rir rest)) <= BOUND)%nat).
  Proof.
    unfold BlockDataSpec.size_ok. intros H. pose proof (group_len subs deps) as G.
    split; [rewrite map_length; lia|]. split; [|split; [lia|]].
    - intros id txs Hin. pose proof (group_txs_len subs deps id txs Hin). lia.
    - intros rtr rir. rewrite map_length. unfold BlockDataModel.data_leaves. cbn [length].
      rewrite map_length. pose proof (filter_len (keep_item B) rest). lia.
  Qed.

  Lemma finalize_char bh rest subs deps : size_ok subs deps rest ->
    exists es dh rtp rip,
      finalize bh rest subs deps
      = BuildOk {| b_hash := bh; b_rtr := data_root (build_group subs deps); b_dh := dh;
                   b_entries := es; b_rtp := rtp; b_rip := rip |} /\
      dh = mroot (map leafH (data_leaves (data_root (build_group subs deps))
                                         (ids_root (map fst (build_group subs deps))) rest)) /\
      Forall (fun e => entry_verifies (data_root (build_group subs deps)) e = true) es /\
      pverifies rtp (leafH (sha (data_root (build_group subs deps)))) dh = true /\
      pverifies rip (leafH (sha (ids_root (map fst (build_group subs deps))))) dh = true.
  Proof.
    intros Hs. destruct (sizes subs deps rest Hs) as (S1 & S2 & S3 & S4).
    set (m := build_group subs deps) in *.
    destruct (rollup_tree_ok m S2 S3) as (t & Ert & Etr & Eto).
    destruct (attach_ok t (data_root m) m 0) as (es & Hes & Hf).
    { intros j kv Hj. cbn [Nat.add]. apply (tree_proof_ok (rl m) t j).
      - unfold rl. rewrite map_length. exact S3.
      - exact Eto.
      - exact (map_nth_error (fun kv => rollup_leaf (fst kv) (snd kv)) j m Hj). }
    set (rtr := data_root m) in *. set (rir := ids_root (map fst m)) in *.
    set (lhs := map leafH (data_leaves rtr rir rest)).
    destruct (tree_root_ok lhs (S4 rtr rir)) as (td & Etd & Erd).
    destruct (tree_proof_ok lhs td 0 (leafH (sha rtr)) (S4 rtr rir) Etd eq_refl)
      as (rtp & Hrtp & Vrtp).
    destruct (tree_proof_ok lhs td 1 (leafH (sha rir)) (S4 rtr rir) Etd eq_refl)
      as (rip & Hrip & Vrip).
    exists es, (mroot lhs), rtp, rip.
    split; [|split; [reflexivity|split; [exact Hf|split; assumption]]].
    unfold BlockDataModel.finalize.
    assert (Ec : commitments subs deps = Some (rtr, rir)).
    { unfold BlockDataModel.commitments. cbv zeta.
      rewrite (commit_group_eq B beq Hbeq ltb Hltb). fold m.
      rewrite (root_of_leaves_ok _ S1). cbn [bind]. rewrite Ert. cbn [bind]. rewrite Etr.
      reflexivity. }
    rewrite Ec. cbv beta iota.
    set (x := {| x_dh := mroot lhs; x_rtr := rtr; x_rtp := rtp; x_rir := rir; x_rip := rip |}).
    assert (Ex : expand rtr rir rest = Some x).
    { unfold BlockDataModel.expand. fold lhs. rewrite Etd. cbn [bind]. rewrite Erd. cbn [bind].
      rewrite Hrtp. cbn [bind]. rewrite Hrip. reflexivity. }
    rewrite Ex. cbv beta iota.
    exact (try_build_eq bh x subs deps t es (root_of_leaves_ok _ S1) Ert Etr Hes).
  Qed.

  Lemma finalize_ok_sec bh rest subs deps : size_ok subs deps rest ->
    exists b, finalize bh rest subs deps = BuildOk b.
  Proof.
    intros Hs. destruct (finalize_char bh rest subs deps Hs) as (es & dh & rtp & rip & H & _).
    eexists. exact H.
  Qed.

  (** * [IndexMap] collect *)
  Section Collect.
    Variable V : Type.
    Implicit Types m : list (B * V).
    Local Notation F l acc := (fold_left (fun m0 (kv : B * V) => im_insert m0 (fst kv) (snd kv)) l acc).

    Lemma im_insert_In m k v k' v' :
      In (k', v') (im_insert m k v) -> (k', v') = (k, v) \/ In (k', v') m.
    Proof.
      induction m as [|[k0 v0] m IH]; cbn.
      - intros [H|[]]. left. symmetry; exact H.
      - destruct (beq k0 k) eqn:E.
        + apply (bq_true _ _ Hbeq) in E. subst k0. cbn.
          intros [H|H]; [left; symmetry; exact H|right; right; exact H].
        + cbn. intros [H|H]; [right; left; exact H|].
          destruct (IH H) as [H'|H']; [left; exact H'|right; right; exact H'].
    Qed.
    Lemma im_insert_keep m k v k' v' : In (k', v') m -> k' <> k -> In (k', v') (im_insert m k v).
    Proof.
      induction m as [|[k0 v0] m IH]; cbn; [intros []|]. intros [H|H] Hn.
      - injection H as -> ->. rewrite (bq_neq _ _ Hbeq) by exact Hn. left. reflexivity.
      - destruct (beq k0 k); [right; exact H|right; apply IH; assumption].
    Qed.
    Lemma im_insert_new m k v : In (k, v) (im_insert m k v).
    Proof.
      induction m as [|[k0 v0] m IH]; cbn; [left; reflexivity|]. destruct (beq k0 k) eqn:E.
      - apply (bq_true _ _ Hbeq) in E. subst. left. reflexivity.
      - right. exact IH.
    Qed.
    Lemma im_insert_keys_In m k v r :
      In r (map fst (im_insert m k v)) <-> In r (map fst m) \/ r = k.
    Proof.
      induction m as [|[k' v'] m IH]; cbn.
      - intuition.
      - destruct (beq k' k) eqn:E; cbn.
        + apply (bq_true _ _ Hbeq) in E; subst. intuition.
        + rewrite IH. intuition.
    Qed.
    Lemma im_insert_nodup m k v : NoDup (map fst m) -> NoDup (map fst (im_insert m k v)).
    Proof.
      induction m as [|[k' v'] m IH]; cbn; intros ND.
      - constructor; [intros []|constructor].
      - apply NoDup_cons_iff in ND. destruct ND as [Hn ND]. destruct (beq k' k) eqn:E; cbn.
        + constructor; assumption.
        + constructor; [|auto]. rewrite im_insert_keys_In. intros [H|H]; [tauto|].
          subst. rewrite (bq_refl _ _ Hbeq) in E. discriminate.
    Qed.

    Lemma fold_nodup l : forall acc, NoDup (map fst acc) -> NoDup (map fst (F l acc)).
    Proof.
      induction l as [|kv l IH]; intros acc ND; cbn [fold_left]; [exact ND|].
      apply IH. apply im_insert_nodup. exact ND.
    Qed.
    Lemma fold_sub l : forall acc k v, In (k, v) (F l acc) -> In (k, v) acc \/ In (k, v) l.
    Proof.
      induction l as [|[k0 v0] l IH]; intros acc k v H; cbn [fold_left fst snd] in H; [left; exact H|].
      apply IH in H. destruct H as [H|H]; [|right; right; exact H].
      apply im_insert_In in H. destruct H as [H|H]; [right; left; symmetry; exact H|left; exact H].
    Qed.
    Lemma fold_sup (g : B -> option V) l : forall acc,
      (forall k v, In (k, v) (acc ++ l) -> g k = Some v) ->
      forall k v, In (k, v) (acc ++ l) -> In (k, v) (F l acc).
    Proof.
      induction l as [|[k0 v0] l IH]; intros acc G k v H; cbn [fold_left fst snd].
      - rewrite app_nil_r in H. exact H.
      - apply IH.
        + intros k1 v1 H1. apply G. apply in_app_or in H1. destruct H1 as [H1|H1].
          * apply im_insert_In in H1.
            destruct H1 as [H1|H1]; apply in_or_app; [right; left; symmetry; exact H1|left; exact H1].
          * apply in_or_app; right; right; exact H1.
        + apply in_app_or in H. apply in_or_app. destruct H as [H|[H|H]].
          * destruct (beq k k0) eqn:E.
            -- apply (bq_true _ _ Hbeq) in E. subst k0.
               assert (Some v = Some v0) as Ev.
               { rewrite <- (G k v), <- (G k v0); [reflexivity| |].
                 - apply in_or_app; right; left; reflexivity.
                 - apply in_or_app; left; exact H. }
               injection Ev as ->. left. apply im_insert_new.
            -- left. apply im_insert_keep; [exact H|apply (bq_false _ _ Hbeq); exact E].
          * injection H as -> ->. left. apply im_insert_new.
          * right. exact H.
    Qed.

    Lemma collect_nodup (l : list (B * V)) : NoDup (map fst (im_collect l)).
    Proof. apply fold_nodup. constructor. Qed.
    Lemma collect_sub (l : list (B * V)) k v : In (k, v) (im_collect l) -> In (k, v) l.
    Proof. intros H. apply fold_sub in H. destruct H as [[]|H]. exact H. Qed.
    Lemma collect_sup (g : B -> option V) (l : list (B * V)) :
      (forall k v, In (k, v) l -> g k = Some v) ->
      forall k v, In (k, v) l -> In (k, v) (im_collect l).
    Proof. intros G k v H. apply (fold_sup g l []); [exact G|exact H]. Qed.
  End Collect.
  (** * entries by id *)
  Lemma filter_opt_In {A C} (f : A -> option C) l y :
    In y (filter_opt f l) <-> exists x, In x l /\ f x = Some y.
  Proof.
    induction l as [|a l IH]; cbn.
    - split; [intros []|intros (x & [] & _)].
    - destruct (f a) as [c|] eqn:E.
      + cbn. rewrite IH. split.
        * intros [H|(x & H1 & H2)]; [exists a; split; [left; reflexivity|congruence]|].
          exists x. split; [right; exact H1|exact H2].
        * intros (x & [H1|H1] & H2); [left; congruence|right; exists x; split; assumption].
      + rewrite IH. split.
        * intros (x & H1 & H2). exists x. split; [right; exact H1|exact H2].
        * intros (x & [H1|H1] & H2); [congruence|exists x; split; assumption].
  Qed.

  Lemma find_entry_id es id e : find_entry es id = Some e -> e_id e = id /\ In e es.
  Proof.
    unfold BlockDataModel.find_entry. intros H. apply (im_get_In B beq Hbeq) in H.
    unfold BlockDataModel.keyed in H. apply in_map_iff in H. destruct H as (e' & E & Hin).
    injection E as E1 E2. subst. split; [reflexivity|assumption].
  Qed.
  Lemma find_entry_in es e : NoDup (map e_id es) -> In e es -> find_entry es (e_id e) = Some e.
  Proof.
    intros ND H. unfold BlockDataModel.find_entry.
    apply (In_im_get B beq Hbeq); [rewrite keyed_fst; exact ND|].
    unfold BlockDataModel.keyed. apply in_map_iff. exists e. split; [reflexivity|exact H].
  Qed.
  Lemma find_entry_self es id e : find_entry es id = Some e -> find_entry es (e_id e) = Some e.
  Proof. intros H. destruct (find_entry_id _ _ _ H) as [-> _]. exact H. Qed.

  Lemma find_all_gen es : NoDup (map e_id es) -> forall l, incl l es ->
    filter_opt (find_entry es) (map e_id l) = l.
  Proof.
    intros ND. induction l as [|e l IH]; intros Hi; [reflexivity|]. cbn [map filter_opt].
    rewrite (find_entry_in es e ND) by (apply Hi; left; reflexivity). f_equal.
    apply IH. intros x Hx. apply Hi. right. exact Hx.
  Qed.

  Lemma stored_id b : NoDup (map e_id (b_entries b)) -> stored_block b = b.
  Proof.
    intros ND. unfold BlockDataModel.stored_block, BlockDataModel.block_ids.
    rewrite (find_all_gen _ ND _ (incl_refl _)).
    rewrite (im_collect_nodup_id B beq Hbeq) by (rewrite keyed_fst; exact ND).
    rewrite keyed_snd. destruct b; reflexivity.
  Qed.

  Lemma sort_ids_id l : sorted_ids l -> sort_ids l = l.
  Proof.
    intros S. unfold BlockDataModel.sort_ids.
    rewrite (sort_keys_sorted_id B beq Hbeq ltb Hltb); rewrite map_map; cbn [fst].
    - apply map_id.
    - rewrite map_id. exact S.
  Qed.

  Lemma im_get_data es r : im_get (map entry_data es) r = option_map (@e_txs B) (find_entry es r).
  Proof.
    unfold BlockDataModel.find_entry, BlockDataModel.keyed.
    induction es as [|e es IH]; [reflexivity|]. cbn.
    destruct (beq (e_id e) r); [reflexivity|exact IH].
  Qed.

  Lemma serve_entries es all req : (forall id, mem id all = true <-> In id (map e_id es)) ->
    map entry_data (filter_opt (find_entry es) (filter (fun id => mem id all) req))
    = filter_opt (fun r => option_map (fun l => (r, l)) (im_get (map entry_data es) r)) req.
  Proof.
    intros Hall. induction req as [|id req IH]; [reflexivity|]. cbn [filter filter_opt].
    rewrite im_get_data. destruct (find_entry es id) as [e|] eqn:F.
    - destruct (find_entry_id _ _ _ F) as [Eid Hin].
      assert (M : mem id all = true). { apply Hall. subst id. apply in_map. exact Hin. }
      rewrite M. cbn [filter_opt option_map]. rewrite F. cbn [map]. rewrite IH. f_equal.
      unfold BlockDataModel.entry_data. rewrite Eid. reflexivity.
    - cbn [option_map]. destruct (mem id all); [cbn [filter_opt]; rewrite F|]; exact IH.
  Qed.

  Lemma collect_incl es e : In e (collect es) -> In e es.
  Proof.
    unfold BlockDataModel.collect. intros H. apply in_map_iff in H. destruct H as ([k e'] & E & H).
    cbn in E. subst e'. apply collect_sub in H. unfold BlockDataModel.keyed in H.
    apply in_map_iff in H. destruct H as (e' & E & H). injection E as _ E2. subst e'. exact H.
  Qed.

  Lemma collect_ids l : map e_id (collect l) = map fst (im_collect (keyed l)).
  Proof.
    unfold BlockDataModel.collect. rewrite map_map. apply map_ext_in. intros [k e] H. cbn.
    apply collect_sub in H. unfold BlockDataModel.keyed in H. apply in_map_iff in H.
    destruct H as (e' & E & _). injection E as E1 E2. subst. reflexivity.
  Qed.

  Lemma collect_nodup_ids l : NoDup (map e_id (collect l)).
  Proof. rewrite collect_ids. apply collect_nodup. Qed.

  Lemma collect_found es req e : In e (collect (filter_opt (find_entry es) req)) <->
    In e (filter_opt (find_entry es) req).
  Proof.
    split; [apply collect_incl|]. intros H. unfold BlockDataModel.collect. apply in_map_iff.
    exists (e_id e, e). split; [reflexivity|].
    apply (collect_sup _ (find_entry es)).
    - intros k v Hk. unfold BlockDataModel.keyed in Hk. apply in_map_iff in Hk.
      destruct Hk as (e' & E & Hk). injection E as E1 E2. subst k v.
      apply filter_opt_In in Hk. destruct Hk as (id & _ & Hk). exact (find_entry_self _ _ _ Hk).
    - unfold BlockDataModel.keyed. apply in_map_iff. exists e. split; [reflexivity|exact H].
  Qed.

  Lemma found_In es req e : NoDup (map e_id es) ->
    In e (filter_opt (find_entry es) req) <-> In e es /\ mem (e_id e) req = true.
  Proof.
    intros ND. rewrite filter_opt_In. split.
    - intros (id & H1 & H2). destruct (find_entry_id _ _ _ H2) as [<- Hin].
      split; [exact Hin|]. apply (mem_In _ _ Hbeq). exact H1.
    - intros [H1 H2]. exists (e_id e). split; [apply (mem_In _ _ Hbeq); exact H2|].
      apply find_entry_in; assumption.
  Qed.

  (** * C07.1: the served forms carry exactly the grouped data *)
  Lemma served_exact_sec bh rest subs deps b :
    finalize bh rest subs deps = BuildOk b ->
    let d := build_group subs deps in
    b_hash b = bh /\
    map entry_data (b_entries b) = d /\
    stored_block b = b /\
    (forall req,
       f_all (serve_filtered b req) = map fst d /\
       map entry_data (f_entries (serve_filtered b req))
       = filter_opt (fun r => option_map (fun l => (r, l)) (im_get d r)) req) /\
    (forall req,
       f_all (to_filtered b req) = map fst d /\
       NoDup (map e_id (f_entries (to_filtered b req))) /\
       (forall e, In e (f_entries (to_filtered b req)) <->
                  In e (b_entries b) /\ mem (e_id e) req = true)) /\
    m_ids (fst (split b)) = map fst d /\
    map (fun bl => (bl_id bl, bl_txs bl)) (snd (split b)) = d /\
    (forall bl, In bl (snd (split b)) -> bl_hash bl = bh).
  Proof.
    intros Hf d. destruct (finalize_inv _ _ _ _ _ Hf) as [Hh Hd]. fold d in Hd.
    assert (Sd : sorted_ids (map fst d)) by (apply build_group_sorted; assumption).
    assert (Ids : map e_id (b_entries b) = map fst d) by (rewrite <- Hd; symmetry; apply data_fst).
    assert (Se : sorted_ids (map e_id (b_entries b))) by (rewrite Ids; exact Sd).
    assert (ND : NoDup (map e_id (b_entries b))) by (apply (sorted_ids_nodup B ltb Hltb); exact Se).
    split; [exact Hh|]. split; [exact Hd|]. split; [apply stored_id; exact ND|].
    split; [|split; [|split; [|split]]].
    - intros req. unfold BlockDataModel.serve_filtered; cbn [f_all f_entries].
      unfold BlockDataModel.block_ids. rewrite sort_ids_id by exact Se. split; [exact Ids|].
      rewrite <- Hd. apply serve_entries. intros id. apply (mem_In _ _ Hbeq).
    - intros req. unfold BlockDataModel.to_filtered; cbn [f_all f_entries]. split; [exact Ids|].
      fold (collect (filter_opt (find_entry (b_entries b)) req)).
      split; [apply collect_nodup_ids|]. intros e. rewrite collect_found. apply found_In. exact ND.
    - exact Ids.
    - cbn. rewrite map_map. exact Hd.
    - intros bl H. cbn in H. apply in_map_iff in H. destruct H as (e & <- & _). exact Hh.
  Qed.
  (** * C07.2: everything served verifies *)
  Variable blen : B -> N.
  Hypothesis Hlen : HashLen B blen leafH nodeH emptyH.

  Local Notation recv_full := (recv_full B beq blen cat sha leafH nodeH emptyH).
  Local Notation recv_filtered := (recv_filtered B beq blen cat sha leafH nodeH emptyH).
  Local Notation recv_meta := (recv_meta B beq blen sha leafH nodeH emptyH).
  Local Notation blob_ok := (blob_ok B blen).
  Local Notation audit_blob := (audit_blob B beq cat leafH nodeH emptyH).
  Local Notation reconstruct := (reconstruct B beq cat leafH nodeH emptyH).
  Local Notation recon_blobs := (recon_blobs B beq cat leafH nodeH emptyH).
  Local Notation recon_blobs_before_F16_fix := (recon_blobs_before_F16_fix B beq cat leafH nodeH emptyH).
  Local Notation reconstruct_before_F16_fix := (reconstruct_before_F16_fix B beq cat leafH nodeH emptyH).
  Local Notation len32 := (len32 B blen).
  Local Notation hdr_ok := (hdr_ok B blen).
  Local Notation entry_wf := (entry_wf B blen).
  Local Notation ids32 := (ids32 B blen Dp).

  Lemma mth_d_len d : forall l, Forall (fun x => blen x = 32) l ->
    blen (mth_d B nodeH emptyH d l) = 32.
  Proof.
    destruct Hlen as (HL & HN & HE). induction d as [|d IH]; intros l Hl; cbn [mth_d].
    - destruct l as [|x l]; [exact HE|]. inversion Hl; assumption.
    - destruct (Nat.leb _ _); [apply IH; exact Hl|apply HN].
  Qed.
  Lemma mroot_len l : Forall (fun x => blen x = 32) l -> blen (mroot l) = 32.
  Proof. apply mth_d_len. Qed.
  Lemma Forall_map_all {A} (P : B -> Prop) (f : A -> B) l : (forall a, P (f a)) -> Forall P (map f l).
  Proof. intros H. induction l; cbn; constructor; auto. Qed.
  Lemma len32_true x : blen x = 32 -> len32 x = true.
  Proof. intros H. unfold BlockDataModel.len32. apply N.eqb_eq. exact H. Qed.

  Lemma ids_len32 subs deps : ids32 subs deps ->
    forall r, In r (map fst (build_group subs deps)) -> blen r = 32.
  Proof.
    intros [I1 I2] r Hr.
    destruct (group_exact B beq ltb Dp encS encD Hbeq Hltb subs deps) as (_ & Hin & _).
    apply Hin in Hr. unfold BlockDataSpec.touched in Hr. apply orb_true_iff in Hr.
    destruct Hr as [Hr|Hr]; apply (mem_In _ _ Hbeq), in_map_iff in Hr;
      destruct Hr as (x & <- & Hx); [apply I1|apply I2]; exact Hx.
  Qed.

  (** what the receivers need of a block *)
  Definition good (b : block B) : Prop :=
    hdr_ok (b_hash b) (b_rtr b) (b_dh b) = true /\
    pverifies (b_rtp b) (leafH (sha (b_rtr b))) (b_dh b) = true /\
    pverifies (b_rip b) (leafH (sha (ids_root (map e_id (b_entries b))))) (b_dh b) = true /\
    (forall e, In e (b_entries b) -> entry_wf e = true /\ entry_verifies (b_rtr b) e = true) /\
    b_rtr b = data_root (map entry_data (b_entries b)) /\
    sorted_ids (map e_id (b_entries b)) /\
    forallb len32 (map e_id (b_entries b)) = true.

  Lemma collect_id es : NoDup (map e_id es) -> collect es = es.
  Proof.
    intros ND. unfold BlockDataModel.collect.
    rewrite (im_collect_nodup_id B beq Hbeq) by (rewrite keyed_fst; exact ND). apply keyed_snd.
  Qed.

  Lemma good_nodup b : good b -> NoDup (map e_id (b_entries b)).
  Proof. intros (_ & _ & _ & _ & _ & S & _). apply (sorted_ids_nodup B ltb Hltb); exact S. Qed.

  Lemma recv_full_good b : good b -> recv_full b = true.
  Proof.
    intros G. pose proof (good_nodup b G) as ND.
    destruct G as (G1 & G2 & G3 & G4 & G5 & G6 & G7).
    assert (W : forallb entry_wf (b_entries b) = true).
    { apply forallb_forall. intros e He. apply G4. exact He. }
    assert (Vf : forallb (entry_verifies (b_rtr b)) (b_entries b) = true).
    { apply forallb_forall. intros e He. apply G4. exact He. }
    unfold BlockDataModel.recv_full. cbv zeta. rewrite (collect_id _ ND), <- G5.
    rewrite G1, G2, G3, (pverifies_wf _ _ _ G2), (pverifies_wf _ _ _ G3), W, Vf. reflexivity.
  Qed.

  Lemma recv_filtered_good b f : good b ->
    f_hash f = b_hash b -> f_rtr f = b_rtr b -> f_dh f = b_dh b -> f_rtp f = b_rtp b ->
    f_rip f = b_rip b -> f_all f = map e_id (b_entries b) -> incl (f_entries f) (b_entries b) ->
    recv_filtered f = true.
  Proof.
    intros G E1 E2 E3 E4 E5 E6 Hi. destruct G as (G1 & G2 & G3 & G4 & G5 & G6 & G7).
    assert (W : forallb entry_wf (f_entries f) = true).
    { apply forallb_forall. intros e He. apply G4. apply Hi. exact He. }
    assert (Vf : forallb (entry_verifies (b_rtr b)) (collect (f_entries f)) = true).
    { apply forallb_forall. intros e He. apply G4. apply Hi. apply collect_incl. exact He. }
    unfold BlockDataModel.recv_filtered. cbv zeta. rewrite E1, E2, E3, E4, E5, E6.
    rewrite G1, G2, G3, (pverifies_wf _ _ _ G2), (pverifies_wf _ _ _ G3), W, Vf, G7. reflexivity.
  Qed.

  Lemma found_incl es req : incl (filter_opt (find_entry es) req) es.
  Proof.
    intros e H. apply filter_opt_In in H. destruct H as (id & _ & H).
    apply (find_entry_id _ _ _ H).
  Qed.

  (** the repaired loop = the loop before the repair of F16 on the blobs of the own rollup *)
  Lemma recon_blobs_filter r bs : forall hs,
    recon_blobs r hs bs = recon_blobs_before_F16_fix hs (filter (fun b => beq (bl_id b) r) bs).
  Proof.
    induction bs as [|b bs IH]; intros hs; [reflexivity|].
    cbn [BlockDataModel.recon_blobs filter]. destruct (beq (bl_id b) r); cbn [negb].
    - cbn [BlockDataSpec.recon_blobs_before_F16_fix].
      destruct (BlockDataModel.take_header B beq cat leafH nodeH emptyH hs b) as [[h hs']|].
      + rewrite (IH hs'). reflexivity.
      + apply IH.
    - apply IH.
  Qed.
  Lemma reconstruct_filter hs bs r :
    reconstruct hs bs r = reconstruct_before_F16_fix hs (filter (fun b => beq (bl_id b) r) bs) r.
  Proof.
    unfold BlockDataModel.reconstruct, BlockDataSpec.reconstruct_before_F16_fix.
    rewrite recon_blobs_filter. reflexivity.
  Qed.

  Lemma recon_one h bl r : beq (m_hash h) (bl_hash bl) = true -> audit_blob h bl = true ->
    reconstruct_before_F16_fix [h] [bl] r = [(m_hash h, bl_txs bl)].
  Proof.
    intros H1 H2. unfold BlockDataSpec.reconstruct_before_F16_fix.
    cbn [BlockDataSpec.recon_blobs_before_F16_fix BlockDataModel.take_header]. rewrite H1, H2. reflexivity.
  Qed.
  Lemma recon_none h r : mem r (m_ids h) = false ->
    reconstruct_before_F16_fix [h] [] r = [(m_hash h, [])].
  Proof.
    intros H. unfold BlockDataSpec.reconstruct_before_F16_fix.
    cbn [BlockDataSpec.recon_blobs_before_F16_fix flat_map app]. rewrite H. reflexivity.
  Qed.

  Lemma find_entry_cons e es r :
    find_entry (e :: es) r = if beq (e_id e) r then Some e else find_entry es r.
  Proof. reflexivity. Qed.
  Lemma find_entry_none es id : ~ In id (map e_id es) -> find_entry es id = None.
  Proof. intros H. apply (im_get_notin B beq Hbeq). rewrite keyed_fst. exact H. Qed.

  Lemma filter_one {C} (mk : entry B -> C) (idof : C -> B) r :
    (forall e, idof (mk e) = e_id e) -> forall es, NoDup (map e_id es) ->
    filter (fun c => beq (idof c) r) (map mk es)
    = match find_entry es r with Some e => [mk e] | None => [] end.
  Proof.
    intros Hid. induction es as [|e es IH]; intros ND; [reflexivity|].
    cbn [map] in ND. apply NoDup_cons_iff in ND. destruct ND as [Hn ND].
    cbn [map filter]. rewrite Hid, find_entry_cons. destruct (beq (e_id e) r) eqn:E.
    - apply (bq_true _ _ Hbeq) in E. subst r. rewrite (IH ND), (find_entry_none _ _ Hn). reflexivity.
    - apply IH. exact ND.
  Qed.

  Lemma reconstruct_good b r : good b ->
    reconstruct [fst (split b)] (snd (split b)) r
    = [(b_hash b, match find_entry (b_entries b) r with Some e => e_txs e | None => [] end)].
  Proof.
    intros G. pose proof (good_nodup b G) as ND.
    destruct G as (G1 & G2 & G3 & G4 & G5 & G6 & G7).
    rewrite reconstruct_filter. cbn [BlockDataModel.split_celestia fst snd].
    rewrite (filter_one (fun e => {| bl_hash := b_hash b; bl_id := e_id e; bl_txs := e_txs e;
                                      bl_proof := e_proof e |}) (@bl_id B) r (fun e => eq_refl) _ ND).
    destruct (find_entry (b_entries b) r) as [e|] eqn:F.
    - destruct (find_entry_id _ _ _ F) as [_ Hin].
      apply recon_one; [apply (bq_refl _ _ Hbeq)|]. exact (proj2 (G4 e Hin)).
    - apply recon_none. cbn [m_ids]. apply (mem_false _ _ Hbeq). intros Hr.
      unfold BlockDataModel.block_ids in Hr. rewrite <- keyed_fst in Hr.
      apply (im_get_in_keys B beq Hbeq) in Hr. destruct Hr as [v Hr].
      unfold BlockDataModel.find_entry in F. congruence.
  Qed.

  Lemma served_verifies_sec bh rest subs deps b :
    size_ok subs deps rest -> ids32 subs deps -> blen bh = 32 ->
    finalize bh rest subs deps = BuildOk b ->
    recv_full b = true /\
    recv_full (stored_block b) = true /\
    (forall req, recv_filtered (serve_filtered b req) = true) /\
    (forall req, recv_filtered (to_filtered b req) = true) /\
    recv_meta (fst (split b)) = true /\
    (forall bl, In bl (snd (split b)) ->
                blob_ok bl = true /\ audit_blob (fst (split b)) bl = true) /\
    (forall r, reconstruct [fst (split b)] (snd (split b)) r
               = [(bh, if touched r subs deps then expected r subs deps else [])]).
  Proof.
    intros Hs Hids Hbh Hf.
    destruct (finalize_inv _ _ _ _ _ Hf) as [Hh Hd].
    destruct (finalize_char bh rest subs deps Hs) as (es & dh & rtp & rip & Hc & Edh & Fv & Vrtp & Vrip).
    rewrite Hf in Hc. injection Hc as ->. cbn [b_entries b_hash] in Hd, Hh. clear Hh.
    set (d := build_group subs deps) in *.
    assert (Sd : sorted_ids (map fst d)) by (apply build_group_sorted; assumption).
    assert (Ids : map e_id es = map fst d) by (rewrite <- Hd; symmetry; apply data_fst).
    destruct Hlen as (HL & HN & HE).
    assert (G : good {| b_hash := bh; b_rtr := data_root d; b_dh := dh; b_entries := es;
                        b_rtp := rtp; b_rip := rip |}).
    { unfold good. cbn [b_hash b_rtr b_dh b_entries b_rtp b_rip].
      split; [|split; [exact Vrtp|split; [rewrite Ids; exact Vrip|split; [|split; [|split]]]]].
      - unfold BlockDataModel.hdr_ok. rewrite !len32_true; [reflexivity| | |exact Hbh].
        + rewrite Edh. apply mroot_len. apply Forall_map_all. exact HL.
        + apply mroot_len. apply Forall_map_all. intros a. apply HL.
      - intros e He. rewrite Forall_forall in Fv. specialize (Fv e He). split; [|exact Fv].
        unfold BlockDataModel.entry_wf. rewrite (pverifies_wf _ _ _ Fv), len32_true; [reflexivity|].
        apply (ids_len32 subs deps Hids). fold d. rewrite <- Ids. apply in_map. exact He.
      - rewrite Hd. reflexivity.
      - rewrite Ids. exact Sd.
      - apply forallb_forall. intros id Hid. apply len32_true. apply (ids_len32 subs deps Hids).
        fold d. rewrite <- Ids. exact Hid. }
    set (b := {| b_hash := bh; b_rtr := data_root d; b_dh := dh; b_entries := es;
                 b_rtp := rtp; b_rip := rip |}) in *.
    pose proof (good_nodup b G) as ND.
    split; [apply recv_full_good; exact G|].
    split; [rewrite (stored_id b ND); apply recv_full_good; exact G|].
    split; [|split; [|split; [|split]]].
    - intros req. apply (recv_filtered_good b); try reflexivity; [exact G| |].
      + cbn [f_all BlockDataModel.serve_filtered]. apply sort_ids_id. apply G.
      + cbn [f_entries BlockDataModel.serve_filtered]. apply found_incl.
    - intros req. apply (recv_filtered_good b); try reflexivity; [exact G|].
      cbn [f_entries BlockDataModel.to_filtered].
      fold (collect (filter_opt (find_entry (b_entries b)) req)).
      intros e He. apply collect_incl in He. apply (found_incl _ _ _ He).
    - destruct G as (G1 & G2 & G3 & G4 & G5 & G6 & G7).
      unfold BlockDataModel.recv_meta.
      cbn [BlockDataModel.split_celestia fst m_hash m_rtr m_dh m_ids m_rtp m_rip].
      unfold BlockDataModel.block_ids.
      rewrite G1, G2, G3, (pverifies_wf _ _ _ G2), (pverifies_wf _ _ _ G3), G7. reflexivity.
    - intros bl Hbl. cbn [BlockDataModel.split_celestia snd fst] in Hbl |- *.
      apply in_map_iff in Hbl. destruct Hbl as (e & <- & He).
      destruct G as (G1 & G2 & G3 & G4 & G5 & G6 & G7). destruct (G4 e He) as [W V].
      split; [|exact V]. unfold BlockDataModel.blob_ok. cbn [bl_id bl_hash bl_proof].
      unfold BlockDataModel.entry_wf in W. apply andb_prop in W. destruct W as [W1 W2].
      change (b_hash b) with bh. rewrite W1, W2, (len32_true _ Hbh). reflexivity.
    - intros r. rewrite (reconstruct_good b r G). cbn [b_hash b]. f_equal. f_equal.
      pose proof (im_get_data es r) as Hg. rewrite Hd in Hg. unfold d in Hg.
      rewrite (build_group_get B beq Hbeq ltb Hltb) in Hg.
      cbn [b_entries b]. destruct (touched r subs deps); destruct (find_entry es r);
        cbn [option_map] in Hg; congruence.
  Qed.
End Serve.

(** * the pinned forms *)
Lemma served_exact B beq ltb cat sha leafH nodeH emptyH zeroD Dp encS encD :
  stmt_served_exact B beq ltb cat sha leafH nodeH emptyH zeroD Dp encS encD.
Proof. intros Hb Hl bh rest subs deps b Hf. eapply served_exact_sec; eassumption. Qed.

Lemma finalize_ok B beq ltb cat sha leafH nodeH emptyH zeroD Dp encS encD :
  stmt_finalize_ok B beq ltb cat sha leafH nodeH emptyH zeroD Dp encS encD.
Proof. intros Hb Hl bh rest subs deps Hs. eapply finalize_ok_sec; eassumption. Qed.

Lemma served_verifies B beq ltb blen cat sha leafH nodeH emptyH zeroD Dp encS encD :
  stmt_served_verifies B beq ltb blen cat sha leafH nodeH emptyH zeroD Dp encS encD.
Proof.
  intros Hb Hl Hh bh rest subs deps b Hs Hi Hbh Hf. eapply served_verifies_sec; eassumption.
Qed.

Check (served_exact : forall B beq ltb cat sha leafH nodeH emptyH zeroD Dp encS encD,
  stmt_served_exact B beq ltb cat sha leafH nodeH emptyH zeroD Dp encS encD).
Check (finalize_ok : forall B beq ltb cat sha leafH nodeH emptyH zeroD Dp encS encD,
  stmt_finalize_ok B beq ltb cat sha leafH nodeH emptyH zeroD Dp encS encD).
Check (served_verifies : forall B beq ltb blen cat sha leafH nodeH emptyH zeroD Dp encS encD,
  stmt_served_verifies B beq ltb blen cat sha leafH nodeH emptyH zeroD Dp encS encD).
Print Assumptions served_exact.
Print Assumptions finalize_ok.
Print Assumptions served_verifies.
