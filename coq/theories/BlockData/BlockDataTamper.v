(** C07.3 / C07.4 -- tampering of served data is detected (or exhibits an explicit collision), and
    what these receivers cannot detect. *)
From Astria Require Import BlockData.BlockDataMerkle BlockData.BlockDataSpec Merkle.MerkleSound.
From Astria Require BlockData.BlockDataServe.

(** * part A: injectivity of the commitments, the binding of one proof, [collect] *)
Section TamperA.
  Variable B : Type.
  Variable beq : B -> B -> bool.
  Variable blen : B -> N.
  Variable cat : B -> B -> B.
  Variable sha leafH : B -> B.
  Variable nodeH : B -> B -> B.
  Variable emptyH : B.

  Local Notation Coll := (Coll B sha leafH nodeH emptyH).
  Local Notation BeqSpec := (BeqSpec B beq).
  Local Notation CatInj := (CatInj B blen cat).
  Local Notation mroot := (mroot B nodeH emptyH).
  Local Notation txs_root := (txs_root B leafH nodeH emptyH).
  Local Notation rollup_leaf := (rollup_leaf B cat leafH nodeH emptyH).
  Local Notation data_root := (data_root B cat leafH nodeH emptyH).
  Local Notation pverifies := (pverifies B beq nodeH).
  Local Notation verify := (verify B nodeH beq).
  Local Notation collect := (collect B beq).
  Local Notation keyed := (keyed B).
  Local Notation im_insert := (im_insert B beq).
  Local Notation im_collect := (im_collect B beq).

  Lemma Coll1 : Collision B nodeH -> Coll.
  Proof. intros H. left. exact H. Qed.
  Lemma Coll4 x a b : leafH x = nodeH a b -> Coll.
  Proof. intros H. right. right. right. left. exists x, a, b. exact H. Qed.
  Lemma Coll5 x : leafH x = emptyH -> Coll.
  Proof. intros H. right. right. right. right. left. exists x. exact H. Qed.
  Lemma Coll6 a b : nodeH a b = emptyH -> Coll.
  Proof. intros H. right. right. right. right. right. exists a, b. exact H. Qed.

  Lemma pverifies_inv p lh r : pverifies p lh r = true -> verify p lh r = Some true.
  Proof.
    unfold BlockDataModel.pverifies. intros H. apply andb_true_iff in H. destruct H as [_ H].
    destruct (verify p lh r) as [[|]|]; [reflexivity|discriminate H|discriminate H].
  Qed.

  Lemma leafH_inj (Hb : BeqSpec) x y : leafH x = leafH y -> x = y \/ Coll.
  Proof.
    intros H. destruct (eqD_dec B beq Hb x y) as [E|N]; [left; exact E|].
    right. right. left. exists x, y. split; assumption.
  Qed.

  Lemma sha_inj (Hb : BeqSpec) x y : sha x = sha y -> x = y \/ Coll.
  Proof.
    intros H. destruct (eqD_dec B beq Hb x y) as [E|N]; [left; exact E|].
    right. right. right. left. exists x, y. split; assumption.
  Qed.

  Lemma leaf_sha_inj (Hb : BeqSpec) x y : leafH (sha x) = leafH (sha y) -> x = y \/ Coll.
  Proof.
    intros H. destruct (leafH_inj Hb _ _ H) as [E|C]; [|right; exact C].
    apply sha_inj; assumption.
  Qed.

  Lemma map_leafH_inj (Hb : BeqSpec) : forall l l', map leafH l = map leafH l' -> l = l' \/ Coll.
  Proof.
    induction l as [|x l IH]; intros [|y l'] H; cbn [map] in H; try discriminate H.
    - left. reflexivity.
    - injection H as H1 H2.
      destruct (leafH_inj Hb _ _ H1) as [E1|C]; [|right; exact C].
      destruct (IH _ H2) as [E2|C]; [|right; exact C].
      left. rewrite E1, E2. reflexivity.
  Qed.

  Lemma leaf_lists_inj (Hb : BeqSpec) l l' :
    mroot (map leafH l) = mroot (map leafH l') -> l = l' \/ Coll.
  Proof.
    unfold BlockDataModel.mroot. intros H.
    destruct (mth_inj B nodeH emptyH beq Hb _ _ H)
      as [E|[C|[[x [Hx [a [b Hn]]]]|[He|[a [b Hn]]]]]].
    - apply map_leafH_inj; assumption.
    - right. apply Coll1. exact C.
    - right. rewrite <- map_app in Hx. apply in_map_iff in Hx. destruct Hx as [y [Hy _]].
      rewrite <- Hy in Hn. exact (Coll4 _ _ _ Hn).
    - right. rewrite <- map_app in He. apply in_map_iff in He. destruct He as [y [Hy _]].
      exact (Coll5 _ Hy).
    - right. symmetry in Hn. exact (Coll6 _ _ Hn).
  Qed.

  Lemma pair_leaf_inj (Hb : BeqSpec) (Hc : CatInj) id txs id' txs' :
    blen id = 32 -> blen id' = 32 ->
    cat id (txs_root txs) = cat id' (txs_root txs') -> (id = id' /\ txs = txs') \/ Coll.
  Proof.
    intros L L' E.
    destruct (Hc _ _ _ _ (eq_trans L (eq_sym L')) E) as [Ei Et].
    unfold BlockDataModel.txs_root in Et.
    destruct (leaf_lists_inj Hb _ _ Et) as [E2|C]; [|right; exact C].
    left. split; assumption.
  Qed.

  Lemma rollup_leaf_inj (Hb : BeqSpec) (Hc : CatInj) id txs id' txs' :
    blen id = 32 -> blen id' = 32 ->
    rollup_leaf id txs = rollup_leaf id' txs' -> (id = id' /\ txs = txs') \/ Coll.
  Proof.
    unfold BlockDataModel.rollup_leaf. intros L L' H.
    destruct (leafH_inj Hb _ _ H) as [E|C]; [|right; exact C].
    apply pair_leaf_inj; assumption.
  Qed.

  Lemma entry_binding : stmt_entry_binding B beq blen cat sha leafH nodeH emptyH.
  Proof.
    intros Hb Hc p rtr id txs id' txs' L L' V V'.
    apply pverifies_inv in V. apply pverifies_inv in V'.
    destruct (sound_leaf B nodeH beq Hb _ _ _ _ V V') as [E|C].
    - apply rollup_leaf_inj; assumption.
    - right. apply Coll1. exact C.
  Qed.

  Lemma pair_list_inj (Hb : BeqSpec) (Hc : CatInj) : forall d d' : list (B * list B),
    (forall kv, In kv d -> blen (fst kv) = 32) -> (forall kv, In kv d' -> blen (fst kv) = 32) ->
    map (fun kv => cat (fst kv) (txs_root (snd kv))) d
    = map (fun kv => cat (fst kv) (txs_root (snd kv))) d' -> d = d' \/ Coll.
  Proof.
    induction d as [|[a ta] d IH]; intros [|[b tb] d'] L L' H; cbn [map] in H; try discriminate H.
    - left. reflexivity.
    - injection H as H1 H2. cbn [fst snd] in H1.
      destruct (pair_leaf_inj Hb Hc a ta b tb) as [[E1 E2]|C]; [| |exact H1| |right; exact C].
      + apply (L (a, ta)). left. reflexivity.
      + apply (L' (b, tb)). left. reflexivity.
      + destruct (IH d') as [E3|C]; [| |exact H2| |right; exact C].
        * intros kv Hk. apply L. right. exact Hk.
        * intros kv Hk. apply L'. right. exact Hk.
        * left. rewrite E1, E2, E3. reflexivity.
  Qed.

  Lemma data_root_inj (Hb : BeqSpec) (Hc : CatInj) (d d' : list (B * list B)) :
    (forall kv, In kv d -> blen (fst kv) = 32) -> (forall kv, In kv d' -> blen (fst kv) = 32) ->
    data_root d = data_root d' -> d = d' \/ Coll.
  Proof.
    intros L L' H.
    assert (R : forall x, data_root x
                = mroot (map leafH (map (fun kv => cat (fst kv) (txs_root (snd kv))) x))).
    { intros x. unfold BlockDataModel.data_root, BlockDataModel.rollup_leaf.
      rewrite map_map. reflexivity. }
    rewrite !R in H.
    destruct (leaf_lists_inj Hb _ _ H) as [E|C]; [|right; exact C].
    apply pair_list_inj; assumption.
  Qed.

  (** ** [collect] *)
  Lemma im_insert_fresh (Hb : BeqSpec) {V} (m : list (B * V)) k v :
    ~ In k (map fst m) -> im_insert m k v = m ++ [(k, v)].
  Proof.
    induction m as [|[k' v'] m IH]; intros Hn; cbn [BlockDataModel.im_insert app].
    - reflexivity.
    - destruct (beq k' k) eqn:E.
      + apply Hb in E. exfalso. apply Hn. left. exact E.
      + rewrite IH; [reflexivity|]. intros H. apply Hn. right. exact H.
  Qed.

  Lemma im_fold_fresh (Hb : BeqSpec) {V} : forall (l acc : list (B * V)),
    NoDup (map fst (acc ++ l)) ->
    fold_left (fun m kv => im_insert m (fst kv) (snd kv)) l acc = acc ++ l.
  Proof.
    induction l as [|[k v] l IH]; intros acc Hn; cbn [fold_left].
    - rewrite app_nil_r. reflexivity.
    - cbn [fst snd]. rewrite im_insert_fresh; [|exact Hb|].
      + rewrite IH; rewrite <- app_assoc; [reflexivity|exact Hn].
      + rewrite map_app in Hn. cbn [map fst] in Hn. apply NoDup_remove_2 in Hn.
        intros H. apply Hn. apply in_or_app. left. exact H.
  Qed.

  Lemma keyed_fst es : map fst (keyed es) = map e_id es.
  Proof. unfold BlockDataModel.keyed. rewrite map_map. reflexivity. Qed.

  Lemma keyed_snd es : map snd (keyed es) = es.
  Proof. unfold BlockDataModel.keyed. rewrite map_map. cbn [snd]. apply map_id. Qed.

  Lemma collect_unique (Hb : BeqSpec) es : unique_ids B es -> collect es = es.
  Proof.
    intros Hu. unfold BlockDataModel.collect, BlockDataModel.im_collect.
    rewrite im_fold_fresh; [|exact Hb|].
    - cbn [app]. apply keyed_snd.
    - cbn [app]. rewrite keyed_fst. exact Hu.
  Qed.

  Lemma im_insert_snd_in {V} (m : list (B * V)) k v x :
    In x (map snd (im_insert m k v)) -> In x (map snd m) \/ x = v.
  Proof.
    induction m as [|[k' v'] m IH]; cbn [BlockDataModel.im_insert map snd In].
    - intros [H|[]]. right. symmetry. exact H.
    - destruct (beq k' k); cbn [map snd In].
      + intros [H|H]; [right; symmetry; exact H|left; right; exact H].
      + intros [H|H]; [left; left; exact H|].
        destruct (IH H) as [H1|H1]; [left; right; exact H1|right; exact H1].
  Qed.

  Lemma im_fold_snd_in {V} : forall (l acc : list (B * V)) x,
    In x (map snd (fold_left (fun m kv => im_insert m (fst kv) (snd kv)) l acc)) ->
    In x (map snd acc) \/ In x (map snd l).
  Proof.
    induction l as [|[k v] l IH]; intros acc x H; cbn [fold_left] in H.
    - left. exact H.
    - destruct (IH _ _ H) as [H1|H1].
      + cbn [fst snd] in H1. destruct (im_insert_snd_in _ _ _ _ H1) as [H2|H2].
        * left. exact H2.
        * right. left. symmetry. exact H2.
      + right. right. exact H1.
  Qed.

  Lemma collect_in es e : In e (collect es) -> In e es.
  Proof.
    unfold BlockDataModel.collect, BlockDataModel.im_collect. intros H.
    destruct (im_fold_snd_in _ _ _ H) as [[]|H1]. rewrite keyed_snd in H1. exact H1.
  Qed.

  (** a property that holds for every element of a list up to a fixed alternative *)
  Lemma forall_in_or {A} (P : A -> Prop) (C : Prop) : forall l : list A,
    (forall x, In x l -> P x \/ C) -> (forall x, In x l -> P x) \/ C.
  Proof.
    induction l as [|a l IH]; intros H.
    - left. intros x [].
    - destruct (H a (or_introl eq_refl)) as [Pa|c]; [|right; exact c].
      assert (Hl : forall x, In x l -> P x \/ C) by (intros x Hx; apply H; right; exact Hx).
      destruct (IH Hl) as [Pl|c]; [|right; exact c].
      left. intros x [E|Hx]; [rewrite <- E; exact Pa|apply Pl; exact Hx].
  Qed.
End TamperA.

(** * part B: the three tamper theorems *)
Section TamperB.
  Variable B : Type.
  Variable beq : B -> B -> bool.
  Variable blen : B -> N.
  Variable cat : B -> B -> B.
  Variable sha leafH : B -> B.
  Variable nodeH : B -> B -> B.
  Variable emptyH : B.

  Local Notation Coll := (Coll B sha leafH nodeH emptyH).
  Local Notation BeqSpec := (BeqSpec B beq).
  Local Notation CatInj := (CatInj B blen cat).
  Local Notation mroot := (mroot B nodeH emptyH).
  Local Notation rollup_leaf := (rollup_leaf B cat leafH nodeH emptyH).
  Local Notation data_root := (data_root B cat leafH nodeH emptyH).
  Local Notation ids_root := (ids_root B leafH nodeH emptyH).
  Local Notation pverifies := (pverifies B beq nodeH).
  Local Notation verify := (verify B nodeH beq).
  Local Notation collect := (collect B beq).
  Local Notation entry_data := (entry_data B).
  Local Notation entry_wf := (entry_wf B blen).
  Local Notation entry_verifies := (entry_verifies B beq cat leafH nodeH emptyH).
  Local Notation recv_full := (recv_full B beq blen cat sha leafH nodeH emptyH).
  Local Notation recv_filtered := (recv_filtered B beq blen cat sha leafH nodeH emptyH).
  Local Notation recv_meta := (recv_meta B beq blen sha leafH nodeH emptyH).
  Local Notation blob_ok := (blob_ok B blen).
  Local Notation audit_blob := (audit_blob B beq cat leafH nodeH emptyH).
  Local Notation tamper_f := (tamper_f B).
  Local Notation tamper_full := (tamper_full B).
  Local Notation tamper_cel := (tamper_cel B).
  Local Notation tamper_entries := (tamper_entries B).
  Local Notation unique_ids := (unique_ids B).

  Local Notation pverifies_inv := (pverifies_inv B beq nodeH).
  Local Notation leaf_sha_inj := (leaf_sha_inj B beq sha leafH nodeH emptyH).
  Local Notation leaf_lists_inj := (leaf_lists_inj B beq sha leafH nodeH emptyH).
  Local Notation data_root_inj := (data_root_inj B beq blen cat sha leafH nodeH emptyH).
  Local Notation collect_unique := (collect_unique B beq).
  Local Notation collect_in := (collect_in B beq).
  Local Notation entry_binding := (entry_binding B beq blen cat sha leafH nodeH emptyH).
  Local Notation Coll1 := (Coll1 B sha leafH nodeH emptyH).

  (** ** the header checks *)
  Lemma hdr_rtr (Hb : BeqSpec) p rtr rtr' dh :
    pverifies p (leafH (sha rtr)) dh = true -> pverifies p (leafH (sha rtr')) dh = true ->
    rtr' = rtr \/ Coll.
  Proof.
    intros V V'. apply pverifies_inv in V. apply pverifies_inv in V'.
    destruct (sound_leaf B nodeH beq Hb _ _ _ _ V' V) as [E|C].
    - apply leaf_sha_inj; assumption.
    - right. apply Coll1. exact C.
  Qed.

  Lemma hdr_dh (Hb : BeqSpec) p l dh dh' :
    pverifies p l dh = true -> pverifies p l dh' = true -> dh' = dh.
  Proof.
    intros V V'. apply pverifies_inv in V. apply pverifies_inv in V'.
    exact (sound_root B nodeH beq Hb _ _ _ _ V' V).
  Qed.

  Lemma hdr_ids (Hb : BeqSpec) p ids ids' dh :
    pverifies p (leafH (sha (ids_root ids))) dh = true ->
    pverifies p (leafH (sha (ids_root ids'))) dh = true -> ids' = ids \/ Coll.
  Proof.
    intros V V'. destruct (hdr_rtr Hb _ _ _ _ V V') as [E|C]; [|right; exact C].
    unfold BlockDataModel.ids_root in E. apply leaf_lists_inj; assumption.
  Qed.

  Definition Hdr (f : filtered B) : Prop :=
    pverifies (f_rtp f) (leafH (sha (f_rtr f))) (f_dh f) = true /\
    pverifies (f_rip f) (leafH (sha (ids_root (f_all f)))) (f_dh f) = true.

  Lemma tamper_hdr (Hb : BeqSpec) t f : Hdr f -> Hdr (tamper_f t f) ->
    (f_all (tamper_f t f) = f_all f /\ f_rtr (tamper_f t f) = f_rtr f /\
     f_dh (tamper_f t f) = f_dh f) \/ Coll.
  Proof.
    unfold Hdr. intros [V1 V2] [V1' V2'].
    destruct t;
      cbn [BlockDataModel.tamper_f BlockDataModel.tamper_ids f_all f_rtr f_dh f_rtp f_rip] in *;
      try (left; repeat split; reflexivity).
    - (* TRtr *) destruct (hdr_rtr Hb _ _ _ _ V1 V1') as [E|C]; [|right; exact C].
      left. repeat split. exact E.
    - (* TDh *) left. repeat split. exact (hdr_dh Hb _ _ _ _ V1 V1').
    - destruct (hdr_ids Hb _ _ _ _ V2 V2') as [E|C]; [|right; exact C].
      left. repeat split. exact E.
    - destruct (hdr_ids Hb _ _ _ _ V2 V2') as [E|C]; [|right; exact C].
      left. repeat split. exact E.
    - destruct (hdr_ids Hb _ _ _ _ V2 V2') as [E|C]; [|right; exact C].
      left. repeat split. exact E.
  Qed.

  (** ** where the entries of a tampered list come from *)
  Lemma in_upd_nth {A} (F : A -> A) : forall k l x,
    In x (upd_nth k F l) -> In x l \/ exists y, In y l /\ x = F y.
  Proof.
    induction k as [|k IH]; intros [|a l] x H; cbn [upd_nth In] in *; try contradiction.
    - destruct H as [H|H]; [right; exists a; split; [left; reflexivity|symmetry; exact H]|].
      left. right. exact H.
    - destruct H as [H|H]; [left; left; exact H|].
      destruct (IH _ _ H) as [H1|[y [Hy E]]]; [left; right; exact H1|].
      right. exists y. split; [right; exact Hy|exact E].
  Qed.

  Lemma in_remove_nth {A} : forall k (l : list A) x, In x (remove_nth k l) -> In x l.
  Proof.
    induction k as [|k IH]; intros [|a l] x H; cbn [remove_nth In] in *; try contradiction.
    - right. exact H.
    - destruct H as [H|H]; [left; exact H|right; apply IH; exact H].
  Qed.

  Lemma in_swap_ij {A} i j (l : list A) x : In x (swap_ij i j l) -> In x l.
  Proof.
    unfold swap_ij. destruct (nth_error l i) as [a|] eqn:Ea; [|intros H; exact H].
    destruct (nth_error l j) as [b|] eqn:Eb; [|intros H; exact H].
    intros H. apply nth_error_In in Ea. apply nth_error_In in Eb.
    apply in_upd_nth in H. destruct H as [H|[y [_ E]]]; [|rewrite E; exact Ea].
    apply in_upd_nth in H. destruct H as [H|[y [_ E]]]; [exact H|rewrite E; exact Eb].
  Qed.

  Lemma tamper_prov t es e' : In e' (tamper_entries t es) ->
    exists e, In e es /\ (e_proof e' = e_proof e \/ entry_data e' = entry_data e).
  Proof.
    assert (Hid : In e' es ->
      exists e, In e es /\ (e_proof e' = e_proof e \/ entry_data e' = entry_data e)).
    { intros H. exists e'. split; [exact H|left; reflexivity]. }
    assert (Hup : forall k F,
      (forall y, e_proof (F y) = e_proof y \/ entry_data (F y) = entry_data y) ->
      In e' (upd_nth k F es) ->
      exists e, In e es /\ (e_proof e' = e_proof e \/ entry_data e' = entry_data e)).
    { intros k F HF H. apply in_upd_nth in H. destruct H as [H|[y [Hy E]]]; [exact (Hid H)|].
      exists y. split; [exact Hy|]. rewrite E. apply HF. }
    destruct t; cbn [BlockDataModel.tamper_entries]; try exact Hid;
      try (apply Hup; intros y; first [left; reflexivity|right; reflexivity]).
    - (* TMvData *) destruct (nth_error es j2); [|exact Hid].
      apply Hup. intros y. left. reflexivity.
    - (* TSwapProof *) destruct (nth_error es j) as [e1|]; [|exact Hid].
      destruct (nth_error es j2) as [e2|]; [|exact Hid].
      intros H. apply in_upd_nth in H. destruct H as [H|[y [Hy E]]].
      + revert H. apply Hup. intros y. right. reflexivity.
      + apply in_upd_nth in Hy. destruct Hy as [Hy|[z [Hz Ez]]].
        * exists y. split; [exact Hy|]. right. rewrite E. reflexivity.
        * exists z. split; [exact Hz|]. right. rewrite E, Ez. reflexivity.
    - (* TRmEntry *) intros H. apply Hid. eapply in_remove_nth. exact H.
    - (* TDupEntry *) destruct (nth_error es j) as [e|] eqn:E; [|exact Hid].
      intros H. apply Hid. apply in_app_or in H. destruct H as [H|[H|[]]]; [exact H|].
      rewrite <- H. eapply nth_error_In. exact E.
    - (* TSwapEntry *) intros H. apply Hid. eapply in_swap_ij. exact H.
  Qed.

  Lemma entry_wf_len e : entry_wf e = true -> blen (e_id e) = 32.
  Proof.
    unfold BlockDataModel.entry_wf, BlockDataModel.len32. intros H.
    apply andb_true_iff in H. destruct H as [H _]. apply N.eqb_eq. exact H.
  Qed.

  (** every accepted entry that carries the proof (or the data) of an honest entry carries the
      data of an honest entry *)
  Lemma entries_bound (Hb : BeqSpec) (Hc : CatInj) rtr es es' :
    (forall e, In e es -> entry_verifies rtr e = true /\ blen (e_id e) = 32) ->
    (forall e', In e' es' ->
       exists e, In e es /\ (e_proof e' = e_proof e \/ entry_data e' = entry_data e)) ->
    forall e', In e' es' -> blen (e_id e') = 32 -> entry_verifies rtr e' = true ->
      In (entry_data e') (map entry_data es) \/ Coll.
  Proof.
    intros Hes Hprov e' Hin L V. destruct (Hprov _ Hin) as [e [He [Hp|Hd]]].
    - destruct (Hes _ He) as [Ve Le]. unfold BlockDataModel.entry_verifies in V, Ve.
      rewrite Hp in V.
      destruct (entry_binding Hb Hc _ _ _ _ _ _ L Le V Ve) as [[Ei Et]|C]; [left|right; exact C].
      apply in_map_iff. exists e. split; [|exact He].
      unfold BlockDataModel.entry_data. rewrite Ei, Et. reflexivity.
    - left. rewrite Hd. apply in_map. exact He.
  Qed.

  Lemma recv_filtered_inv f : recv_filtered f = true ->
    forallb entry_wf (f_entries f) = true /\ Hdr f /\
    forallb (entry_verifies (f_rtr f)) (collect (f_entries f)) = true.
  Proof.
    unfold BlockDataModel.recv_filtered, Hdr. cbv zeta. rewrite !andb_true_iff. tauto.
  Qed.

  Lemma filtered_tamper : stmt_filtered_tamper B beq blen cat sha leafH nodeH emptyH.
  Proof.
    intros Hb Hc f t R U R'.
    apply recv_filtered_inv in R. apply recv_filtered_inv in R'.
    destruct R as (W & H & V). destruct R' as (W' & H' & V').
    destruct (tamper_hdr Hb t f H H') as [(Ea & Er & Ed)|C]; [|right; exact C].
    rewrite (collect_unique Hb _ U) in V.
    rewrite forallb_forall in V, V', W, W'.
    destruct (forall_in_or (fun e => In (entry_data e) (map entry_data (f_entries f))) Coll
                (collect (f_entries (tamper_f t f)))) as [P|C];
      [|left; repeat split; assumption|right; exact C].
    intros e' He'.
    apply (entries_bound Hb Hc (f_rtr f) (f_entries f) (f_entries (tamper_f t f))).
    - intros e He. split; [apply V; exact He|apply entry_wf_len; apply W; exact He].
    - intros e2. apply tamper_prov.
    - apply collect_in. exact He'.
    - apply entry_wf_len. apply W'. apply collect_in. exact He'.
    - rewrite <- Er. apply V'. exact He'.
  Qed.

  (** ** the full block *)
  Lemma recv_full_inv b : recv_full b = true ->
    forallb entry_wf (b_entries b) = true /\
    pverifies (b_rtp b) (leafH (sha (b_rtr b))) (b_dh b) = true /\
    pverifies (b_rtp b) (leafH (sha (data_root (map entry_data (collect (b_entries b)))))) (b_dh b)
    = true.
  Proof.
    unfold BlockDataModel.recv_full. cbv zeta. rewrite !andb_true_iff. tauto.
  Qed.

  Lemma full_generic (Hb : BeqSpec) (Hc : CatInj) b b' :
    recv_full b = true -> unique_ids (b_entries b) -> recv_full b' = true ->
    b_rtp b' = b_rtp b -> b_dh b' = b_dh b ->
    (map entry_data (collect (b_entries b')) = map entry_data (b_entries b) /\
     b_rtr b' = b_rtr b /\ b_dh b' = b_dh b) \/ Coll.
  Proof.
    intros R U R' Ep Ed.
    apply recv_full_inv in R. apply recv_full_inv in R'.
    destruct R as (W & V1 & V2). destruct R' as (W' & V1' & V2').
    rewrite (collect_unique Hb _ U) in V2. rewrite Ep, Ed in V1', V2'.
    rewrite forallb_forall in W, W'.
    destruct (hdr_rtr Hb _ _ _ _ V1 V2) as [E1|C]; [|right; exact C].
    destruct (hdr_rtr Hb _ _ _ _ V1 V1') as [E2|C]; [|right; exact C].
    destruct (hdr_rtr Hb _ _ _ _ V1' V2') as [E3|C]; [|right; exact C].
    destruct (data_root_inj Hb Hc (map entry_data (collect (b_entries b')))
                (map entry_data (b_entries b))) as [E|C]; [| | |left|right; exact C].
    - intros kv Hk. apply in_map_iff in Hk. destruct Hk as [e [Ee He]]. rewrite <- Ee.
      cbn [BlockDataModel.entry_data fst]. apply entry_wf_len. apply W'. apply collect_in. exact He.
    - intros kv Hk. apply in_map_iff in Hk. destruct Hk as [e [Ee He]]. rewrite <- Ee.
      cbn [BlockDataModel.entry_data fst]. apply entry_wf_len. apply W. exact He.
    - rewrite E3, E2, E1. reflexivity.
    - repeat split; assumption.
  Qed.

  Lemma full_tamper : stmt_full_tamper B beq blen cat sha leafH nodeH emptyH.
  Proof.
    intros Hb Hc b t R U R'.
    destruct t; try (apply (full_generic Hb Hc b _ R U R'); reflexivity).
    - (* TDh *)
      apply recv_full_inv in R. apply recv_full_inv in R'.
      destruct R as (_ & V1 & _). destruct R' as (_ & V1' & _).
      cbn [BlockDataModel.tamper_full BlockDataModel.f_as_full BlockDataModel.tamper_f
           BlockDataModel.full_as_f b_rtp b_rtr b_dh f_rtp f_rtr f_dh] in V1'.
      pose proof (hdr_dh Hb _ _ _ _ V1 V1') as E.
      left. cbn [BlockDataModel.tamper_full BlockDataModel.f_as_full BlockDataModel.tamper_f
           BlockDataModel.full_as_f BlockDataModel.tamper_entries
           b_entries b_rtr b_dh f_entries f_rtr f_dh].
      rewrite (collect_unique Hb _ U). repeat split. exact E.
    - left. cbn [BlockDataModel.tamper_full BlockDataModel.f_as_full BlockDataModel.tamper_f
           BlockDataModel.full_as_f BlockDataModel.tamper_entries
           b_entries b_rtr b_dh f_entries f_rtr f_dh].
      rewrite (collect_unique Hb _ U). repeat split.
    - left. cbn [BlockDataModel.tamper_full BlockDataModel.f_as_full BlockDataModel.tamper_f
           BlockDataModel.full_as_f BlockDataModel.tamper_entries
           b_entries b_rtr b_dh f_entries f_rtr f_dh].
      rewrite (collect_unique Hb _ U). repeat split.
    - left. cbn [BlockDataModel.tamper_full BlockDataModel.f_as_full BlockDataModel.tamper_f
           BlockDataModel.full_as_f BlockDataModel.tamper_entries
           b_entries b_rtr b_dh f_entries f_rtr f_dh].
      rewrite (collect_unique Hb _ U). repeat split.
  Qed.

  (** ** the Celestia pair *)
  Lemma recv_meta_hdr m : recv_meta m = true ->
    pverifies (m_rtp m) (leafH (sha (m_rtr m))) (m_dh m) = true /\
    pverifies (m_rip m) (leafH (sha (ids_root (m_ids m)))) (m_dh m) = true.
  Proof.
    unfold BlockDataModel.recv_meta. rewrite !andb_true_iff. tauto.
  Qed.

  Lemma blob_ok_len bl : blob_ok bl = true -> blen (bl_id bl) = 32.
  Proof.
    unfold BlockDataModel.blob_ok, BlockDataModel.len32. rewrite !andb_true_iff.
    intros [[H _] _]. apply N.eqb_eq. exact H.
  Qed.

  Lemma celestia_tamper : stmt_celestia_tamper B beq blen cat sha leafH nodeH emptyH.
  Proof.
    intros Hb Hc m bs bh t R Hbs m' bs' R'.
    set (F := tamper_f t (cel_as_f B (m, bs))).
    assert (H : Hdr (cel_as_f B (m, bs))) by exact (recv_meta_hdr m R).
    assert (H' : Hdr F) by exact (recv_meta_hdr m' R').
    destruct (tamper_hdr Hb t _ H H') as [(Ea & Er & Ed)|C]; [|right; exact C].
    set (toE := fun b : blob B => {| e_id := bl_id b; e_txs := bl_txs b; e_proof := bl_proof b |}).
    set (toB := fun e : entry B =>
                  {| bl_hash := bh; bl_id := e_id e; bl_txs := e_txs e; bl_proof := e_proof e |}).
    assert (Hbs' : bs' = map toB (tamper_entries t (map toE bs))) by reflexivity.
    destruct (forall_in_or
                (fun bl' => blob_ok bl' = true -> audit_blob m' bl' = true ->
                            In (bl_id bl', bl_txs bl') (map (fun bl => (bl_id bl, bl_txs bl)) bs))
                Coll bs') as [P|C]; [|left|right; exact C].
    2:{ split; [exact Ea|]. split; [exact Er|]. split; [exact Ed|]. exact P. }
    intros bl' Hbl'. rewrite Hbs' in Hbl'. apply in_map_iff in Hbl'.
    destruct Hbl' as [e' [Ee' He']].
    destruct (blob_ok bl') eqn:Ok; [|left; intros X; discriminate X].
    destruct (audit_blob m' bl') eqn:Au; [|left; intros _ X; discriminate X].
    destruct (entries_bound Hb Hc (m_rtr m) (map toE bs) (tamper_entries t (map toE bs)))
      with (e' := e') as [HI|C]; [| | | | |left|right; exact C].
    - intros e He. apply in_map_iff in He. destruct He as [bl [Eb Hb0]].
      destruct (Hbs _ Hb0) as [Ok0 Au0]. rewrite <- Eb. split.
      + exact Au0.
      + exact (blob_ok_len _ Ok0).
    - intros e2. apply tamper_prov.
    - exact He'.
    - rewrite <- Ee' in Ok. exact (blob_ok_len _ Ok).
    - rewrite <- Ee' in Au. change (m_rtr m) with (f_rtr (cel_as_f B (m, bs))).
      rewrite <- Er. exact Au.
    - intros _ _. rewrite map_map in HI. apply in_map_iff in HI. destruct HI as [bl [Eb Hb0]].
      apply in_map_iff. exists bl. split; [|exact Hb0].
      rewrite <- Ee'. cbn [bl_id bl_txs toB]. exact Eb.
  Qed.
End TamperB.

(** * part C: what is not detectable *)
Section TamperC.
  Variable B : Type.
  Variable beq : B -> B -> bool.
  Variable blen : B -> N.
  Variable cat : B -> B -> B.
  Variable sha leafH : B -> B.
  Variable nodeH : B -> B -> B.
  Variable emptyH : B.

  Local Notation BeqSpec := (BeqSpec B beq).
  Local Notation collect := (collect B beq).
  Local Notation entry_wf := (entry_wf B blen).
  Local Notation entry_verifies := (entry_verifies B beq cat leafH nodeH emptyH).
  Local Notation recv_full := (recv_full B beq blen cat sha leafH nodeH emptyH).
  Local Notation recv_filtered := (recv_filtered B beq blen cat sha leafH nodeH emptyH).
  Local Notation recv_meta := (recv_meta B beq blen sha leafH nodeH emptyH).
  Local Notation audit_blob := (audit_blob B beq cat leafH nodeH emptyH).
  Local Notation reconstruct := (reconstruct B beq cat leafH nodeH emptyH).
  Local Notation tamper_f := (tamper_f B).
  Local Notation tamper_full := (tamper_full B).
  Local Notation tamper_cel := (tamper_cel B).
  Local Notation unique_ids := (unique_ids B).
  Local Notation hdr_ok := (hdr_ok B blen).
  Local Notation collect_unique := (collect_unique B beq).

  (** finding F16 as it was: the loop before the repair reconstructs an audited blob for every
      rollup *)
  Lemma conductor_before_F16_fix_ignored_blob_id :
    stmt_conductor_before_F16_fix_ignored_blob_id B beq cat leafH nodeH emptyH.
  Proof.
    intros m bl r Hh Ha. unfold BlockDataSpec.reconstruct_before_F16_fix.
    cbn [BlockDataSpec.recon_blobs_before_F16_fix BlockDataModel.take_header]. rewrite Hh, Ha. reflexivity.
  Qed.

  (** the repaired loop skips the blobs of other rollups *)
  Lemma conductor_skips_foreign : stmt_conductor_skips_foreign B beq cat leafH nodeH emptyH.
  Proof.
    intros Hb. split.
    - intros hs bs r. apply BlockDataServe.reconstruct_filter.
    - intros m bl r Hne. unfold BlockDataModel.reconstruct.
      cbn [BlockDataModel.recon_blobs].
      destruct (beq (bl_id bl) r) eqn:E; [apply Hb in E; contradiction|].
      cbn [negb flat_map app]. rewrite app_nil_r. reflexivity.
  Qed.

  Lemma hdr_ok_swap x h rtr dh : blen x = 32 -> hdr_ok h rtr dh = true -> hdr_ok x rtr dh = true.
  Proof.
    unfold BlockDataModel.hdr_ok, BlockDataModel.len32. rewrite !andb_true_iff.
    intros L [[_ H1] H2]. repeat split; try assumption. apply N.eqb_eq. exact L.
  Qed.

  Lemma block_hash_unbound : stmt_block_hash_unbound B beq blen cat sha leafH nodeH emptyH.
  Proof.
    intros Hb x Lx. split; [|split].
    - intros b R. unfold BlockDataModel.recv_full in R |- *.
      cbn [BlockDataModel.tamper_full BlockDataModel.f_as_full BlockDataModel.tamper_f
           BlockDataModel.full_as_f BlockDataModel.tamper_entries
           b_hash b_entries b_rtr b_dh b_rtp b_rip f_hash f_entries f_rtr f_dh f_rtp f_rip].
      cbv zeta in R |- *. rewrite !andb_true_iff in R |- *.
      pose proof (hdr_ok_swap x (b_hash b) (b_rtr b) (b_dh b) Lx). tauto.
    - intros f R. unfold BlockDataModel.recv_filtered in R |- *.
      cbn [BlockDataModel.tamper_f BlockDataModel.tamper_entries BlockDataModel.tamper_ids
           f_hash f_entries f_rtr f_dh f_rtp f_rip f_all].
      cbv zeta in R |- *. rewrite !andb_true_iff in R |- *.
      pose proof (hdr_ok_swap x (f_hash f) (f_rtr f) (f_dh f) Lx). tauto.
    - intros m bl R Au m' bs'. subst m' bs'.
      cbn [BlockDataModel.tamper_cel BlockDataModel.f_as_cel BlockDataModel.tamper_f
           BlockDataModel.cel_as_f BlockDataModel.tamper_entries BlockDataModel.tamper_ids
           fst snd map f_hash f_entries f_rtr f_dh f_rtp f_rip f_all e_id e_txs e_proof].
      split.
      + unfold BlockDataModel.recv_meta in R |- *.
        cbn [m_hash m_rtr m_dh m_ids m_rtp m_rip].
        rewrite !andb_true_iff in R |- *.
        pose proof (hdr_ok_swap x (m_hash m) (m_rtr m) (m_dh m) Lx). tauto.
      + unfold BlockDataModel.reconstruct.
        cbn [BlockDataModel.recon_blobs BlockDataModel.take_header m_hash bl_hash bl_id].
        rewrite (proj2 (Hb (bl_id bl) (bl_id bl)) eq_refl). cbn [negb].
        rewrite (proj2 (Hb x x) eq_refl).
        unfold BlockDataModel.audit_blob in Au |- *.
        cbn [m_rtr bl_id bl_txs bl_proof]. rewrite Au. reflexivity.
  Qed.

  Lemma forallb_remove_nth {A} (p : A -> bool) k l :
    forallb p l = true -> forallb p (remove_nth k l) = true.
  Proof.
    rewrite !forallb_forall. intros H x Hx. apply H. eapply in_remove_nth. exact Hx.
  Qed.

  Lemma map_remove_nth {A C} (g : A -> C) : forall k l,
    map g (remove_nth k l) = remove_nth k (map g l).
  Proof.
    induction k as [|k IH]; intros [|a l]; cbn [remove_nth map]; try reflexivity.
    rewrite IH. reflexivity.
  Qed.

  Lemma NoDup_remove_nth {A} : forall k (l : list A), NoDup l -> NoDup (remove_nth k l).
  Proof.
    induction k as [|k IH]; intros [|a l] H; cbn [remove_nth]; try exact H.
    - inversion H. assumption.
    - inversion H as [|? ? Hn Hd]. subst. constructor.
      + intros Hi. apply Hn. eapply in_remove_nth. exact Hi.
      + apply IH. exact Hd.
  Qed.

  Lemma filtered_omission : stmt_filtered_omission B beq blen cat sha leafH nodeH emptyH.
  Proof.
    intros Hb f j R U. split; [|reflexivity].
    assert (U' : unique_ids (remove_nth j (f_entries f))).
    { unfold BlockDataSpec.unique_ids in U |- *. rewrite map_remove_nth.
      apply NoDup_remove_nth. exact U. }
    unfold BlockDataModel.recv_filtered in R |- *.
    cbn [BlockDataModel.tamper_f BlockDataModel.tamper_entries BlockDataModel.tamper_ids
         f_hash f_entries f_rtr f_dh f_rtp f_rip f_all].
    cbv zeta in R |- *. rewrite (collect_unique Hb _ U) in R. rewrite (collect_unique Hb _ U').
    rewrite !andb_true_iff in R |- *.
    pose proof (forallb_remove_nth entry_wf j (f_entries f)).
    pose proof (forallb_remove_nth (entry_verifies (f_rtr f)) j (f_entries f)).
    tauto.
  Qed.
End TamperC.

(** * part D: the named tamperings of a filtered block are rejected *)
Section TamperD.
  Variable B : Type.
  Variable beq : B -> B -> bool.
  Variable blen : B -> N.
  Variable cat : B -> B -> B.
  Variable sha leafH : B -> B.
  Variable nodeH : B -> B -> B.
  Variable emptyH : B.

  Local Notation Coll := (Coll B sha leafH nodeH emptyH).
  Local Notation BeqSpec := (BeqSpec B beq).
  Local Notation CatInj := (CatInj B blen cat).
  Local Notation collect := (collect B beq).
  Local Notation keyed := (keyed B).
  Local Notation im_insert := (im_insert B beq).
  Local Notation entry_data := (entry_data B).
  Local Notation entry_wf := (entry_wf B blen).
  Local Notation entry_verifies := (entry_verifies B beq cat leafH nodeH emptyH).
  Local Notation recv_filtered := (recv_filtered B beq blen cat sha leafH nodeH emptyH).
  Local Notation tamper_f := (tamper_f B).
  Local Notation tamper_entries := (tamper_entries B).
  Local Notation unique_ids := (unique_ids B).
  Local Notation set_txs := (set_txs B).
  Local Notation set_id := (set_id B).
  Local Notation set_proof := (set_proof B).

  Local Notation collect_unique := (collect_unique B beq).
  Local Notation collect_in := (collect_in B beq).
  Local Notation entry_binding := (entry_binding B beq blen cat sha leafH nodeH emptyH).
  Local Notation filtered_tamper := (filtered_tamper B beq blen cat sha leafH nodeH emptyH).
  Local Notation recv_filtered_inv := (recv_filtered_inv B beq blen cat sha leafH nodeH emptyH).
  Local Notation entry_wf_len := (entry_wf_len B blen).

  (** ** list positions *)
  Lemma nth_error_upd_same {A} (F : A -> A) : forall j l x,
    nth_error l j = Some x -> nth_error (upd_nth j F l) j = Some (F x).
  Proof.
    induction j as [|j IH]; intros [|a l] x H; cbn [nth_error upd_nth] in *; try discriminate H.
    - injection H as H. rewrite H. reflexivity.
    - apply IH. exact H.
  Qed.

  Lemma nth_error_upd_other {A} (F : A -> A) : forall j2 j l,
    j2 <> j -> nth_error (upd_nth j2 F l) j = nth_error l j.
  Proof.
    induction j2 as [|j2 IH]; intros [|j] [|a l] H; cbn [nth_error upd_nth]; try reflexivity.
    - contradiction H. reflexivity.
    - apply IH. intros E. apply H. rewrite E. reflexivity.
  Qed.

  Lemma map_upd_nth_id {A C} (g : A -> C) (F : A -> A) : (forall x, g (F x) = g x) ->
    forall k l, map g (upd_nth k F l) = map g l.
  Proof.
    intros HF. induction k as [|k IH]; intros [|a l]; cbn [upd_nth map]; try reflexivity.
    - rewrite HF. reflexivity.
    - rewrite IH. reflexivity.
  Qed.

  Lemma upd_nth_split {A} (F : A -> A) : forall j l x,
    nth_error l j = Some x -> upd_nth j F l = firstn j l ++ F x :: skipn (S j) l.
  Proof.
    induction j as [|j IH]; intros [|a l] x H; cbn [nth_error] in H; try discriminate H.
    - injection H as H. rewrite H. reflexivity.
    - cbn [upd_nth firstn app]. rewrite (IH _ _ H). reflexivity.
  Qed.

  Lemma swap_adj_nth {A} : forall k (l : list A) y z,
    nth_error l k = Some y -> nth_error l (S k) = Some z -> nth_error (swap_adj k l) k = Some z.
  Proof.
    induction k as [|k IH]; intros [|a [|b r]] y z H1 H2; cbn [nth_error] in H1, H2;
      try discriminate H1; try discriminate H2.
    - cbn [swap_adj nth_error]. exact H2.
    - cbn [swap_adj nth_error]. eapply IH; [exact H1|exact H2].
  Qed.

  Lemma length_remove_nth {A} : forall k (l : list A),
    (k < length l)%nat -> S (length (remove_nth k l)) = length l.
  Proof.
    induction k as [|k IH]; intros [|a l] H; cbn [length remove_nth] in *; try lia.
    rewrite IH; lia.
  Qed.

  Lemma length_dup_nth {A} : forall k (l : list A),
    (k < length l)%nat -> length (dup_nth k l) = S (length l).
  Proof.
    induction k as [|k IH]; intros [|a l] H; cbn [length dup_nth] in *; try lia.
    rewrite IH; lia.
  Qed.

  (** ** unique ids *)
  Lemma unique_in_eq es : unique_ids es -> forall a b,
    In a es -> In b es -> e_id a = e_id b -> a = b.
  Proof.
    unfold BlockDataSpec.unique_ids.
    induction es as [|x es IH]; intros U a b Ha Hb E; [contradiction Ha|].
    cbn [map] in U. inversion U as [|? ? Hn Hd]. subst.
    destruct Ha as [Ha|Ha]; destruct Hb as [Hb|Hb].
    - rewrite <- Ha, <- Hb. reflexivity.
    - exfalso. apply Hn. rewrite Ha, E. apply in_map. exact Hb.
    - exfalso. apply Hn. rewrite Hb, <- E. apply in_map. exact Ha.
    - apply IH; assumption.
  Qed.

  Lemma unique_nth es : unique_ids es -> forall j j2 e e2,
    nth_error es j = Some e -> nth_error es j2 = Some e2 -> e_id e = e_id e2 -> j = j2.
  Proof.
    unfold BlockDataSpec.unique_ids. intros U j j2 e e2 N N2 E.
    rewrite NoDup_nth_error in U. apply U.
    - rewrite map_length. apply nth_error_Some. rewrite N. discriminate.
    - rewrite (map_nth_error e_id _ _ N), (map_nth_error e_id _ _ N2), E. reflexivity.
  Qed.

  (** ** an entry with no later entry of the same id survives [collect] *)
  Lemma im_insert_in (Hb : BeqSpec) {V} (m : list (B * V)) k v : In (k, v) (im_insert m k v).
  Proof.
    induction m as [|[k' v'] m IH]; cbn [BlockDataModel.im_insert].
    - left. reflexivity.
    - destruct (beq k' k) eqn:E.
      + apply Hb in E. rewrite E. left. reflexivity.
      + right. exact IH.
  Qed.

  Lemma im_insert_keep (Hb : BeqSpec) {V} (m : list (B * V)) k v k2 v2 :
    k2 <> k -> In (k, v) m -> In (k, v) (im_insert m k2 v2).
  Proof.
    intros Hne. induction m as [|[k' v'] m IH]; intros H; [contradiction H|].
    cbn [BlockDataModel.im_insert]. destruct H as [H|H].
    - injection H as H1 H2. subst k' v'.
      destruct (beq k k2) eqn:E.
      + apply Hb in E. exfalso. apply Hne. symmetry. exact E.
      + left. reflexivity.
    - destruct (beq k' k2); right; [exact H|apply IH; exact H].
  Qed.

  Lemma im_fold_keep (Hb : BeqSpec) {V} k (v : V) : forall (l acc : list (B * V)),
    (forall kv, In kv l -> fst kv <> k) -> In (k, v) acc ->
    In (k, v) (fold_left (fun m kv => im_insert m (fst kv) (snd kv)) l acc).
  Proof.
    induction l as [|[k2 v2] l IH]; intros acc Hl H; cbn [fold_left]; [exact H|].
    apply IH.
    - intros kv Hk. apply Hl. right. exact Hk.
    - cbn [fst snd]. apply im_insert_keep; [exact Hb| |exact H].
      apply (Hl (k2, v2)). left. reflexivity.
  Qed.

  Lemma collect_last (Hb : BeqSpec) l1 e' l2 :
    ~ In (e_id e') (map e_id l2) -> In e' (collect (l1 ++ e' :: l2)).
  Proof.
    intros Hn. unfold BlockDataModel.collect, BlockDataModel.im_collect, BlockDataModel.keyed.
    rewrite map_app. cbn [map]. rewrite fold_left_app. cbn [fold_left fst snd].
    apply (in_map snd _ (e_id e', e')).
    apply im_fold_keep; [exact Hb| |apply im_insert_in; exact Hb].
    intros kv Hk. apply in_map_iff in Hk. destruct Hk as [e2 [E2 H2]]. rewrite <- E2.
    cbn [fst]. intros E. apply Hn. rewrite <- E. apply in_map. exact H2.
  Qed.

  (** ** the core of the data tamperings: an accepted entry with the id of entry [j] but another
      list *)
  Lemma named_core (Hb : BeqSpec) (Hc : CatInj) f t j e e' :
    recv_filtered f = true -> unique_ids (f_entries f) -> nth_error (f_entries f) j = Some e ->
    In e' (collect (f_entries (tamper_f t f))) ->
    e_id e' = e_id e -> e_txs e' <> e_txs e ->
    recv_filtered (tamper_f t f) = false \/ Coll.
  Proof.
    intros R U N HI Ei Et.
    destruct (recv_filtered (tamper_f t f)) eqn:R'; [right|left; reflexivity].
    destruct (filtered_tamper Hb Hc f t R U R') as [[P _]|C]; [|exact C].
    exfalso. specialize (P e' HI). apply in_map_iff in P. destruct P as [e0 [E0 H0]].
    injection E0 as E1 E2.
    assert (e0 = e).
    { apply (unique_in_eq _ U); [exact H0|eapply nth_error_In; exact N|].
      rewrite E1. exact Ei. }
    subst e0. apply Et. symmetry. exact E2.
  Qed.

  Lemma named_txs (Hb : BeqSpec) (Hc : CatInj) f t j e (G : entry B -> list B) :
    recv_filtered f = true -> unique_ids (f_entries f) -> nth_error (f_entries f) j = Some e ->
    tamper_entries t (f_entries f) = upd_nth j (fun e0 => set_txs e0 (G e0)) (f_entries f) ->
    G e <> e_txs e ->
    recv_filtered (tamper_f t f) = false \/ Coll.
  Proof.
    intros R U N Et Hne.
    apply (named_core Hb Hc f t j e (set_txs e (G e)) R U N); [|reflexivity|exact Hne].
    change (f_entries (tamper_f t f)) with (tamper_entries t (f_entries f)). rewrite Et.
    rewrite collect_unique; [|exact Hb|].
    - apply (nth_error_In _ j).
      exact (nth_error_upd_same (fun e0 => set_txs e0 (G e0)) _ _ _ N).
    - unfold BlockDataSpec.unique_ids. rewrite map_upd_nth_id; [exact U|]. intros x. reflexivity.
  Qed.

  Lemma filtered_named : stmt_filtered_named B beq blen cat sha leafH nodeH emptyH.
  Proof.
    intros Hb Hc f j e R U N.
    pose proof R as Rinv. apply recv_filtered_inv in Rinv. destruct Rinv as (W & _ & V).
    rewrite (collect_unique Hb _ U) in V. rewrite forallb_forall in V, W.
    pose proof (nth_error_In _ _ N) as He.
    repeat apply conj.
    - (* altered *) intros k x y Hk Hxy.
      apply (named_txs Hb Hc f _ j e (fun e0 => upd_nth k (fun _ => x) (e_txs e0)) R U N);
        [reflexivity|].
      intros E. apply Hxy. pose proof (nth_error_upd_same (fun _ => x) _ _ _ Hk) as H1.
      rewrite E, Hk in H1. injection H1 as H1. symmetry. exact H1.
    - (* reordered *) intros k y z Hy Hz Hyz.
      apply (named_txs Hb Hc f _ j e (fun e0 => swap_adj k (e_txs e0)) R U N); [reflexivity|].
      intros E. apply Hyz. pose proof (swap_adj_nth _ _ _ _ Hy Hz) as H1.
      rewrite E, Hy in H1. injection H1 as H1. exact H1.
    - (* truncated *) intros k Hk.
      apply (named_txs Hb Hc f _ j e (fun e0 => remove_nth k (e_txs e0)) R U N); [reflexivity|].
      intros E. pose proof (length_remove_nth _ _ Hk) as H1. rewrite E in H1. lia.
    - (* extended: repeated element *) intros k Hk.
      apply (named_txs Hb Hc f _ j e (fun e0 => dup_nth k (e_txs e0)) R U N); [reflexivity|].
      intros E. pose proof (length_dup_nth _ _ Hk) as H1. rewrite E in H1. lia.
    - (* extended: appended element *) intros x.
      apply (named_txs Hb Hc f _ j e (fun e0 => e_txs e0 ++ [x]) R U N); [reflexivity|].
      intros E. pose proof (app_length (e_txs e) [x]) as H1. rewrite E in H1. cbn [length] in H1. lia.
    - (* attributed to another rollup *) intros id Hne Hnot.
      destruct (recv_filtered (tamper_f (TReid j id) f)) eqn:R'; [right|left; reflexivity].
      apply recv_filtered_inv in R'. destruct R' as (W' & _ & V').
      rewrite forallb_forall in V', W'.
      assert (HI : In (set_id e id) (collect (f_entries (tamper_f (TReid j id) f)))).
      { change (f_entries (tamper_f (TReid j id) f))
          with (upd_nth j (fun e0 => set_id e0 id) (f_entries f)).
        rewrite (upd_nth_split _ _ _ _ N). apply collect_last; [exact Hb|exact Hnot]. }
      pose proof (V' _ HI) as Ve'. pose proof (V _ He) as Ve.
      pose proof (entry_wf_len _ (W' _ (collect_in _ _ HI))) as L'.
      pose proof (entry_wf_len _ (W _ He)) as L.
      destruct (entry_binding Hb Hc (e_proof e) (f_rtr f) id (e_txs e) (e_id e) (e_txs e)
                  L' L Ve' Ve) as [[E _]|C]; [|exact C].
      exfalso. apply Hne. exact E.
    - (* carrying another rollup's proof *) intros j2 e2 N2 Hj.
      destruct (recv_filtered (tamper_f (TSwapProof j j2) f)) eqn:R'; [right|left; reflexivity].
      apply recv_filtered_inv in R'. destruct R' as (_ & _ & V').
      rewrite forallb_forall in V'.
      assert (Ees : f_entries (tamper_f (TSwapProof j j2) f)
                    = upd_nth j2 (fun e0 => set_proof e0 (e_proof e))
                        (upd_nth j (fun e0 => set_proof e0 (e_proof e2)) (f_entries f))).
      { cbn [BlockDataModel.tamper_f BlockDataModel.tamper_entries f_entries].
        rewrite N, N2. reflexivity. }
      assert (HI : In (set_proof e (e_proof e2)) (collect (f_entries (tamper_f (TSwapProof j j2) f)))).
      { rewrite Ees. rewrite collect_unique; [|exact Hb|].
        - apply (nth_error_In _ j). rewrite nth_error_upd_other by exact Hj.
          exact (nth_error_upd_same (fun e0 => set_proof e0 (e_proof e2)) _ _ _ N).
        - unfold BlockDataSpec.unique_ids.
          rewrite map_upd_nth_id; [|intros x; reflexivity].
          rewrite map_upd_nth_id; [exact U|intros x; reflexivity]. }
      pose proof (V' _ HI) as Ve'.
      pose proof (nth_error_In _ _ N2) as He2. pose proof (V _ He2) as Ve2.
      pose proof (entry_wf_len _ (W _ He)) as L. pose proof (entry_wf_len _ (W _ He2)) as L2.
      destruct (entry_binding Hb Hc (e_proof e2) (f_rtr f) (e_id e) (e_txs e) (e_id e2) (e_txs e2)
                  L L2 Ve' Ve2) as [[E _]|C]; [|exact C].
      exfalso. apply Hj. symmetry. exact (unique_nth _ U _ _ _ _ N N2 E).
  Qed.
End TamperD.

Print Assumptions entry_binding.
Print Assumptions full_tamper.
Print Assumptions filtered_tamper.
Print Assumptions celestia_tamper.
Print Assumptions filtered_named.
Print Assumptions block_hash_unbound.
Print Assumptions filtered_omission.
Print Assumptions conductor_before_F16_fix_ignored_blob_id.
Print Assumptions conductor_skips_foreign.
