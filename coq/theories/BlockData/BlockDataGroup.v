(** C07 -- the grouping of rollup data by rollup id: association-list facts ([im_get], [im_extend],
    [sort_keys], [im_collect]) and the proofs of [stmt_group_exact], [stmt_ids_with_data],
    [stmt_group_dep_order]. *)
From Astria Require Import BlockData.BlockDataModel BlockData.BlockDataSpec.

Section Group.
  Variable B : Type.
  Variable beq : B -> B -> bool.

  Local Notation im_get := (im_get B beq).
  Local Notation im_extend := (im_extend B beq).
  Local Notation im_insert := (im_insert B beq).
  Local Notation im_collect := (im_collect B beq).
  Local Notation mem := (mem B beq).

  Hypothesis Hbeq : BeqSpec B beq.

  (** * the equality test *)
  Lemma bq_true a b : beq a b = true -> a = b.
  Proof. apply Hbeq. Qed.
  Lemma bq_refl a : beq a a = true.
  Proof. apply Hbeq. reflexivity. Qed.
  Lemma bq_false a b : beq a b = false -> a <> b.
  Proof. intros E H. subst. rewrite bq_refl in E. discriminate. Qed.
  Lemma bq_neq a b : a <> b -> beq a b = false.
  Proof. intros H. destruct (beq a b) eqn:E; [|reflexivity]. apply bq_true in E. contradiction. Qed.
  Lemma bq_sym a b : beq a b = beq b a.
  Proof.
    destruct (beq a b) eqn:E.
    - apply bq_true in E. subst. symmetry. apply bq_refl.
    - symmetry. apply bq_neq. intros H. subst. rewrite bq_refl in E. discriminate.
  Qed.

  (** * membership *)
  Lemma mem_cons r x l : mem r (x :: l) = beq r x || mem r l.
  Proof. reflexivity. Qed.
  Lemma mem_In r l : mem r l = true <-> In r l.
  Proof.
    unfold BlockDataModel.mem. rewrite existsb_exists. split.
    - intros [x [H1 H2]]. apply bq_true in H2. subst. exact H1.
    - intros H. exists r. split; [exact H|apply bq_refl].
  Qed.
  Lemma mem_false r l : mem r l = false <-> ~ In r l.
  Proof. rewrite <- mem_In. destruct (mem r l); split; congruence. Qed.
  Lemma mem_perm r l l' : Permutation l l' -> mem r l = mem r l'.
  Proof.
    intros P. destruct (mem r l') eqn:M.
    - apply mem_In. apply mem_In in M. eapply Permutation_in; [apply Permutation_sym; exact P|exact M].
    - apply mem_false. apply mem_false in M. intros H. apply M. eapply Permutation_in; [exact P|exact H].
  Qed.

  (** * lookups *)
  Section Get.
    Variable V : Type.
    Implicit Types m : list (B * V).

    Lemma im_get_In m r v : im_get m r = Some v -> In (r, v) m.
    Proof.
      induction m as [|[k x] m IH]; cbn; [discriminate|].
      destruct (beq k r) eqn:E; intros H.
      - apply bq_true in E. left. congruence.
      - right. auto.
    Qed.
    Lemma im_get_keys m r v : im_get m r = Some v -> In r (map fst m).
    Proof. intros H. apply im_get_In in H. apply (in_map fst) in H. exact H. Qed.
    Lemma im_get_notin m r : ~ In r (map fst m) -> im_get m r = None.
    Proof.
      induction m as [|[k x] m IH]; cbn; [reflexivity|]. intros H.
      rewrite bq_neq by tauto. apply IH. tauto.
    Qed.
    Lemma im_get_in_keys m r : In r (map fst m) -> exists v, im_get m r = Some v.
    Proof.
      induction m as [|[k x] m IH]; cbn; [tauto|]. intros [H|H].
      - subst. rewrite bq_refl. eauto.
      - destruct (beq k r); eauto.
    Qed.
    Lemma In_im_get m r v : NoDup (map fst m) -> In (r, v) m -> im_get m r = Some v.
    Proof.
      induction m as [|[k x] m IH]; cbn; [tauto|]. intros ND [H|H].
      - inversion H; subst. rewrite bq_refl. reflexivity.
      - apply NoDup_cons_iff in ND. destruct ND as [Hn ND]. rewrite bq_neq; [auto|].
        intros ->. apply Hn. apply (in_map fst) in H. exact H.
    Qed.

    (** [IndexMap::insert] / collect *)
    Lemma im_insert_notin m k v : ~ In k (map fst m) -> im_insert m k v = m ++ [(k, v)].
    Proof.
      induction m as [|[k' v'] m IH]; cbn; intros H; [reflexivity|].
      rewrite bq_neq by tauto. f_equal. apply IH. tauto.
    Qed.
    Lemma im_collect_acc l : forall acc : list (B * V), NoDup (map fst (acc ++ l)) ->
      fold_left (fun m kv => im_insert m (fst kv) (snd kv)) l acc = acc ++ l.
    Proof.
      induction l as [|[k v] l IH]; intros acc ND; cbn.
      - rewrite app_nil_r. reflexivity.
      - rewrite im_insert_notin.
        + rewrite IH; rewrite <- app_assoc; [reflexivity|exact ND].
        + rewrite map_app in ND. cbn in ND. apply NoDup_remove_2 in ND.
          intros H. apply ND. apply in_or_app. left. exact H.
    Qed.
    Lemma im_collect_nodup_id (l : list (B * V)) : NoDup (map fst l) -> im_collect l = l.
    Proof. intros ND. unfold BlockDataModel.im_collect. rewrite im_collect_acc; [reflexivity|exact ND]. Qed.
  End Get.

  (** * [entry(k).or_default().extend(xs)] *)
  Definition getd (m : list (B * list B)) (r : B) : list B :=
    match im_get m r with Some l => l | None => [] end.

  Lemma im_get_extend m k xs r :
    im_get (im_extend m k xs) r = if beq k r then Some (getd m r ++ xs) else im_get m r.
  Proof.
    unfold getd. induction m as [|[k' v] m IH]; cbn.
    - destruct (beq k r); reflexivity.
    - destruct (beq k' k) eqn:E1.
      + apply bq_true in E1. subst k'. cbn. destruct (beq k r); reflexivity.
      + cbn. rewrite IH. destruct (beq k r) eqn:E2.
        * apply bq_true in E2. subst r. rewrite E1. reflexivity.
        * destruct (beq k' r); reflexivity.
  Qed.

  Lemma extend_keys_In m k xs r : In r (map fst (im_extend m k xs)) <-> In r (map fst m) \/ r = k.
  Proof.
    induction m as [|[k' v] m IH]; cbn.
    - intuition.
    - destruct (beq k' k) eqn:E; cbn.
      + apply bq_true in E; subst. intuition.
      + rewrite IH. intuition.
  Qed.

  Lemma extend_nodup m k xs : NoDup (map fst m) -> NoDup (map fst (im_extend m k xs)).
  Proof.
    induction m as [|[k' v] m IH]; cbn; intros ND.
    - constructor; [intros []|constructor].
    - apply NoDup_cons_iff in ND. destruct ND as [Hn ND]. destruct (beq k' k) eqn:E; cbn.
      + constructor; assumption.
      + constructor; [|auto]. rewrite extend_keys_In. intros [H|H]; [tauto|].
        subst. rewrite bq_refl in E. discriminate.
  Qed.

  (** * a loop of [extend]s *)
  Section Fold.
    Variable X : Type.
    Variable key : X -> B.
    Variable val : X -> list B.
    Local Notation gfold m l := (fold_left (fun m0 d => im_extend m0 (key d) (val d)) l m).
    Definition gcol (r : B) (l : list X) : list B :=
      flat_map (fun d => if beq (key d) r then val d else []) l.

    Lemma gcol_cons r d l : gcol r (d :: l) = (if beq (key d) r then val d else []) ++ gcol r l.
    Proof. reflexivity. Qed.

    Lemma gcol_nomem r l : mem r (map key l) = false -> gcol r l = [].
    Proof.
      induction l as [|d l IH]; [reflexivity|]. cbn [map]. rewrite mem_cons, gcol_cons.
      intros H. apply orb_false_elim in H. destruct H as [H1 H2].
      rewrite bq_sym in H1. rewrite H1. cbn. auto.
    Qed.

    Lemma gcol_nil_inv r l : gcol r l = [] -> forall d, In d l -> beq (key d) r = true -> val d = [].
    Proof.
      induction l as [|a l IH]; [intros _ d []|]. rewrite gcol_cons. intros E d [H|H] Hb.
      - subst a. rewrite Hb in E. apply app_eq_nil in E. tauto.
      - apply app_eq_nil in E. destruct E as [_ E]. eauto.
    Qed.

    Lemma gfold_get l : forall m r,
      im_get (gfold m l) r = if mem r (map key l) then Some (getd m r ++ gcol r l) else im_get m r.
    Proof.
      induction l as [|d l IH]; intros m r.
      - reflexivity.
      - cbn [fold_left map]. rewrite IH, mem_cons, gcol_cons. unfold getd at 1.
        rewrite im_get_extend. rewrite (bq_sym r (key d)).
        destruct (beq (key d) r) eqn:E; destruct (mem r (map key l)) eqn:M.
        + cbn. rewrite <- app_assoc. reflexivity.
        + rewrite (gcol_nomem _ _ M). cbn. rewrite app_nil_r. reflexivity.
        + reflexivity.
        + reflexivity.
    Qed.

    Lemma gfold_keys_In l : forall m r,
      In r (map fst (gfold m l)) <-> In r (map fst m) \/ In r (map key l).
    Proof.
      induction l as [|d l IH]; intros m r; cbn [fold_left map].
      - cbn. tauto.
      - rewrite IH, extend_keys_In. cbn [In]. intuition congruence.
    Qed.

    Lemma gfold_nodup l : forall m, NoDup (map fst m) -> NoDup (map fst (gfold m l)).
    Proof.
      induction l as [|d l IH]; intros m ND; cbn [fold_left]; [exact ND|].
      apply IH. apply extend_nodup. exact ND.
    Qed.
  End Fold.

  (** * sorting by key *)
  Variable ltb : B -> B -> bool.
  Local Notation ins_key := (ins_key B ltb).
  Local Notation sort_keys := (sort_keys B ltb).
  Local Notation sorted_ids := (sorted_ids B ltb).
  Hypothesis Hltb : LtbSpec B ltb.

  Lemma lt_irr a : ltb a a = false.
  Proof. apply Hltb. Qed.
  Lemma lt_trans a b c : ltb a b = true -> ltb b c = true -> ltb a c = true.
  Proof. destruct Hltb as (_ & H & _). apply H. Qed.
  Lemma lt_total a b : a <> b -> ltb a b = false -> ltb b a = true.
  Proof.
    destruct Hltb as (_ & _ & H). intros Hn H1. destruct (ltb b a) eqn:E; [reflexivity|].
    exfalso. apply Hn. apply H; assumption.
  Qed.

  Lemma sorted_ids_nodup l : sorted_ids l -> NoDup l.
  Proof.
    unfold BlockDataSpec.sorted_ids. induction 1 as [|a l S IH F]; constructor; [|exact IH].
    intros H. rewrite Forall_forall in F. specialize (F a H). rewrite lt_irr in F. discriminate.
  Qed.

  Section Sort.
    Variable V : Type.
    Implicit Types m : list (B * V).

    Lemma sort_keys_cons kv m : sort_keys (kv :: m) = ins_key kv (sort_keys m).
    Proof. reflexivity. Qed.

    Lemma ins_key_perm kv m : Permutation (kv :: m) (ins_key kv m).
    Proof.
      induction m as [|kv' m IH]; cbn; [apply Permutation_refl|].
      destruct (ltb (fst kv') (fst kv)); [|apply Permutation_refl].
      eapply perm_trans; [apply perm_swap|]. apply perm_skip. exact IH.
    Qed.
    Lemma sort_keys_perm m : Permutation m (sort_keys m).
    Proof.
      induction m as [|kv m IH]; [constructor|]. rewrite sort_keys_cons.
      eapply perm_trans; [|apply ins_key_perm]. apply perm_skip; exact IH.
    Qed.

    Lemma ins_key_get kv m r :
      im_get (ins_key kv m) r = if beq (fst kv) r then Some (snd kv) else im_get m r.
    Proof.
      destruct kv as [k v]. cbn [fst snd]. induction m as [|[k' v'] m IH].
      - reflexivity.
      - cbn. destruct (ltb k' k) eqn:L.
        + cbn. rewrite IH. destruct (beq k' r) eqn:E1; [|reflexivity].
          destruct (beq k r) eqn:E2; [|reflexivity]. apply bq_true in E1, E2. subst.
          rewrite lt_irr in L. discriminate.
        + reflexivity.
    Qed.
    Lemma sort_keys_get m r : im_get (sort_keys m) r = im_get m r.
    Proof.
      induction m as [|[k v] m IH]; [reflexivity|].
      rewrite sort_keys_cons, ins_key_get, IH. reflexivity.
    Qed.

    Lemma ins_key_sorted kv m : sorted_ids (map fst m) -> ~ In (fst kv) (map fst m) ->
      sorted_ids (map fst (ins_key kv m)).
    Proof.
      unfold BlockDataSpec.sorted_ids. induction m as [|kv' m IH]; cbn; intros S Hn.
      - constructor; constructor.
      - apply StronglySorted_inv in S. destruct S as [S F].
        destruct (ltb (fst kv') (fst kv)) eqn:L; cbn.
        + constructor.
          * apply IH; tauto.
          * rewrite Forall_forall in F |- *. intros x Hx.
            apply (Permutation_in (l' := fst kv :: map fst m)) in Hx;
              [|apply Permutation_sym; apply (Permutation_map fst (ins_key_perm kv m))].
            destruct Hx as [<-|Hx]; [exact L|apply F; exact Hx].
        + assert (Lt : ltb (fst kv) (fst kv') = true).
          { apply lt_total; [intros E; apply Hn; left; exact E|exact L]. }
          constructor.
          * constructor; assumption.
          * constructor; [exact Lt|]. rewrite Forall_forall in F |- *. intros x Hx.
            eapply lt_trans; [exact Lt|apply F; exact Hx].
    Qed.
    Lemma sort_keys_sorted m : NoDup (map fst m) -> sorted_ids (map fst (sort_keys m)).
    Proof.
      induction m as [|kv m IH]; intros ND.
      - constructor.
      - cbn [map] in ND. apply NoDup_cons_iff in ND. destruct ND as [Hn ND].
        rewrite sort_keys_cons. apply ins_key_sorted; [auto|].
        intros H. apply Hn. eapply Permutation_in; [|exact H].
        apply Permutation_sym, Permutation_map, sort_keys_perm.
    Qed.
    Lemma sort_keys_nodup m : NoDup (map fst m) -> NoDup (map fst (sort_keys m)).
    Proof. intros ND. apply sorted_ids_nodup, sort_keys_sorted, ND. Qed.

    (** two maps with strictly ascending keys and the same lookups are equal *)
    Lemma sorted_ext m1 m2 : sorted_ids (map fst m1) -> sorted_ids (map fst m2) ->
      (forall r, im_get m1 r = im_get m2 r) -> m1 = m2.
    Proof.
      unfold BlockDataSpec.sorted_ids. revert m2.
      induction m1 as [|[k1 v1] m1 IH]; intros [|[k2 v2] m2] S1 S2 H.
      - reflexivity.
      - specialize (H k2). cbn in H. rewrite bq_refl in H. discriminate.
      - specialize (H k1). cbn in H. rewrite bq_refl in H. discriminate.
      - cbn [map fst] in S1, S2. apply StronglySorted_inv in S1, S2.
        destruct S1 as [S1 F1], S2 as [S2 F2]. rewrite Forall_forall in F1, F2.
        assert (K : k1 = k2).
        { destruct (beq k2 k1) eqn:E; [apply bq_true in E; auto|].
          destruct (beq k1 k2) eqn:E'; [apply bq_true in E'; auto|].
          exfalso.
          pose proof (H k1) as A. cbn in A. rewrite bq_refl, E in A. symmetry in A.
          apply im_get_keys in A. apply F2 in A.
          pose proof (H k2) as A2. cbn in A2. rewrite bq_refl, E' in A2.
          apply im_get_keys in A2. apply F1 in A2.
          pose proof (lt_trans _ _ _ A A2) as C. rewrite lt_irr in C. discriminate. }
        subst k2.
        assert (Vv : v1 = v2). { specialize (H k1). cbn in H. rewrite bq_refl in H. congruence. }
        subst v2. f_equal. apply IH; auto. intros r.
        destruct (beq k1 r) eqn:E.
        + apply bq_true in E. subst r.
          rewrite (im_get_notin _ m1 k1), (im_get_notin _ m2 k1); [reflexivity| |].
          * intros X. apply F2 in X. rewrite lt_irr in X. discriminate.
          * intros X. apply F1 in X. rewrite lt_irr in X. discriminate.
        + specialize (H r). cbn in H. rewrite E in H. exact H.
    Qed.

    (** sorting a strictly sorted map changes nothing *)
    Lemma sort_keys_sorted_id m : sorted_ids (map fst m) -> sort_keys m = m.
    Proof.
      intros S. apply sorted_ext; [apply sort_keys_sorted, sorted_ids_nodup, S|exact S|apply sort_keys_get].
    Qed.
  End Sort.

  (** * the grouping *)
  Variable Dp : Type.
  Variable encS : B -> B.
  Variable encD : Dp -> B.

  Local Notation push_subs := (push_subs B beq encS).
  Local Notation add_deposits := (add_deposits B beq Dp encD).
  Local Notation build_group := (build_group B beq ltb Dp encS encD).
  Local Notation commit_group := (commit_group B beq ltb Dp encS encD).
  Local Notation seq_of := (seq_of B beq encS).
  Local Notation dep_of := (dep_of B beq Dp encD).
  Local Notation expected := (expected B beq Dp encS encD).
  Local Notation touched := (touched B beq Dp).

  Lemma seq_of_gcol r subs : seq_of r subs = gcol (B * B) fst (fun s => [encS (snd s)]) r subs.
  Proof.
    unfold BlockDataSpec.seq_of. induction subs as [|s subs IH]; [reflexivity|].
    rewrite gcol_cons. cbn [filter]. destruct (beq (fst s) r); cbn; rewrite IH; reflexivity.
  Qed.
  Lemma seq_of_nomem r subs : mem r (map fst subs) = false -> seq_of r subs = [].
  Proof. rewrite seq_of_gcol. apply gcol_nomem. Qed.
  Lemma dep_of_nomem r deps : mem r (map fst deps) = false -> dep_of r deps = [].
  Proof. exact (gcol_nomem _ fst (fun d => map encD (snd d)) r deps). Qed.

  Lemma push_subs_get subs r :
    im_get (push_subs subs) r = if mem r (map fst subs) then Some (seq_of r subs) else None.
  Proof. rewrite seq_of_gcol. exact (gfold_get (B * B) fst (fun s => [encS (snd s)]) subs [] r). Qed.
  Lemma push_subs_nodup subs : NoDup (map fst (push_subs subs)).
  Proof. apply (gfold_nodup (B * B) fst (fun s => [encS (snd s)]) subs []). constructor. Qed.

  Lemma add_deposits_get m deps r :
    im_get (add_deposits m deps) r
    = if mem r (map fst deps) then Some (getd m r ++ dep_of r deps) else im_get m r.
  Proof. exact (gfold_get _ fst (fun d => map encD (snd d)) deps m r). Qed.
  Lemma add_deposits_nodup m deps : NoDup (map fst m) -> NoDup (map fst (add_deposits m deps)).
  Proof. exact (gfold_nodup _ fst (fun d => map encD (snd d)) deps m). Qed.

  Lemma raw_get m subs deps r : (forall r, im_get m r = im_get (push_subs subs) r) ->
    im_get (add_deposits m deps) r
    = if touched r subs deps then Some (expected r subs deps) else None.
  Proof.
    intros Hm. rewrite add_deposits_get. unfold getd. rewrite Hm, push_subs_get.
    unfold BlockDataSpec.touched, BlockDataSpec.expected.
    destruct (mem r (map fst subs)) eqn:M1; destruct (mem r (map fst deps)) eqn:M2; cbn [orb].
    - reflexivity.
    - rewrite (dep_of_nomem _ _ M2), app_nil_r. reflexivity.
    - rewrite (seq_of_nomem _ _ M1). reflexivity.
    - reflexivity.
  Qed.

  Lemma build_group_get subs deps r :
    im_get (build_group subs deps) r
    = if touched r subs deps then Some (expected r subs deps) else None.
  Proof.
    unfold BlockDataModel.build_group. rewrite sort_keys_get. apply raw_get. reflexivity.
  Qed.

  Lemma build_group_sorted subs deps : sorted_ids (map fst (build_group subs deps)).
  Proof. apply sort_keys_sorted, add_deposits_nodup, push_subs_nodup. Qed.

  Lemma build_group_nodup subs deps : NoDup (map fst (build_group subs deps)).
  Proof. apply sorted_ids_nodup, build_group_sorted. Qed.

  Lemma commit_group_eq subs deps : commit_group subs deps = build_group subs deps.
  Proof.
    apply sorted_ext.
    - apply sort_keys_sorted, add_deposits_nodup, sort_keys_nodup, push_subs_nodup.
    - apply build_group_sorted.
    - intros r. rewrite build_group_get. unfold BlockDataModel.commit_group.
      rewrite sort_keys_get. apply raw_get. intros r'. apply sort_keys_get.
  Qed.

  Lemma group_exact_sec subs deps :
    let m := build_group subs deps in
    sorted_ids (map fst m) /\
    (forall r, In r (map fst m) <-> touched r subs deps = true) /\
    (forall r, im_get m r = if touched r subs deps then Some (expected r subs deps) else None) /\
    commit_group subs deps = m.
  Proof.
    intros m. split; [apply build_group_sorted|]. split; [|split].
    - intros r. split.
      + intros H. apply im_get_in_keys in H. destruct H as [v H]. unfold m in H.
        rewrite build_group_get in H. destruct (touched r subs deps); [reflexivity|discriminate].
      + intros H. apply (im_get_keys _ m r (expected r subs deps)). unfold m.
        rewrite build_group_get, H. reflexivity.
    - apply build_group_get.
    - apply commit_group_eq.
  Qed.

  Lemma dep_of_perm r deps deps' : Permutation deps deps' -> NoDup (map fst deps) ->
    dep_of r deps = dep_of r deps'.
  Proof.
    induction 1 as [|x l l' P IH|x y l|l l' l'' P1 IH1 P2 IH2]; intros ND.
    - reflexivity.
    - cbn in ND |- *. apply NoDup_cons_iff in ND. f_equal. apply IH. tauto.
    - cbn in ND |- *. apply NoDup_cons_iff in ND. destruct ND as [Hn _].
      destruct (beq (fst y) r) eqn:E1; destruct (beq (fst x) r) eqn:E2; cbn; try reflexivity.
      + apply bq_true in E1, E2. exfalso. apply Hn. left. congruence.
    - rewrite IH1; [|exact ND]. apply IH2. eapply Permutation_NoDup; [|exact ND].
      apply Permutation_map. exact P1.
  Qed.

  Lemma group_dep_order_sec subs deps deps' :
    Permutation deps deps' -> NoDup (map fst deps) ->
    build_group subs deps = build_group subs deps'.
  Proof.
    intros P ND. apply sorted_ext; [apply build_group_sorted|apply build_group_sorted|].
    intros r. rewrite !build_group_get.
    unfold BlockDataSpec.touched, BlockDataSpec.expected.
    rewrite (mem_perm r _ _ (Permutation_map fst P)), (dep_of_perm r _ _ P ND). reflexivity.
  Qed.

  Lemma ids_with_data_sec subs deps : (forall d, In d deps -> snd d <> []) ->
    forall r, touched r subs deps = true <-> expected r subs deps <> [].
  Proof.
    intros Hd r. unfold BlockDataSpec.touched, BlockDataSpec.expected. split.
    - intros H E. apply app_eq_nil in E. destruct E as [E1 E2].
      apply orb_true_iff in H. destruct H as [H|H]; apply mem_In, in_map_iff in H;
        destruct H as [x [Hx Hin]].
      + rewrite seq_of_gcol in E1.
        pose proof (gcol_nil_inv _ _ _ _ _ E1 x Hin) as Z. rewrite Hx, bq_refl in Z.
        specialize (Z eq_refl). cbn in Z. discriminate.
      + pose proof (gcol_nil_inv _ fst (fun d => map encD (snd d)) r deps E2 x Hin) as Z.
        rewrite Hx, bq_refl in Z. specialize (Z eq_refl). cbn in Z. apply map_eq_nil in Z.
        exact (Hd x Hin Z).
    - intros H. destruct (mem r (map fst subs)) eqn:M1; [reflexivity|].
      destruct (mem r (map fst deps)) eqn:M2; [reflexivity|]. exfalso. apply H.
      rewrite (seq_of_nomem _ _ M1), (dep_of_nomem _ _ M2). reflexivity.
  Qed.
End Group.

(** * the pinned forms *)
Lemma group_exact B beq ltb Dp encS encD : stmt_group_exact B beq ltb Dp encS encD.
Proof. intros Hb Hl subs deps. apply group_exact_sec; assumption. Qed.

Lemma ids_with_data B beq Dp encS encD : stmt_ids_with_data B beq Dp encS encD.
Proof. intros Hb subs deps Hd. apply ids_with_data_sec; assumption. Qed.

Lemma group_dep_order B beq ltb Dp encS encD : stmt_group_dep_order B beq ltb Dp encS encD.
Proof. intros Hb Hl subs deps deps' P ND. apply group_dep_order_sec; assumption. Qed.

Check (group_exact : forall B beq ltb Dp encS encD, stmt_group_exact B beq ltb Dp encS encD).
Check (ids_with_data : forall B beq Dp encS encD, stmt_ids_with_data B beq Dp encS encD).
Check (group_dep_order : forall B beq ltb Dp encS encD, stmt_group_dep_order B beq ltb Dp encS encD).
Print Assumptions group_exact.
Print Assumptions ids_with_data.
Print Assumptions group_dep_order.
