(** C07 -- non-vacuity: a concrete instance (byte strings = lists of numbers, an injective toy
    "hash" with 32-element digests) on which the hypotheses of the theorems hold and the stated
    outcomes can be computed; the witnesses of the negative results (and of what finding F16 was);
    the observation about the upgrade change hashes item. *)
From Astria Require Import BlockData.BlockDataModel BlockData.BlockDataSpec.

Definition TB := list N.
Fixpoint t_beq (a b : TB) : bool :=
  match a, b with
  | [], [] => true
  | x :: a', y :: b' => (x =? y) && t_beq a' b'
  | _, _ => false
  end.
Fixpoint t_ltb (a b : TB) : bool :=
  match a, b with
  | [], _ :: _ => true
  | x :: a', y :: b' => (x <? y) || ((x =? y) && t_ltb a' b')
  | _, _ => false
  end.
Definition t_blen (a : TB) : N := N.of_nat (length a).
Definition t_cat (a b : TB) : TB := a ++ b.
(** an injective encoding of a list of small numbers into one number *)
Definition godel (x : TB) : N := fold_right (fun v acc => acc * 65536 + v + 1) 0 x.
Definition h32 (tag : N) (x : TB) : TB := tag :: godel x :: repeat 0 30.
Definition t_sha (x : TB) : TB := h32 3 x.
Definition t_leafH (x : TB) : TB := h32 0 x.
Definition t_nodeH (a b : TB) : TB := h32 1 (a ++ b).
Definition t_emptyH : TB := h32 2 [].
Definition t_zero : TB := repeat 0 32.
Definition t_encS (x : TB) : TB := 10 :: N.of_nat (length x) :: x.
Definition t_encD (x : TB) : TB := 18 :: x.

Definition rid (k : N) : TB := repeat k 32.

Notation t_finalize := (finalize TB t_beq t_ltb t_cat t_sha t_leafH t_nodeH t_emptyH t_zero TB t_encS t_encD).
Notation t_recv_full := (recv_full TB t_beq t_blen t_cat t_sha t_leafH t_nodeH t_emptyH).
Notation t_recv_filtered := (recv_filtered TB t_beq t_blen t_cat t_sha t_leafH t_nodeH t_emptyH).
Notation t_recv_meta := (recv_meta TB t_beq t_blen t_sha t_leafH t_nodeH t_emptyH).
Notation t_audit := (audit_blob TB t_beq t_cat t_leafH t_nodeH t_emptyH).
Notation t_reconstruct := (reconstruct TB t_beq t_cat t_leafH t_nodeH t_emptyH).
Notation t_reconstruct_before_fix := (reconstruct_before_F16_fix TB t_beq t_cat t_leafH t_nodeH t_emptyH).
Notation t_serve := (serve_filtered TB t_beq t_ltb).
Notation t_expected := (expected TB t_beq TB t_encS t_encD).

(** a block: rollup 3 gets [7],[7] (a repeated payload), rollup 1 the empty payload, rollup 2
    [1;2]; deposits for rollup 1 (which also has sequenced data) and rollup 9 (deposits only);
    data items after the commitments: an upgrade change hashes item and two user transactions *)
Definition ex_subs : list (TB * TB) := [(rid 3, [7]); (rid 1, []); (rid 3, [7]); (rid 2, [1; 2])].
Definition ex_deps : list (TB * list TB) := [(rid 9, [[5; 5]]); (rid 1, [[4]; [6]])].
Definition ex_rest : list (item_kind * TB) := [(KUpgrade, h32 3 [100]); (KTx, h32 3 [101]); (KTx, h32 3 [102])].
Definition ex_bh : TB := repeat 42 32.

Definition ex_block : option (block TB) :=
  match t_finalize ex_bh ex_rest ex_subs ex_deps with BuildOk b => Some b | _ => None end.

Definition on_block {A} (f : block TB -> A) (d : A) : A :=
  match ex_block with Some b => f b | None => d end.

(** data_exact: ids sorted = 1,2,3,9; each list = sequenced payloads in block order, then deposits *)
Example ex_data_exact :
  on_block (fun b => map (entry_data TB) (b_entries b)) []
  = [(rid 1, [t_encS []; t_encD [4]; t_encD [6]]); (rid 2, [t_encS [1; 2]]);
     (rid 3, [t_encS [7]; t_encS [7]]); (rid 9, [t_encD [5; 5]])].
Proof. vm_compute. reflexivity. Qed.

Example ex_expected :
  map (fun r => t_expected r ex_subs ex_deps) [rid 1; rid 2; rid 3; rid 9; rid 4]
  = [[t_encS []; t_encD [4]; t_encD [6]]; [t_encS [1; 2]]; [t_encS [7]; t_encS [7]]; [t_encD [5; 5]]; []].
Proof. vm_compute. reflexivity. Qed.

(** the deposit map in another iteration order gives the same block *)
Example ex_dep_order :
  t_finalize ex_bh ex_rest ex_subs (rev ex_deps) = t_finalize ex_bh ex_rest ex_subs ex_deps.
Proof. vm_compute. reflexivity. Qed.

(** served_verifies: full, stored, filtered (with an absent and a repeated id), Celestia *)
Example ex_full_verifies :
  on_block (fun b => t_recv_full b && t_recv_full (stored_block TB t_beq b)) false = true.
Proof. vm_compute. reflexivity. Qed.

Example ex_filtered_verifies :
  on_block (fun b => t_recv_filtered (t_serve b [rid 3; rid 4; rid 1; rid 3]) &&
                     t_recv_filtered (t_serve b []) &&
                     t_recv_filtered (to_filtered TB t_beq b [rid 9; rid 9])) false = true.
Proof. vm_compute. reflexivity. Qed.

Example ex_filtered_content :
  on_block (fun b => map (entry_data TB) (f_entries (t_serve b [rid 3; rid 4; rid 1]))) []
  = [(rid 3, [t_encS [7]; t_encS [7]]); (rid 1, [t_encS []; t_encD [4]; t_encD [6]])].
Proof. vm_compute. reflexivity. Qed.

Example ex_celestia_verifies :
  on_block (fun b => let '(m, bs) := split_celestia TB b in
                     t_recv_meta m && forallb (fun bl => blob_ok TB t_blen bl && t_audit m bl) bs &&
                     (length bs =? 4)%nat) false = true.
Proof. vm_compute. reflexivity. Qed.

(** the conductor of rollup 1 / of rollup 4 (no data), given ALL four published blobs *)
Example ex_conductor_own :
  on_block (fun b => let '(m, bs) := split_celestia TB b in
                     (t_reconstruct [m] bs (rid 1), t_reconstruct [m] bs (rid 4))) ([], [])
  = ([(ex_bh, [t_encS []; t_encD [4]; t_encD [6]])], [(ex_bh, [])]).
Proof. vm_compute. reflexivity. Qed.

(** tamper_detected: each named tampering of rollup 3's list (entry 0 of the filtered block for
    [rid 3; rid 1]) is rejected; so are the re-attribution, the foreign proof and the edits of
    the roots and of the id list *)
Definition ex_f : option (filtered TB) :=
  match ex_block with Some b => Some (t_serve b [rid 3; rid 1]) | None => None end.
Definition rejected (t : tamper TB) : bool :=
  match ex_f with Some f => t_recv_filtered f && negb (t_recv_filtered (tamper_f TB t f)) | None => false end.

Example ex_tamper_rejected :
  forallb rejected
    [TAlter 0 0 (t_encS [8]); TDrop 0 1; TDup 0 0; TApp 0 (t_encS []); TReid 0 (rid 5); TReid 1 (rid 3);
     TMvData 0 1; TSwapProof 0 1; TRtr (repeat 1 32); TDh (repeat 1 32); TIdsDrop 0; TIdsAdd (rid 5);
     TIdsSwap 0; TAlter 1 2 (t_encD [7]); TSwap 1 0] = true.
Proof. vm_compute. reflexivity. Qed.

(** exchanging two EQUAL neighbours is not a tampering: still accepted *)
Example ex_swap_equal_accepted :
  match ex_f with Some f => t_recv_filtered (tamper_f TB (TSwap 0 0) f) | None => false end = true.
Proof. vm_compute. reflexivity. Qed.

(** full block: the same, plus removal / reordering of whole rollups *)
Example ex_full_tamper_rejected :
  on_block (fun b => forallb (fun t => negb (t_recv_full (tamper_full TB t b)))
                       [TAlter 2 0 (t_encS [8]); TDrop 0 0; TApp 3 (t_encD []); TReid 1 (rid 5); TReid 0 (rid 2);
                        TRmEntry 1; TSwapEntry 0 1; TSwapProof 0 3; TRtr (repeat 1 32); TDh (repeat 1 32)]) false = true.
Proof. vm_compute. reflexivity. Qed.

(** what is NOT detected. (1) the block hash *)
Example ex_block_hash_unbound :
  on_block (fun b => t_recv_full (tamper_full TB (TBh (repeat 43 32)) b) &&
                     t_recv_filtered (tamper_f TB (TBh (repeat 43 32)) (t_serve b [rid 2]))) false = true.
Proof. vm_compute. reflexivity. Qed.

(** (2) a filtered block without one of the requested rollups; also reached by re-attributing an
    entry to the id of a LATER entry (the receiver's IndexMap keeps the later one) *)
Example ex_filtered_omission :
  match ex_f with
  | Some f => (t_recv_filtered (tamper_f TB (TRmEntry 0) f),
               t_recv_filtered (tamper_f TB (TReid 0 (rid 1)) f),
               map (entry_data TB) (collect TB t_beq (f_entries (tamper_f TB (TReid 0 (rid 1)) f))))
  | None => (false, false, [])
  end = (true, true, [(rid 1, [t_encS []; t_encD [4]; t_encD [6]])]).
Proof. vm_compute. reflexivity. Qed.

(** (3) -- repaired (finding F16): the conductor of rollup 4 (no data in this block) or of rollup 1,
    handed only the genuine blob of rollup 3, no longer reconstructs rollup 3's data: rollup 4
    gets the empty block, rollup 1 (listed in the metadata, its own blob missing) nothing. *)
Example ex_conductor_foreign_blob :
  on_block (fun b => let '(m, bs) := split_celestia TB b in
                     match nth_error bs 2 with
                     | Some bl3 => (t_reconstruct [m] [bl3] (rid 4), t_reconstruct [m] [bl3] (rid 1))
                     | None => ([(ex_bh, [[0]])], [(ex_bh, [[0]])])
                     end) ([(ex_bh, [[0]])], [(ex_bh, [[0]])])
  = ([(ex_bh, [])], []).
Proof. vm_compute. reflexivity. Qed.

(** What finding F16 was: for the reconstruction as it was BEFORE the repair
    ([reconstruct_before_F16_fix], BlockDataSpec.v) the statement "whatever the conductor of
    rollup [r] reconstructs from accepted metadata and audited blobs is [r]'s data" is false.  The
    witness is checked by computation ([ex_wit_ok]) and then turned into the existential
    statement. *)
Lemma t_beq_refl a : t_beq a a = true.
Proof. induction a as [|x a IH]; cbn; [reflexivity|]. rewrite N.eqb_refl. exact IH. Qed.
Lemma t_beq_true a : forall b, t_beq a b = true -> a = b.
Proof.
  induction a as [|x a IH]; intros [|y b] H; cbn in H; try discriminate; [reflexivity|].
  apply andb_prop in H. destruct H as [H1 H2]. apply N.eqb_eq in H1. subst y.
  rewrite (IH _ H2). reflexivity.
Qed.
Lemma t_beq_false a b : t_beq a b = false -> a <> b.
Proof. intros H E. subst b. rewrite t_beq_refl in H. discriminate H. Qed.
Fixpoint tl_beq (a b : list TB) : bool :=
  match a, b with
  | [], [] => true
  | x :: a', y :: b' => t_beq x y && tl_beq a' b'
  | _, _ => false
  end.
Lemma tl_beq_refl a : tl_beq a a = true.
Proof. induction a as [|x a IH]; cbn; [reflexivity|]. rewrite t_beq_refl. exact IH. Qed.
Lemma tl_beq_true a : forall b, tl_beq a b = true -> a = b.
Proof.
  induction a as [|x a IH]; intros [|y b] H; cbn in H; try discriminate; [reflexivity|].
  apply andb_prop in H. destruct H as [H1 H2]. apply t_beq_true in H1. subst y.
  rewrite (IH _ H2). reflexivity.
Qed.
Lemma tl_beq_false a b : tl_beq a b = false -> a <> b.
Proof. intros H E. subst b. rewrite tl_beq_refl in H. discriminate H. Qed.

Definition ex_wit : option (meta TB * blob TB) :=
  match ex_block with
  | Some b => match nth_error (snd (split_celestia TB b)) 2 with
              | Some bl => Some (fst (split_celestia TB b), bl)
              | None => None
              end
  | None => None
  end.
Definition ex_wit_check : bool :=
  match ex_wit with
  | Some (m, bl) =>
      t_recv_meta m && blob_ok TB t_blen bl && t_audit m bl &&
      match t_reconstruct_before_fix [m] [bl] (rid 4) with
      | [(h, txs)] => t_beq h (m_hash m) && tl_beq txs (bl_txs bl)
      | _ => false
      end &&
      negb (t_beq (bl_id bl) (rid 4)) &&
      negb (tl_beq (bl_txs bl) (t_expected (rid 4) ex_subs ex_deps))
  | None => false
  end.
Example ex_wit_ok : ex_wit_check = true.
Proof. vm_compute. reflexivity. Qed.

Lemma conductor_before_F16_fix_refuted :
  exists (m : meta TB) (bl : blob TB) (r : TB) (txs : list TB),
    t_recv_meta m = true /\ blob_ok TB t_blen bl = true /\ t_audit m bl = true /\
    In (m_hash m, txs) (t_reconstruct_before_fix [m] [bl] r) /\
    bl_id bl <> r /\ txs <> t_expected r ex_subs ex_deps /\
    on_block (fun b => fst (split_celestia TB b) = m /\ In bl (snd (split_celestia TB b))) False.
Proof.
  pose proof ex_wit_ok as H. unfold ex_wit_check in H.
  destruct ex_wit as [[m bl]|] eqn:W; [|discriminate H].
  apply andb_prop in H. destruct H as [H H6].
  apply andb_prop in H. destruct H as [H H5].
  apply andb_prop in H. destruct H as [H H4].
  apply andb_prop in H. destruct H as [H H3].
  apply andb_prop in H. destruct H as [H1 H2].
  destruct (t_reconstruct_before_fix [m] [bl] (rid 4)) as [|[h txs] [|x rest]] eqn:R; try discriminate H4.
  apply andb_prop in H4. destruct H4 as [Hh Ht].
  apply t_beq_true in Hh. apply tl_beq_true in Ht. subst h txs.
  exists m, bl, (rid 4), (bl_txs bl).
  split; [exact H1|]. split; [exact H2|]. split; [exact H3|].
  split; [rewrite R; left; reflexivity|].
  split; [apply t_beq_false; destruct (t_beq (bl_id bl) (rid 4)); [discriminate H5|reflexivity]|].
  split; [apply tl_beq_false; destruct (tl_beq (bl_txs bl) (t_expected (rid 4) ex_subs ex_deps));
          [discriminate H6|reflexivity]|].
  unfold ex_wit in W. unfold on_block.
  destruct ex_block as [b|]; [|discriminate W].
  destruct (nth_error (snd (split_celestia TB b)) 2) as [bl'|] eqn:Eb; [|discriminate W].
  injection W as Wm Wb. subst bl'. split; [exact Wm|]. exact (nth_error_In _ _ Eb).
Qed.

(** Observation (modelled faithfully, not part of C07's claim): the upgrade change hashes item of
    an upgrade-activation block is not a leaf of the tree whose root becomes [header.data_hash];
    the data hash is the same with and without it.  (CometBFT's own data hash covers every item,
    and hashes the ENCODED commitments; all astria proofs are relative to this computed root.) *)
Lemma upgrade_item_not_committed :
  forall (B : Type) (sha : B -> B) rtr rir x rest,
    data_leaves B sha rtr rir ((KUpgrade, x) :: rest) = data_leaves B sha rtr rir rest.
Proof. reflexivity. Qed.

Example ex_upgrade_item_not_committed :
  t_finalize ex_bh (tl ex_rest) ex_subs ex_deps = t_finalize ex_bh ex_rest ex_subs ex_deps.
Proof. vm_compute. reflexivity. Qed.
