(** C18 — model of the ICS-20 application layer of astria-sequencer:
    crates/astria-sequencer/src/ibc/ics20_transfer.rs
      ([Ics20Transfer::{recv_packet_check, recv_packet_execute, timeout_packet_check,
        timeout_packet_execute, acknowledge_packet_check, acknowledge_packet_execute}],
       [receive_tokens], [refund_tokens], [refund_tokens_check], [emit_bridge_lock_deposit],
       [emit_deposit], [is_transfer_source_zone], [is_refund_source_zone], [parse_asset]),
    crates/astria-sequencer/src/ibc/state_ext.rs ([decrease_ibc_channel_balance]),
    crates/astria-sequencer/src/checked_actions/ics20_withdrawal.rs
      ([CheckedIcs20Withdrawal::{new, run_mutable_checks, execute}], [is_source]),
    crates/astria-sequencer/src/bridge/state_ext.rs (cached deposits).

    Proof-free: this file is what gets extracted and run against the code.

    The steps inside [receive_tokens] and [refund_tokens] are taken in the order of the code and
    WITHOUT any rollback: [recv_packet_execute] turns an error of [receive_tokens] into an error
    acknowledgement and keeps whatever [receive_tokens] had already written.  A failing
    timeout / acknowledgement callback or withdrawal makes the enclosing transaction fail, whose
    [StateDelta] is dropped ([App::execute_transaction]); that is modelled as "state unchanged". *)
From Astria Require Export Base.Bounded.

Definition addr := N.
Definition chan := N.          (* channel-<n> *)
Definition port := N.          (* 0 = "transfer" *)
Definition seg := (port * chan)%type.
(** A trace-prefixed denomination: trace segments (leading = outermost first) and base. *)
Definition denom := (list seg * N)%type.

Definition TRANSFER : port := 0.

Definition seg_eqb (x y : seg) : bool := (fst x =? fst y) && (snd x =? snd y).
Fixpoint trace_eqb (x y : list seg) : bool :=
  match x, y with
  | [], [] => true
  | a :: x', b :: y' => seg_eqb a b && trace_eqb x' y'
  | _, _ => false
  end.
Definition denom_eqb (x y : denom) : bool := trace_eqb (fst x) (fst y) && (snd x =? snd y).

Fixpoint mem_denom (d : denom) (l : list denom) : bool :=
  match l with [] => false | x :: r => denom_eqb d x || mem_denom d r end.
Fixpoint memN (n : N) (l : list N) : bool :=
  match l with [] => false | x :: r => (n =? x) || memN n r end.

(** [TracePrefixed::has_leading_port(port) && has_leading_channel(channel)] *)
Definition has_prefix (d : denom) (p : port) (c : chan) : bool :=
  match fst d with
  | (p', c') :: _ => (p' =? p) && (c' =? c)
  | [] => false
  end.
(** [pop_leading_port_and_channel] *)
Definition pop (d : denom) : denom := (tl (fst d), snd d).
(** ["{port}/{channel}/{asset}".parse()] *)
Definition push (s : seg) (d : denom) : denom := (s :: fst d, snd d).

(** The [denom] string of packet data / of an [Ics20Withdrawal]: a trace-prefixed denom, the
    [ibc/<hash>] form of a trace-prefixed denom (the hash is named by its pre-image), or a string
    that does not parse as a [Denom]. *)
Inductive pdenom :=
| PTrace (d : denom)
| PIbc (d : denom)
| PBadDenom.

(** How a memo string parses as the JSON object the code looks for: not at all, or with the
    rollup address [dest] of byte length [len]. *)
Inductive memo :=
| MNone
| MAddr (dest len : N).

Record bridge := {
  br_rollup : N;
  br_asset : denom;           (* the asset whose ibc-prefixed id is stored *)
  br_withdrawer : addr;
  br_disabled : bool
}.

Record deposit := {
  dp_bridge : addr;
  dp_rollup : N;
  dp_amount : N;
  dp_asset : denom;
  dp_dest : N
}.

Record state := {
  bal : addr -> denom -> N;               (* accounts/<addr>/balance/<asset> *)
  esc : chan -> denom -> N;               (* ibc/<channel>/balance/<asset> *)
  regd : list denom;                      (* assets/<ibc hash> -> trace-prefixed denom *)
  feeassets : list denom;                 (* allowed fee assets *)
  bridges : list (addr * bridge);         (* first match wins *)
  wevents : list (addr * N);              (* bridge withdrawal event ids already used *)
  chans : list chan;                      (* open transfer channels known to IBC core *)
  acked : list (chan * N);                (* (channel, sequence) with a written acknowledgement *)
  blackburn : bool;                       (* Ics20TransferActionChange active *)
  deposits : list deposit;                (* cached block deposits, oldest first *)
  events : list deposit                   (* recorded tx.deposit events, oldest first *)
}.

Definition upd_bal (f : addr -> denom -> N) (a : addr) (d : denom) (v : N) : addr -> denom -> N :=
  fun a' d' => if (a' =? a) && denom_eqb d' d then v else f a' d'.
Definition upd_esc (f : chan -> denom -> N) (c : chan) (d : denom) (v : N) : chan -> denom -> N :=
  fun c' d' => if (c' =? c) && denom_eqb d' d then v else f c' d'.

Definition set_bal (s : state) (f : addr -> denom -> N) : state :=
  {| bal := f; esc := esc s; regd := regd s; feeassets := feeassets s; bridges := bridges s;
     wevents := wevents s; chans := chans s; acked := acked s; blackburn := blackburn s;
     deposits := deposits s; events := events s |}.
Definition set_esc (s : state) (f : chan -> denom -> N) : state :=
  {| bal := bal s; esc := f; regd := regd s; feeassets := feeassets s; bridges := bridges s;
     wevents := wevents s; chans := chans s; acked := acked s; blackburn := blackburn s;
     deposits := deposits s; events := events s |}.
Definition set_regd (s : state) (l : list denom) : state :=
  {| bal := bal s; esc := esc s; regd := l; feeassets := feeassets s; bridges := bridges s;
     wevents := wevents s; chans := chans s; acked := acked s; blackburn := blackburn s;
     deposits := deposits s; events := events s |}.
Definition set_feeassets (s : state) (l : list denom) : state :=
  {| bal := bal s; esc := esc s; regd := regd s; feeassets := l; bridges := bridges s;
     wevents := wevents s; chans := chans s; acked := acked s; blackburn := blackburn s;
     deposits := deposits s; events := events s |}.
Definition set_bridges (s : state) (l : list (addr * bridge)) : state :=
  {| bal := bal s; esc := esc s; regd := regd s; feeassets := feeassets s; bridges := l;
     wevents := wevents s; chans := chans s; acked := acked s; blackburn := blackburn s;
     deposits := deposits s; events := events s |}.
Definition set_wevents (s : state) (l : list (addr * N)) : state :=
  {| bal := bal s; esc := esc s; regd := regd s; feeassets := feeassets s; bridges := bridges s;
     wevents := l; chans := chans s; acked := acked s; blackburn := blackburn s;
     deposits := deposits s; events := events s |}.
Definition set_chans (s : state) (l : list chan) : state :=
  {| bal := bal s; esc := esc s; regd := regd s; feeassets := feeassets s; bridges := bridges s;
     wevents := wevents s; chans := l; acked := acked s; blackburn := blackburn s;
     deposits := deposits s; events := events s |}.
Definition set_acked (s : state) (l : list (chan * N)) : state :=
  {| bal := bal s; esc := esc s; regd := regd s; feeassets := feeassets s; bridges := bridges s;
     wevents := wevents s; chans := chans s; acked := l; blackburn := blackburn s;
     deposits := deposits s; events := events s |}.
Definition add_deposit (s : state) (d : deposit) : state :=
  {| bal := bal s; esc := esc s; regd := regd s; feeassets := feeassets s; bridges := bridges s;
     wevents := wevents s; chans := chans s; acked := acked s; blackburn := blackburn s;
     deposits := deposits s ++ [d]; events := events s ++ [d] |}.

Definition init_state (bb : bool) : state :=
  {| bal := fun _ _ => 0; esc := fun _ _ => 0; regd := []; feeassets := []; bridges := [];
     wevents := []; chans := []; acked := []; blackburn := bb; deposits := []; events := [] |}.

Fixpoint find_bridge_in (l : list (addr * bridge)) (a : addr) : option bridge :=
  match l with
  | [] => None
  | (a', b) :: r => if a' =? a then Some b else find_bridge_in r a
  end.
(** [get_bridge_account_rollup_id(a).is_some()] and the other bridge fields of [a] *)
Definition find_bridge (s : state) (a : addr) : option bridge := find_bridge_in (bridges s) a.
Definition is_bridge (s : state) (a : addr) : bool :=
  match find_bridge s a with Some _ => true | None => false end.

Fixpoint mem_wevent (a : addr) (e : N) (l : list (addr * N)) : bool :=
  match l with [] => false | (a', e') :: r => ((a' =? a) && (e' =? e)) || mem_wevent a e r end.
Fixpoint mem_ack (c : chan) (q : N) (l : list (chan * N)) : bool :=
  match l with [] => false | (c', q') :: r => ((c' =? c) && (q' =? q)) || mem_ack c q r end.

(** [parse_asset]: a trace-prefixed string is taken as is; an [ibc/<hash>] string is looked up in
    the asset table ([map_ibc_to_trace_prefixed_asset]). *)
Definition resolve (s : state) (pd : pdenom) : option denom :=
  match pd with
  | PTrace d => Some d
  | PIbc d => if mem_denom d (regd s) then Some d else None
  | PBadDenom => None
  end.

(** The storage key of a [Denom]: both forms are keyed by the ibc-prefixed id. *)
Definition pd_under (pd : pdenom) : option denom :=
  match pd with PTrace d => Some d | PIbc d => Some d | PBadDenom => None end.

(** [FungibleTokenPacketData] inside a [Packet], as the callbacks see it. *)
Record packet := {
  p_ok : bool;                (* the data is a JSON FungibleTokenPacketData *)
  p_denom : pdenom;
  p_amount : option N;        (* decimal string, if it is one *)
  p_receiver : option addr;   (* [parse_address_on_sequencer] of [receiver] *)
  p_sender : option addr;     (* [parse_address_on_sequencer] of [sender] *)
  p_memo_dep : memo;          (* the memo as [Ics20TransferDeposit] *)
  p_memo_wfr : memo;          (* the memo as [Ics20WithdrawalFromRollup] *)
  p_sport : port;             (* port_on_a *)
  p_schan : chan;             (* chan_on_a *)
  p_dport : port;             (* port_on_b *)
  p_dchan : chan              (* chan_on_b *)
}.

(** Where [receive_tokens] / [refund_tokens] stopped. *)
Inductive stage :=
| SParse        (* packet data, amount, address or denom *)
| SAsset        (* not an allowed fee asset (post Blackburn) *)
| SBridge       (* disabled bridge, bad memo, not a bridge account, asset not the bridge's *)
| SEscrow       (* insufficient funds on ibc channel *)
| SCredit.      (* balance overflow *)

Inductive tres := TOk | TErr (st : stage).

Definition MAX_ROLLUP_ADDRESS_BYTE_LENGTH : N := 256.

(** [u128::from_str] of the amount *)
Definition parse_amount (a : option N) : option N :=
  match a with
  | Some n => if n <=? U128_MAX then Some n else None
  | None => None
  end.

(** [emit_deposit]: the recipient must be a bridge account whose asset is [asset]; the deposit
    event is recorded and the deposit cached. *)
Definition emit_deposit (s : state) (b : addr) (dest : N) (asset : denom) (amt : N) : option state :=
  match find_bridge s b with
  | None => None
  | Some br =>
      if denom_eqb (br_asset br) asset
      then Some (add_deposit s {| dp_bridge := b; dp_rollup := br_rollup br; dp_amount := amt;
                                  dp_asset := asset; dp_dest := dest |})
      else None
  end.

(** the bridge-account block of [receive_tokens] incl. [emit_bridge_lock_deposit] *)
Definition bridge_step (s : state) (rcpt : addr) (asset : denom) (amt : N) (m : memo) : option state :=
  match find_bridge s rcpt with
  | None => Some s
  | Some br =>
      if br_disabled br then None
      else match m with
           | MNone => None
           | MAddr dest len =>
               if len =? 0 then None
               else if MAX_ROLLUP_ADDRESS_BYTE_LENGTH <? len then None
               else emit_deposit s rcpt dest asset amt
           end
  end.

(** [decrease_ibc_channel_balance] *)
Definition dec_escrow (s : state) (c : chan) (d : denom) (amt : N) : option state :=
  match checked_sub (esc s c d) amt with
  | Some v => Some (set_esc s (upd_esc (esc s) c d v))
  | None => None
  end.

(** [increase_balance] *)
Definition credit (s : state) (a : addr) (d : denom) (amt : N) : option state :=
  match checked_add U128_MAX (bal s a d) amt with
  | Some v => Some (set_bal s (upd_bal (bal s) a d v))
  | None => None
  end.

(** [has_ibc_asset] / [put_ibc_asset] *)
Definition register (s : state) (d : denom) : state :=
  if mem_denom d (regd s) then s else set_regd s (regd s ++ [d]).

(** The asset credited by [receive_tokens] and whether the sequencer is its source zone. *)
Definition recv_asset (p : packet) (d : denom) : bool * denom :=
  let is_src := has_prefix d (p_sport p) (p_schan p) in
  (is_src, if is_src then pop d else push (p_dport p, p_dchan p) d).

(** [receive_tokens]: the state it leaves behind (no rollback) and how it ended. *)
Definition receive_tokens (s : state) (p : packet) : state * tres :=
  if negb (p_ok p) then (s, TErr SParse) else
  match parse_amount (p_amount p) with
  | None => (s, TErr SParse)
  | Some amt =>
  match p_receiver p with
  | None => (s, TErr SParse)
  | Some rcpt =>
  match resolve s (p_denom p) with
  | None => (s, TErr SParse)
  | Some d =>
      let '(is_src, asset) := recv_asset p d in
      if blackburn s && negb (mem_denom asset (feeassets s)) then (s, TErr SAsset) else
      match bridge_step s rcpt asset amt (p_memo_dep p) with
      | None => (s, TErr SBridge)
      | Some s1 =>
          match (if is_src then dec_escrow s1 (p_dchan p) asset amt
                 else Some (register s1 asset)) with
          | None => (s1, TErr SEscrow)
          | Some s2 =>
              match credit s2 rcpt asset amt with
              | None => (s2, TErr SCredit)
              | Some s3 => (s3, TOk)
              end
          end
      end
  end end end.

(** [is_refund_source_zone] *)
Definition refund_is_source (p : packet) (d : denom) : bool :=
  negb (has_prefix d (p_sport p) (p_schan p)).

(** [refund_tokens_check] (run by [timeout_packet_check] / [acknowledge_packet_check]) *)
Definition refund_check (s : state) (p : packet) : bool :=
  p_ok p &&
  match resolve s (p_denom p) with
  | None => false
  | Some d =>
      if refund_is_source p d then
        match parse_amount (p_amount p) with
        | Some amt => amt <=? esc s (p_schan p) d
        | None => false
        end
      else true
  end.

(** [refund_tokens] incl. [refund_tokens_to_sequencer_address] *)
Definition refund_tokens (s : state) (p : packet) : state * tres :=
  if negb (p_ok p) then (s, TErr SParse) else
  match parse_amount (p_amount p) with
  | None => (s, TErr SParse)
  | Some amt =>
  match p_sender p with
  | None => (s, TErr SParse)
  | Some rcv =>
  match resolve s (p_denom p) with
  | None => (s, TErr SParse)
  | Some d =>
      match (match p_memo_wfr p with
             | MAddr dest _ => emit_deposit s rcv dest d amt
             | MNone => Some s
             end) with
      | None => (s, TErr SBridge)
      | Some s1 =>
          match (if refund_is_source p d then dec_escrow s1 (p_schan p) d amt else Some s1) with
          | None => (s1, TErr SEscrow)
          | Some s2 =>
              match credit s2 rcv d amt with
              | None => (s2, TErr SCredit)
              | Some s3 => (s3, TOk)
              end
          end
      end
  end end end.

(** An [Ics20Withdrawal] action together with its signer. *)
Record withdrawal := {
  w_signer : addr;
  w_chan : chan;                 (* source_channel *)
  w_denom : pdenom;              (* PTrace or PIbc *)
  w_amount : N;
  w_ret : addr;                  (* return_address = [sender] of the packet *)
  w_bridge : option addr;        (* bridge_address *)
  w_evid : N;                    (* rollup_withdrawal_event_id (interned) *)
  w_evid_len : N;
  w_blk : N;                     (* rollup_block_number *)
  w_rret : N;                    (* rollup_return_address (interned) *)
  w_rret_len : N;
  w_memo_wfr : memo              (* the memo string as [Ics20WithdrawalFromRollup] *)
}.

(** [is_source] of ics20_withdrawal.rs; the source port is always "transfer". *)
Definition wd_is_source (w : withdrawal) : bool :=
  match w_denom w with
  | PTrace d => negb (has_prefix d TRANSFER (w_chan w))
  | PIbc _ => false
  | PBadDenom => false
  end.

(** [CheckedIcs20Withdrawal::new] + [execute] inside a transaction: all or nothing. *)
Definition withdraw (s : state) (w : withdrawal) : state * bool :=
  match pd_under (w_denom w) with
  | None => (s, false)
  | Some d =>
  if w_amount w =? 0 then (s, false) else
  if U128_MAX <? w_amount w then (s, false) else
  let bridge_ok :=
    match w_bridge w with
    | Some b =>
        negb (w_rret_len w =? 0) && (w_rret_len w <=? 256) &&
        negb (w_evid_len w =? 0) && (w_evid_len w <=? 256) &&
        negb (w_blk w =? 0) &&
        match find_bridge s b with
        | Some br => (br_withdrawer br =? w_signer w) && negb (mem_wevent b (w_evid w) (wevents s))
        | None => false
        end
    | None => negb (is_bridge s (w_signer w))
    end in
  if negb bridge_ok then (s, false) else
  if negb (memN (w_chan w) (chans s)) then (s, false) else
  let from := match w_bridge w with Some b => b | None => w_signer w end in
  match checked_sub (bal s from d) (w_amount w) with
  | None => (s, false)
  | Some nb =>
      let s1 := match w_bridge w with
                | Some b => set_wevents s ((b, w_evid w) :: wevents s)
                | None => s
                end in
      let s2 := set_bal s1 (upd_bal (bal s1) from d nb) in
      if wd_is_source w then
        match checked_add U128_MAX (esc s2 (w_chan w) d) (w_amount w) with
        | None => (s, false)
        | Some ne => (set_esc s2 (upd_esc (esc s2) (w_chan w) d ne), true)
        end
      else (s2, true)
  end
  end.

(** The packet a successful withdrawal sends ([create_ibc_packet_from_withdrawal]). *)
Definition sent_packet (w : withdrawal) : packet :=
  {| p_ok := true; p_denom := w_denom w; p_amount := Some (w_amount w);
     p_receiver := None; p_sender := Some (w_ret w);
     p_memo_dep := MNone;
     p_memo_wfr := match w_bridge w with
                   | Some _ => MAddr (w_rret w) (w_rret_len w)
                   | None => w_memo_wfr w
                   end;
     p_sport := TRANSFER; p_schan := w_chan w; p_dport := TRANSFER; p_dchan := 0 |}.

Inductive ackkind := AckOk | AckErr | AckBad.

Inductive op :=
| OWd (w : withdrawal)
| ORecv (check_ok : bool) (q : N) (p : packet)   (* recv_packet_check verdict, sequence, packet *)
| OAck (k : ackkind) (p : packet)
| OTimeout (p : packet)
| OSetDisabled (a : addr) (b : bool).

Inductive out :=
| OutWd (ok : bool)
| OutRejected                (* the *_check callback refused; nothing executed *)
| OutAck (ok : bool)         (* recv: acknowledgement written *)
| OutFail                    (* an execute callback returned an error; transaction dropped *)
| OutOk                      (* timeout / acknowledgement executed *)
| OutSet.

(** [recv_packet_execute]: error of [receive_tokens] -> error acknowledgement, state kept;
    [write_acknowledgement] needs the channel and a fresh (channel, sequence). *)
Definition recv_execute (s : state) (q : N) (p : packet) : state * out :=
  let '(s1, r) := receive_tokens s p in
  if (p_dport p =? TRANSFER) && memN (p_dchan p) (chans s1) && negb (mem_ack (p_dchan p) q (acked s1))
  then (set_acked s1 ((p_dchan p, q) :: acked s1),
        OutAck (match r with TOk => true | TErr _ => false end))
  else (s, OutFail).

Definition refund_execute (s : state) (p : packet) : state * out :=
  if negb (refund_check s p) then (s, OutRejected) else
  match refund_tokens s p with
  | (s1, TOk) => (s1, OutOk)
  | (_, TErr _) => (s, OutFail)
  end.

Fixpoint set_disabled_in (l : list (addr * bridge)) (a : addr) (b : bool) : list (addr * bridge) :=
  match l with
  | [] => []
  | (a', br) :: r =>
      if a' =? a
      then (a', {| br_rollup := br_rollup br; br_asset := br_asset br;
                   br_withdrawer := br_withdrawer br; br_disabled := b |}) :: r
      else (a', br) :: set_disabled_in r a b
  end.

Definition step (s : state) (o : op) : state * out :=
  match o with
  | OWd w => let '(s1, ok) := withdraw s w in (s1, OutWd ok)
  | ORecv check_ok q p => if check_ok then recv_execute s q p else (s, OutRejected)
  | OAck AckOk p => (s, OutOk)
  | OAck AckBad p => (s, OutRejected)
  | OAck AckErr p => refund_execute s p
  | OTimeout p => refund_execute s p
  | OSetDisabled a b => (set_bridges s (set_disabled_in (bridges s) a b), OutSet)
  end.

Fixpoint run (s : state) (ops : list op) : state * list out :=
  match ops with
  | [] => (s, [])
  | o :: r => let '(s1, x) := step s o in
              let '(s2, xs) := run s1 r in (s2, x :: xs)
  end.

(** Set-up writes used by the model driver (direct state writes of the harness). *)
Definition put_bal (s : state) (a : addr) (d : denom) (v : N) : state := set_bal s (upd_bal (bal s) a d v).
Definition put_esc (s : state) (c : chan) (d : denom) (v : N) : state := set_esc s (upd_esc (esc s) c d v).
Definition put_reg (s : state) (d : denom) : state := register s d.
Definition put_feeasset (s : state) (d : denom) : state :=
  if mem_denom d (feeassets s) then s else set_feeassets s (d :: feeassets s).
Definition put_bridge (s : state) (a : addr) (b : bridge) : state := set_bridges s ((a, b) :: bridges s).
Definition put_chan (s : state) (c : chan) : state :=
  if memN c (chans s) then s else set_chans s (c :: chans s).
