(** C18 — what the property talks about, stated over [Ics20Model]. *)
From Astria Require Export Ics20.Ics20Model.

(** The part of the state named by the no-side-effect clause: balances, channel escrow balances,
    cached deposits, deposit events. *)
Definition obs_eq (s s' : state) : Prop :=
  (forall a d, bal s' a d = bal s a d) /\
  (forall c d, esc s' c d = esc s c d) /\
  deposits s' = deposits s /\
  events s' = events s.

(** [a] is a sequencer-origin asset with respect to channel [c]: sending it out over [c] makes the
    sequencer the source zone (ICS-20: the denom does not start with the sending port/channel). *)
Definition origin (c : chan) (a : denom) : bool := negb (has_prefix a TRANSFER c).

Definition amount_of (p : packet) : N :=
  match parse_amount (p_amount p) with Some n => n | None => 0 end.

(** Amount of [a] sent out over [c] by a step. *)
Definition sent_of (o : op) (x : out) (c : chan) (a : denom) : N :=
  match o, x with
  | OWd w, OutWd true =>
      match pd_under (w_denom w) with
      | Some d => if (c =? w_chan w) && denom_eqb a d then w_amount w else 0
      | None => 0
      end
  | _, _ => 0
  end.

(** Amount of [a] that came back over [c] in a successfully acknowledged incoming packet. *)
Definition returned_of (s : state) (o : op) (x : out) (c : chan) (a : denom) : N :=
  match o, x with
  | ORecv true _ p, OutAck true =>
      match resolve s (p_denom p) with
      | Some d =>
          if has_prefix d (p_sport p) (p_schan p) && ((c =? p_dchan p) && denom_eqb a (pop d))
          then amount_of p else 0
      | None => 0
      end
  | _, _ => 0
  end.

Definition refund_amount (s : state) (p : packet) (c : chan) (a : denom) : N :=
  match resolve s (p_denom p) with
  | Some d =>
      if refund_is_source p d && ((c =? p_schan p) && denom_eqb a d) then amount_of p else 0
  | None => 0
  end.

(** Amount of [a] refunded over [c] by an executed error acknowledgement or timeout. *)
Definition refunded_of (s : state) (o : op) (x : out) (c : chan) (a : denom) : N :=
  match o, x with
  | OAck AckErr p, OutOk => refund_amount s p c a
  | OTimeout p, OutOk => refund_amount s p c a
  | _, _ => 0
  end.

Fixpoint sent_sum (s : state) (ops : list op) (c : chan) (a : denom) : N :=
  match ops with
  | [] => 0
  | o :: r => let '(s1, x) := step s o in sent_of o x c a + sent_sum s1 r c a
  end.
Fixpoint returned_sum (s : state) (ops : list op) (c : chan) (a : denom) : N :=
  match ops with
  | [] => 0
  | o :: r => let '(s1, x) := step s o in returned_of s o x c a + returned_sum s1 r c a
  end.
Fixpoint refunded_sum (s : state) (ops : list op) (c : chan) (a : denom) : N :=
  match ops with
  | [] => 0
  | o :: r => let '(s1, x) := step s o in refunded_of s o x c a + refunded_sum s1 r c a
  end.

(** F8: a withdrawal naming a sequencer-origin asset by its [ibc/<hash>] form. *)
Definition f8_withdrawal (w : withdrawal) : bool :=
  match w_denom w with
  | PIbc d => origin (w_chan w) d
  | _ => false
  end.

Definition recv_is_source (s : state) (p : packet) : bool :=
  match resolve s (p_denom p) with
  | Some d => has_prefix d (p_sport p) (p_schan p)
  | None => false
  end.

Definition recv_to_bridge (s : state) (p : packet) : bool :=
  match p_receiver p with Some r => is_bridge s r | None => false end.

(** F5: an incoming packet for which [receive_tokens] fails only AFTER it has written:
    insufficient escrow after the deposit of a bridge recipient was recorded, or an overflowing
    credit after the escrow was decreased and/or the deposit recorded. *)
Definition f5_partial (s : state) (p : packet) : bool :=
  match snd (receive_tokens s p) with
  | TErr SEscrow => recv_to_bridge s p
  | TErr SCredit => recv_to_bridge s p || recv_is_source s p
  | _ => false
  end.

(** The part of F5 that disturbs the escrow accounting. *)
Definition f5_escrow_leak (s : state) (p : packet) : bool :=
  match snd (receive_tokens s p) with
  | TErr SCredit => recv_is_source s p
  | _ => false
  end.

Definition known_for_identity (s : state) (o : op) : bool :=
  match o with
  | OWd w => f8_withdrawal w
  | ORecv true _ p => f5_escrow_leak s p
  | _ => false
  end.

(** No step of the history is one of the recorded inputs (F8, escrow-leaking F5). *)
Fixpoint clean (s : state) (ops : list op) : bool :=
  match ops with
  | [] => true
  | o :: r => negb (known_for_identity s o) && clean (fst (step s o)) r
  end.

Definition incoming (o : op) : bool :=
  match o with
  | ORecv _ _ _ | OAck _ _ | OTimeout _ => true
  | _ => false
  end.
