(** C18 — concrete witnesses (refutations of the full-strength statements: F5, F8) and
    non-vacuity examples.  Everything here is decided by [vm_compute]. *)
From Astria Require Import Ics20.Ics20Model Ics20.Ics20Spec Ics20.Ics20Proofs.

Definition NRIA : denom := ([], 1).
Definition NRIA_BACK : denom := ([(TRANSFER, 7)], 1).   (* transfer/channel-7/nria *)
Definition UATOM : denom := ([], 2).

Definition mk_packet (dn : pdenom) (amt : N) (rcv snd : option addr) (mdep mwfr : memo)
    (sp : port) (sc : chan) (dp : port) (dc : chan) : packet :=
  {| p_ok := true; p_denom := dn; p_amount := Some amt; p_receiver := rcv; p_sender := snd;
     p_memo_dep := mdep; p_memo_wfr := mwfr; p_sport := sp; p_schan := sc; p_dport := dp;
     p_dchan := dc |}.

Definition mk_wd (signer : addr) (c : chan) (dn : pdenom) (amt : N) : withdrawal :=
  {| w_signer := signer; w_chan := c; w_denom := dn; w_amount := amt; w_ret := signer;
     w_bridge := None; w_evid := 0; w_evid_len := 0; w_blk := 0; w_rret := 0; w_rret_len := 0;
     w_memo_wfr := MNone |}.

(** Post-Blackburn chain, channel-0 open, nria registered and an allowed fee asset. *)
Definition base : state := put_chan (put_feeasset (put_reg (init_state true) NRIA) NRIA) 0.

(** Account 3 is a bridge account for rollup 5 holding nria. *)
Definition with_bridge (s : state) : state :=
  put_bridge s 3 {| br_rollup := 5; br_asset := NRIA; br_withdrawer := 4; br_disabled := false |}.

(** nria coming back over channel-0 from counterparty channel-7. *)
Definition back (amt : N) (rcv : addr) (m : memo) : packet :=
  mk_packet (PTrace NRIA_BACK) amt (Some rcv) None m MNone TRANSFER 7 TRANSFER 0.

(* ------------------------------------------------------------------------------------------ *)
(** * F5: a failed receive with side effects *)

(** F5a: bridge recipient, 5 escrowed, 10 incoming: the deposit is cached and its event
    recorded, then the escrow check fails. *)
Definition f5a_state : state := put_esc (with_bridge base) 0 NRIA 5.
Definition f5a_packet : packet := back 10 3 (MAddr 9 4).

Lemma f5a_witness :
  snd (receive_tokens f5a_state f5a_packet) = TErr SEscrow /\
  deposits (fst (receive_tokens f5a_state f5a_packet)) =
    [{| dp_bridge := 3; dp_rollup := 5; dp_amount := 10; dp_asset := NRIA; dp_dest := 9 |}] /\
  events (fst (receive_tokens f5a_state f5a_packet)) =
    [{| dp_bridge := 3; dp_rollup := 5; dp_amount := 10; dp_asset := NRIA; dp_dest := 9 |}] /\
  deposits f5a_state = [] /\
  f5_partial f5a_state f5a_packet = true.
Proof. vm_compute. repeat split; reflexivity. Qed.

(** F5b: plain recipient holding u128::MAX: the escrow is decreased, then the credit overflows. *)
Definition f5b_state : state := put_bal (put_esc base 0 NRIA 10) 1 NRIA U128_MAX.
Definition f5b_packet : packet := back 10 1 MNone.

Lemma f5b_witness :
  snd (receive_tokens f5b_state f5b_packet) = TErr SCredit /\
  esc (fst (receive_tokens f5b_state f5b_packet)) 0 NRIA = 0 /\
  esc f5b_state 0 NRIA = 10 /\
  bal (fst (receive_tokens f5b_state f5b_packet)) 1 NRIA = U128_MAX /\
  f5_partial f5b_state f5b_packet = true /\ f5_escrow_leak f5b_state f5b_packet = true.
Proof. vm_compute. repeat split; reflexivity. Qed.

Lemma pair_of {A B} (x : A * B) b : snd x = b -> x = (fst x, b).
Proof. destruct x; cbn; intros ->; reflexivity. Qed.

Lemma failed_receive_no_effect_refuted :
  exists s p s' st, receive_tokens s p = (s', TErr st) /\ ~ obs_eq s s'.
Proof.
  exists f5a_state, f5a_packet, (fst (receive_tokens f5a_state f5a_packet)), SEscrow. split.
  - apply pair_of. vm_compute. reflexivity.
  - intros (_ & _ & D & _). vm_compute in D. discriminate.
Qed.

Lemma failed_receive_escrow_leak_refuted :
  exists s p s' st, receive_tokens s p = (s', TErr st) /\ esc s' 0 NRIA <> esc s 0 NRIA.
Proof.
  exists f5b_state, f5b_packet, (fst (receive_tokens f5b_state f5b_packet)), SCredit. split.
  - apply pair_of. vm_compute. reflexivity.
  - vm_compute. discriminate.
Qed.

(** The error acknowledgement really is written for these inputs (the step keeps the writes). *)
Lemma f5_step_witness :
  snd (step f5a_state (ORecv true 1 f5a_packet)) = OutAck false /\
  deposits (fst (step f5a_state (ORecv true 1 f5a_packet))) <> deposits f5a_state /\
  snd (step f5b_state (ORecv true 1 f5b_packet)) = OutAck false /\
  esc (fst (step f5b_state (ORecv true 1 f5b_packet))) 0 NRIA = 0.
Proof. vm_compute. repeat split; try reflexivity; discriminate. Qed.

(* ------------------------------------------------------------------------------------------ *)
(** * F8: a sequencer-origin asset withdrawn under its ibc/<hash> name is burned *)

Definition f8_state : state := put_bal (put_bal base 1 NRIA 10) 2 NRIA 10.
Definition f8_wd : withdrawal := mk_wd 2 0 (PIbc NRIA) 10.
Definition plain_wd : withdrawal := mk_wd 1 0 (PTrace NRIA) 10.

Lemma f8_witness :
  snd (step f8_state (OWd f8_wd)) = OutWd true /\
  bal (fst (step f8_state (OWd f8_wd))) 2 NRIA = 0 /\
  esc (fst (step f8_state (OWd f8_wd))) 0 NRIA = 0 /\
  origin 0 NRIA = true /\ f8_withdrawal f8_wd = true.
Proof. vm_compute. repeat split; reflexivity. Qed.

(** The identity fails for a history that contains no F5 input at all. *)
Lemma escrow_identity_refuted :
  exists s ops c a, origin c a = true /\
    esc (fst (run s ops)) c a + returned_sum s ops c a + refunded_sum s ops c a
    <> esc s c a + sent_sum s ops c a.
Proof.
  exists f8_state, [OWd f8_wd], 0, NRIA. split; [reflexivity|]. vm_compute. discriminate.
Qed.

(** Consequence: account 1 escrows 10 properly, account 2 burns 10 under the ibc/ name; 2's
    packet times out first and is refunded out of 1's escrow; 1's refund is then refused for
    ever (insufficient escrow) — 1 has lost its tokens. *)
Definition f8_history : list op :=
  [OWd plain_wd; OWd f8_wd; OTimeout (sent_packet f8_wd); OTimeout (sent_packet plain_wd)].

Lemma f8_refund_drains_foreign_escrow :
  snd (run f8_state f8_history) = [OutWd true; OutWd true; OutOk; OutRejected] /\
  bal (fst (run f8_state f8_history)) 1 NRIA = 0 /\
  bal (fst (run f8_state f8_history)) 2 NRIA = 10 /\
  esc (fst (run f8_state f8_history)) 0 NRIA = 0.
Proof. vm_compute. repeat split; reflexivity. Qed.

(* ------------------------------------------------------------------------------------------ *)
(** * Non-vacuity *)

(** A clean history with all kinds of traffic: two withdrawals (one refunded by a timeout, one
    by an error acknowledgement... of 4), a return of 3, a sink-zone receive, a failing receive. *)
Definition nv_state : state := put_bal (put_bal base 1 NRIA 100) 2 NRIA 50.
Definition nv_history : list op :=
  [OWd (mk_wd 1 0 (PTrace NRIA) 30);
   OWd (mk_wd 2 0 (PTrace NRIA) 4);
   ORecv true 1 (back 3 2 MNone);
   OTimeout (sent_packet (mk_wd 2 0 (PTrace NRIA) 4));
   ORecv true 2 (back 1000 2 MNone);
   ORecv true 3 (mk_packet (PTrace NRIA) 7 (Some 1) None MNone MNone TRANSFER 7 TRANSFER 0);
   OAck AckErr (sent_packet (mk_wd 1 0 (PTrace NRIA) 30))].

Example escrow_identity_nonvacuous :
  clean nv_state nv_history = true /\ origin 0 NRIA = true /\
  snd (run nv_state nv_history) =
    [OutWd true; OutWd true; OutAck true; OutOk; OutAck false; OutAck false; OutRejected] /\
  sent_sum nv_state nv_history 0 NRIA = 34 /\
  returned_sum nv_state nv_history 0 NRIA = 3 /\
  refunded_sum nv_state nv_history 0 NRIA = 4 /\
  esc (fst (run nv_state nv_history)) 0 NRIA = 27.
Proof. vm_compute. repeat split; reflexivity. Qed.

(** (post Blackburn the prefixed nria of the sixth packet is not an allowed asset: error ack;
    the last acknowledgement is refused by the check: 30 > 27 escrowed — that packet was
    partly "returned" by a counterparty that never held it, which the model does not forbid.) *)

Example failed_receive_nonvacuous :
  snd (receive_tokens (put_esc base 0 NRIA 5) (back 10 1 MNone)) = TErr SEscrow /\
  f5_partial (put_esc base 0 NRIA 5) (back 10 1 MNone) = false.
Proof. vm_compute. split; reflexivity. Qed.

Example release_exact_nonvacuous :
  snd (step (put_esc base 0 NRIA 5) (ORecv true 1 (back 5 1 MNone))) = OutAck true /\
  resolve (put_esc base 0 NRIA 5) (p_denom (back 5 1 MNone)) = Some NRIA_BACK /\
  has_prefix NRIA_BACK TRANSFER 7 = true /\
  esc (fst (step (put_esc base 0 NRIA 5) (ORecv true 1 (back 5 1 MNone)))) 0 NRIA = 0 /\
  bal (fst (step (put_esc base 0 NRIA 5) (ORecv true 1 (back 5 1 MNone)))) 1 NRIA = 5.
Proof. vm_compute. repeat split; reflexivity. Qed.

Example withdraw_trace_form_nonvacuous :
  snd (withdraw f8_state plain_wd) = true /\ origin (w_chan plain_wd) NRIA = true /\
  esc (fst (withdraw f8_state plain_wd)) 0 NRIA = 10.
Proof. vm_compute. repeat split; reflexivity. Qed.

(** A bridge deposit that goes through: deposit and event recorded once, balance credited. *)
Example bridge_receive_ok :
  snd (receive_tokens (put_esc (with_bridge base) 0 NRIA 10) (back 10 3 (MAddr 9 4))) = TOk /\
  length (deposits (fst (receive_tokens (put_esc (with_bridge base) 0 NRIA 10)
                                         (back 10 3 (MAddr 9 4))))) = 1%nat /\
  bal (fst (receive_tokens (put_esc (with_bridge base) 0 NRIA 10) (back 10 3 (MAddr 9 4)))) 3 NRIA = 10.
Proof. vm_compute. repeat split; reflexivity. Qed.
