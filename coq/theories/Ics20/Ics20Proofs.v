(** C18 — proofs about [Ics20Model]. *)
From Astria Require Import Ics20.Ics20Model Ics20.Ics20Spec.

Lemma Some_inj {A} (a b : A) : Some a = Some b -> a = b.
Proof. intros H; injection H; auto. Qed.

(* ------------------------------------------------------------------------------------------ *)
(** * Equality tests *)

Lemma seg_eqb_eq x y : seg_eqb x y = true <-> x = y.
Proof.
  destruct x as [a b], y as [c d]. unfold seg_eqb; cbn.
  rewrite andb_true_iff, !N.eqb_eq. split.
  - intros [-> ->]; reflexivity.
  - intros H; inversion H; auto.
Qed.

Lemma trace_eqb_eq x : forall y, trace_eqb x y = true <-> x = y.
Proof.
  induction x as [|a x IH]; intros [|b y]; cbn; try (split; [discriminate|discriminate]).
  - split; reflexivity.
  - rewrite andb_true_iff, seg_eqb_eq, IH. split.
    + intros [-> ->]; reflexivity.
    + intros H; inversion H; auto.
Qed.

Lemma denom_eqb_eq x y : denom_eqb x y = true <-> x = y.
Proof.
  destruct x as [t b], y as [t' b']. unfold denom_eqb; cbn.
  rewrite andb_true_iff, trace_eqb_eq, N.eqb_eq. split.
  - intros [-> ->]; reflexivity.
  - intros H; inversion H; auto.
Qed.

Lemma denom_eqb_refl x : denom_eqb x x = true.
Proof. apply denom_eqb_eq; reflexivity. Qed.

Lemma denom_eqb_neq x y : denom_eqb x y = false <-> x <> y.
Proof.
  split.
  - intros H E. apply denom_eqb_eq in E. congruence.
  - intros H. destruct (denom_eqb x y) eqn:E; [|reflexivity]. apply denom_eqb_eq in E. contradiction.
Qed.

(* ------------------------------------------------------------------------------------------ *)
(** * Map updates *)

Lemma upd_esc_same f c d v : upd_esc f c d v c d = v.
Proof. unfold upd_esc. rewrite N.eqb_refl, denom_eqb_refl. reflexivity. Qed.

Lemma upd_esc_at f c d v c' d' :
  upd_esc f c d v c' d' = if (c' =? c) && denom_eqb d' d then v else f c' d'.
Proof. reflexivity. Qed.

Lemma upd_bal_at f a d v a' d' :
  upd_bal f a d v a' d' = if (a' =? a) && denom_eqb d' d then v else f a' d'.
Proof. reflexivity. Qed.

Lemma key_eq_true (c c' : N) (d d' : denom) :
  (c' =? c) && denom_eqb d' d = true -> c' = c /\ d' = d.
Proof. rewrite andb_true_iff, N.eqb_eq, denom_eqb_eq. tauto. Qed.

(* ------------------------------------------------------------------------------------------ *)
(** * Inversion of the primitive steps *)

Lemma emit_deposit_inv s b dest asset amt s1 :
  emit_deposit s b dest asset amt = Some s1 ->
  exists br, find_bridge s b = Some br /\ br_asset br = asset /\
    s1 = add_deposit s {| dp_bridge := b; dp_rollup := br_rollup br; dp_amount := amt;
                          dp_asset := asset; dp_dest := dest |}.
Proof.
  unfold emit_deposit. destruct (find_bridge s b) as [br|]; [|discriminate].
  destruct (denom_eqb (br_asset br) asset) eqn:E; [|discriminate].
  intros H; inversion H; subst. exists br. apply denom_eqb_eq in E. auto.
Qed.

Lemma bridge_step_inv s rcpt asset amt m s1 :
  bridge_step s rcpt asset amt m = Some s1 ->
  (is_bridge s rcpt = false /\ s1 = s) \/
  (is_bridge s rcpt = true /\ exists dpo, s1 = add_deposit s dpo /\ dp_amount dpo = amt /\
      dp_asset dpo = asset /\ dp_bridge dpo = rcpt).
Proof.
  unfold bridge_step, is_bridge. destruct (find_bridge s rcpt) as [br|] eqn:F.
  - destruct (br_disabled br); [discriminate|].
    destruct m as [|dest len]; [discriminate|].
    destruct (len =? 0); [discriminate|].
    destruct (MAX_ROLLUP_ADDRESS_BYTE_LENGTH <? len); [discriminate|].
    intros H. apply emit_deposit_inv in H. destruct H as (br' & _ & _ & ->).
    right. split; [reflexivity|]. eexists; split; [reflexivity|]. cbn. auto.
  - intros H; inversion H; subst. left; auto.
Qed.

Lemma dec_escrow_inv s c d amt s1 :
  dec_escrow s c d amt = Some s1 ->
  amt <= esc s c d /\ s1 = set_esc s (upd_esc (esc s) c d (esc s c d - amt)).
Proof.
  unfold dec_escrow. destruct (checked_sub (esc s c d) amt) as [v|] eqn:E; [|discriminate].
  apply checked_sub_Some in E. destruct E as [-> Hle]. intros H; inversion H; subst. auto.
Qed.

Lemma dec_escrow_none s c d amt : dec_escrow s c d amt = None -> esc s c d < amt.
Proof.
  unfold dec_escrow, checked_sub. destruct (N.leb_spec amt (esc s c d)); [discriminate|auto].
Qed.

Lemma credit_inv s a d amt s1 :
  credit s a d amt = Some s1 ->
  bal s a d + amt <= U128_MAX /\ s1 = set_bal s (upd_bal (bal s) a d (bal s a d + amt)).
Proof.
  unfold credit. destruct (checked_add U128_MAX (bal s a d) amt) as [v|] eqn:E; [|discriminate].
  apply checked_add_Some in E. destruct E as [-> Hle]. intros H; inversion H; subst. auto.
Qed.

Lemma register_frame s d :
  bal (register s d) = bal s /\ esc (register s d) = esc s /\
  deposits (register s d) = deposits s /\ events (register s d) = events s /\
  bridges (register s d) = bridges s.
Proof. unfold register. destruct (mem_denom d (regd s)); cbn; auto. Qed.

(* ------------------------------------------------------------------------------------------ *)
(** * Inversion of [receive_tokens] *)

Definition early (r : tres) : Prop := r = TErr SParse \/ r = TErr SAsset \/ r = TErr SBridge.

Lemma receive_inv s p s' r :
  receive_tokens s p = (s', r) ->
  (early r /\ s' = s) \/
  exists amt rcpt d s1,
    parse_amount (p_amount p) = Some amt /\ p_receiver p = Some rcpt /\
    resolve s (p_denom p) = Some d /\
    bridge_step s rcpt (snd (recv_asset p d)) amt (p_memo_dep p) = Some s1 /\
    ((r = TErr SEscrow /\ s' = s1 /\ fst (recv_asset p d) = true /\
      esc s1 (p_dchan p) (snd (recv_asset p d)) < amt) \/
     exists s2,
       (if fst (recv_asset p d) then dec_escrow s1 (p_dchan p) (snd (recv_asset p d)) amt
        else Some (register s1 (snd (recv_asset p d)))) = Some s2 /\
       ((r = TErr SCredit /\ s' = s2 /\ credit s2 rcpt (snd (recv_asset p d)) amt = None) \/
        (r = TOk /\ credit s2 rcpt (snd (recv_asset p d)) amt = Some s'))).
Proof.
  unfold receive_tokens, early.
  destruct (p_ok p); cbn [negb]; [|intros H; inversion H; auto].
  destruct (parse_amount (p_amount p)) as [amt|]; [|intros H; inversion H; auto].
  destruct (p_receiver p) as [rcpt|]; [|intros H; inversion H; auto].
  destruct (resolve s (p_denom p)) as [d|]; [|intros H; inversion H; auto].
  destruct (recv_asset p d) as [is_src asset] eqn:RA. cbn [fst snd].
  destruct (blackburn s && negb (mem_denom asset (feeassets s))); [intros H; inversion H; auto|].
  destruct (bridge_step s rcpt asset amt (p_memo_dep p)) as [s1|] eqn:B; [|intros H; inversion H; auto].
  intros H. right. exists amt, rcpt, d, s1. rewrite ?RA. cbn [fst snd].
  split; [reflexivity|]. split; [reflexivity|]. split; [reflexivity|]. split; [exact B|].
  destruct is_src.
  - destruct (dec_escrow s1 (p_dchan p) asset amt) as [s2|] eqn:D.
    + right. exists s2. split; [reflexivity|].
      destruct (credit s2 rcpt asset amt) as [s3|] eqn:C; inversion H; subst; auto.
    + left. inversion H; subst. repeat split; auto. apply dec_escrow_none; exact D.
  - right. exists (register s1 asset). split; [reflexivity|].
    destruct (credit (register s1 asset) rcpt asset amt) as [s3|] eqn:C; inversion H; subst; auto.
Qed.

(* ------------------------------------------------------------------------------------------ *)
(** * A failed receive: no effect outside the recorded input class (F5) *)

Lemma obs_eq_refl s : obs_eq s s.
Proof. unfold obs_eq; auto. Qed.

Lemma failed_receive_no_effect s p s' st :
  receive_tokens s p = (s', TErr st) -> f5_partial s p = false -> obs_eq s s'.
Proof.
  intros H K. unfold f5_partial in K. rewrite H in K. cbn [snd] in K.
  apply receive_inv in H.
  destruct H as [[_ ->]|(amt & rcpt & d & s1 & PA & PR & RS & BS & H)]; [apply obs_eq_refl|].
  assert (TB : recv_to_bridge s p = is_bridge s rcpt) by (unfold recv_to_bridge; rewrite PR; reflexivity).
  assert (SRC : recv_is_source s p = fst (recv_asset p d)).
  { unfold recv_is_source. rewrite RS. unfold recv_asset. reflexivity. }
  apply bridge_step_inv in BS.
  destruct H as [(E & -> & IS & _)|(s2 & D & [(E & -> & C)|(E & _)])]; [| |discriminate].
  - (* insufficient escrow *)
    inversion E; subst st. rewrite TB in K.
    destruct BS as [[_ ->]|[B _]]; [apply obs_eq_refl|congruence].
  - (* overflowing credit *)
    inversion E; subst st. rewrite TB, SRC in K. apply orb_false_iff in K. destruct K as [K1 K2].
    rewrite K2 in D. apply Some_inj in D; subst.
    destruct BS as [[_ ->]|[B _]]; [|congruence].
    destruct (register_frame s (snd (recv_asset p d))) as (Eb & Ee & Ed & Ev & _).
    unfold obs_eq. rewrite Eb, Ee, Ed, Ev. auto.
Qed.

(** The same at the level of a step: an error acknowledgement, outside F5, changes nothing the
    property names. *)
Lemma failed_receive_step_no_effect s q p s' :
  step s (ORecv true q p) = (s', OutAck false) -> f5_partial s p = false -> obs_eq s s'.
Proof.
  cbn [step]. unfold recv_execute. destruct (receive_tokens s p) as [s1 r] eqn:R.
  destruct ((p_dport p =? TRANSFER) && memN (p_dchan p) (chans s1) &&
            negb (mem_ack (p_dchan p) q (acked s1))); [|discriminate].
  intros H K. inversion H; subst s'. destruct r as [|st]; [discriminate|].
  pose proof (failed_receive_no_effect _ _ _ _ R K) as O. unfold obs_eq in *; cbn; exact O.
Qed.

(** A callback that fails, and a rejected packet, leave the whole state as it was
    (transaction-level rollback; true of the model by construction). *)
Lemma failed_callback_no_effect s o s' :
  (step s o = (s', OutFail) \/ step s o = (s', OutRejected) \/ step s o = (s', OutWd false)) ->
  s' = s.
Proof.
  destruct o as [w|ck q p|k p|p|a b]; cbn [step].
  - destruct (withdraw s w) as [s1 ok] eqn:W. intros [H|[H|H]]; inversion H; subst.
    unfold withdraw in W.
    destruct (pd_under (w_denom w)); [|inversion W; auto].
    destruct (w_amount w =? 0); [inversion W; auto|].
    destruct (U128_MAX <? w_amount w); [inversion W; auto|].
    match type of W with (if negb ?b then _ else _) = _ => destruct b end; cbn [negb] in W;
      [|inversion W; auto].
    destruct (negb (memN (w_chan w) (chans s))); [inversion W; auto|].
    match type of W with match ?x with _ => _ end = _ => destruct x end; [|inversion W; auto].
    destruct (wd_is_source w).
    + match type of W with match ?x with _ => _ end = _ => destruct x end; inversion W; auto.
    + inversion W.
  - destruct ck.
    + unfold recv_execute. destruct (receive_tokens s p) as [s1 r].
      destruct ((p_dport p =? TRANSFER) && memN (p_dchan p) (chans s1) &&
                negb (mem_ack (p_dchan p) q (acked s1)));
        intros [H|[H|H]]; inversion H; auto.
    + intros [H|[H|H]]; inversion H; auto.
  - destruct k; try (intros [H|[H|H]]; inversion H; auto; fail).
    unfold refund_execute. destruct (negb (refund_check s p)); [intros [H|[H|H]]; inversion H; auto|].
    destruct (refund_tokens s p) as [s1 [|st]]; intros [H|[H|H]]; inversion H; auto.
  - unfold refund_execute. destruct (negb (refund_check s p)); [intros [H|[H|H]]; inversion H; auto|].
    destruct (refund_tokens s p) as [s1 [|st]]; intros [H|[H|H]]; inversion H; auto.
  - intros [H|[H|H]]; inversion H.
Qed.

(* ------------------------------------------------------------------------------------------ *)
(** * Inversion of [refund_tokens] and [withdraw] (successful runs) *)

Lemma refund_ok_inv s p s' :
  refund_tokens s p = (s', TOk) ->
  exists amt rcv d s1 s2,
    parse_amount (p_amount p) = Some amt /\ p_sender p = Some rcv /\
    resolve s (p_denom p) = Some d /\
    bal s1 = bal s /\ esc s1 = esc s /\
    (if refund_is_source p d then dec_escrow s1 (p_schan p) d amt else Some s1) = Some s2 /\
    credit s2 rcv d amt = Some s'.
Proof.
  unfold refund_tokens.
  destruct (p_ok p); cbn [negb]; [|discriminate].
  destruct (parse_amount (p_amount p)) as [amt|]; [|discriminate].
  destruct (p_sender p) as [rcv|]; [|discriminate].
  destruct (resolve s (p_denom p)) as [d|]; [|discriminate].
  match goal with |- context [match ?x with Some s1 => _ | None => (s, TErr SBridge) end] =>
    destruct x as [s1|] eqn:M end; [|discriminate].
  assert (F : bal s1 = bal s /\ esc s1 = esc s).
  { destruct (p_memo_wfr p) as [|dest len].
    - inversion M; auto.
    - apply emit_deposit_inv in M. destruct M as (br & _ & _ & ->). cbn; auto. }
  destruct (if refund_is_source p d then dec_escrow s1 (p_schan p) d amt else Some s1) as [s2|] eqn:D;
    [|discriminate].
  destruct (credit s2 rcv d amt) as [s3|] eqn:C; [|discriminate].
  intros H; inversion H; subst s3. exists amt, rcv, d, s1, s2. tauto.
Qed.

Lemma withdraw_ok_inv s w s' :
  withdraw s w = (s', true) ->
  exists d from,
    pd_under (w_denom w) = Some d /\ w_amount w <> 0 /\
    from = match w_bridge w with Some b => b | None => w_signer w end /\
    w_amount w <= bal s from d /\
    (forall a' d', bal s' a' d' = upd_bal (bal s) from d (bal s from d - w_amount w) a' d') /\
    (if wd_is_source w
     then esc s (w_chan w) d + w_amount w <= U128_MAX /\
          forall c' d', esc s' c' d' =
            upd_esc (esc s) (w_chan w) d (esc s (w_chan w) d + w_amount w) c' d'
     else forall c' d', esc s' c' d' = esc s c' d') /\
    deposits s' = deposits s /\ events s' = events s.
Proof.
  unfold withdraw.
  destruct (pd_under (w_denom w)) as [d|]; [|discriminate].
  destruct (w_amount w =? 0) eqn:Z; [discriminate|]. apply N.eqb_neq in Z.
  destruct (U128_MAX <? w_amount w); [discriminate|].
  match goal with |- (if negb ?b then _ else _) = _ -> _ => destruct b end; cbn [negb]; [|discriminate].
  destruct (negb (memN (w_chan w) (chans s))); [discriminate|].
  set (from := match w_bridge w with Some b => b | None => w_signer w end).
  destruct (checked_sub (bal s from d) (w_amount w)) as [nb|] eqn:CS; [|discriminate].
  apply checked_sub_Some in CS. destruct CS as [-> Hle].
  set (s1 := match w_bridge w with Some b => set_wevents s ((b, w_evid w) :: wevents s) | None => s end).
  assert (F1 : bal s1 = bal s /\ esc s1 = esc s /\ deposits s1 = deposits s /\ events s1 = events s).
  { unfold s1. destruct (w_bridge w); cbn; auto. }
  destruct F1 as (Fb & Fe & Fd & Fv).
  destruct (wd_is_source w).
  - cbn [set_bal esc]. rewrite Fe.
    destruct (checked_add U128_MAX (esc s (w_chan w) d) (w_amount w)) as [ne|] eqn:CA; [|discriminate].
    apply checked_add_Some in CA. destruct CA as [-> Hle2].
    intros H; inversion H; subst s'. exists d, from. cbn. rewrite ?Fb, ?Fe, ?Fd, ?Fv.
    repeat split; auto.
  - intros H; inversion H; subst s'. exists d, from. cbn. rewrite ?Fb, ?Fe, ?Fd, ?Fv.
    repeat split; auto.
Qed.

(* ------------------------------------------------------------------------------------------ *)
(** * The escrow identity, one step *)

Lemma origin_false_of_prefix c a : has_prefix a TRANSFER c = true -> origin c a = false.
Proof. unfold origin. intros ->; reflexivity. Qed.

Lemma step_identity s o s' x c a :
  step s o = (s', x) -> origin c a = true -> known_for_identity s o = false ->
  esc s' c a + returned_of s o x c a + refunded_of s o x c a = esc s c a + sent_of o x c a.
Proof.
  intros H OR K. destruct o as [w|ck q p|k p|p|ad b]; cbn [step] in H.
  - (* withdrawal *)
    destruct (withdraw s w) as [s1 ok] eqn:W. inversion H; subst s' x. clear H.
    cbn [returned_of refunded_of]. rewrite !N.add_0_r.
    destruct ok.
    + apply withdraw_ok_inv in W.
      destruct W as (d & from & PU & _ & _ & _ & _ & E & _).
      cbn [sent_of]. rewrite PU.
      cbn [known_for_identity] in K. unfold f8_withdrawal in K.
      unfold wd_is_source in E.
      destruct (w_denom w) as [d0|d0|] eqn:WD; cbn in PU; inversion PU; subst d0.
      * destruct (has_prefix d TRANSFER (w_chan w)) eqn:HP; cbn [negb] in E.
        -- rewrite E. destruct ((c =? w_chan w) && denom_eqb a d) eqn:KE; [|lia].
           apply key_eq_true in KE. destruct KE as [-> ->].
           apply origin_false_of_prefix in HP. congruence.
        -- destruct E as [_ E]. rewrite E, upd_esc_at.
           destruct ((c =? w_chan w) && denom_eqb a d) eqn:KE; [|lia].
           apply key_eq_true in KE. destruct KE as [-> ->]. lia.
      * rewrite E. destruct ((c =? w_chan w) && denom_eqb a d) eqn:KE; [|lia].
        apply key_eq_true in KE. destruct KE as [-> ->]. congruence.
    + cbn [sent_of].
      assert (s1 = s) by (apply (failed_callback_no_effect s (OWd w)); right; right; cbn [step];
                          rewrite W; reflexivity).
      subst; lia.
  - (* incoming packet *)
    cbn [refunded_of sent_of]. rewrite !N.add_0_r.
    destruct ck; [|inversion H; subst; cbn; lia].
    unfold recv_execute in H. destruct (receive_tokens s p) as [s1 r] eqn:R.
    destruct ((p_dport p =? TRANSFER) && memN (p_dchan p) (chans s1) &&
              negb (mem_ack (p_dchan p) q (acked s1)));
      [|inversion H; subst; cbn; lia].
    inversion H; subst s' x. clear H. cbn [esc set_acked].
    cbn [known_for_identity] in K. unfold f5_escrow_leak in K. rewrite R in K. cbn [snd] in K.
    apply receive_inv in R.
    destruct R as [[E ->]|(amt & rcpt & d & s2 & PA & PR & RS & BS & R)].
    { destruct E as [ -> | [ -> | -> ] ]; cbn; lia. }
    assert (SRC : recv_is_source s p = fst (recv_asset p d)).
    { unfold recv_is_source. rewrite RS. reflexivity. }
    assert (FB : esc s2 = esc s).
    { apply bridge_step_inv in BS. destruct BS as [[_ ->]|[_ (dpo & -> & _)]]; reflexivity. }
    destruct R as [(-> & -> & _ & _)|(s3 & D & [(-> & -> & C)|(-> & C)])].
    + cbn [returned_of]. rewrite FB. lia.
    + (* credit overflow: only the non-source case is left *)
      cbn [returned_of]. rewrite SRC in K. rewrite K in D. apply Some_inj in D; subst.
      destruct (register_frame s2 (snd (recv_asset p d))) as (_ & Ee & _). rewrite Ee, FB. lia.
    + apply credit_inv in C. destruct C as [_ ->]. cbn [esc set_bal].
      cbn [returned_of]. rewrite RS. unfold amount_of. rewrite PA.
      unfold recv_asset in D. cbn [fst snd] in D.
      destruct (has_prefix d (p_sport p) (p_schan p)) eqn:HP; cbn [andb].
      * apply dec_escrow_inv in D. destruct D as [Hle ->]. try rewrite FB in Hle; try rewrite Fe in Hle. cbn [esc set_esc].
        rewrite upd_esc_at, FB.
        destruct ((c =? p_dchan p) && denom_eqb a (pop d)) eqn:KE; [|lia].
        apply key_eq_true in KE. destruct KE as [-> ->]. lia.
      * apply Some_inj in D; subst.
        destruct (register_frame s2 (push (p_dport p, p_dchan p) d)) as (_ & Ee & _).
        rewrite Ee, FB. lia.
  - (* acknowledgement *)
    cbn [returned_of sent_of]. rewrite !N.add_0_r.
    destruct k; try (inversion H; subst; cbn; lia).
    unfold refund_execute in H.
    destruct (negb (refund_check s p)); [inversion H; subst; cbn; lia|].
    destruct (refund_tokens s p) as [s1 [|st]] eqn:R; [|inversion H; subst; cbn; lia].
    inversion H; subst s' x. clear H. cbn [refunded_of]. unfold refund_amount.
    apply refund_ok_inv in R.
    destruct R as (amt & rcv & d & s2 & s3 & PA & PS & RS & Fb & Fe & D & C).
    rewrite RS. unfold amount_of. rewrite PA.
    apply credit_inv in C. destruct C as [_ ->]. cbn [esc set_bal].
    destruct (refund_is_source p d); cbn [andb].
    + apply dec_escrow_inv in D. destruct D as [Hle ->]. try rewrite FB in Hle; try rewrite Fe in Hle. cbn [esc set_esc].
      rewrite upd_esc_at, Fe.
      destruct ((c =? p_schan p) && denom_eqb a d) eqn:KE; [|lia].
      apply key_eq_true in KE. destruct KE as [-> ->]. lia.
    + apply Some_inj in D; subst. rewrite Fe. lia.
  - (* timeout *)
    cbn [returned_of sent_of]. rewrite !N.add_0_r.
    unfold refund_execute in H.
    destruct (negb (refund_check s p)); [inversion H; subst; cbn; lia|].
    destruct (refund_tokens s p) as [s1 [|st]] eqn:R; [|inversion H; subst; cbn; lia].
    inversion H; subst s' x. clear H. cbn [refunded_of]. unfold refund_amount.
    apply refund_ok_inv in R.
    destruct R as (amt & rcv & d & s2 & s3 & PA & PS & RS & Fb & Fe & D & C).
    rewrite RS. unfold amount_of. rewrite PA.
    apply credit_inv in C. destruct C as [_ ->]. cbn [esc set_bal].
    destruct (refund_is_source p d); cbn [andb].
    + apply dec_escrow_inv in D. destruct D as [Hle ->]. try rewrite FB in Hle; try rewrite Fe in Hle. cbn [esc set_esc].
      rewrite upd_esc_at, Fe.
      destruct ((c =? p_schan p) && denom_eqb a d) eqn:KE; [|lia].
      apply key_eq_true in KE. destruct KE as [-> ->]. lia.
    + apply Some_inj in D; subst. rewrite Fe. lia.
  - inversion H; subst. cbn. lia.
Qed.

(** * The escrow identity over a whole history *)
Theorem escrow_identity ops : forall s c a,
  origin c a = true -> clean s ops = true ->
  esc (fst (run s ops)) c a + returned_sum s ops c a + refunded_sum s ops c a
  = esc s c a + sent_sum s ops c a.
Proof.
  induction ops as [|o r IH]; intros s c a OR CL.
  - cbn. lia.
  - cbn [clean] in CL. apply andb_true_iff in CL. destruct CL as [K CL].
    apply negb_true_iff in K.
    cbn [run returned_sum refunded_sum sent_sum].
    destruct (step s o) as [s1 x] eqn:ST. cbn [fst] in CL.
    pose proof (step_identity _ _ _ _ c a ST OR K) as S1.
    pose proof (IH s1 c a OR CL) as S2.
    destruct (run s1 r) as [s2 xs]. cbn [fst] in *. lia.
Qed.

(** What has been returned or refunded over a channel never exceeds what was there plus what
    was sent out. *)
Corollary total_release_bounded ops s c a :
  origin c a = true -> clean s ops = true ->
  returned_sum s ops c a + refunded_sum s ops c a <= esc s c a + sent_sum s ops c a.
Proof. intros OR CL. pose proof (escrow_identity ops s c a OR CL). lia. Qed.

(* ------------------------------------------------------------------------------------------ *)
(** * An incoming packet or refund never releases more than is escrowed *)

(** For every incoming step (whatever its outcome): no escrow balance grows; and whenever an
    escrow balance shrinks, it shrinks by at most what it held (it cannot go negative), which
    for successful steps is exactly the amount credited — see [release_exact]. *)
Lemma incoming_escrow_monotone s o s' x :
  step s o = (s', x) -> incoming o = true -> forall c a, esc s' c a <= esc s c a.
Proof.
  intros H I c a. destruct o as [w|ck q p|k p|p|ad b]; cbn in I; try discriminate; cbn [step] in H.
  - destruct ck; [|inversion H; subst; lia].
    unfold recv_execute in H. destruct (receive_tokens s p) as [s1 r] eqn:R.
    destruct ((p_dport p =? TRANSFER) && memN (p_dchan p) (chans s1) &&
              negb (mem_ack (p_dchan p) q (acked s1))); [|inversion H; subst; lia].
    inversion H; subst s' x. cbn [esc set_acked].
    apply receive_inv in R.
    destruct R as [[_ ->]|(amt & rcpt & d & s2 & PA & PR & RS & BS & R)]; [lia|].
    assert (FB : esc s2 = esc s).
    { apply bridge_step_inv in BS. destruct BS as [[_ ->]|[_ (dpo & -> & _)]]; reflexivity. }
    assert (STEP : forall s3, (if fst (recv_asset p d)
                    then dec_escrow s2 (p_dchan p) (snd (recv_asset p d)) amt
                    else Some (register s2 (snd (recv_asset p d)))) = Some s3 ->
                   esc s3 c a <= esc s c a).
    { intros s3 D. destruct (fst (recv_asset p d)).
      - apply dec_escrow_inv in D. destruct D as [Hle ->]. try rewrite FB in Hle; try rewrite Fe in Hle. cbn [esc set_esc].
        rewrite upd_esc_at, FB.
        destruct ((c =? p_dchan p) && denom_eqb a (snd (recv_asset p d))) eqn:KE; [|lia].
        apply key_eq_true in KE. destruct KE as [-> ->]. lia.
      - apply Some_inj in D; subst.
        destruct (register_frame s2 (snd (recv_asset p d))) as (_ & Ee & _). rewrite Ee, FB. lia. }
    destruct R as [(_ & -> & _ & _)|(s3 & D & [(_ & -> & _)|(_ & C)])].
    + rewrite FB; lia.
    + apply STEP; exact D.
    + apply credit_inv in C. destruct C as [_ ->]. cbn [esc set_bal]. apply STEP; exact D.
  - destruct k; try (inversion H; subst; lia).
    unfold refund_execute in H.
    destruct (negb (refund_check s p)); [inversion H; subst; lia|].
    destruct (refund_tokens s p) as [s1 [|st]] eqn:R; [|inversion H; subst; lia].
    inversion H; subst s' x.
    apply refund_ok_inv in R.
    destruct R as (amt & rcv & d & s2 & s3 & PA & PS & RS & Fb & Fe & D & C).
    apply credit_inv in C. destruct C as [_ ->]. cbn [esc set_bal].
    destruct (refund_is_source p d).
    + apply dec_escrow_inv in D. destruct D as [Hle ->]. try rewrite FB in Hle; try rewrite Fe in Hle. cbn [esc set_esc].
      rewrite upd_esc_at, Fe.
      destruct ((c =? p_schan p) && denom_eqb a d) eqn:KE; [|lia].
      apply key_eq_true in KE. destruct KE as [-> ->]. lia.
    + apply Some_inj in D; subst. rewrite Fe. lia.
  - unfold refund_execute in H.
    destruct (negb (refund_check s p)); [inversion H; subst; lia|].
    destruct (refund_tokens s p) as [s1 [|st]] eqn:R; [|inversion H; subst; lia].
    inversion H; subst s' x.
    apply refund_ok_inv in R.
    destruct R as (amt & rcv & d & s2 & s3 & PA & PS & RS & Fb & Fe & D & C).
    apply credit_inv in C. destruct C as [_ ->]. cbn [esc set_bal].
    destruct (refund_is_source p d).
    + apply dec_escrow_inv in D. destruct D as [Hle ->]. try rewrite FB in Hle; try rewrite Fe in Hle. cbn [esc set_esc].
      rewrite upd_esc_at, Fe.
      destruct ((c =? p_schan p) && denom_eqb a d) eqn:KE; [|lia].
      apply key_eq_true in KE. destruct KE as [-> ->]. lia.
    + apply Some_inj in D; subst. rewrite Fe. lia.
Qed.

(** A successfully received source-zone asset: the amount credited was in the channel's escrow
    before, leaves it, and reaches the recipient — nothing more. *)
Lemma release_exact_recv s q p s' :
  step s (ORecv true q p) = (s', OutAck true) ->
  forall d, resolve s (p_denom p) = Some d -> has_prefix d (p_sport p) (p_schan p) = true ->
  exists rcpt, p_receiver p = Some rcpt /\
    amount_of p <= esc s (p_dchan p) (pop d) /\
    esc s' (p_dchan p) (pop d) = esc s (p_dchan p) (pop d) - amount_of p /\
    bal s' rcpt (pop d) = bal s rcpt (pop d) + amount_of p.
Proof.
  cbn [step]. unfold recv_execute. destruct (receive_tokens s p) as [s1 r] eqn:R.
  destruct ((p_dport p =? TRANSFER) && memN (p_dchan p) (chans s1) &&
            negb (mem_ack (p_dchan p) q (acked s1))); [|discriminate].
  intros H d RS HP. inversion H; subst s'. destruct r; [|discriminate]. clear H.
  apply receive_inv in R.
  destruct R as [[[E|[E|E]] _]|(amt & rcpt & d' & s2 & PA & PR & RS' & BS & R)]; try discriminate.
  rewrite RS in RS'. inversion RS'; subst d'.
  unfold recv_asset in *. rewrite HP in *. cbn [fst snd] in *.
  destruct R as [(E & _)|(s3 & D & [(E & _)|(_ & C)])]; try discriminate.
  apply dec_escrow_inv in D. destruct D as [Hle ->]. try rewrite FB in Hle; try rewrite Fe in Hle.
  apply credit_inv in C. destruct C as [_ ->].
  assert (FB : esc s2 = esc s /\ bal s2 = bal s).
  { apply bridge_step_inv in BS. destruct BS as [[_ ->]|[_ (dpo & -> & _)]]; split; reflexivity. }
  destruct FB as [Fe Fb].
  exists rcpt. unfold amount_of. rewrite PA. cbn.
  rewrite upd_esc_same, upd_bal_at, N.eqb_refl, denom_eqb_refl. cbn [andb].
  rewrite Fe in *. rewrite Fb. auto.
Qed.

Lemma release_exact_refund s p s' :
  refund_execute s p = (s', OutOk) ->
  forall d, resolve s (p_denom p) = Some d -> refund_is_source p d = true ->
  exists rcv, p_sender p = Some rcv /\
    amount_of p <= esc s (p_schan p) d /\
    esc s' (p_schan p) d = esc s (p_schan p) d - amount_of p /\
    bal s' rcv d = bal s rcv d + amount_of p.
Proof.
  unfold refund_execute. destruct (negb (refund_check s p)); [discriminate|].
  destruct (refund_tokens s p) as [s1 [|st]] eqn:R; [|discriminate].
  intros H d RS SRC. inversion H; subst s'. clear H.
  apply refund_ok_inv in R.
  destruct R as (amt & rcv & d' & s2 & s3 & PA & PS & RS' & Fb & Fe & D & C).
  rewrite RS in RS'. inversion RS'; subst d'. rewrite SRC in D.
  apply dec_escrow_inv in D. destruct D as [Hle ->]. try rewrite FB in Hle; try rewrite Fe in Hle.
  apply credit_inv in C. destruct C as [_ ->].
  exists rcv. unfold amount_of. rewrite PA. cbn.
  rewrite upd_esc_same, upd_bal_at, N.eqb_refl, denom_eqb_refl. cbn [andb].
  rewrite Fe in *. rewrite Fb. auto.
Qed.

(* ------------------------------------------------------------------------------------------ *)
(** * F8: which withdrawals escrow *)

Lemma withdraw_trace_form_escrows s w s' d :
  withdraw s w = (s', true) -> w_denom w = PTrace d -> origin (w_chan w) d = true ->
  esc s' (w_chan w) d = esc s (w_chan w) d + w_amount w.
Proof.
  intros W WD OR. apply withdraw_ok_inv in W.
  destruct W as (d' & from & PU & _ & _ & _ & _ & E & _).
  rewrite WD in PU. cbn in PU. inversion PU; subst d'.
  unfold wd_is_source in E. rewrite WD in E. unfold origin in OR. rewrite OR in E.
  destruct E as [_ E]. rewrite E. apply upd_esc_same.
Qed.

Lemma withdraw_ibc_form_burns s w s' d :
  withdraw s w = (s', true) -> w_denom w = PIbc d ->
  forall c a, esc s' c a = esc s c a.
Proof.
  intros W WD c a. apply withdraw_ok_inv in W.
  destruct W as (d' & from & PU & _ & _ & _ & _ & E & _).
  unfold wd_is_source in E. rewrite WD in E. apply E.
Qed.
