(** C12 — proofs of the statements of BatchSpec.v. *)
From Astria Require Import Relayer.BatchModel Relayer.BatchSpec.

(** * lookup / push on the per-rollup association list *)

Lemma rd_for_push r l x :
  rd_for r (rd_push l x) = if r =? rd_rollup x then rd_for r l ++ [x] else rd_for r l.
Proof.
  induction l as [|[k xs] t IH]; cbn [rd_push].
  - unfold rd_for; cbn [find fst snd]. rewrite N.eqb_sym.
    destruct (N.eqb_spec r (rd_rollup x)); reflexivity.
  - destruct (N.eqb_spec k (rd_rollup x)) as [E|E].
    + unfold rd_for; cbn [find fst snd]. subst k.
      rewrite (N.eqb_sym (rd_rollup x) r).
      destruct (N.eqb_spec r (rd_rollup x)); reflexivity.
    + unfold rd_for in *; cbn [find fst snd].
      destruct (N.eqb_spec k r) as [E2|E2].
      * subst k. destruct (N.eqb_spec r (rd_rollup x)); [contradiction|reflexivity].
      * exact IH.
Qed.

Lemma rd_push_keys l x :
  map fst (rd_push l x) = if existsb (N.eqb (rd_rollup x)) (map fst l) then map fst l
                          else map fst l ++ [rd_rollup x].
Proof.
  induction l as [|[k xs] t IH]; cbn [rd_push map existsb fst app]; [reflexivity|].
  rewrite (N.eqb_sym (rd_rollup x) k).
  destruct (N.eqb_spec k (rd_rollup x)); cbn [map fst orb]; [reflexivity|].
  rewrite IH. destruct (existsb _ _); reflexivity.
Qed.

Lemma NoDup_app_snoc {A} (l : list A) x : NoDup l -> ~ In x l -> NoDup (l ++ [x]).
Proof.
  induction l as [|a l IH]; intros Hn Hx; cbn.
  - constructor; [intros []|constructor].
  - inversion Hn; subst. constructor.
    + rewrite in_app_iff. intros [H|[H|[]]]; [contradiction|]. subst. apply Hx. left. reflexivity.
    + apply IH; [assumption|]. intros H. apply Hx. right. exact H.
Qed.

Lemma rd_push_nodup l x : NoDup (map fst l) -> NoDup (map fst (rd_push l x)).
Proof.
  intros H. rewrite rd_push_keys.
  destruct (existsb (N.eqb (rd_rollup x)) (map fst l)) eqn:E; [exact H|].
  apply NoDup_app_snoc; [exact H|].
  intros Hin. assert (existsb (N.eqb (rd_rollup x)) (map fst l) = true).
  { apply existsb_exists. exists (rd_rollup x). split; [exact Hin|apply N.eqb_refl]. }
  congruence.
Qed.

Lemma rd_push_nonempty l x :
  (forall e, In e l -> snd e <> []) -> forall e, In e (rd_push l x) -> snd e <> [].
Proof.
  induction l as [|[k xs] t IH]; cbn [rd_push]; intros H e He.
  - destruct He as [<-|[]]. cbn. discriminate.
  - destruct (k =? rd_rollup x).
    + destruct He as [<-|He]; [cbn; destruct xs; discriminate|].
      apply H. right. exact He.
    + destruct He as [<-|He]; [apply (H (k, xs)); left; reflexivity|].
      apply IH; [|exact He]. intros e' He'. apply H. right. exact He'.
Qed.

(** * well-formed inputs *)

Definition WFI (f : list N) (i : input) : Prop :=
  in_meta i = map meta_of (in_blocks i) /\
  (forall r, rd_for r (in_rd i) = expected_rd f r (in_blocks i)) /\
  NoDup (map fst (in_rd i)) /\
  (forall e, In e (in_rd i) -> snd e <> []).

Lemma WFI_empty f : WFI f empty_input.
Proof.
  unfold WFI, empty_input, expected_rd, rd_for; cbn. repeat split.
  - intros r. destruct (should_include f r); reflexivity.
  - constructor.
  - intros e [].
Qed.

Definition pushes (f : list N) (xs : list rdata) (l : list (N * list rdata)) :=
  fold_left (fun acc x => if should_include f (rd_rollup x) then rd_push acc x else acc) xs l.

Lemma pushes_spec f xs : forall l,
  (forall r, rd_for r (pushes f xs l) =
             rd_for r l ++ (if should_include f r then filter (fun x => rd_rollup x =? r) xs else [])) /\
  (NoDup (map fst l) -> NoDup (map fst (pushes f xs l))) /\
  ((forall e, In e l -> snd e <> []) -> forall e, In e (pushes f xs l) -> snd e <> []).
Proof.
  induction xs as [|x xs IH]; intros l; cbn [pushes fold_left filter].
  - repeat split; auto. intros r. destruct (should_include f r); rewrite app_nil_r; reflexivity.
  - fold (pushes f xs (if should_include f (rd_rollup x) then rd_push l x else l)).
    destruct (IH (if should_include f (rd_rollup x) then rd_push l x else l)) as (A & B & C).
    repeat split.
    + intros r. rewrite A. destruct (should_include f (rd_rollup x)) eqn:Ex.
      * rewrite rd_for_push. rewrite (N.eqb_sym (rd_rollup x) r).
        destruct (N.eqb_spec r (rd_rollup x)) as [->|Hne].
        -- rewrite Ex. rewrite <- app_assoc. reflexivity.
        -- reflexivity.
      * destruct (N.eqb_spec (rd_rollup x) r) as [<-|Hne]; [rewrite Ex|]; reflexivity.
    + intros H. apply B. destruct (should_include f (rd_rollup x)); [apply rd_push_nodup|]; exact H.
    + intros H. apply C. destruct (should_include f (rd_rollup x)); [apply rd_push_nonempty|]; exact H.
Qed.

Lemma WFI_extend f i b : WFI f i -> WFI f (extend f i b).
Proof.
  intros (Hm & Hr & Hn & He). unfold extend. fold (pushes f (rdata_of b) (in_rd i)).
  destruct (pushes_spec f (rdata_of b) (in_rd i)) as (A & B & C).
  unfold WFI; cbn [in_blocks in_meta in_rd]. repeat split.
  - rewrite Hm, map_app. reflexivity.
  - intros r. rewrite A, Hr. unfold expected_rd.
    destruct (should_include f r).
    + rewrite flat_map_app, filter_app. cbn [flat_map]. rewrite app_nil_r. reflexivity.
    + reflexivity.
  - apply B, Hn.
  - apply C, He.
Qed.

Lemma WFI_blocks_nil f i : WFI f i -> in_meta i = [] -> in_blocks i = [].
Proof.
  intros (Hm & _) H. rewrite Hm in H. destruct (in_blocks i); [reflexivity|discriminate].
Qed.

(** * the state invariant *)

Definition WFN (csize : list block -> N) (f : list N) (n : nsub) : Prop :=
  WFI f (ns_input n) /\
  (in_blocks (ns_input n) <> [] ->
     ns_size n = csize (in_blocks (ns_input n)) /\ ns_size n <= MAX_PAYLOAD).

Definition Inv (csize : list block -> N) (s : st) : Prop :=
  WFN csize (filt s) (next s) /\
  (pending s <> None -> in_blocks (ns_input (next s)) <> []) /\
  (forall b, halted s = Some b -> MAX_PAYLOAD < csize [b]).

Lemma WFN_empty csize f : WFN csize f empty_nsub.
Proof. split; [apply WFI_empty|]. cbn. intros H; contradiction H; reflexivity. Qed.

Lemma Inv_init csize f : Inv csize (init f).
Proof.
  unfold Inv, init; cbn. split; [apply WFN_empty|]. split.
  - intros H; contradiction H; reflexivity.
  - intros b H; discriminate.
Qed.

(** [try_add] case analysis *)
Lemma try_add_cases csize f n b n' r :
  WFN csize f n -> try_add csize f n b = (n', r) ->
  WFN csize f n' /\
  match r with
  | AddOk => in_blocks (ns_input n') = in_blocks (ns_input n) ++ [b]
  | AddFull => n' = n /\ in_blocks (ns_input n) <> []
  | AddOversized => n' = n /\ in_blocks (ns_input n) = [] /\ MAX_PAYLOAD < csize [b]
  end.
Proof.
  intros [Hw Hs] H. unfold try_add in H.
  destruct (N.leb_spec (csize (in_blocks (extend f (ns_input n) b))) MAX_PAYLOAD) as [Hle|Hgt].
  - injection H as Hn' Hr. subst n' r. split.
    + split; cbn [ns_input ns_size]; [apply WFI_extend, Hw|]. intros _. split; [reflexivity|exact Hle].
    + reflexivity.
  - destruct (N.eqb_spec (lenN (in_meta (extend f (ns_input n) b))) 1) as [H1|H1]; cbn [andb] in H.
    + destruct (N.ltb_spec MAX_PAYLOAD (csize (in_blocks (extend f (ns_input n) b)))) as [Hlt|Hnlt]; [|lia].
      injection H as Hn' Hr. subst n' r. split; [split; assumption|].
      split; [reflexivity|].
      assert (Hnil : in_meta (ns_input n) = []).
      { unfold extend, lenN in H1; cbn [in_meta] in H1. rewrite app_length in H1. cbn in H1.
        destruct (in_meta (ns_input n)); [reflexivity|cbn in H1; lia]. }
      pose proof (WFI_blocks_nil _ _ Hw Hnil) as Hb. split; [exact Hb|].
      unfold extend in Hlt; cbn [in_blocks] in Hlt. rewrite Hb in Hlt. exact Hlt.
    + injection H as Hn' Hr. subst n' r. split; [split; assumption|].
      split; [reflexivity|]. intros Hb. apply H1.
      unfold extend, lenN; cbn [in_meta]. destruct Hw as (Hm & _). rewrite Hm, Hb. reflexivity.
Qed.

Definition good (csize : list block -> N) (f : list N) (sb : submission) : Prop :=
  WFI f (sub_input sb) /\ sub_blocks sb <> [] /\
  sub_size sb = csize (sub_blocks sb) /\ sub_size sb <= MAX_PAYLOAD.

Lemma take_cases csize f n n' o :
  WFN csize f n -> take n = (n', o) ->
  n' = empty_nsub /\
  match o with
  | None => in_blocks (ns_input n) = []
  | Some sb => sub_blocks sb = in_blocks (ns_input n) /\ good csize f sb
  end.
Proof.
  intros [Hw Hs] H. unfold take in H.
  destruct (in_meta (ns_input n)) eqn:Em; inversion H; subst; clear H; (split; [reflexivity|]).
  - eapply WFI_blocks_nil; eauto.
  - unfold sub_blocks, good; cbn [sub_input sub_size]. split; [reflexivity|].
    assert (Hne : in_blocks (ns_input n) <> []).
    { intros Hb. destruct Hw as (Hm & _). rewrite Hm, Hb in Em. discriminate. }
    destruct (Hs Hne) as [A B]. unfold sub_blocks; cbn [sub_input].
    split; [exact Hw|]. split; [exact Hne|]. split; assumption.
Qed.

(** [add_block] *)
Lemma add_block_spec csize s b s' r :
  Inv csize s -> halted s = None -> pending s = None -> add_block csize s b = (s', r) ->
  Inv csize s' /\ filt s' = filt s /\ held s' = held s ++ [b].
Proof.
  intros (Hn & Hp & Hh) Hhalt Hpend H. unfold add_block in H.
  destruct (try_add csize (filt s) (next s) b) as [n' r'] eqn:Et.
  destruct (try_add_cases _ _ _ _ _ _ Hn Et) as [Hn' Hc].
  destruct r'; injection H as Hs' Hr; subst s' r; unfold held, Inv; cbn [next pending halted filt].
  - rewrite Hpend, Hhalt. cbn [opt_list]. rewrite Hc, !app_nil_r.
    split; [split; [exact Hn'|split]|split; reflexivity].
    + intros C; contradiction C; reflexivity.
    + intros b0 C; discriminate.
  - destruct Hc as [-> Hne]. rewrite Hhalt, Hpend. cbn [opt_list]. rewrite !app_nil_r.
    split; [split; [exact Hn|split]|split; reflexivity].
    + intros _. exact Hne.
    + intros b0 C; discriminate.
  - destruct Hc as (-> & Hnil & Hlt). rewrite Hpend, Hhalt. cbn [opt_list app]. rewrite !app_nil_r.
    split; [split; [exact Hn|split]|split; reflexivity].
    + intros C; contradiction C; reflexivity.
    + intros b0 Hb0. injection Hb0 as <-. exact Hlt.
Qed.

(** one step *)
Ltac split4 := split; [|split; [|split]].

Lemma step_spec csize s o s' x :
  Inv csize s -> step csize s o = (s', x) ->
  Inv csize s' /\ filt s' = filt s /\
  emitted [x] ++ held s' = held s ++ received [o] [x] /\
  (forall sb, In sb (submissions [x]) -> good csize (filt s) sb).
Proof.
  intros HI H. unfold step in H.
  destruct (halted s) as [hb|] eqn:Eh.
  { injection H as <- <-. split4; [exact HI|reflexivity| |intros sb []].
    destruct o; cbn; rewrite app_nil_r; reflexivity. }
  destruct o as [b|].
  - destruct (pending s) as [p|] eqn:Ep.
    { injection H as <- <-. split4; [exact HI|reflexivity| |intros sb []].
      cbn. rewrite app_nil_r. reflexivity. }
    destruct (add_block csize s b) as [s1 r] eqn:Ea. injection H as <- <-.
    destruct (add_block_spec _ _ _ _ _ HI Eh Ep Ea) as (HI' & Hf & Hheld).
    split4; [exact HI'|exact Hf| |].
    + destruct r; cbn [emitted received out_of_add app]; exact Hheld.
    + destruct r; intros sb [].
  - destruct (take (next s)) as [n' osb] eqn:Et.
    destruct HI as (Hn & Hp & Hh).
    destruct (take_cases _ _ _ _ _ Hn Et) as [-> Hc].
    destruct osb as [sb|].
    + destruct Hc as [Hsb Hgood].
      set (s1 := {| next := empty_nsub; pending := None; halted := None; filt := filt s |}) in *.
      assert (HI1 : Inv csize s1).
      { unfold Inv, s1; cbn [next pending halted filt]. split; [apply WFN_empty|]. split.
        - intros C; contradiction C; reflexivity.
        - intros b0 C; discriminate. }
      destruct (pending s) as [p|] eqn:Ep.
      * destruct (add_block csize s1 p) as [s2 r] eqn:Ea. injection H as <- <-.
        assert (Eh1 : halted s1 = None) by reflexivity.
        destruct (add_block_spec _ _ _ _ _ HI1 Eh1 eq_refl Ea) as (HI2 & Hf & Hheld).
        split4; [exact HI2|exact Hf| |].
        -- cbn [emitted received]. rewrite Hheld.
           unfold held, s1; cbn [next pending halted ns_input empty_nsub empty_input in_blocks opt_list].
           rewrite Eh, Ep, Hsb. cbn [opt_list app]. rewrite !app_nil_r. reflexivity.
        -- intros sb0 [<-|[]]. exact Hgood.
      * injection H as <- <-. split4; [exact HI1|reflexivity| |].
        -- cbn [emitted received].
           unfold held, s1; cbn [next pending halted ns_input empty_nsub empty_input in_blocks opt_list].
           rewrite Eh, Ep, Hsb. cbn [opt_list app]. rewrite !app_nil_r. reflexivity.
        -- intros sb0 [<-|[]]. exact Hgood.
    + injection H as <- <-. split4; [split; [exact Hn|split; assumption]|reflexivity| |intros sb []].
      cbn. rewrite app_nil_r. reflexivity.
Qed.

Lemma emitted_cons x xs : emitted (x :: xs) = emitted [x] ++ emitted xs.
Proof. destruct x; cbn [emitted app]; try reflexivity. rewrite app_nil_r. reflexivity. Qed.

Lemma submissions_cons x xs : submissions (x :: xs) = submissions [x] ++ submissions xs.
Proof. destruct x; reflexivity. Qed.

Lemma received_cons o x ops xs : received (o :: ops) (x :: xs) = received [o] [x] ++ received ops xs.
Proof. destruct o; destruct x; reflexivity. Qed.

Lemma run_spec csize ops : forall s,
  Inv csize s ->
  let '(s', outs) := run csize s ops in
  Inv csize s' /\ filt s' = filt s /\
  emitted outs ++ held s' = held s ++ received ops outs /\
  (forall sb, In sb (submissions outs) -> good csize (filt s) sb).
Proof.
  induction ops as [|o ops IH]; intros s HI; cbn [run].
  - split4; [exact HI|reflexivity| |intros sb []].
    cbn. rewrite app_nil_r. reflexivity.
  - destruct (step csize s o) as [s1 x] eqn:Es.
    destruct (step_spec _ _ _ _ _ HI Es) as (HI1 & Hf1 & Ha1 & Hg1).
    specialize (IH s1 HI1). destruct (run csize s1 ops) as [s2 xs].
    destruct IH as (HI2 & Hf2 & Ha2 & Hg2).
    split4; [exact HI2|congruence| |].
    + rewrite emitted_cons, received_cons, <- app_assoc, Ha2, !app_assoc, Ha1. reflexivity.
    + intros sb Hin. rewrite submissions_cons in Hin. apply in_app_or in Hin.
      destruct Hin as [Hin|Hin]; [apply Hg1; exact Hin|]. rewrite <- Hf1. apply Hg2. exact Hin.
Qed.

(** * the statements *)

Lemma each_block_once_in_order : stmt_each_block_once_in_order.
Proof.
  intros csize f ops. pose proof (run_spec csize ops (init f) (Inv_init csize f)) as H.
  destruct (run csize (init f) ops) as [s' outs]. destruct H as (_ & _ & H & _).
  rewrite H. reflexivity.
Qed.

Lemma halt_only_oversized : stmt_halt_only_oversized.
Proof.
  intros csize f ops b Hb. pose proof (run_spec csize ops (init f) (Inv_init csize f)) as H.
  destruct (run csize (init f) ops) as [s' outs]. destruct H as ((_ & _ & Hh) & _).
  apply Hh. exact Hb.
Qed.

Lemma no_block_dropped : stmt_no_block_dropped.
Proof.
  intros csize f ops Hfit. pose proof (run_spec csize ops (init f) (Inv_init csize f)) as H.
  destruct (run csize (init f) ops) as [s' outs]. destruct H as ((_ & _ & Hh) & _ & Ha & _).
  assert (Hn : halted s' = None).
  { destruct (halted s') as [b|] eqn:E; [|reflexivity]. specialize (Hh b eq_refl). specialize (Hfit b). lia. }
  split; [exact Hn|]. unfold held in Ha. rewrite Hn in Ha. cbn [opt_list] in Ha.
  rewrite app_nil_r in Ha. exact Ha.
Qed.

Lemma sorted_app_l {A} (R : A -> A -> Prop) l1 l2 :
  StronglySorted R (l1 ++ l2) -> StronglySorted R l1.
Proof.
  induction l1 as [|a l1 IH]; intros H; [constructor|].
  cbn in H. inversion H; subst. constructor; [apply IH; assumption|].
  rewrite Forall_app in H3. apply H3.
Qed.

Lemma heights_increasing : stmt_heights_increasing.
Proof.
  intros csize f ops. pose proof (each_block_once_in_order csize f ops) as H.
  destruct (run csize (init f) ops) as [s' outs]. intros Hs.
  rewrite <- H, map_app in Hs. eapply sorted_app_l; exact Hs.
Qed.

Lemma submissions_good csize f ops sb :
  In sb (submissions (snd (run csize (init f) ops))) -> good csize f sb.
Proof.
  pose proof (run_spec csize ops (init f) (Inv_init csize f)) as H.
  destruct (run csize (init f) ops) as [s' outs]. destruct H as (_ & _ & _ & Hg). apply Hg.
Qed.

Lemma payload_bounded : stmt_payload_bounded.
Proof.
  intros csize f ops sb Hin. destruct (submissions_good _ _ _ _ Hin) as (_ & A & B & C).
  repeat split; assumption.
Qed.

Lemma filter_only_drops_filtered : stmt_filter_only_drops_filtered.
Proof.
  intros csize f ops sb Hin. destruct (submissions_good _ _ _ _ Hin) as (Hw & _). exact Hw.
Qed.

(** decoding *)
Section Decode.
  Variable bytes : Type.
  Variable enc_meta : list meta -> bytes.
  Variable dec_meta : bytes -> option (list meta).
  Variable enc_rd : list rdata -> bytes.
  Variable dec_rd : bytes -> option (list rdata).
  Hypothesis law : CodecLaw bytes enc_meta dec_meta enc_rd dec_rd.

  Local Notation enc := (encode_blob bytes enc_meta enc_rd).

  Lemma decode_headers_rollups l :
    decode_headers bytes dec_meta (map enc (map (fun e => BRollup (fst e) (snd e)) l)) = [].
  Proof. induction l as [|e l IH]; cbn; [reflexivity|exact IH]. Qed.

  Lemma decode_rollup_rollups r l :
    NoDup (map fst l) ->
    decode_rollup bytes dec_rd r (map enc (map (fun e => BRollup (fst e) (snd e)) l)) = rd_for r l.
  Proof.
    destruct law as [_ Lr].
    induction l as [|[k xs] l IH]; intros Hn; [reflexivity|].
    inversion Hn as [|? ? Hnot Hn']; subst.
    cbn [map decode_rollup flat_map encode_blob fst snd].
    unfold rd_for; cbn [find fst snd].
    destruct (N.eqb_spec k r) as [->|Hne].
    - rewrite Lr.
      fold (decode_rollup bytes dec_rd r (map enc (map (fun e => BRollup (fst e) (snd e)) l))).
      rewrite (IH Hn'). unfold rd_for.
      destruct (find (fun e => fst e =? r) l) as [e|] eqn:Ef.
      + exfalso. apply find_some in Ef. destruct Ef as [Hin Heq]. apply N.eqb_eq in Heq.
        apply Hnot. cbn [fst]. rewrite <- Heq. apply in_map. exact Hin.
      + apply app_nil_r.
    - fold (decode_rollup bytes dec_rd r (map enc (map (fun e => BRollup (fst e) (snd e)) l))).
      rewrite (IH Hn'). reflexivity.
  Qed.

  Lemma decode_good csize f sb : good csize f sb ->
    decode_headers bytes dec_meta (wire_of bytes enc_meta enc_rd sb) = map meta_of (sub_blocks sb) /\
    forall r, decode_rollup bytes dec_rd r (wire_of bytes enc_meta enc_rd sb)
              = expected_rd f r (sub_blocks sb).
  Proof.
    intros ((Hm & Hr & Hn & _) & _). destruct law as [Lm _].
    unfold wire_of, blobs_of. cbn [map]. split.
    - cbn [decode_headers flat_map encode_blob fst snd]. rewrite Lm.
      fold (decode_headers bytes dec_meta (map enc (map (fun e => BRollup (fst e) (snd e)) (in_rd (sub_input sb))))).
      rewrite decode_headers_rollups, app_nil_r. exact Hm.
    - intros r. cbn [decode_rollup flat_map encode_blob fst snd app].
      fold (decode_rollup bytes dec_rd r (map enc (map (fun e => BRollup (fst e) (snd e)) (in_rd (sub_input sb))))).
      rewrite (decode_rollup_rollups r _ Hn). apply Hr.
  Qed.
End Decode.

Lemma decode_inverts_encode : stmt_decode_inverts_encode.
Proof.
  intros bytes em dm er dr law csize f ops sb Hin.
  eapply decode_good; [exact law|]. eapply submissions_good; exact Hin.
Qed.

(** * non-vacuity: concrete runs exercising Full, the pending hand-over, the filter and the
    oversized halt.  The size function is deliberately NOT monotone: a batch of three blocks
    "compresses" better than a batch of two. *)
Module Examples.
  Definition blk (h : N) (rs : list (N * N)) : block :=
    {| bk_height := h; bk_hash := 1000 + h; bk_rollups := rs |}.
  Definition b1 := blk 1 [(7, 11); (8, 12)].
  Definition b2 := blk 2 [(8, 21)].
  Definition b3 := blk 3 [].
  Definition b4 := blk 4 [(7, 41); (9, 42)].
  Definition b5 := blk 5 [(7, 51)].

  (** size by number of blocks: 1 -> 400000, 2 -> 900000, 3 -> 800000 (!), 4+ -> 1200000;
      block 5 alone is oversized *)
  Definition csz (bs : list block) : N :=
    match bs with
    | [b] => if bk_height b =? 5 then 1000001 else 400000
    | [_; _] => 900000
    | [_; _; _] => 800000
    | _ => 1200000
    end.

  Definition ops := [Recv b1; Recv b2; Recv b3; Recv b4; Recv b5; Take; Take; Recv b5; Take].

  Example ex_run :
    let '(s', outs) := run csz (init [7; 9]) ops in
    map (fun o => match o with OAdded => 1 | OFull => 2 | OOversized => 3 | OBusy => 4
                               | OHalted => 5 | ONone => 6 | OSub _ _ => 7 end) outs
      = [1; 1; 1; 2; 4; 7; 7; 3; 5] /\
    map bk_height (emitted outs) = [1; 2; 3; 4] /\
    map bk_height (held s') = [5] /\
    map bk_height (received ops outs) = [1; 2; 3; 4; 5] /\
    halted s' = Some b5.
  Proof. vm_compute. repeat split; reflexivity. Qed.

  (** the first submission: metadata of all three blocks with ALL rollup ids, data of rollup 7
      only (8 is filtered out, 9 does not occur), recorded size 800000 *)
  Example ex_submission :
    match submissions (snd (run csz (init [7; 9]) ops)) with
    | [sb; _] => sub_size sb = 800000 /\
              map m_rollup_ids (in_meta (sub_input sb)) = [[7; 8]; [8]; []] /\
              map fst (in_rd (sub_input sb)) = [7] /\
              map rd_data (rd_for 7 (in_rd (sub_input sb))) = [11] /\
              rd_for 8 (in_rd (sub_input sb)) = []
    | _ => False
    end.
  Proof. vm_compute. repeat split; reflexivity. Qed.

  (** without a filter and with no oversized block everything is eventually submitted *)
  Definition ops2 := [Recv b1; Recv b2; Recv b3; Recv b4; Take; Take; Take].
  Example ex_all_submitted :
    let '(s', outs) := run csz (init []) ops2 in
    map (fun sb => map bk_height (sub_blocks sb)) (submissions outs) = [[1; 2; 3]; [4]] /\
    held s' = [] /\
    map (fun sb => map fst (in_rd (sub_input sb))) (submissions outs) = [[7; 8]; [7; 9]].
  Proof. vm_compute. repeat split; reflexivity. Qed.
End Examples.
