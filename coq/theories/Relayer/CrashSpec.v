(** C11 — statements proved in CrashProofs.v. *)
From Astria Require Export Relayer.SubmissionModel Relayer.CrashModel.

(** ---------------------------------------------------------------------------------------------
    file level *)

(** API operations only (nobody else touches the file) *)
Definition api_op (o : fop) : bool :=
  match o with RawMain _ => false | _ => true end.

(** One [State::write] of a valid state over a readable file: at every crash point the state
    file reads as the old or as the new state. *)
Definition stmt_write_crash_safe : Prop :=
  forall d old f k, read d = Some old -> valid f = true ->
    read (write_crash d f k) = Some old \/ read (write_crash d f k) = Some f.

(** Starting from a readable state file, no sequence of API calls with crashes anywhere —
    between calls, in the middle of the temp-file write, between temp write and rename — ever
    leaves an unreadable state file. *)
Definition stmt_file_always_readable_ops : Prop :=
  forall d m ops, read d <> None -> forallb api_op ops = true ->
    read (disk (fst (frun {| disk := d; mem := m |} ops))) <> None.

(** ---------------------------------------------------------------------------------------------
    system level *)

(** initial files: never run, or `started(c, l)` *)
Definition initial_file (f : fstate) : Prop :=
  f = Fresh \/ exists c l, f = Started c l.

(** every height in (base, l] is in a confirmed transaction *)
Definition Covered (base : N) (cl : list txrec) (l : N) : Prop :=
  forall k, base < k <= l -> In k (conf cl).

(** No gap: whatever is confirmed on Celestia, everything between the first relayed height
    (last height of the initial file + 1) and it is confirmed too.  Duplicates are allowed. *)
Definition stmt_no_gap : Prop :=
  forall f0 es s, initial_file f0 -> run (init f0) es = Some s ->
    forall h, In h (conf (cel s)) -> Covered (file_last f0) (cel s) h.

(** The file never claims more than Celestia confirmed: everything up to the recorded last
    completed height (of a `started` or a `prepared` file) is confirmed. *)
Definition stmt_file_truthful : Prop :=
  forall f0 es s, initial_file f0 -> run (init f0) es = Some s ->
    Covered (file_last f0) (cel s) (file_last (sdisk s)).

(** The state file always passes the validity check of [State::read] ... *)
Definition stmt_file_always_readable : Prop :=
  forall f0 es s, initial_file f0 -> run (init f0) es = Some s -> valid (sdisk s) = true.

(** ... so a crashed relayer can always be restarted *)
Definition stmt_restart_enabled : Prop :=
  forall f0 es s, initial_file f0 -> run (init f0) es = Some s -> proc s = None ->
    step s ERestart <> None.

(** Nothing is skipped going forward either: what the running process holds (in flight, batch,
    pending) is exactly the run of heights following the last completed one, and the reader /
    channel continue it without a hole. *)
Definition taken (v : vol) : list N :=
  match inflight v with Some a => at_hs a | None => [] end ++ batch v ++ opt_list (pending v).

Fixpoint range (a : N) (n : nat) : list N :=
  match n with O => [] | S m => a :: range (a + 1) m end.

Definition stmt_stream_contiguous : Prop :=
  forall f0 es s v, initial_file f0 -> run (init f0) es = Some s -> proc s = Some v ->
    taken v = range (v_last v + 1) (length (taken v)) /\
    chan v = range (reader_next v - lenN (chan v)) (length (chan v)) /\
    (reader_next v - lenN (chan v) <= v_last v + 1 + lenN (taken v)).

(** the ensure! in into_prepared never fires: a submission is always above the last completed height *)
Definition stmt_prepare_never_refused : Prop :=
  forall f0 es s v a, initial_file f0 -> run (init f0) es = Some s -> proc s = Some v ->
    inflight v = Some a -> v_last v < largest a.
