(** C12 — vocabulary and statements proved in BatchProofs.v. *)
From Coq Require Export Sorting.Sorted.
From Astria Require Export Relayer.BatchModel.

Definition opt_list {A} (o : option A) : list A :=
  match o with Some x => [x] | None => [] end.

Definition sub_blocks (sb : submission) : list block := in_blocks (sub_input sb).

(** Blocks actually taken off the channel by the recv arm (its guard was open), in order. *)
Fixpoint received (ops : list op) (outs : list out) : list block :=
  match ops, outs with
  | Recv b :: ro, OAdded :: rx => b :: received ro rx
  | Recv b :: ro, OFull :: rx => b :: received ro rx
  | Recv b :: ro, OOversized :: rx => b :: received ro rx
  | _ :: ro, _ :: rx => received ro rx
  | _, _ => []
  end.

(** Blocks of all submissions handed to the Celestia writer, in order. *)
Fixpoint emitted (outs : list out) : list block :=
  match outs with
  | [] => []
  | OSub sb _ :: r => sub_blocks sb ++ emitted r
  | _ :: r => emitted r
  end.

Fixpoint submissions (outs : list out) : list submission :=
  match outs with
  | [] => []
  | OSub sb _ :: r => sb :: submissions r
  | _ :: r => submissions r
  end.

(** what is still held in memory: current batch, pending block, the oversized block run() died on *)
Definition held (s : st) : list block :=
  in_blocks (ns_input (next s)) ++ opt_list (pending s) ++ opt_list (halted s).

(** lookup in [rollup_data_for_namespace] *)
Definition rd_for (r : N) (l : list (N * list rdata)) : list rdata :=
  match find (fun e => fst e =? r) l with
  | Some e => snd e
  | None => []
  end.

(** what a rollup's blob must contain for a list of blocks under filter [f] *)
Definition expected_rd (f : list N) (r : N) (bs : list block) : list rdata :=
  if should_include f r then filter (fun x => rd_rollup x =? r) (flat_map rdata_of bs) else [].

(** ------------------------------------------------------------------------------------------
    The wire: brotli + protobuf are abstract codecs with a round-trip law; the namespace of a
    rollup blob is identified with the rollup id, the sequencer namespace is [None]. *)
Section Wire.
  Variable bytes : Type.
  Variable enc_meta : list meta -> bytes.
  Variable dec_meta : bytes -> option (list meta).
  Variable enc_rd : list rdata -> bytes.
  Variable dec_rd : bytes -> option (list rdata).

  Definition CodecLaw : Prop :=
    (forall l, dec_meta (enc_meta l) = Some l) /\ (forall l, dec_rd (enc_rd l) = Some l).

  Definition wire : Type := (option N * bytes)%type.

  (** relayer: [Payload::try_add] (encode, compress, Blob::new under the namespace) *)
  Definition encode_blob (b : blob) : wire :=
    match b with
    | BMeta l => (None, enc_meta l)
    | BRollup r l => (Some r, enc_rd l)
    end.

  (** conductor: [decode_raw_blobs] for the sequencer namespace ... *)
  Definition decode_headers (ws : list wire) : list meta :=
    flat_map (fun w : wire =>
      match fst w with
      | None => match dec_meta (snd w) with Some l => l | None => [] end
      | Some _ => []
      end) ws.

  (** ... and for the namespace of rollup [r] *)
  Definition decode_rollup (r : N) (ws : list wire) : list rdata :=
    flat_map (fun w : wire =>
      match fst w with
      | Some r' => if r' =? r then match dec_rd (snd w) with Some l => l | None => [] end else []
      | None => []
      end) ws.

  Definition wire_of (sb : submission) : list wire := map encode_blob (blobs_of (sub_input sb)).
End Wire.

(** ------------------------------------------------------------------------------------------
    Statements *)

(** exactly once, in order: what was submitted plus what is held is what was received *)
Definition stmt_each_block_once_in_order : Prop :=
  forall csize f ops,
    let '(s', outs) := run csize (init f) ops in
    emitted outs ++ held s' = received ops outs.

(** run() only ever dies on a block whose own single-block payload exceeds the limit *)
Definition stmt_halt_only_oversized : Prop :=
  forall csize f ops b,
    halted (fst (run csize (init f) ops)) = Some b -> MAX_PAYLOAD < csize [b].

(** ... so when every block fits on its own nothing is ever dropped *)
Definition stmt_no_block_dropped : Prop :=
  forall csize f ops,
    (forall b, csize [b] <= MAX_PAYLOAD) ->
    let '(s', outs) := run csize (init f) ops in
    halted s' = None /\
    emitted outs ++ in_blocks (ns_input (next s')) ++ opt_list (pending s') = received ops outs.

(** increasing heights in => increasing heights out *)
Definition stmt_heights_increasing : Prop :=
  forall csize f ops,
    let '(_, outs) := run csize (init f) ops in
    StronglySorted N.lt (map bk_height (received ops outs)) ->
    StronglySorted N.lt (map bk_height (emitted outs)).

(** every submission is non-empty, within the limit, and its recorded size is the compressed
    size of exactly the blocks it carries *)
Definition stmt_payload_bounded : Prop :=
  forall csize f ops sb,
    In sb (submissions (snd (run csize (init f) ops))) ->
    sub_blocks sb <> [] /\ sub_size sb = csize (sub_blocks sb) /\ sub_size sb <= MAX_PAYLOAD.

(** the filter never touches metadata; an included rollup's data is exact and in block order;
    an excluded rollup has no blob; no blob is empty or duplicated *)
Definition stmt_filter_only_drops_filtered : Prop :=
  forall csize f ops sb,
    In sb (submissions (snd (run csize (init f) ops))) ->
    in_meta (sub_input sb) = map meta_of (sub_blocks sb) /\
    (forall r, rd_for r (in_rd (sub_input sb)) = expected_rd f r (sub_blocks sb)) /\
    NoDup (map fst (in_rd (sub_input sb))) /\
    (forall e, In e (in_rd (sub_input sb)) -> snd e <> []).

(** conductor-side decoding of the produced blobs gives back the blocks' metadata and, per
    rollup, exactly the included data *)
Definition stmt_decode_inverts_encode : Prop :=
  forall (bytes : Type) enc_meta dec_meta enc_rd dec_rd,
    CodecLaw bytes enc_meta dec_meta enc_rd dec_rd ->
    forall csize f ops sb,
      In sb (submissions (snd (run csize (init f) ops))) ->
      decode_headers bytes dec_meta (wire_of bytes enc_meta enc_rd sb) = map meta_of (sub_blocks sb) /\
      forall r, decode_rollup bytes dec_rd r (wire_of bytes enc_meta enc_rd sb)
                = expected_rd f r (sub_blocks sb).
