(** C11 (file level) — model of the relayer's submission-state file
    (crates/astria-sequencer-relayer/src/relayer/submission.rs): the three states, the validity
    check of [State::read], [State::write] = write the temp file, then rename it over the state
    file, and the typed transitions ([FreshSubmission::into_started],
    [StartedSubmission::into_prepared], [PreparedSubmission::into_started] / [revert],
    [SubmissionStateAtStartup::new_from_path]).  A crash can fall between the temp write and the
    rename, or in the middle of the temp write (torn temp file).
    Proof-free: this file is what gets extracted and run against the code. *)
From Astria Require Export Base.Bounded.

(** [State]: [Started {last_submission = (celestia_height, sequencer_height)}],
    [Prepared {sequencer_height, last_submission, blob_tx_hash}] (the [at] timestamp only
    shortens a timeout and is not modelled). *)
Inductive fstate :=
| Fresh
| Started (c l : N)
| Prepared (h c l tx : N).

(** what a file can hold: a well-formed state, or bytes that do not parse as one *)
Inductive content :=
| Good (f : fstate)
| Garbage.

(** the two paths: the state file and [<state file>.tmp]; [None] = no such file *)
Record fs := { f_main : option content; f_temp : option content }.

(** the "sane values" check of [State::read] *)
Definition valid (f : fstate) : bool :=
  match f with
  | Prepared h _ l _ => l <? h
  | _ => true
  end.

(** [State::read]: [None] = an error (missing file, parse error, broken invariant) *)
Definition read (d : fs) : option fstate :=
  match f_main d with
  | Some (Good f) => if valid f then Some f else None
  | _ => None
  end.

(** the two halves of [State::write] *)
Definition write_temp (d : fs) (c : content) : fs := {| f_main := f_main d; f_temp := Some c |}.
Definition rename (d : fs) : fs :=
  match f_temp d with
  | Some c => {| f_main := Some c; f_temp := None |}
  | None => d            (* rename of a missing file fails; never reached after write_temp *)
  end.
Definition write (d : fs) (f : fstate) : fs := rename (write_temp d (Good f)).

(** where a crash falls relative to one [State::write] *)
Inductive crashpt :=
| NoCrash
| CrashTorn        (* in the middle of writing the temp file: temp holds a prefix *)
| CrashBeforeRename(* temp written completely, rename not executed *)
| CrashAfter.      (* after the rename *)

Definition write_crash (d : fs) (f : fstate) (k : crashpt) : fs :=
  match k with
  | NoCrash | CrashAfter => write d f
  | CrashTorn => write_temp d Garbage
  | CrashBeforeRename => write_temp d (Good f)
  end.

(** the in-memory typed state ([FreshSubmission] / [StartedSubmission] / [PreparedSubmission]);
    [None] = the process is down *)
Inductive handle :=
| HFresh
| HStarted (c l : N)
| HPrepared (h c l tx : N).

Record fsys := { disk : fs; mem : option handle }.

Inductive fop :=
| Startup                              (* SubmissionStateAtStartup::new_from_path *)
| IntoStartedFresh                     (* FreshSubmission::into_started (no write) *)
| IntoPrepared (h tx : N) (k : crashpt)(* StartedSubmission::into_prepared *)
| Confirm (c : N) (k : crashpt)        (* PreparedSubmission::into_started *)
| Revert (k : crashpt)                 (* PreparedSubmission::revert *)
| Crash                                (* the process dies between two calls *)
| RawMain (c : option content).        (* something else rewrites / deletes the state file *)

Inductive fres := ROk | RErr | RNotApplicable.

Definition crashed (k : crashpt) : bool :=
  match k with NoCrash => false | _ => true end.

Definition handle_of (f : fstate) : handle :=
  match f with
  | Fresh => HFresh
  | Started c l => HStarted c l
  | Prepared h c l tx => HPrepared h c l tx
  end.

Definition after_write (s : fsys) (f : fstate) (k : crashpt) (m : handle) : fsys :=
  {| disk := write_crash (disk s) f k; mem := if crashed k then None else Some m |}.

Definition fstep (s : fsys) (o : fop) : fsys * fres :=
  match o with
  | Crash => ({| disk := disk s; mem := None |}, ROk)
  | RawMain c => ({| disk := {| f_main := c; f_temp := f_temp (disk s) |}; mem := mem s |}, ROk)
  | Startup =>
      match read (disk s) with
      | None => ({| disk := disk s; mem := None |}, RErr)
      | Some f => ({| disk := write (disk s) f; mem := Some (handle_of f) |}, ROk)
      end
  | IntoStartedFresh =>
      match mem s with
      | Some HFresh => ({| disk := disk s; mem := Some (HStarted 0 0) |}, ROk)
      | _ => (s, RNotApplicable)
      end
  | IntoPrepared h tx k =>
      match mem s with
      | Some (HStarted c l) =>
          if l <? h then (after_write s (Prepared h c l tx) k (HPrepared h c l tx), ROk)
          else (s, RErr)     (* ensure!(sequencer_height > last_submission.sequencer_height) *)
      | _ => (s, RNotApplicable)
      end
  | Confirm c' k =>
      match mem s with
      | Some (HPrepared h _ _ _) => (after_write s (Started c' h) k (HStarted c' h), ROk)
      | _ => (s, RNotApplicable)
      end
  | Revert k =>
      match mem s with
      | Some (HPrepared _ c l _) => (after_write s (Started c l) k (HStarted c l), ROk)
      | _ => (s, RNotApplicable)
      end
  end.

Fixpoint frun (s : fsys) (ops : list fop) : fsys * list fres :=
  match ops with
  | [] => (s, [])
  | o :: r => let '(s1, x) := fstep s o in
              let '(s2, xs) := frun s1 r in (s2, x :: xs)
  end.

(** [last_completed_sequencer_height] *)
Definition last_completed (m : handle) : option N :=
  match m with
  | HFresh => None
  | HStarted _ l => Some l
  | HPrepared _ _ l _ => Some l
  end.
