(** C12 — model of the relayer's batching
    (crates/astria-sequencer-relayer/src/relayer/write/conversion.rs: [Input], [Payload],
    [NextSubmission::try_add], [TakeSubmission]; write/mod.rs: the [pending_block] hand-over of
    [BlobSubmitter::run] / [add_sequencer_block_to_next_submission]).
    Proof-free: this file is what gets extracted and run against the code.

    The compressed size of a candidate payload is a parameter [csize : list block -> N] of the
    block list — an ARBITRARY function (brotli is neither additive nor monotone). *)
From Astria Require Export Base.Bounded.

(** [MAX_PAYLOAD_SIZE_BYTES] *)
Definition MAX_PAYLOAD : N := 1000000.

(** A sequencer block as the relayer sees it: height, block hash (identity) and, per rollup id
    (in the block's map order), a token standing for that rollup's transactions + proof. *)
Record block := { bk_height : N; bk_hash : N; bk_rollups : list (N * N) }.

(** [SubmittedMetadata]: always carries ALL rollup ids of the block. *)
Record meta := { m_height : N; m_hash : N; m_rollup_ids : list N }.

(** [SubmittedRollupData] *)
Record rdata := { rd_hash : N; rd_rollup : N; rd_data : N }.

(** [SequencerBlock::split_for_celestia] *)
Definition meta_of (b : block) : meta :=
  {| m_height := bk_height b; m_hash := bk_hash b; m_rollup_ids := map fst (bk_rollups b) |}.
Definition rdata_of (b : block) : list rdata :=
  map (fun rd => {| rd_hash := bk_hash b; rd_rollup := fst rd; rd_data := snd rd |}) (bk_rollups b).

(** [IncludeRollup::should_include]: the empty set includes everything. *)
Definition should_include (f : list N) (r : N) : bool :=
  match f with
  | [] => true
  | _ => existsb (N.eqb r) f
  end.

(** [Input]: [in_blocks] stands for [meta.sequencer_heights] (what went in, in order);
    [in_rd] = [rollup_data_for_namespace] as an association list in first-insertion order
    (the namespace is identified with the rollup id, see the assumptions of the check). *)
Record input := {
  in_blocks : list block;
  in_meta   : list meta;
  in_rd     : list (N * list rdata)
}.

Definition empty_input : input := {| in_blocks := []; in_meta := []; in_rd := [] |}.

(** [entry(namespace).or_default().push(elem)] *)
Fixpoint rd_push (l : list (N * list rdata)) (x : rdata) : list (N * list rdata) :=
  match l with
  | [] => [(rd_rollup x, [x])]
  | (r, xs) :: t => if r =? rd_rollup x then (r, xs ++ [x]) :: t else (r, xs) :: rd_push t x
  end.

(** [Input::extend_from_sequencer_block] *)
Definition extend (f : list N) (i : input) (b : block) : input :=
  {| in_blocks := in_blocks i ++ [b];
     in_meta := in_meta i ++ [meta_of b];
     in_rd := fold_left (fun acc x => if should_include f (rd_rollup x) then rd_push acc x else acc)
                        (rdata_of b) (in_rd i) |}.

(** A Celestia blob before encoding: the metadata list or one rollup's data list. *)
Inductive blob :=
| BMeta (l : list meta)
| BRollup (r : N) (l : list rdata).

(** [Input::try_into_payload] (blobs only; sizes are [csize]). *)
Definition blobs_of (i : input) : list blob :=
  BMeta (in_meta i) :: map (fun e => BRollup (fst e) (snd e)) (in_rd i).

(** [NextSubmission]: input + the payload built from it ([ns_size] = payload.compressed_size). *)
Record nsub := { ns_input : input; ns_size : N }.
Definition empty_nsub : nsub := {| ns_input := empty_input; ns_size := 0 |}.

Inductive add_res := AddOk | AddFull | AddOversized.

Definition lenN {A} (l : list A) : N := N.of_nat (length l).

(** [NextSubmission::try_add] *)
Definition try_add (csize : list block -> N) (f : list N) (ns : nsub) (b : block) : nsub * add_res :=
  let cand := extend f (ns_input ns) b in
  let sz := csize (in_blocks cand) in
  if sz <=? MAX_PAYLOAD then ({| ns_input := cand; ns_size := sz |}, AddOk)
  else if (lenN (in_meta cand) =? 1) && (MAX_PAYLOAD <? sz) then (ns, AddOversized)
  else (ns, AddFull).

(** [Submission] *)
Record submission := { sub_input : input; sub_size : N }.

(** [TakeSubmission::poll]: moves input and payload out; [None] when the payload has no blobs
    (a payload built from >= 1 block always has the metadata blob). *)
Definition take (ns : nsub) : nsub * option submission :=
  match in_meta (ns_input ns) with
  | [] => (empty_nsub, None)
  | _ => (empty_nsub, Some {| sub_input := ns_input ns; sub_size := ns_size ns |})
  end.

(** The part of [BlobSubmitter] that matters here. [halted] = the block whose single-block
    payload was oversized (run() returns with a critical error; nothing is processed afterwards). *)
Record st := {
  next    : nsub;
  pending : option block;
  halted  : option block;
  filt    : list N
}.

Definition init (f : list N) : st :=
  {| next := empty_nsub; pending := None; halted := None; filt := f |}.

Inductive op :=
| Recv (b : block)     (* the `blocks.recv()` arm, guarded by has_capacity() *)
| Take.                (* the `next_submission.take()` arm, then the pending block is re-added *)

Inductive out :=
| OAdded
| OFull
| OOversized
| OBusy                 (* recv arm disabled: a block is pending *)
| OHalted
| ONone                 (* take(): nothing to submit *)
| OSub (s : submission) (readd : option add_res).

(** [BlobSubmitter::add_sequencer_block_to_next_submission] *)
Definition add_block (csize : list block -> N) (s : st) (b : block) : st * add_res :=
  match try_add csize (filt s) (next s) b with
  | (n', AddOk) => ({| next := n'; pending := pending s; halted := halted s; filt := filt s |}, AddOk)
  | (_, AddFull) => ({| next := next s; pending := Some b; halted := halted s; filt := filt s |}, AddFull)
  | (_, AddOversized) => ({| next := next s; pending := pending s; halted := Some b; filt := filt s |}, AddOversized)
  end.

Definition out_of_add (r : add_res) : out :=
  match r with AddOk => OAdded | AddFull => OFull | AddOversized => OOversized end.

Definition step (csize : list block -> N) (s : st) (o : op) : st * out :=
  match halted s with
  | Some _ => (s, OHalted)
  | None =>
    match o with
    | Recv b =>
        match pending s with
        | Some _ => (s, OBusy)
        | None => let '(s', r) := add_block csize s b in (s', out_of_add r)
        end
    | Take =>
        match take (next s) with
        | (_, None) => (s, ONone)
        | (n', Some sb) =>
            let s1 := {| next := n'; pending := None; halted := halted s; filt := filt s |} in
            match pending s with
            | None => (s1, OSub sb None)
            | Some p => let '(s2, r) := add_block csize s1 p in (s2, OSub sb (Some r))
            end
        end
    end
  end.

Fixpoint run (csize : list block -> N) (s : st) (ops : list op) : st * list out :=
  match ops with
  | [] => (s, [])
  | o :: r => let '(s1, x) := step csize s o in
              let '(s2, xs) := run csize s1 r in (s2, x :: xs)
  end.
