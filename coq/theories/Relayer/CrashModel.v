(** C11 (system level) — the relayer's crash/restart protocol as a transition system:
    state file + volatile process state (reader position, channel, batch, pending block, the
    in-flight submission attempt of write/mod.rs [try_submit] / [submit_with_retry]) + Celestia
    (every BlobTx it ever received, pending or confirmed).  Events carry every nondeterministic
    choice: block arrival, "batch full", RPC outcomes (lost / error / timed out / delivered but
    answer lost), confirmation at any later time (also of abandoned transactions), a crash at
    any point, restart.  [step s e = None] means the event is not enabled in [s].

    A state-file write is one atomic step here (old or new content survives a crash); that this
    is what [State::write] provides is the file-level model SubmissionModel.v.
    Proof-free: this file is what gets extracted. *)
From Astria Require Export Relayer.SubmissionModel.

(** Celestia's view of one BlobTx: the sequencer heights it carries and whether it is in a block *)
Inductive txstatus := Pending | Confirmed (c : N).
Record txrec := { tx_id : N; tx_hs : list N; tx_st : txstatus }.

(** error of the previous attempt, kept by [submit_with_retry] for the next one *)
Inductive lasterr :=
| ENone
| EOther                  (* SubmissionError::TrySubmit *)
| ETimedOut (tx : N).     (* SubmissionError::BroadcastTxTimedOut(prepared) *)

(** where [try_submit] is *)
Inductive phase :=
| PIdle (e : lasterr)     (* between attempts *)
| PPrepared (tx : N)      (* `prepared` written; BroadcastTx not yet delivered to Celestia *)
| PSent (tx : N)          (* BroadcastTx delivered (Celestia holds the tx); answer not yet seen *)
| PPolling (tx : N).      (* broadcast answered OK; polling GetTx without timeout *)

(** the in-flight submission: the heights of its blobs, in order *)
Record attempt := { at_hs : list N; at_phase : phase }.

(** startup with a `prepared` file: try_confirm_submission_from_last_session is running *)
Inductive mode :=
| MStartup (h c l tx : N)
| MRun.

Record vol := {
  v_mode : mode;
  v_lastc : N;               (* started_submission.last_submission.celestia_height *)
  v_last : N;                (* started_submission.last_submission.sequencer_height *)
  reader_next : N;           (* BlockStream: next height to fetch *)
  chan : list N;             (* fetched, not yet received by the submitter *)
  batch : list N;            (* next_submission *)
  pending : option N;        (* pending_block *)
  inflight : option attempt  (* ongoing_submission *)
}.

Record sys := {
  sdisk : fstate;            (* content of the state file *)
  proc : option vol;         (* None = process down *)
  cel : list txrec;
  fresh : N                  (* next unused BlobTx id (stands for the tx hash) *)
}.

Inductive event :=
| EFetch                     (* reader fetched the next height and queued it *)
| ERecv (full : bool)        (* submitter receives the head of the channel; [full] = try_add says Full *)
| ETake                      (* next_submission.take(): start submitting the batch *)
| EPrepareFail               (* try_prepare failed (no disk effect) *)
| EPrepareOk                 (* try_prepare ok; `prepared` written *)
| EDeliver                   (* the BroadcastTx request reaches Celestia *)
| ERespOk                    (* broadcast answered OK *)
| ERespErr                   (* broadcast answered with an error / transport error *)
| ERespTimeout               (* broadcast timed out at the client *)
| EPollOk                    (* GetTx reports the tx in a block; `started` written *)
| EReconfirmOk               (* next attempt confirmed the timed-out tx; `started` written *)
| EReconfirmTimeout          (* ... or gave up after the timeout *)
| EStartupOk                 (* previous session's tx confirmed; `started` written *)
| EStartupTimeout            (* not confirmed in time; reverted to `started(last)` *)
| ECelConfirm (tx c : N)     (* Celestia includes a pending tx in block c *)
| ECrash
| ERestart.

Fixpoint find_confirmed (tx : N) (l : list txrec) : option N :=
  match l with
  | [] => None
  | r :: t => if tx_id r =? tx then
                match tx_st r with Confirmed c => Some c | Pending => find_confirmed tx t end
              else find_confirmed tx t
  end.

Definition confirm_tx (tx c : N) (l : list txrec) : list txrec :=
  map (fun r => if tx_id r =? tx then
                  match tx_st r with
                  | Pending => {| tx_id := tx_id r; tx_hs := tx_hs r; tx_st := Confirmed c |}
                  | Confirmed _ => r
                  end
                else r) l.

Definition opt_list {A} (o : option A) : list A :=
  match o with Some x => [x] | None => [] end.

Definition lenN {A} (l : list A) : N := N.of_nat (length l).

(** greatest sequencer height of the attempt: heights are handed over in increasing order *)
Definition largest (a : attempt) : N := last (at_hs a) 0.

Definition with_proc (s : sys) (v : vol) : sys :=
  {| sdisk := sdisk s; proc := Some v; cel := cel s; fresh := fresh s |}.

Definition set_phase (v : vol) (a : attempt) (p : phase) : vol :=
  {| v_mode := v_mode v; v_lastc := v_lastc v; v_last := v_last v; reader_next := reader_next v;
     chan := chan v; batch := batch v; pending := pending v;
     inflight := Some {| at_hs := at_hs a; at_phase := p |} |}.

(** the attempt finished: `started(c, largest)` is written, run() continues from there *)
Definition finish (s : sys) (v : vol) (a : attempt) (c : N) : sys :=
  {| sdisk := Started c (largest a);
     proc := Some {| v_mode := MRun; v_lastc := c; v_last := largest a;
                     reader_next := reader_next v; chan := chan v; batch := batch v;
                     pending := pending v; inflight := None |};
     cel := cel s; fresh := fresh s |}.

Definition is_run (v : vol) : bool := match v_mode v with MRun => true | _ => false end.

Definition step (s : sys) (e : event) : option sys :=
  match e, proc s with
  | ECelConfirm tx c, _ =>
      Some {| sdisk := sdisk s; proc := proc s; cel := confirm_tx tx c (cel s); fresh := fresh s |}
  | ECrash, Some _ =>
      Some {| sdisk := sdisk s; proc := None; cel := cel s; fresh := fresh s |}
  | ERestart, None =>
      (* new_from_path: read (always succeeds on the states this system writes; see Proofs),
         write back; reader starts after the last completed height *)
      let mk m c l :=
        Some (with_proc s {| v_mode := m; v_lastc := c; v_last := l; reader_next := l + 1;
                             chan := []; batch := []; pending := None; inflight := None |}) in
      match sdisk s with
      | Fresh => mk MRun 0 0
      | Started c l => mk MRun c l
      | Prepared h c l tx => if l <? h then mk (MStartup h c l tx) c l else None
      end
  | EFetch, Some v =>
      Some (with_proc s {| v_mode := v_mode v; v_lastc := v_lastc v; v_last := v_last v;
                           reader_next := reader_next v + 1; chan := chan v ++ [reader_next v];
                           batch := batch v; pending := pending v; inflight := inflight v |})
  | ERecv full, Some v =>
      match is_run v, pending v, chan v with
      | true, None, x :: rest =>
          let upd b p := Some (with_proc s {| v_mode := MRun; v_lastc := v_lastc v; v_last := v_last v;
                                              reader_next := reader_next v; chan := rest;
                                              batch := b; pending := p; inflight := inflight v |}) in
          if x <=? v_last v then upd (batch v) None          (* already covered: skipped *)
          else if full then
            match batch v with
            | [] => None                                      (* Full needs a non-empty batch *)
            | _ => upd (batch v) (Some x)
            end
          else upd (batch v ++ [x]) None
      | _, _, _ => None
      end
  | ETake, Some v =>
      match is_run v, inflight v, batch v with
      | true, None, _ :: _ =>
          Some (with_proc s {| v_mode := MRun; v_lastc := v_lastc v; v_last := v_last v;
                               reader_next := reader_next v; chan := chan v;
                               batch := opt_list (pending v); pending := None;
                               inflight := Some {| at_hs := batch v; at_phase := PIdle ENone |} |})
      | _, _, _ => None
      end
  | EPrepareFail, Some v =>
      match inflight v with
      | Some a =>
          match at_phase a with
          | PIdle ENone | PIdle EOther => Some (with_proc s (set_phase v a (PIdle EOther)))
          | _ => None
          end
      | None => None
      end
  | EPrepareOk, Some v =>
      match inflight v with
      | Some a =>
          match at_phase a with
          | PIdle ENone | PIdle EOther =>
              (* into_prepared: ensure!(largest > last) *)
              if v_last v <? largest a then
                Some {| sdisk := Prepared (largest a) (v_lastc v) (v_last v) (fresh s);
                        proc := Some (set_phase v a (PPrepared (fresh s)));
                        cel := cel s; fresh := fresh s + 1 |}
              else None
          | _ => None
          end
      | None => None
      end
  | EDeliver, Some v =>
      match inflight v with
      | Some a =>
          match at_phase a with
          | PPrepared tx =>
              Some {| sdisk := sdisk s; proc := Some (set_phase v a (PSent tx));
                      cel := {| tx_id := tx; tx_hs := at_hs a; tx_st := Pending |} :: cel s;
                      fresh := fresh s |}
          | _ => None
          end
      | None => None
      end
  | ERespOk, Some v =>
      match inflight v with
      | Some a =>
          match at_phase a with
          | PSent tx => Some (with_proc s (set_phase v a (PPolling tx)))
          | _ => None
          end
      | None => None
      end
  | ERespErr, Some v =>
      match inflight v with
      | Some a =>
          match at_phase a with
          | PPrepared _ | PSent _ => Some (with_proc s (set_phase v a (PIdle EOther)))
          | _ => None
          end
      | None => None
      end
  | ERespTimeout, Some v =>
      match inflight v with
      | Some a =>
          match at_phase a with
          | PPrepared tx | PSent tx => Some (with_proc s (set_phase v a (PIdle (ETimedOut tx))))
          | _ => None
          end
      | None => None
      end
  | EPollOk, Some v =>
      match inflight v with
      | Some a =>
          match at_phase a with
          | PPolling tx =>
              match find_confirmed tx (cel s) with
              | Some c => Some (finish s v a c)
              | None => None
              end
          | _ => None
          end
      | None => None
      end
  | EReconfirmOk, Some v =>
      match inflight v with
      | Some a =>
          match at_phase a with
          | PIdle (ETimedOut tx) =>
              match find_confirmed tx (cel s) with
              | Some c => Some (finish s v a c)
              | None => None
              end
          | _ => None
          end
      | None => None
      end
  | EReconfirmTimeout, Some v =>
      match inflight v with
      | Some a =>
          match at_phase a with
          | PIdle (ETimedOut _) => Some (with_proc s (set_phase v a (PIdle ENone)))
          | _ => None
          end
      | None => None
      end
  | EStartupOk, Some v =>
      match v_mode v with
      | MStartup h c l tx =>
          match find_confirmed tx (cel s) with
          | Some c' =>
              Some {| sdisk := Started c' h;
                      proc := Some {| v_mode := MRun; v_lastc := c'; v_last := h;
                                      reader_next := reader_next v; chan := chan v; batch := batch v;
                                      pending := pending v; inflight := inflight v |};
                      cel := cel s; fresh := fresh s |}
          | None => None
          end
      | MRun => None
      end
  | EStartupTimeout, Some v =>
      match v_mode v with
      | MStartup h c l tx =>
          Some {| sdisk := Started c l;
                  proc := Some {| v_mode := MRun; v_lastc := c; v_last := l;
                                  reader_next := reader_next v; chan := chan v; batch := batch v;
                                  pending := pending v; inflight := inflight v |};
                  cel := cel s; fresh := fresh s |}
      | MRun => None
      end
  | _, _ => None
  end.

Fixpoint run (s : sys) (es : list event) : option sys :=
  match es with
  | [] => Some s
  | e :: r => match step s e with Some s' => run s' r | None => None end
  end.

(** a relayer that has never run, or one whose file says `started(c, l)`; Celestia empty *)
Definition init (f : fstate) : sys :=
  {| sdisk := f; proc := None; cel := []; fresh := 0 |}.

(** the last completed sequencer height recorded in a file *)
Definition file_last (f : fstate) : N :=
  match f with
  | Fresh => 0
  | Started _ l => l
  | Prepared _ _ l _ => l
  end.

(** sequencer heights whose data is in a confirmed Celestia transaction (with duplicates) *)
Fixpoint conf (l : list txrec) : list N :=
  match l with
  | [] => []
  | r :: t => match tx_st r with
              | Confirmed _ => tx_hs r ++ conf t
              | Pending => conf t
              end
  end.
