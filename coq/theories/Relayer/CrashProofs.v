(** C11 — proofs of the statements of CrashSpec.v. *)
From Astria Require Import Relayer.SubmissionModel Relayer.CrashModel Relayer.CrashSpec.

(** * file level *)

Lemma read_write d f : valid f = true -> read (write d f) = Some f.
Proof. intros H. unfold write, rename, write_temp, read; cbn. rewrite H. reflexivity. Qed.

Lemma read_write_temp d c : read (write_temp d c) = read d.
Proof. reflexivity. Qed.

Lemma write_crash_safe : stmt_write_crash_safe.
Proof.
  intros d old f k Hr Hv. destruct k; cbn [write_crash].
  - right. apply read_write, Hv.
  - left. rewrite read_write_temp. exact Hr.
  - left. rewrite read_write_temp. exact Hr.
  - right. apply read_write, Hv.
Qed.

Lemma read_write_crash_some d f k :
  read d <> None -> valid f = true -> read (write_crash d f k) <> None.
Proof.
  intros Hr Hv. destruct (read d) as [old|] eqn:E; [|contradiction].
  destruct (write_crash_safe d old f k E Hv) as [H|H]; rewrite H; discriminate.
Qed.

Lemma read_valid d f : read d = Some f -> valid f = true.
Proof.
  unfold read. destruct (f_main d) as [[g|]|]; try discriminate.
  destruct (valid g) eqn:E; [|discriminate]. intros H; inversion H; subst. exact E.
Qed.

Lemma fstep_readable s o :
  read (disk s) <> None -> api_op o = true -> read (disk (fst (fstep s o))) <> None.
Proof.
  intros Hr Ha. destruct o; cbn [api_op] in Ha; try discriminate; cbn [fstep].
  - destruct (read (disk s)) as [f|] eqn:E; [|contradiction]. cbn [fst disk].
    rewrite read_write; [discriminate|]. eapply read_valid; exact E.
  - destruct (mem s) as [[| |]|]; exact Hr.
  - destruct (mem s) as [[|c l|]|]; try exact Hr.
    destruct (l <? h) eqn:E; [|exact Hr]. cbn [fst after_write disk].
    apply read_write_crash_some; [exact Hr|]. cbn [valid]. exact E.
  - destruct (mem s) as [[| |h c0 l tx]|]; try exact Hr. cbn [fst after_write disk].
    apply read_write_crash_some; [exact Hr|reflexivity].
  - destruct (mem s) as [[| |h c0 l tx]|]; try exact Hr. cbn [fst after_write disk].
    apply read_write_crash_some; [exact Hr|reflexivity].
  - exact Hr.
Qed.

Lemma file_always_readable_ops : stmt_file_always_readable_ops.
Proof.
  intros d m ops. revert d m. induction ops as [|o ops IH]; intros d m Hr Ha; cbn [frun].
  - exact Hr.
  - cbn [forallb] in Ha. apply andb_prop in Ha. destruct Ha as [Ho Hops].
    pose proof (fstep_readable {| disk := d; mem := m |} o Hr Ho) as H1.
    destruct (fstep {| disk := d; mem := m |} o) as [[d1 m1] x]. cbn [fst disk] in H1.
    specialize (IH d1 m1 H1 Hops).
    destruct (frun {| disk := d1; mem := m1 |} ops) as [s2 xs]. exact IH.
Qed.

(** * lists of consecutive heights *)

Lemma range_length a n : length (range a n) = n.
Proof. revert a; induction n as [|n IH]; intros a; cbn; [reflexivity|]. rewrite IH. reflexivity. Qed.

Lemma range_app a n m : range a (n + m) = range a n ++ range (a + N.of_nat n) m.
Proof.
  revert a; induction n as [|n IH]; intros a.
  - cbn [range plus app]. f_equal. cbn. lia.
  - cbn [range plus app]. rewrite IH. f_equal. f_equal. f_equal. lia.
Qed.

Lemma In_range k a n : In k (range a n) <-> a <= k < a + N.of_nat n.
Proof.
  revert a; induction n as [|n IH]; intros a; cbn [range In].
  - split; [intros []|lia].
  - rewrite IH. lia.
Qed.

Lemma range_snoc a n : range a n ++ [a + N.of_nat n] = range a (S n).
Proof.
  replace (S n) with (n + 1)%nat by lia. rewrite range_app. reflexivity.
Qed.

Lemma last_range a n d : (0 < n)%nat -> last (range a n) d = a + N.of_nat n - 1.
Proof.
  intros H. destruct n as [|n]; [lia|]. rewrite <- range_snoc, last_last. lia.
Qed.

Lemma app_inv_length {A} (l1 l2 r1 r2 : list A) :
  l1 ++ l2 = r1 ++ r2 -> length l1 = length r1 -> l1 = r1 /\ l2 = r2.
Proof.
  revert r1; induction l1 as [|x l1 IH]; intros [|y r1] H Hl; cbn in *; try discriminate.
  - split; [reflexivity|exact H].
  - inversion H; subst. destruct (IH r1 H2) as [-> ->]; [lia|]. split; reflexivity.
Qed.

(** a prefix / suffix of a consecutive list is consecutive *)
Lemma range_split l1 l2 a :
  l1 ++ l2 = range a (length (l1 ++ l2)) ->
  l1 = range a (length l1) /\ l2 = range (a + N.of_nat (length l1)) (length l2).
Proof.
  rewrite app_length, range_app. intros H.
  apply app_inv_length in H.
  - exact H.
  - rewrite range_length. reflexivity.
Qed.


(** * confirmed heights *)

Lemma conf_in cl r c k :
  In r cl -> tx_st r = Confirmed c -> In k (tx_hs r) -> In k (conf cl).
Proof.
  induction cl as [|x cl IH]; intros Hin Hst Hk; [destruct Hin|].
  destruct Hin as [->|Hin]; cbn [conf].
  - rewrite Hst. apply in_or_app. left. exact Hk.
  - destruct (tx_st x); [apply IH; assumption|]. apply in_or_app. right. apply IH; assumption.
Qed.

Lemma conf_inv cl k :
  In k (conf cl) -> exists r c, In r cl /\ tx_st r = Confirmed c /\ In k (tx_hs r).
Proof.
  induction cl as [|x cl IH]; cbn [conf]; intros H; [destruct H|].
  destruct (tx_st x) as [|c] eqn:E.
  - destruct (IH H) as (r & c & A & B & C). exists r, c. split; [right; exact A|split; assumption].
  - apply in_app_or in H. destruct H as [H|H].
    + exists x, c. split; [left; reflexivity|split; assumption].
    + destruct (IH H) as (r & c' & A & B & C). exists r, c'. split; [right; exact A|split; assumption].
Qed.

Lemma find_confirmed_some tx cl c :
  find_confirmed tx cl = Some c -> exists r, In r cl /\ tx_id r = tx /\ tx_st r = Confirmed c.
Proof.
  induction cl as [|x cl IH]; cbn [find_confirmed]; intros H; [discriminate|].
  destruct (N.eqb_spec (tx_id x) tx) as [E|E].
  - destruct (tx_st x) as [|c'] eqn:Est.
    + destruct (IH H) as (r & A & B & C). exists r. split; [right; exact A|split; assumption].
    + inversion H; subst. exists x. split; [left; reflexivity|split; [reflexivity|exact Est]].
  - destruct (IH H) as (r & A & B & C). exists r. split; [right; exact A|split; assumption].
Qed.

Lemma confirm_tx_in tx c cl r' :
  In r' (confirm_tx tx c cl) -> exists r, In r cl /\ tx_id r' = tx_id r /\ tx_hs r' = tx_hs r.
Proof.
  unfold confirm_tx. rewrite in_map_iff. intros (r & <- & Hin). exists r. split; [exact Hin|].
  destruct (tx_id r =? tx); [|split; reflexivity]. destruct (tx_st r); split; reflexivity.
Qed.

Lemma conf_confirm_incl tx c cl k : In k (conf cl) -> In k (conf (confirm_tx tx c cl)).
Proof.
  induction cl as [|x cl IH]; cbn [conf confirm_tx map]; intros H; [exact H|].
  fold (confirm_tx tx c cl).
  destruct (tx_id x =? tx).
  - destruct (tx_st x) as [|c'] eqn:E; cbn [tx_st tx_hs].
    + apply in_or_app. right. apply IH, H.
    + rewrite E. apply in_app_or in H. apply in_or_app. destruct H as [H|H]; [left; exact H|right; apply IH, H].
  - destruct (tx_st x) as [|c'] eqn:E.
    + apply IH, H.
    + apply in_app_or in H. apply in_or_app. destruct H as [H|H]; [left; exact H|right; apply IH, H].
Qed.

Lemma Covered_mono base cl cl' l :
  (forall k, In k (conf cl) -> In k (conf cl')) -> Covered base cl l -> Covered base cl' l.
Proof. intros H C k Hk. apply H, C, Hk. Qed.

Lemma Covered_le base cl l l' : l' <= l -> Covered base cl l -> Covered base cl l'.
Proof. intros H C k Hk. apply C. lia. Qed.

(** * the invariant *)

Definition largest_hs (hs : list N) : N := last hs 0.

Definition phase_ok (d : fstate) (cl : list txrec) (vl : N) (hs : list N) (p : phase) : Prop :=
  match p with
  | PIdle ENone | PIdle EOther => True
  | PIdle (ETimedOut tx) | PSent tx | PPolling tx => exists c, d = Prepared (largest_hs hs) c vl tx
  | PPrepared tx =>
      (exists c, d = Prepared (largest_hs hs) c vl tx) /\ forall r, In r cl -> tx_id r <> tx
  end.

Record DInv (base : N) (d : fstate) (cl : list txrec) (fr : N) : Prop := {
  d_cov : Covered base cl (file_last d);
  d_valid : valid d = true;
  d_tx : forall h c l tx, d = Prepared h c l tx ->
           tx < fr /\
           forall r, In r cl -> tx_id r = tx -> tx_hs r = range (l + 1) (N.to_nat (h - l));
  d_fresh : forall r, In r cl -> tx_id r < fr;
  d_anch : forall r, In r cl -> exists a n, tx_hs r = range a n /\ Covered base cl (a - 1)
}.

Definition chan_start (v : vol) : N := reader_next v - lenN (chan v).

Record VInv (d : fstate) (cl : list txrec) (v : vol) : Prop := {
  vi_file : match v_mode v with
            | MRun => file_last d = v_last v
            | MStartup h c l tx =>
                d = Prepared h c l tx /\ inflight v = None /\ batch v = [] /\ pending v = None /\
                v_last v = l
            end;
  vi_taken : taken v = range (v_last v + 1) (length (taken v));
  vi_chan : chan v = range (chan_start v) (length (chan v)) /\ lenN (chan v) <= reader_next v;
  vi_link : (taken v = [] /\ chan_start v <= v_last v + 1) \/
            chan_start v = v_last v + 1 + lenN (taken v);
  vi_att : forall a, inflight v = Some a ->
             at_hs a <> [] /\ v_mode v = MRun /\
             phase_ok d cl (v_last v) (at_hs a) (at_phase a)
}.

Definition Inv (base : N) (s : sys) : Prop :=
  DInv base (sdisk s) (cel s) (fresh s) /\
  forall v, proc s = Some v -> VInv (sdisk s) (cel s) v.

Lemma Inv_init f0 : initial_file f0 -> Inv (file_last f0) (init f0).
Proof.
  intros Hf. split; [|intros v H; discriminate]. cbn [init sdisk cel fresh]. constructor.
  - intros k Hk. lia.
  - destruct Hf as [->|(c & l & ->)]; reflexivity.
  - intros h c l tx E. destruct Hf as [->|(c' & l' & ->)]; discriminate.
  - intros r [].
  - intros r [].
Qed.

(** facts about an in-flight attempt *)
Lemma att_facts d cl v a :
  VInv d cl v -> inflight v = Some a ->
  at_hs a = range (v_last v + 1) (length (at_hs a)) /\
  largest_hs (at_hs a) = v_last v + lenN (at_hs a) /\
  0 < lenN (at_hs a) /\
  batch v ++ opt_list (pending v) =
    range (v_last v + 1 + lenN (at_hs a)) (length (batch v ++ opt_list (pending v))) /\
  lenN (taken v) = lenN (at_hs a) + lenN (batch v ++ opt_list (pending v)).
Proof.
  intros V Ha. pose proof (vi_taken _ _ _ V) as Ht. pose proof (vi_att _ _ _ V a Ha) as (Hne & _ & _).
  unfold taken in *. rewrite Ha in *.
  destruct (range_split _ _ _ Ht) as [H1 H2].
  assert (Hlen : (0 < length (at_hs a))%nat) by (destruct (at_hs a); [contradiction|cbn; lia]).
  split; [exact H1|]. split.
  - unfold largest_hs. rewrite H1 at 1. rewrite last_range by exact Hlen. unfold lenN. lia.
  - split; [unfold lenN; lia|]. split.
    + unfold lenN. exact H2.
    + unfold lenN. rewrite app_length. lia.
Qed.

Lemma VInv_upd d cl v d' cl' a p :
  VInv d cl v -> inflight v = Some a -> file_last d' = v_last v ->
  phase_ok d' cl' (v_last v) (at_hs a) p ->
  VInv d' cl' (set_phase v a p).
Proof.
  intros V Ha Hf Hp. pose proof (vi_att _ _ _ V a Ha) as (Hne & Hm & _).
  constructor; unfold set_phase, taken, chan_start in *; cbn [v_mode v_last inflight batch pending chan reader_next at_hs at_phase].
  - rewrite Hm. exact Hf.
  - pose proof (vi_taken _ _ _ V) as H. unfold taken in H. rewrite Ha in H. exact H.
  - apply (vi_chan _ _ _ V).
  - pose proof (vi_link _ _ _ V) as H. unfold taken, chan_start in H. rewrite Ha in H. exact H.
  - intros a' E. inversion E; subst; clear E. cbn [at_hs at_phase]. split; [exact Hne|split; [exact Hm|exact Hp]].
Qed.

Lemma VInv_cl d cl cl' v :
  VInv d cl v -> (forall r', In r' cl' -> exists r, In r cl /\ tx_id r' = tx_id r) -> VInv d cl' v.
Proof.
  intros V H. constructor; try apply V.
  intros a Ha. destruct (vi_att _ _ _ V a Ha) as (A & B & C). split; [exact A|split; [exact B|]].
  unfold phase_ok in *. destruct (at_phase a) as [[| |tx]|tx|tx|tx]; try exact C.
  destruct C as [C1 C2]. split; [exact C1|]. intros r' Hr'. destruct (H r' Hr') as (r & Hr & ->).
  apply C2, Hr.
Qed.

Lemma DInv_cov_tx base d cl fr h c l tx c' :
  DInv base d cl fr -> d = Prepared h c l tx -> find_confirmed tx cl = Some c' ->
  Covered base cl h.
Proof.
  intros D E F. destruct (find_confirmed_some _ _ _ F) as (r & Hin & Hid & Hst).
  destruct (d_tx _ _ _ _ D h c l tx E) as [_ Hhs]. specialize (Hhs r Hin Hid).
  pose proof (d_valid _ _ _ _ D) as Hv. rewrite E in Hv. cbn [valid] in Hv. apply N.ltb_lt in Hv.
  pose proof (d_cov _ _ _ _ D) as Hc. rewrite E in Hc. cbn [file_last] in Hc.
  intros k Hk. destruct (N.le_gt_cases k l) as [Hle|Hgt].
  - apply Hc. lia.
  - eapply conf_in; [exact Hin|exact Hst|]. rewrite Hhs. apply In_range. lia.
Qed.

(** * preservation *)

Lemma DInv_same base s d cl fr :
  DInv base (sdisk s) (cel s) (fresh s) -> d = sdisk s -> cl = cel s -> fr = fresh s ->
  DInv base d cl fr.
Proof. intros H -> -> ->. exact H. Qed.

Lemma lenN_app {A} (l1 l2 : list A) : lenN (l1 ++ l2) = lenN l1 + lenN l2.
Proof. unfold lenN. rewrite app_length. lia. Qed.

Lemma lenN_cons {A} (x : A) l : lenN (x :: l) = 1 + lenN l.
Proof. unfold lenN. cbn [length]. lia. Qed.

Lemma lenN_nil_inv {A} (l : list A) : lenN l = 0 -> l = [].
Proof. destruct l; [reflexivity|]. unfold lenN; cbn. lia. Qed.

Lemma range_S a n : range a (S n) = a :: range (a + 1) n.
Proof. reflexivity. Qed.

Lemma cons_inj {A} (x y : A) l m : x :: l = y :: m -> x = y /\ l = m.
Proof. intros H. injection H as -> ->. split; reflexivity. Qed.

(** fetch *)
Lemma inv_fetch d cl v :
  VInv d cl v ->
  VInv d cl {| v_mode := v_mode v; v_lastc := v_lastc v; v_last := v_last v;
               reader_next := reader_next v + 1; chan := chan v ++ [reader_next v];
               batch := batch v; pending := pending v; inflight := inflight v |}.
Proof.
  intros V. destruct (vi_chan _ _ _ V) as [Hc Hl].
  assert (Hs : reader_next v + 1 - lenN (chan v ++ [reader_next v]) = chan_start v).
  { unfold chan_start. rewrite lenN_app. unfold lenN at 2. cbn. lia. }
  constructor; unfold taken, chan_start in *; cbn [v_mode v_last inflight batch pending chan reader_next].
  - apply (vi_file _ _ _ V).
  - apply (vi_taken _ _ _ V).
  - rewrite Hs. split.
    + rewrite app_length. cbn [length]. replace (length (chan v) + 1)%nat with (S (length (chan v))) by lia.
      rewrite <- range_snoc. rewrite <- Hc. f_equal. f_equal. unfold lenN in *. lia.
    + rewrite lenN_app. unfold lenN at 2. cbn. lia.
  - rewrite Hs. apply (vi_link _ _ _ V).
  - apply (vi_att _ _ _ V).
Qed.

(** receive the head of the channel *)
Lemma inv_recv d cl v x rest b p :
  VInv d cl v -> v_mode v = MRun -> pending v = None -> chan v = x :: rest ->
  ((x <= v_last v /\ b = batch v /\ p = None) \/
   (v_last v < x /\ batch v <> [] /\ b = batch v /\ p = Some x) \/
   (v_last v < x /\ b = batch v ++ [x] /\ p = None)) ->
  VInv d cl {| v_mode := MRun; v_lastc := v_lastc v; v_last := v_last v;
               reader_next := reader_next v; chan := rest;
               batch := b; pending := p; inflight := inflight v |}.
Proof.
  intros V Hm Hp Hch Hcase.
  destruct (vi_chan _ _ _ V) as [Hc Hl].
  pose proof (vi_link _ _ _ V) as Hlink. pose proof (vi_taken _ _ _ V) as Ht.
  unfold chan_start in *. rewrite Hch in *. rewrite lenN_cons in *.
  change (length (x :: rest)) with (S (length rest)) in Hc. rewrite range_S in Hc.
  apply cons_inj in Hc. destruct Hc as [Hx Hrest].
  set (hs := match inflight v with Some a => at_hs a | None => [] end) in *.
  assert (Htk : taken v = hs ++ batch v) by (unfold taken, hs; rewrite Hp; cbn [opt_list]; rewrite app_nil_r; reflexivity).
  assert (Hs' : reader_next v - lenN rest = x + 1) by lia.
  assert (Hsnoc : v_last v < x -> taken v ++ [x] = range (v_last v + 1) (length (taken v ++ [x])) /\
                                   x + 1 = v_last v + 1 + lenN (taken v ++ [x])).
  { intros Hgt. assert (Hxeq : x = v_last v + 1 + lenN (taken v)).
    { destruct Hlink as [[Hnil Hle]|Heq]; [rewrite Hnil; unfold lenN; cbn; lia|lia]. }
    split.
    - rewrite app_length. cbn [length]. replace (length (taken v) + 1)%nat with (S (length (taken v))) by lia.
      rewrite <- range_snoc, <- Ht. f_equal. f_equal. unfold lenN in Hxeq. lia.
    - rewrite lenN_app. unfold lenN at 2. cbn. lia. }
  constructor; unfold chan_start; cbn [v_mode v_last inflight batch pending chan reader_next].
  - pose proof (vi_file _ _ _ V) as Hf. rewrite Hm in Hf. exact Hf.
  - destruct Hcase as [(Hle & -> & ->)|[(Hgt & Hne & -> & ->)|(Hgt & -> & ->)]].
    + unfold taken; cbn [inflight batch pending]. rewrite <- Hp. exact Ht.
    + destruct (Hsnoc Hgt) as [A _]. unfold taken in *; cbn [inflight batch pending opt_list].
      fold hs. rewrite Htk in A. rewrite <- app_assoc in A. exact A.
    + destruct (Hsnoc Hgt) as [A _]. unfold taken in *; cbn [inflight batch pending opt_list].
      fold hs. rewrite Htk in A. rewrite app_nil_r. rewrite <- app_assoc in A. exact A.
  - split; [|lia]. rewrite Hs'. rewrite Hrest at 1. f_equal. lia.
  - rewrite Hs'.
    destruct Hcase as [(Hle & -> & ->)|[(Hgt & Hne & -> & ->)|(Hgt & -> & ->)]].
    + left. destruct Hlink as [[Hnil Hle']|Heq]; [|lia].
      split; [|lia]. unfold taken in *; cbn [inflight batch pending]. rewrite <- Hp. exact Hnil.
    + right. destruct (Hsnoc Hgt) as [_ B]. rewrite B. f_equal. f_equal.
      rewrite Htk. unfold taken; cbn [inflight batch pending opt_list]. fold hs. rewrite <- app_assoc. reflexivity.
    + right. destruct (Hsnoc Hgt) as [_ B]. rewrite B. f_equal. f_equal.
      rewrite Htk. unfold taken; cbn [inflight batch pending opt_list]. fold hs. rewrite app_nil_r, <- app_assoc. reflexivity.
  - intros a Ha. destruct (vi_att _ _ _ V a Ha) as (A & _ & C). split; [exact A|split; [reflexivity|exact C]].
Qed.

(** take the batch *)
Lemma inv_take d cl v :
  VInv d cl v -> v_mode v = MRun -> inflight v = None -> batch v <> [] ->
  VInv d cl {| v_mode := MRun; v_lastc := v_lastc v; v_last := v_last v;
               reader_next := reader_next v; chan := chan v;
               batch := opt_list (pending v); pending := None;
               inflight := Some {| at_hs := batch v; at_phase := PIdle ENone |} |}.
Proof.
  intros V Hm Hi Hb.
  assert (Htk : forall q, taken {| v_mode := MRun; v_lastc := v_lastc v; v_last := v_last v;
               reader_next := reader_next v; chan := chan v;
               batch := opt_list (pending v); pending := None;
               inflight := Some {| at_hs := batch v; at_phase := q |} |} = taken v).
  { intros q. unfold taken; cbn [inflight batch pending at_hs opt_list]. rewrite Hi, app_nil_r. reflexivity. }
  constructor; unfold chan_start; cbn [v_mode v_last chan reader_next].
  - pose proof (vi_file _ _ _ V) as Hf. rewrite Hm in Hf. exact Hf.
  - rewrite Htk. apply (vi_taken _ _ _ V).
  - apply (vi_chan _ _ _ V).
  - rewrite Htk. apply (vi_link _ _ _ V).
  - cbn [inflight]. intros a E. inversion E; subst; clear E. cbn [at_hs at_phase phase_ok].
    split; [exact Hb|split; [reflexivity|exact I]].
Qed.

(** an attempt finishes: `started(c, largest)` *)
Lemma inv_finish base s v a c tx :
  Inv base s -> proc s = Some v -> inflight v = Some a ->
  (exists c0, sdisk s = Prepared (largest_hs (at_hs a)) c0 (v_last v) tx) ->
  find_confirmed tx (cel s) = Some c ->
  Inv base (finish s v a c).
Proof.
  intros [D VI] Hp Ha (c0 & Hd) Hf. specialize (VI v Hp).
  destruct (att_facts _ _ _ _ VI Ha) as (Hhs & Hlg & Hpos & Hrest & Hlen).
  unfold finish, largest. fold (largest_hs (at_hs a)). split; cbn [sdisk cel fresh proc].
  - constructor.
    + cbn [file_last]. eapply DInv_cov_tx; eassumption.
    + reflexivity.
    + intros h c1 l tx1 E. discriminate.
    + apply (d_fresh _ _ _ _ D).
    + apply (d_anch _ _ _ _ D).
  - intros v' E. inversion E; subst v'; clear E.
    constructor; unfold chan_start, taken; cbn [v_mode v_last inflight batch pending chan reader_next app].
    + reflexivity.
    + rewrite Hlg. rewrite Hrest at 1. f_equal. lia.
    + apply (vi_chan _ _ _ VI).
    + right. destruct (vi_link _ _ _ VI) as [[Hnil _]|Heq].
      * exfalso. apply (f_equal lenN) in Hnil. rewrite Hlen in Hnil. unfold lenN at 3 in Hnil. cbn in Hnil. lia.
      * unfold chan_start in Heq. rewrite Heq, Hlen, Hlg. lia.
    + intros a' E. discriminate.
Qed.

Lemma step_inv base s e s' : Inv base s -> step s e = Some s' -> Inv base s'.
Proof.
  intros HI H. pose proof HI as [D VI].
  unfold step in H.
  destruct e.
  - (* EFetch *)
    destruct (proc s) as [v|] eqn:Ep; [|discriminate]. inversion H; subst; clear H.
    split; [exact D|]. cbn [with_proc proc sdisk cel]. intros v' E. inversion E; subst; clear E.
    apply inv_fetch. apply VI. reflexivity.
  - (* ERecv *)
    destruct (proc s) as [v|] eqn:Ep; [|discriminate]. specialize (VI v eq_refl).
    unfold is_run in H. destruct (v_mode v) eqn:Em; [discriminate|].
    destruct (pending v) eqn:Epd; [discriminate|]. destruct (chan v) as [|x rest] eqn:Ech; [discriminate|].
    destruct (N.leb_spec x (v_last v)) as [Hle|Hgt].
    + inversion H; subst; clear H. split; [exact D|]. cbn [with_proc proc sdisk cel].
      intros v' E. inversion E; subst; clear E.
      eapply inv_recv; try eassumption. left. repeat split; assumption.
    + destruct full.
      * destruct (batch v) eqn:Eb; [discriminate|]. inversion H; subst; clear H.
        split; [exact D|]. cbn [with_proc proc sdisk cel]. intros v' E. inversion E; subst; clear E.
        rewrite <- Eb. eapply inv_recv; try eassumption. right. left.
        split; [exact Hgt|]. split; [rewrite Eb; discriminate|split; reflexivity].
      * inversion H; subst; clear H.
        split; [exact D|]. cbn [with_proc proc sdisk cel]. intros v' E. inversion E; subst; clear E.
        eapply inv_recv; try eassumption. right. right. split; [exact Hgt|split; reflexivity].
  - (* ETake *)
    destruct (proc s) as [v|] eqn:Ep; [|discriminate]. specialize (VI v eq_refl).
    unfold is_run in H. destruct (v_mode v) eqn:Em; [discriminate|].
    destruct (inflight v) eqn:Ei; [discriminate|]. destruct (batch v) eqn:Eb; [discriminate|].
    inversion H; subst; clear H. split; [exact D|]. cbn [with_proc proc sdisk cel].
    intros v' E. inversion E; subst; clear E. rewrite <- Eb.
    apply inv_take; try assumption. rewrite Eb. discriminate.
  - (* EPrepareFail *)
    destruct (proc s) as [v|] eqn:Ep; [|discriminate]. specialize (VI v eq_refl).
    destruct (inflight v) as [a|] eqn:Ei; [|discriminate].
    pose proof (vi_att _ _ _ VI a Ei) as (_ & Hm & _). pose proof (vi_file _ _ _ VI) as Hf. rewrite Hm in Hf.
    destruct (at_phase a) as [[| |tx]|tx|tx|tx]; try discriminate;
      inversion H; subst; clear H; (split; [exact D|]); cbn [with_proc proc sdisk cel];
      intros v' E; inversion E; subst; clear E; (eapply VInv_upd; [exact VI|exact Ei|exact Hf|exact I]).
  - (* EPrepareOk *)
    destruct (proc s) as [v|] eqn:Ep; [|discriminate]. specialize (VI v eq_refl).
    destruct (inflight v) as [a|] eqn:Ei; [|discriminate].
    pose proof (vi_att _ _ _ VI a Ei) as (_ & Hm & _). pose proof (vi_file _ _ _ VI) as Hf. rewrite Hm in Hf.
    assert (Hgoal : v_last v <? largest a = true ->
      Inv base {| sdisk := Prepared (largest a) (v_lastc v) (v_last v) (fresh s);
                  proc := Some (set_phase v a (PPrepared (fresh s)));
                  cel := cel s; fresh := fresh s + 1 |}).
    { intros Hlt. split; cbn [sdisk cel fresh proc].
      - constructor.
        + cbn [file_last]. rewrite <- Hf. apply (d_cov _ _ _ _ D).
        + cbn [valid]. exact Hlt.
        + intros h c l tx E. inversion E; subst. split; [lia|].
          intros r Hr Hid. pose proof (d_fresh _ _ _ _ D r Hr). lia.
        + intros r Hr. pose proof (d_fresh _ _ _ _ D r Hr). lia.
        + apply (d_anch _ _ _ _ D).
      - intros v' E. inversion E; subst; clear E.
        eapply VInv_upd; [exact VI|exact Ei|reflexivity|].
        cbn [phase_ok]. split; [exists (v_lastc v); reflexivity|].
        intros r Hr. pose proof (d_fresh _ _ _ _ D r Hr). lia. }
    destruct (at_phase a) as [[| |tx]|tx|tx|tx]; try discriminate;
      (destruct (v_last v <? largest a) eqn:Elt; [|discriminate]);
      inversion H; subst; clear H; apply Hgoal; reflexivity.
  - (* EDeliver *)
    destruct (proc s) as [v|] eqn:Ep; [|discriminate]. specialize (VI v eq_refl).
    destruct (inflight v) as [a|] eqn:Ei; [|discriminate].
    pose proof (vi_att _ _ _ VI a Ei) as (_ & Hm & Hph). pose proof (vi_file _ _ _ VI) as Hf. rewrite Hm in Hf.
    destruct (at_phase a) as [[| |tx]|tx|tx|tx] eqn:Eph; try discriminate.
    inversion H; subst; clear H. cbn [phase_ok] in Hph. destruct Hph as [(c0 & Hd) Hnot].
    destruct (att_facts _ _ _ _ VI Ei) as (Hhs & Hlg & Hpos & _ & _).
    assert (Hconf : forall k, In k (conf (cel s)) <->
                              In k (conf ({| tx_id := tx; tx_hs := at_hs a; tx_st := Pending |} :: cel s))).
    { intros k. cbn [conf tx_st]. reflexivity. }
    split; cbn [sdisk cel fresh proc].
    + constructor.
      * eapply Covered_mono; [|apply (d_cov _ _ _ _ D)]. intros k. apply Hconf.
      * apply (d_valid _ _ _ _ D).
      * intros h c l tx1 E. destruct (d_tx _ _ _ _ D h c l tx1 E) as [Hlt Hrec]. split; [exact Hlt|].
        intros r [<-|Hr] Hid; cbn [tx_id tx_hs] in *.
        -- rewrite Hd in E. inversion E; subst. rewrite Hlg. rewrite Hhs at 1. f_equal. unfold lenN. lia.
        -- apply Hrec; assumption.
      * intros r [<-|Hr]; [|apply (d_fresh _ _ _ _ D), Hr]. cbn [tx_id].
        apply (d_tx _ _ _ _ D _ _ _ _ Hd).
      * intros r [<-|Hr].
        -- cbn [tx_hs]. exists (v_last v + 1), (length (at_hs a)). split; [exact Hhs|].
           replace (v_last v + 1 - 1) with (v_last v) by lia. rewrite <- Hf.
           eapply Covered_mono; [|apply (d_cov _ _ _ _ D)]. intros k. apply Hconf.
        -- destruct (d_anch _ _ _ _ D r Hr) as (a0 & n & A & B). exists a0, n. split; [exact A|].
           eapply Covered_mono; [|exact B]. intros k. apply Hconf.
    + intros v' E. inversion E; subst; clear E.
      eapply VInv_upd; [exact VI|exact Ei|exact Hf|]. cbn [phase_ok]. exists c0. exact Hd.
  - (* ERespOk *)
    destruct (proc s) as [v|] eqn:Ep; [|discriminate]. specialize (VI v eq_refl).
    destruct (inflight v) as [a|] eqn:Ei; [|discriminate].
    pose proof (vi_att _ _ _ VI a Ei) as (_ & Hm & Hph). pose proof (vi_file _ _ _ VI) as Hf. rewrite Hm in Hf.
    destruct (at_phase a) as [[| |tx]|tx|tx|tx] eqn:Eph; try discriminate.
    inversion H; subst; clear H. split; [exact D|]. cbn [with_proc proc sdisk cel].
    intros v' E. inversion E; subst; clear E.
    eapply VInv_upd; [exact VI|exact Ei|exact Hf|exact Hph].
  - (* ERespErr *)
    destruct (proc s) as [v|] eqn:Ep; [|discriminate]. specialize (VI v eq_refl).
    destruct (inflight v) as [a|] eqn:Ei; [|discriminate].
    pose proof (vi_att _ _ _ VI a Ei) as (_ & Hm & Hph). pose proof (vi_file _ _ _ VI) as Hf. rewrite Hm in Hf.
    destruct (at_phase a) as [[| |tx]|tx|tx|tx] eqn:Eph; try discriminate;
      inversion H; subst; clear H; (split; [exact D|]); cbn [with_proc proc sdisk cel];
      intros v' E; inversion E; subst; clear E; (eapply VInv_upd; [exact VI|exact Ei|exact Hf|exact I]).
  - (* ERespTimeout *)
    destruct (proc s) as [v|] eqn:Ep; [|discriminate]. specialize (VI v eq_refl).
    destruct (inflight v) as [a|] eqn:Ei; [|discriminate].
    pose proof (vi_att _ _ _ VI a Ei) as (_ & Hm & Hph). pose proof (vi_file _ _ _ VI) as Hf. rewrite Hm in Hf.
    destruct (at_phase a) as [[| |tx]|tx|tx|tx] eqn:Eph; try discriminate;
      inversion H; subst; clear H; (split; [exact D|]); cbn [with_proc proc sdisk cel];
      intros v' E; inversion E; subst; clear E; (eapply VInv_upd; [exact VI|exact Ei|exact Hf|]);
      cbn [phase_ok] in *; [apply Hph|exact Hph].
  - (* EPollOk *)
    destruct (proc s) as [v|] eqn:Ep; [|discriminate]. pose proof (VI v eq_refl) as V.
    destruct (inflight v) as [a|] eqn:Ei; [|discriminate].
    pose proof (vi_att _ _ _ V a Ei) as (_ & Hm & Hph).
    destruct (at_phase a) as [[| |tx]|tx|tx|tx] eqn:Eph; try discriminate.
    destruct (find_confirmed tx (cel s)) as [c|] eqn:Ef; [|discriminate].
    inversion H; subst; clear H. eapply inv_finish; try eassumption.
  - (* EReconfirmOk *)
    destruct (proc s) as [v|] eqn:Ep; [|discriminate]. pose proof (VI v eq_refl) as V.
    destruct (inflight v) as [a|] eqn:Ei; [|discriminate].
    pose proof (vi_att _ _ _ V a Ei) as (_ & Hm & Hph).
    destruct (at_phase a) as [[| |tx]|tx|tx|tx] eqn:Eph; try discriminate.
    destruct (find_confirmed tx (cel s)) as [c|] eqn:Ef; [|discriminate].
    inversion H; subst; clear H. eapply inv_finish; try eassumption.
  - (* EReconfirmTimeout *)
    destruct (proc s) as [v|] eqn:Ep; [|discriminate]. specialize (VI v eq_refl).
    destruct (inflight v) as [a|] eqn:Ei; [|discriminate].
    pose proof (vi_att _ _ _ VI a Ei) as (_ & Hm & Hph). pose proof (vi_file _ _ _ VI) as Hf. rewrite Hm in Hf.
    destruct (at_phase a) as [[| |tx]|tx|tx|tx] eqn:Eph; try discriminate.
    inversion H; subst; clear H. split; [exact D|]. cbn [with_proc proc sdisk cel].
    intros v' E. inversion E; subst; clear E.
    eapply VInv_upd; [exact VI|exact Ei|exact Hf|exact I].
  - (* EStartupOk *)
    destruct (proc s) as [v|] eqn:Ep; [|discriminate]. specialize (VI v eq_refl).
    pose proof (vi_file _ _ _ VI) as Hf.
    destruct (v_mode v) as [h c l tx|] eqn:Em; [|discriminate].
    destruct Hf as (Hd & Hi & Hb & Hpd & Hl).
    destruct (find_confirmed tx (cel s)) as [c'|] eqn:Ef; [|discriminate].
    injection H as <-.
    pose proof (d_valid _ _ _ _ D) as Hv. rewrite Hd in Hv. cbn [valid] in Hv. apply N.ltb_lt in Hv.
    split; cbn [sdisk cel fresh proc].
    + constructor.
      * cbn [file_last]. eapply DInv_cov_tx; eassumption.
      * reflexivity.
      * intros h0 c1 l0 tx1 E. discriminate.
      * apply (d_fresh _ _ _ _ D).
      * apply (d_anch _ _ _ _ D).
    + intros v' E. inversion E; subst v'; clear E.
      assert (Htk : taken v = []) by (unfold taken; rewrite Hi, Hb, Hpd; reflexivity).
      constructor; unfold chan_start, taken; cbn [v_mode v_last inflight batch pending chan reader_next].
      * reflexivity.
      * rewrite Hi, Hb, Hpd. reflexivity.
      * apply (vi_chan _ _ _ VI).
      * left. split; [rewrite Hi, Hb, Hpd; reflexivity|].
        destruct (vi_link _ _ _ VI) as [[_ Hle]|Heq]; unfold chan_start in *.
        -- lia.
        -- rewrite Htk in Heq. unfold lenN at 2 in Heq. cbn in Heq. lia.
      * intros a Ha. rewrite Hi in Ha. discriminate.
  - (* EStartupTimeout *)
    destruct (proc s) as [v|] eqn:Ep; [|discriminate]. specialize (VI v eq_refl).
    pose proof (vi_file _ _ _ VI) as Hf.
    destruct (v_mode v) as [h c l tx|] eqn:Em; [|discriminate].
    destruct Hf as (Hd & Hi & Hb & Hpd & Hl).
    injection H as <-.
    split; cbn [sdisk cel fresh proc].
    + constructor.
      * cbn [file_last]. pose proof (d_cov _ _ _ _ D) as Hc. rewrite Hd in Hc. exact Hc.
      * reflexivity.
      * intros h0 c1 l0 tx1 E. discriminate.
      * apply (d_fresh _ _ _ _ D).
      * apply (d_anch _ _ _ _ D).
    + intros v' E. inversion E; subst v'; clear E.
      constructor; unfold chan_start, taken; cbn [v_mode v_last inflight batch pending chan reader_next].
      * reflexivity.
      * rewrite Hi, Hb, Hpd. reflexivity.
      * apply (vi_chan _ _ _ VI).
      * pose proof (vi_link _ _ _ VI) as Hlk. unfold chan_start, taken in Hlk. rewrite Hl in Hlk. exact Hlk.
      * intros a Ha. rewrite Hi in Ha. discriminate.
  - (* ECelConfirm *)
    assert (Hs' : s' = {| sdisk := sdisk s; proc := proc s; cel := confirm_tx tx c (cel s); fresh := fresh s |}).
    { destruct (proc s); inversion H; reflexivity. }
    subst s'. split; cbn [sdisk cel fresh proc].
    + constructor.
      * eapply Covered_mono; [|apply (d_cov _ _ _ _ D)]. intros k. apply conf_confirm_incl.
      * apply (d_valid _ _ _ _ D).
      * intros h c0 l tx1 E. destruct (d_tx _ _ _ _ D h c0 l tx1 E) as [Hlt Hrec]. split; [exact Hlt|].
        intros r' Hr' Hid. destruct (confirm_tx_in _ _ _ _ Hr') as (r & Hr & Hid' & Hhs').
        rewrite Hhs'. apply Hrec; [exact Hr|congruence].
      * intros r' Hr'. destruct (confirm_tx_in _ _ _ _ Hr') as (r & Hr & Hid' & _). rewrite Hid'.
        apply (d_fresh _ _ _ _ D), Hr.
      * intros r' Hr'. destruct (confirm_tx_in _ _ _ _ Hr') as (r & Hr & _ & Hhs').
        destruct (d_anch _ _ _ _ D r Hr) as (a0 & n & A & B). exists a0, n. split; [congruence|].
        eapply Covered_mono; [|exact B]. intros k. apply conf_confirm_incl.
    + intros v Hv. eapply VInv_cl; [apply VI, Hv|].
      intros r' Hr'. destruct (confirm_tx_in _ _ _ _ Hr') as (r & Hr & Hid' & _). exists r. split; assumption.
  - (* ECrash *)
    destruct (proc s) as [v|] eqn:Ep; [|discriminate]. inversion H; subst; clear H.
    split; [exact D|]. cbn [proc]. intros v' E. discriminate.
  - (* ERestart *)
    destruct (proc s) as [v|] eqn:Ep; [discriminate|].
    assert (Hnew : forall m c l,
      match m with MRun => file_last (sdisk s) = l | MStartup h c0 l0 tx => sdisk s = Prepared h c0 l0 tx /\ l = l0 end ->
      Inv base (with_proc s {| v_mode := m; v_lastc := c; v_last := l; reader_next := l + 1;
                               chan := []; batch := []; pending := None; inflight := None |})).
    { intros m c l Hm. split; [exact D|]. cbn [with_proc proc sdisk cel].
      intros v' E. inversion E; subst v'; clear E.
      constructor; unfold chan_start, taken; cbn [v_mode v_last inflight batch pending chan reader_next app opt_list length range].
      - destruct m as [h c0 l0 tx|]; [|exact Hm]. destruct Hm as [Hd ->]. repeat split; assumption.
      - reflexivity.
      - split; [reflexivity|]. unfold lenN; cbn. lia.
      - left. split; [reflexivity|]. unfold lenN; cbn. lia.
      - intros a E. discriminate. }
    destruct (sdisk s) as [|c l|h c l tx] eqn:Ed.
    + inversion H; subst; clear H. apply Hnew. reflexivity.
    + inversion H; subst; clear H. apply Hnew. reflexivity.
    + destruct (l <? h); [|discriminate]. inversion H; subst; clear H. apply Hnew. split; reflexivity.
Qed.

Lemma run_inv base es : forall s s', Inv base s -> run s es = Some s' -> Inv base s'.
Proof.
  induction es as [|e es IH]; intros s s' HI H; cbn [run] in H.
  - inversion H; subst. exact HI.
  - destruct (step s e) as [s1|] eqn:Es; [|discriminate].
    eapply IH; [|exact H]. eapply step_inv; eassumption.
Qed.

Lemma reach_inv f0 es s :
  initial_file f0 -> run (init f0) es = Some s -> Inv (file_last f0) s.
Proof. intros Hf H. eapply run_inv; [apply Inv_init, Hf|exact H]. Qed.

(** * the statements *)

Lemma no_gap : stmt_no_gap.
Proof.
  intros f0 es s Hf H h Hh. destruct (reach_inv _ _ _ Hf H) as [D _].
  destruct (conf_inv _ _ Hh) as (r & c & Hr & Hst & Hin).
  destruct (d_anch _ _ _ _ D r Hr) as (a & n & Hhs & Hcov).
  rewrite Hhs in Hin. apply In_range in Hin.
  intros k Hk. destruct (N.lt_ge_cases k a) as [Hlt|Hge].
  - apply Hcov. lia.
  - eapply conf_in; [exact Hr|exact Hst|]. rewrite Hhs. apply In_range. lia.
Qed.

Lemma file_truthful : stmt_file_truthful.
Proof. intros f0 es s Hf H. destruct (reach_inv _ _ _ Hf H) as [D _]. apply (d_cov _ _ _ _ D). Qed.

Lemma file_always_readable : stmt_file_always_readable.
Proof. intros f0 es s Hf H. destruct (reach_inv _ _ _ Hf H) as [D _]. apply (d_valid _ _ _ _ D). Qed.

Lemma restart_enabled : stmt_restart_enabled.
Proof.
  intros f0 es s Hf H Hp. pose proof (file_always_readable f0 es s Hf H) as Hv.
  unfold step. rewrite Hp. destruct (sdisk s) as [|c l|h c l tx]; try discriminate.
  cbn [valid] in Hv. rewrite Hv. discriminate.
Qed.

Lemma stream_contiguous : stmt_stream_contiguous.
Proof.
  intros f0 es s v Hf H Hp. destruct (reach_inv _ _ _ Hf H) as [_ VI]. specialize (VI v Hp).
  split; [apply (vi_taken _ _ _ VI)|]. split; [apply (vi_chan _ _ _ VI)|].
  destruct (vi_link _ _ _ VI) as [[_ Hle]|Heq]; unfold chan_start in *; lia.
Qed.

Lemma prepare_never_refused : stmt_prepare_never_refused.
Proof.
  intros f0 es s v a Hf H Hp Ha. destruct (reach_inv _ _ _ Hf H) as [_ VI]. specialize (VI v Hp).
  destruct (att_facts _ _ _ _ VI Ha) as (_ & Hlg & Hpos & _). unfold largest. fold (largest_hs (at_hs a)). lia.
Qed.

(** * non-vacuity: concrete histories *)
Module Examples.
  (** fresh start; blocks 1,2 submitted and confirmed; block 3 broadcast (delivered), crash
      before the answer; restart with a `prepared` file, confirmation times out -> reverted;
      3 and 4 re-submitted in a new transaction; the abandoned transaction is confirmed late
      (duplicate of 3), then the new one. *)
  Definition history : list event :=
    [ERestart; EFetch; EFetch; ERecv false; ERecv false; ETake; EPrepareOk; EDeliver; ERespOk;
     ECelConfirm 0 100; EPollOk;
     EFetch; ERecv false; ETake; EPrepareOk; EDeliver; ECrash;
     ERestart; EFetch; EFetch; EStartupTimeout; ERecv false; ERecv false; ETake;
     EPrepareFail; EPrepareOk; EDeliver; ERespTimeout; ECelConfirm 1 101; EReconfirmTimeout;
     EPrepareOk; EDeliver; ERespOk; ECelConfirm 3 102; EPollOk].

  Example ex_history :
    match run (init Fresh) history with
    | Some s => sdisk s = Started 102 4 /\ conf (cel s) = [3; 4; 3; 1; 2] /\
                map tx_st (cel s) = [Confirmed 102; Pending; Confirmed 101; Confirmed 100]
    | None => False
    end.
  Proof. vm_compute. repeat split; reflexivity. Qed.

  (** a `prepared` file whose transaction did get confirmed is picked up at restart, and the
      reader's re-fetched heights 3 (already covered) is skipped *)
  Definition history2 : list event :=
    [ERestart; EFetch; EFetch; EFetch; ERecv false; ERecv false; ERecv false; ETake;
     EPrepareOk; EDeliver; ECrash; ECelConfirm 0 7;
     ERestart; EFetch; EStartupOk; EFetch; ERecv false; ERecv false].

  Example ex_history2 :
    match run (init (Started 5 0)) history2 with
    | Some s => sdisk s = Started 7 3 /\
                match proc s with
                | Some v => v_last v = 3 /\ batch v = [] /\ chan v = [] /\ reader_next v = 3
                | None => False
                end
    | None => False
    end.
  Proof. vm_compute. repeat split; reflexivity. Qed.

  (** events that are not enabled are refused: no EPollOk before Celestia confirmed *)
  Example ex_not_enabled :
    run (init Fresh) [ERestart; EFetch; ERecv false; ETake; EPrepareOk; EDeliver; ERespOk; EPollOk] = None.
  Proof. vm_compute. reflexivity. Qed.

  (** file level: a crash between the temp write and the rename leaves the old state readable *)
  Example ex_file :
    let d0 := {| f_main := Some (Good (Started 5 10)); f_temp := None |} in
    let '(s, rs) := frun {| disk := d0; mem := None |}
                      [Startup; IntoPrepared 12 99 CrashBeforeRename; Startup;
                       IntoPrepared 10 98 NoCrash; IntoPrepared 12 97 CrashTorn; Startup;
                       IntoPrepared 13 96 NoCrash; Crash; Startup; Confirm 6 NoCrash] in
    rs = [ROk; ROk; ROk; RErr; ROk; ROk; ROk; ROk; ROk; ROk] /\
    read (disk s) = Some (Started 6 13) /\ mem s = Some (HStarted 6 13).
  Proof. vm_compute. repeat split; reflexivity. Qed.
End Examples.
