(** A concrete reachable-looking state and a few transactions, used by the non-vacuity Examples. *)
From Astria Require Import Base.Bounded Ledger.LedgerModel Ledger.LedgerSpec.

(** accounts 0..7; asset 0 native (fee asset), asset 1 a voucher; account 6 is a bridge account
    (rollup 1, asset 0, sudo 2, withdrawer 3); sudo address 0, ibc sudo 1; channel 0 is open. *)
Definition sample_fees (k : kind) : option (N * N) :=
  match k with
  | KTransfer => Some (12, 0)
  | KRollup => Some (32, 1)
  | KLock => Some (5, 2)
  | KRecover | KPairs | KMarkets | KIbcRelay => None
  | _ => Some (3, 0)
  end.

Definition sample_bridge : bridge_rec :=
  {| br_rollup := 1; br_asset := 0; br_sudo := Some 2; br_withdrawer := Some 3;
     br_disabled := None; br_lasttx := None |}.

Definition sample_state : state :=
  {| bal := fun x a => if a =? 0 then (if x <? 8 then 1000000 else 0)
                       else if (a =? 1) && (x =? 4) then 500 else 0;
     nonce := fun _ => 0;
     escrow := fun _ _ => 0;
     bridge := fun x => if x =? 6 then Some sample_bridge else None;
     wevent := fun _ _ => None;
     sudo := 0; ibc_sudo := 1;
     relayer := fun _ => false;
     fees := sample_fees;
     fee_assets := [0];
     known_assets := fun a => a =? 0;
     channels := fun c => c =? 0;
     validators := fun x => if x <? 3 then Some 10 else None;
     valcount := 3;
     block_fees := [];
     deposits := [];
     blackburn := true;
     height := 5 |}.

Definition mk_tx (id signer nonce : N) (l : list action) : tx :=
  {| tx_id := id; tx_signer := signer; tx_nonce := nonce; tx_actions := l |}.

Definition checked (s : state) (t : tx) : checked_tx :=
  match construct_tx s t with
  | Ok c => c
  | Err _ => {| ct_id := 0; ct_signer := 0; ct_nonce := 0; ct_actions := [] |}
  end.

(** a transfer + a lock + a rollup submission by account 4 *)
Definition sample_tx1 : tx :=
  mk_tx 101 4 0 [ATransfer 5 100 0 0; ALock 6 250 0 false 4 0 7 10; ARollup 2 40 0].
(** the withdrawer 3 unlocks 70 from the bridge to account 5 (event id 9) *)
Definition sample_tx2 : tx := mk_tx 102 3 0 [AUnlock 5 70 0 6 0 12 9 2].
(** a burn: account 4 withdraws 30 of the voucher asset 1 over its origin channel *)
Definition sample_tx3 : tx := mk_tx 103 4 1 [AIcs20 30 1 false 0 0 None MemoBad].
(** fails at the second action (insufficient funds): nothing must remain *)
Definition sample_tx_fail : tx :=
  mk_tx 104 5 0 [ATransfer 4 10 0 0; ATransfer 4 99999999 0 0].
(** sudo actions *)
Definition sample_tx_sudo : tx := mk_tx 105 0 0 [AFeeChange KTransfer 7 0; AFeeAsset true 1].
Definition sample_tx_bsudo : tx := mk_tx 106 2 0 [ABSudo 6 None (Some 7) 0 true].

(** account 5 is an IBC relayer and IbcRelay has a fee schedule; [bb] = Blackburn active *)
Definition sample_relay_state (bb : bool) : state :=
  set_round (set_fees (set_relayer sample_state (fun x => x =? 5))
                      (updk sample_fees KIbcRelay (Some (9, 0)))) bb 5.
(** a transfer followed by an IbcRelay message that fails execution *)
Definition sample_tx_relay : tx := mk_tx 107 5 0 [ATransfer 4 10 0 0; AIbcRelayFailing 0].
Definition sample_tx_relay_prefix : tx := mk_tx 108 5 0 [ATransfer 4 10 0 0].

(** asset 1 is a second allowed fee asset; account 4 pays a transfer fee in it, then the sudo
    account 0 removes asset 1 from the allowed fee assets - all in one block *)
Definition sample_two_fee_assets : state := set_fee_assets sample_state [0; 1].
Definition sample_tx_fee_in_1 : tx := mk_tx 111 4 0 [ATransfer 5 100 0 1].
Definition sample_tx_remove_1 : tx := mk_tx 112 0 0 [AFeeAsset false 1].
Definition sample_ops_fee_asset_removed : list op :=
  let s0 := begin_block sample_two_fee_assets 3 6 in
  let c1 := checked s0 sample_tx_fee_in_1 in
  let s1 := fst (exec_tx s0 c1) in
  [OpBegin 3 6; OpExec c1; OpExec (checked s1 sample_tx_remove_1)].

Definition sample_ops : list op :=
  [OpBegin 3 6;
   OpExec (checked sample_state sample_tx1);
   OpExec (checked sample_state sample_tx2);
   OpExec (checked sample_state sample_tx_fail);
   OpExec (checked sample_state sample_tx3);
   OpEnd].

Definition sample_L : list addr := [0; 1; 2; 3; 4; 5; 6; 7].
Definition sample_C : list chan := [0; 1].

Definition out_ok (o : step_out) : bool :=
  match o with STx (OutOk _) => true | SEnd (Some _) => true | SNone => true | _ => false end.

Example sample_run_outcomes :
  map out_ok (snd (run sample_state sample_ops)) = [true; true; true; false; true; true].
Proof. vm_compute. reflexivity. Qed.

Example sample_run_supply :
  let s' := fst (run sample_state sample_ops) in
  supply0 sample_L sample_C sample_state 0 = 8000000 /\
  supply0 sample_L sample_C s' 0 = 8000000 /\
  supply0 sample_L sample_C sample_state 1 = 500 /\
  supply0 sample_L sample_C s' 1 = 470 /\
  bal s' 6 0 = 1000000 + 250 - 70 /\
  nonce s' 4 = 2 /\ nonce s' 5 = 0 /\ wevent s' 6 9 = Some 12.
Proof. vm_compute. repeat split; reflexivity. Qed.
