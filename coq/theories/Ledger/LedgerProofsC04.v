(** C04: bridge deposits and withdrawal event ids.  Proofs of the [stmt_*] of LedgerSpec (C04). *)
From Astria Require Import Base.Bounded Ledger.LedgerModel Ledger.LedgerSpec Ledger.LedgerLemmas Ledger.LedgerSample.

(** ------------------------------------------------------------------ tactics *)

Ltac c04_bal :=
  repeat match goal with
  | H : increase_balance _ _ _ _ = Ok _ |- _ =>
    apply increase_balance_ok in H; destruct H as [? ?]
  | H : decrease_balance _ _ _ _ = Ok _ |- _ =>
    apply decrease_balance_ok in H; destruct H as [? ?]
  end.

Ltac c04_inv :=
  repeat (first
    [ inv_ok_step
    | match goal with
      | H : (if ?c then _ else _) = Ok _ |- _ => destruct c eqn:?
      end ]).

(** Pre-destruct the variables a hypothesis matches on. *)
Ltac c04_vars H :=
  cbv beta iota zeta in H;
  repeat (match type of H with
          | context [match ?x with Some _ => _ | None => _ end] => is_var x; destruct x
          | context [match ?x with MemoBad => _ | MemoRollup _ _ _ _ => _ end] =>
            is_var x; destruct x
          | context [if ?x then _ else _] => is_var x; destruct x
          end; cbv beta iota zeta in H).

(** Split [H : execute_action s signer tx idx ca = Ok s'] into its successful cases; [Hm] names
    the mutable-checks hypothesis. *)
Ltac c04_exec_split H Hm :=
  match type of H with
  | execute_action _ _ _ _ ?ca = Ok _ =>
    let a := fresh "act" in
    let cap := fresh "cap" in
    destruct ca as [a cap]; unfold execute_action in H;
    apply bind_ok in H; destruct H as [[] [Hm H]];
    destruct a; destruct cap; try discriminate H;
    c04_vars H; c04_inv; c04_bal; subst
  end.

(** ------------------------------------------------------------------ statement 1 *)

Lemma constructed_deposit_targets_bridge : stmt_constructed_deposit_targets_bridge.
Proof.
  intros s signer a ca H.
  destruct a; unfold construct_action in H;
    try (apply bind_ok in H; destruct H as [[] [_ H]]; inversion H; subst; exact I).
  - (* ALock *)
    destruct (bridge s to) as [br|] eqn:Eb; [|discriminate].
    c04_inv. exists br. split; [assumption|]. split; [reflexivity|].
    apply N.eqb_eq. assumption.
  - (* AUnlock *)
    c04_inv. exact I.
  - (* ABTransfer *)
    apply bind_ok in H. destruct H as [[] [_ H]].
    destruct (bridge s b) as [br|] eqn:Eb; [|discriminate].
    apply bind_ok in H. destruct H as [[] [_ H]].
    destruct (bridge s to) as [brt|] eqn:Et; [|discriminate].
    c04_inv. exists br, brt. repeat split; try assumption; try reflexivity.
    apply N.eqb_eq. assumption.
  - (* AIcs20 *)
    c04_inv; exact I.
  - (* ARollup *)
    c04_inv. exact I.
Qed.

Example constructed_deposit_targets_bridge_nonvacuous :
  construct_action sample_state 4 (ALock 6 250 0 false 4 0 7 10)
  = Ok (ALock 6 250 0 false 4 0 7 10, CapLock 1) /\
  bridge sample_state 6 = Some sample_bridge /\ br_rollup sample_bridge = 1 /\
  br_asset sample_bridge = 0.
Proof. vm_compute. repeat split; reflexivity. Qed.

(** ------------------------------------------------------------------ frames *)

Lemma c04_pay_fee_frame s signer k fa var pos s' evs :
  pay_fee s signer k fa var pos = Ok (s', evs) ->
  bridge s' = bridge s /\ wevent s' = wevent s /\ deposits s' = deposits s.
Proof.
  unfold pay_fee. intros H.
  destruct (fees s k) as [[base mult]|]; [|discriminate].
  destruct fa as [a|]; [|inversion H; subst; auto].
  c04_inv. c04_bal. subst. cbn. auto.
Qed.

Lemma c04_pfe_inv s signer tx idx ca s' evs :
  pay_fees_and_execute s signer tx idx ca = Ok (s', evs) ->
  exists s1,
    pay_fee s signer (action_kind (fst ca)) (action_fee_asset (fst ca))
            (action_variable (fst ca)) idx = Ok (s1, evs) /\
    execute_action s1 signer tx idx ca = Ok s'.
Proof.
  unfold pay_fees_and_execute. intros H.
  apply bind_ok in H. destruct H as [[s1 evs1] [H1 H2]].
  destruct ca as [a cap]. cbn [fst] in *.
  destruct a; cbv beta iota in H2;
    try (apply bind_ok in H2; destruct H2 as [s2 [H2 H3]]; inversion H3; subst;
         exists s1; split; assumption).
  - inversion H2; subst. exists s'. split; [assumption|]. reflexivity.
  - destruct (execute_action s1 signer tx idx (AIbcRelayFailing k, cap)) as [s2|e] eqn:E;
      [|discriminate H2].
    exfalso. exact (execute_relay_failing_never_ok s1 signer tx idx (AIbcRelayFailing k, cap) k s2 eq_refl E).
Qed.

Lemma c04_put_lasttx_frame s x t :
  wevent (put_lasttx s x t) = wevent s /\ deposits (put_lasttx s x t) = deposits s.
Proof. unfold put_lasttx. destruct (bridge s x); split; reflexivity. Qed.

Lemma c04_credit_fees_frame l : forall s x s',
  credit_fees s x l = Ok s' ->
  bridge s' = bridge s /\ wevent s' = wevent s /\ deposits s' = deposits s.
Proof.
  induction l as [|[a v] l IH]; intros s x s' H; cbn [credit_fees] in H.
  - inversion H; subst; auto.
  - apply bind_ok in H. destruct H as [s1 [H1 H2]].
    apply IH in H2. c04_bal. subst. cbn in H2. exact H2.
Qed.

(** A preorder on states that is insensitive to everything but [bridge] and [wevent] and is
    respected by the four writers of these two fields is respected by every step. *)
Section C04Lift.
  Variable R : state -> state -> Prop.
  Hypothesis R_refl : forall s, R s s.
  Hypothesis R_trans : forall s1 s2 s3, R s1 s2 -> R s2 s3 -> R s1 s3.
  Hypothesis R_frame : forall s s', bridge s' = bridge s -> wevent s' = wevent s -> R s s'.
  Hypothesis R_lasttx : forall s x t, R s (put_lasttx s x t).
  Hypothesis R_init : forall s x br, is_bridge s x = false -> R s (put_bridge s x br).
  Hypothesis R_bsudo : forall s b br new,
    bridge s b = Some br -> br_rollup new = br_rollup br -> br_asset new = br_asset br ->
    R s (put_bridge s b new).
  Hypothesis R_wevent : forall s b e blk, R s (put_wevent s b e blk).

  Lemma c04_lift_pay_fee s signer k fa var pos s' evs :
    pay_fee s signer k fa var pos = Ok (s', evs) -> R s s'.
  Proof.
    intros H. apply c04_pay_fee_frame in H. destruct H as [H1 [H2 _]]. apply R_frame; assumption.
  Qed.

  Lemma c04_lift_execute s signer tx idx ca s' :
    execute_action s signer tx idx ca = Ok s' -> R s s'.
  Proof.
    intros H. c04_exec_split H Hm;
      try (apply R_frame; reflexivity);
      try (eapply R_trans; [|apply R_wevent]; apply R_frame; reflexivity);
      try (eapply R_trans; [apply R_wevent|]; apply R_frame; reflexivity).
    all: try (apply R_init; unfold mutable_checks in Hm; c04_inv;
              match goal with H0 : negb ?x = true |- ?x = false =>
                destruct x; [discriminate H0|reflexivity] end).
    all: try (eapply R_bsudo; [eassumption|reflexivity|reflexivity]).
  Qed.

  Lemma c04_lift_exec_actions signer tx l : forall s idx s' evs,
    exec_actions s signer tx idx l = Ok (s', evs) -> R s s'.
  Proof.
    induction l as [|ca l IH]; intros s idx s' evs H; cbn [exec_actions] in H.
    - inversion H; subst. apply R_refl.
    - apply bind_ok in H. destruct H as [[s1 e1] [H1 H2]].
      apply bind_ok in H2. destruct H2 as [[s2 e2] [H2 H3]]. inversion H3; subst.
      apply c04_pfe_inv in H1. destruct H1 as [s0 [Hp He]].
      eapply R_trans; [eapply c04_lift_pay_fee; eassumption|].
      eapply R_trans; [eapply c04_lift_execute; eassumption|].
      eapply IH; eassumption.
  Qed.

  Lemma c04_lift_exec_tx s c : R s (fst (exec_tx s c)).
  Proof.
    unfold exec_tx. destruct (exec_tx_inner s c) as [[s' evs]|] eqn:E; cbn [fst]; [|apply R_refl].
    unfold exec_tx_inner in E. c04_inv.
    eapply R_trans; [apply (R_lasttx s (ct_signer c) (ct_id c))|].
    eapply R_trans; [|eapply c04_lift_exec_actions; eassumption].
    apply R_frame; reflexivity.
  Qed.

  Lemma c04_lift_step s o : R s (fst (step s o)).
  Proof.
    destruct o; cbn [step].
    - apply R_frame; reflexivity.
    - pose proof (c04_lift_exec_tx s c) as H. destruct (exec_tx s c) as [s' out]. exact H.
    - destruct (end_block s) as [[s' ds]|] eqn:E; cbn [fst]; [|apply R_refl].
      unfold end_block in E. apply bind_ok in E. destruct E as [s1 [H1 H2]].
      inversion H2; subst. apply c04_credit_fees_frame in H1. destruct H1 as [Hb [Hw _]].
      apply R_frame; cbn; assumption.
    - unfold op_mint. destruct trace; apply R_frame; reflexivity.
    - unfold op_allowfee. destruct (mem_asset a (fee_assets s)); destruct trace;
        apply R_frame; reflexivity.
    - unfold op_escrow. destruct trace; apply R_frame; reflexivity.
    - apply R_frame; reflexivity.
  Qed.
End C04Lift.

(** ------------------------------------------------------------------ statement 2 *)

Definition c04_bstable (s s' : state) : Prop :=
  forall b br, bridge s b = Some br ->
    exists br', bridge s' b = Some br' /\ br_rollup br' = br_rollup br /\
                br_asset br' = br_asset br.

Lemma c04_bstable_refl s : c04_bstable s s.
Proof. intros b br H. exists br. auto. Qed.

Lemma c04_bstable_trans s1 s2 s3 : c04_bstable s1 s2 -> c04_bstable s2 s3 -> c04_bstable s1 s3.
Proof.
  intros H12 H23 b br H. destruct (H12 b br H) as [br2 [H2 [Hr2 Ha2]]].
  destruct (H23 b br2 H2) as [br3 [H3 [Hr3 Ha3]]]. exists br3. repeat split; congruence.
Qed.

Lemma c04_bstable_frame s s' : bridge s' = bridge s -> wevent s' = wevent s -> c04_bstable s s'.
Proof. intros Hb _ b br H. exists br. rewrite Hb. auto. Qed.

Lemma c04_bstable_put s b0 br0 new :
  bridge s b0 = Some br0 -> br_rollup new = br_rollup br0 -> br_asset new = br_asset br0 ->
  c04_bstable s (put_bridge s b0 new).
Proof.
  intros H0 Hr Ha b br H. unfold put_bridge. cbn [bridge set_bridge]. unfold upd1.
  destruct (N.eqb_spec b b0) as [->|Hne].
  - exists new. rewrite H0 in H. inversion H; subst. auto.
  - exists br. auto.
Qed.

Lemma c04_bstable_lasttx s x t : c04_bstable s (put_lasttx s x t).
Proof.
  unfold put_lasttx. destruct (bridge s x) as [br|] eqn:E; [|apply c04_bstable_refl].
  eapply c04_bstable_put; [eassumption|reflexivity|reflexivity].
Qed.

Lemma c04_bstable_init s x br : is_bridge s x = false -> c04_bstable s (put_bridge s x br).
Proof.
  unfold is_bridge. intros Hx b br0 H. unfold put_bridge. cbn [bridge set_bridge]. unfold upd1.
  destruct (N.eqb_spec b x) as [->|Hne].
  - rewrite H in Hx. discriminate.
  - exists br0. auto.
Qed.

Lemma c04_bstable_wevent s b e blk : c04_bstable s (put_wevent s b e blk).
Proof. intros b0 br H. exists br. cbn. auto. Qed.

Lemma bridge_identity_stable : stmt_bridge_identity_stable.
Proof.
  intros s o b br H.
  exact (c04_lift_step c04_bstable c04_bstable_refl c04_bstable_trans c04_bstable_frame
           c04_bstable_lasttx c04_bstable_init c04_bstable_put c04_bstable_wevent s o b br H).
Qed.

Example bridge_identity_stable_nonvacuous :
  bridge sample_state 6 = Some sample_bridge /\
  (exists br', bridge (fst (step sample_state (OpExec (checked sample_state sample_tx_bsudo)))) 6
               = Some br' /\ br_withdrawer br' = Some 7 /\ br_disabled br' = Some true /\
               br_rollup br' = 1 /\ br_asset br' = 0) /\
  (exists evs, snd (step sample_state (OpExec (checked sample_state sample_tx_bsudo)))
               = STx (OutOk evs)).
Proof. vm_compute. repeat split; eexists; repeat split; reflexivity. Qed.

(** ------------------------------------------------------------------ statement 3 *)

Lemma deposit_backed : stmt_deposit_backed.
Proof.
  intros s signer tx idx ca s' H.
  c04_exec_split H Hm; cbn [fst];
    try (exists []; split; [rewrite app_nil_r; reflexivity|reflexivity]).
  - (* ALock / CapLock *)
    eexists. split; [reflexivity|]. eexists. split; [reflexivity|].
    do 5 (split; [reflexivity|]). cbn.
    intros Hb. unfold mutable_checks, lock_mutable in Hm. c04_inv.
    assert (Hne : signer <> to).
    { intros ->. rewrite Hb in *. discriminate. }
    rewrite upd2_same. rewrite upd2_other; [reflexivity|congruence].
  - (* ABTransfer / CapBTransfer *)
    eexists. split; [reflexivity|]. eexists. split; [reflexivity|].
    do 4 (split; [reflexivity|]). cbn.
    split.
    + intros Hne. split.
      * rewrite upd2_same. rewrite upd2_other; [reflexivity|congruence].
      * rewrite upd2_other; [|congruence]. rewrite upd2_same.
        match goal with Hle : _ <= bal s b _ |- _ => revert Hle end. lia.
    + intros ->. rewrite !upd2_same. split; [|assumption].
      match goal with Hle : _ <= bal s to _ |- _ => revert Hle end. lia.
Qed.

Example deposit_backed_nonvacuous :
  exists s',
    execute_action sample_state 4 101 1 (ALock 6 250 0 false 4 0 7 10, CapLock 1) = Ok s' /\
    deposits s' = deposits sample_state ++
                  [{| d_bridge := 6; d_rollup := 1; d_asset := 0; d_amount := 250; d_dest := 7;
                      d_tx := 101; d_idx := 1 |}] /\
    is_bridge sample_state 6 = true /\
    bal s' 6 0 = bal sample_state 6 0 + 250.
Proof. eexists. vm_compute. repeat split; reflexivity. Qed.

(** ------------------------------------------------------------------ statement 4 *)

Lemma c04_execute_deposits_tx s signer tx idx ca s' :
  execute_action s signer tx idx ca = Ok s' ->
  exists new, deposits s' = deposits s ++ new /\ forall d, In d new -> d_tx d = tx.
Proof.
  intros H. destruct (deposit_backed s signer tx idx ca s' H) as [new [Hd Hm]].
  exists new. split; [assumption|].
  destruct ca as [a cap]. cbn [fst] in Hm.
  destruct a; try (subst new; intros d []).
  - destruct Hm as [d0 [-> [_ [_ [_ [Ht _]]]]]]. intros d [<-|[]]. assumption.
  - destruct Hm as [d0 [-> [_ [_ [Ht _]]]]]. intros d [<-|[]]. assumption.
Qed.

Lemma c04_exec_actions_deposits signer tx l : forall s idx s' evs,
  exec_actions s signer tx idx l = Ok (s', evs) ->
  exists new, deposits s' = deposits s ++ new /\ forall d, In d new -> d_tx d = tx.
Proof.
  induction l as [|ca l IH]; intros s idx s' evs H; cbn [exec_actions] in H.
  - inversion H; subst. exists []. split; [rewrite app_nil_r; reflexivity|intros d []].
  - apply bind_ok in H. destruct H as [[s1 e1] [H1 H2]].
    apply bind_ok in H2. destruct H2 as [[s2 e2] [H2 H3]]. inversion H3; subst.
    apply c04_pfe_inv in H1. destruct H1 as [s0 [Hp He]].
    apply c04_pay_fee_frame in Hp. destruct Hp as [_ [_ Hd0]].
    apply c04_execute_deposits_tx in He. destruct He as [n1 [Hd1 Ht1]].
    apply IH in H2. destruct H2 as [n2 [Hd2 Ht2]].
    exists (n1 ++ n2). split.
    + rewrite Hd2, Hd1, Hd0. rewrite app_assoc. reflexivity.
    + intros d Hin. apply in_app_or in Hin. destruct Hin; auto.
Qed.

Lemma no_deposit_without_effect : stmt_no_deposit_without_effect.
Proof.
  split; [|split; [|split]].
  - intros s c s' e H. unfold exec_tx in H.
    destruct (exec_tx_inner s c) as [[s1 evs]|]; inversion H; subst; reflexivity.
  - intros s c s' evs H. unfold exec_tx in H.
    destruct (exec_tx_inner s c) as [[s1 evs1]|] eqn:E; inversion H; subst.
    unfold exec_tx_inner in E. c04_inv.
    match goal with E : exec_actions _ _ _ _ _ = Ok _ |- _ =>
      apply c04_exec_actions_deposits in E; destruct E as [new [Hd Ht]] end.
    exists new. split; [|assumption].
    rewrite Hd. cbn [deposits set_nonce].
    rewrite (proj2 (c04_put_lasttx_frame s (ct_signer c) (ct_id c))). reflexivity.
  - intros s signer k fa var pos s' evs H. apply c04_pay_fee_frame in H. tauto.
  - intros s s' ds H. unfold end_block in H. apply bind_ok in H. destruct H as [s1 [H1 H2]].
    inversion H2; subst. split; reflexivity.
Qed.

Example no_deposit_without_effect_nonvacuous :
  (exists e, snd (exec_tx sample_state (checked sample_state sample_tx_fail)) = OutErr e) /\
  (exists evs, snd (exec_tx sample_state (checked sample_state sample_tx1)) = OutOk evs) /\
  map d_tx (deposits (fst (exec_tx sample_state (checked sample_state sample_tx1)))) = [101] /\
  ct_id (checked sample_state sample_tx1) = 101.
Proof. vm_compute. repeat split; eexists; reflexivity. Qed.

(** ------------------------------------------------------------------ statement 5 *)

Lemma c04_carries_inv b0 ev b e : (b0 =? b) && (ev =? e) = true -> b0 = b /\ ev = e.
Proof.
  intros H. apply andb_true_iff in H. destruct H as [H1 H2].
  apply N.eqb_eq in H1. apply N.eqb_eq in H2. auto.
Qed.

Lemma c04_put_wevent_same s b e blk : wevent (put_wevent s b e blk) b e = Some blk.
Proof. cbn. rewrite !N.eqb_refl. reflexivity. Qed.

Lemma event_id_checked_and_recorded : stmt_event_id_checked_and_recorded.
Proof.
  intros s signer tx idx ca s' b e H Hc.
  c04_exec_split H Hm; cbn [fst carries] in Hc; try discriminate Hc;
    apply c04_carries_inv in Hc; destruct Hc as [<- <-];
    unfold mutable_checks, unlock_mutable in Hm; c04_inv.
  all: (split; [first [assumption|reflexivity]|]); cbn [wevent set_escrow set_bal];
    rewrite ?c04_put_wevent_same; cbn; rewrite ?N.eqb_refl; discriminate.
Qed.

Example event_id_checked_and_recorded_nonvacuous :
  exists s',
    execute_action sample_state 3 102 0 (AUnlock 5 70 0 6 0 12 9 2, CapUnlock 0) = Ok s' /\
    carries (AUnlock 5 70 0 6 0 12 9 2) 6 9 = true /\
    wevent sample_state 6 9 = None /\ wevent s' 6 9 = Some 12.
Proof. eexists. vm_compute. repeat split; reflexivity. Qed.

(** ------------------------------------------------------------------ statement 6 *)

Definition c04_wmono (s s' : state) : Prop :=
  forall b e, wevent s b e <> None -> wevent s' b e <> None.

Lemma c04_wmono_refl s : c04_wmono s s.
Proof. intros b e H. exact H. Qed.

Lemma c04_wmono_trans s1 s2 s3 : c04_wmono s1 s2 -> c04_wmono s2 s3 -> c04_wmono s1 s3.
Proof. intros H12 H23 b e H. apply H23, H12, H. Qed.

Lemma c04_wmono_frame s s' : bridge s' = bridge s -> wevent s' = wevent s -> c04_wmono s s'.
Proof. intros _ Hw b e H. rewrite Hw. exact H. Qed.

Lemma c04_wmono_put_bridge s x br : c04_wmono s (put_bridge s x br).
Proof. intros b e H. exact H. Qed.

Lemma c04_wmono_lasttx s x t : c04_wmono s (put_lasttx s x t).
Proof.
  unfold put_lasttx. destruct (bridge s x); [apply c04_wmono_put_bridge|apply c04_wmono_refl].
Qed.

Lemma c04_wmono_wevent s b e blk : c04_wmono s (put_wevent s b e blk).
Proof.
  intros b0 e0 H. cbn. destruct ((b0 =? b) && (e0 =? e)); [discriminate|exact H].
Qed.

Lemma c04_wmono_step s o : c04_wmono s (fst (step s o)).
Proof.
  apply (c04_lift_step c04_wmono c04_wmono_refl c04_wmono_trans c04_wmono_frame
           c04_wmono_lasttx).
  - intros s0 x br _. apply c04_wmono_put_bridge.
  - intros s0 b br new _ _ _. apply c04_wmono_put_bridge.
  - apply c04_wmono_wevent.
Qed.

Lemma c04_wmono_execute s signer tx idx ca s' :
  execute_action s signer tx idx ca = Ok s' -> c04_wmono s s'.
Proof.
  apply (c04_lift_execute c04_wmono c04_wmono_trans c04_wmono_frame).
  - intros s0 x br _. apply c04_wmono_put_bridge.
  - intros s0 b br new _ _ _. apply c04_wmono_put_bridge.
  - apply c04_wmono_wevent.
Qed.

Definition c04_count (l : list checked_action) (b : addr) (e : evid) : nat :=
  length (filter (fun ca => carries (fst ca) b e) l).

Lemma c04_exec_actions_once signer tx b e l : forall s idx s' evs,
  exec_actions s signer tx idx l = Ok (s', evs) ->
  (c04_count l b e <= 1)%nat /\
  (wevent s b e <> None -> c04_count l b e = 0%nat) /\
  (c04_count l b e = 1%nat -> wevent s' b e <> None) /\
  (wevent s b e <> None -> wevent s' b e <> None).
Proof.
  induction l as [|ca l IH]; intros s idx s' evs H; cbn [exec_actions] in H.
  - inversion H; subst. unfold c04_count. cbn. repeat split; auto; discriminate.
  - apply bind_ok in H. destruct H as [[s1 e1] [H1 H2]].
    apply bind_ok in H2. destruct H2 as [[s2 e2] [H2 H3]]. inversion H3; subst.
    apply c04_pfe_inv in H1. destruct H1 as [s0 [Hp He]].
    apply c04_pay_fee_frame in Hp. destruct Hp as [_ [Hw0 _]].
    pose proof (c04_wmono_execute _ _ _ _ _ _ He b e) as Hmono. rewrite Hw0 in Hmono.
    destruct (IH _ _ _ _ H2) as [I1 [I2 [I3 I4]]].
    unfold c04_count in *. cbn [filter].
    destruct (carries (fst ca) b e) eqn:Ec.
    + destruct (event_id_checked_and_recorded _ _ _ _ _ _ b e He Ec) as [Hn Hr].
      rewrite Hw0 in Hn. specialize (I2 Hr). cbn [length]. rewrite I2.
      repeat split.
      * apply le_n.
      * intros Hs. contradiction.
      * intros _. apply I4. exact Hr.
      * intros Hs. contradiction.
    + repeat split.
      * exact I1.
      * intros Hs. apply I2, Hmono, Hs.
      * exact I3.
      * intros Hs. apply I4, Hmono, Hs.
Qed.

Lemma c04_exec_tx_once s c s' evs b e :
  exec_tx s c = (s', OutOk evs) ->
  (carried_tx c b e <= 1)%nat /\
  (wevent s b e <> None -> carried_tx c b e = 0%nat) /\
  (carried_tx c b e = 1%nat -> wevent s' b e <> None).
Proof.
  intros H. unfold exec_tx in H.
  destruct (exec_tx_inner s c) as [[s1 evs1]|] eqn:E; inversion H; subst.
  unfold exec_tx_inner in E. c04_inv.
  match goal with E : exec_actions _ _ _ _ _ = Ok _ |- _ =>
    destruct (c04_exec_actions_once _ _ b e _ _ _ _ _ E) as [I1 [I2 [I3 _]]] end.
  cbn [wevent set_nonce] in I2.
  rewrite (proj1 (c04_put_lasttx_frame s (ct_signer c) (ct_id c))) in I2.
  unfold carried_tx. unfold c04_count in *. auto.
Qed.

Lemma c04_exec_tx_err s c s' err : exec_tx s c = (s', OutErr err) -> s' = s.
Proof.
  unfold exec_tx. destruct (exec_tx_inner s c) as [[s1 evs1]|]; intros H; inversion H; reflexivity.
Qed.

Lemma event_id_once : stmt_event_id_once.
Proof.
  intros s ops. revert s.
  induction ops as [|o r IH]; intros s s' outs b e H; cbn [run] in H.
  - inversion H; subst. cbn. repeat split; auto.
  - destruct (step s o) as [s1 x] eqn:Es.
    destruct (run s1 r) as [s2 xs] eqn:Er. inversion H; subst.
    destruct (IH _ _ _ b e Er) as [I1 [I2 I3]].
    assert (Hmono : wevent s b e <> None -> wevent s1 b e <> None).
    { pose proof (c04_wmono_step s o b e) as Hm. rewrite Es in Hm. exact Hm. }
    assert (Hother :
      carried_run (o :: r) (x :: xs) b e = carried_run r xs b e ->
      (carried_run (o :: r) (x :: xs) b e <= 1)%nat /\
      (wevent s b e <> None -> carried_run (o :: r) (x :: xs) b e = 0%nat) /\
      (wevent s b e <> None -> wevent s' b e <> None)).
    { intros ->. repeat split; auto. }
    destruct o; cbn [step] in Es;
      try (inversion Es; subst; apply Hother; reflexivity);
      try (destruct (end_block s) as [[s1' ds]|]; inversion Es; subst; apply Hother; reflexivity).
    (* OpExec *)
    + destruct (exec_tx s c) as [s1' out] eqn:Ex. inversion Es; subst.
      destruct out as [evs|err].
      * destruct (c04_exec_tx_once _ _ _ _ b e Ex) as [T1 [T2 T3]].
        cbn [carried_run].
        assert (Hc : carried_tx c b e = 0%nat \/ carried_tx c b e = 1%nat) by lia.
        destruct Hc as [Hc|Hc]; rewrite Hc.
        -- cbn [plus Nat.add]. repeat split; auto.
        -- specialize (I2 (T3 Hc)). rewrite I2. repeat split; auto.
           intros Hs. specialize (T2 Hs). congruence.
      * apply Hother. reflexivity.
Qed.

Example event_id_once_nonvacuous :
  carried_run sample_ops (snd (run sample_state sample_ops)) 6 9 = 1%nat /\
  wevent sample_state 6 9 = None /\
  wevent (fst (run sample_state sample_ops)) 6 9 = Some 12 /\
  (let ops2 := sample_ops ++ [OpExec (checked sample_state sample_tx2)] in
   carried_run ops2 (snd (run sample_state ops2)) 6 9 = 1%nat).
Proof. vm_compute. repeat split; reflexivity. Qed.
